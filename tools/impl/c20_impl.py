"""Implementation-side runner for C20 (gradients are the true derivatives); runs against /repo's working tree.

fn = "ad_cases": forward values and torch.autograd Jacobians (float64) of the families of tools/adfam.py at given inputs.
fn = "fd":       the property itself -- autograd against central finite differences on the public differentiable
                 operations (transforms w.r.t. parameters and points, inverses, sampling / warping w.r.t. image and
                 coordinates, expv / compose, B-spline evaluation, spatial derivatives, all similarity and
                 regularisation losses), float64, generic inputs, finite gradients.
"""
import json
import math
import random
import sys
import traceback
import types

import torch

from vlib import emit_json

import adfam

import deepali.core.affine as _affine
import deepali.core.linalg as _linalg
import deepali.core._kornia as _kornia
import deepali.losses.functional as LF
import deepali.core.flow as _flow
import deepali.core.functional as U
import deepali.spatial as S
from deepali.core.grid import Axes, Grid

torch.set_num_threads(2)
DT = torch.float64


def err(e):
    return {"error": type(e).__name__, "msg": str(e)[:200]}


# ------------------------------------------------------------------------------------------------
# AD families
# ------------------------------------------------------------------------------------------------
def real_modules():
    m = types.SimpleNamespace()
    m.torch, m.affine, m.linalg, m.kornia, m.losses, m.flow = torch, _affine, _linalg, _kornia, LF, _flow
    return m


def ad_cases(p):
    m = real_modules()
    out = []
    for c in p["cases"]:
        fam = adfam.BY_NAME[c["family"]]
        try:
            leaves, k = [], 0
            for shape in fam.shapes:
                n = 1
                for d in shape:
                    n *= d
                t = torch.tensor(c["x"][k:k + n], dtype=DT).reshape(shape).requires_grad_(True)
                leaves.append(t)
                k += n
            y = fam.call(m, *leaves)
            flat = y.reshape(-1)
            jac = []
            for o in range(flat.numel()):
                g = torch.autograd.grad(flat[o], leaves, retain_graph=True, allow_unused=True)
                row = []
                for t, gi in zip(leaves, g):
                    row += ([0.0] * t.numel() if gi is None else gi.reshape(-1).tolist())
                jac.append(row)
            out.append({"dtype": str(y.dtype), "shape": list(y.shape), "requires_grad": bool(y.requires_grad),
                        "values": flat.detach().tolist(), "jac": jac})
        except Exception as e:  # noqa
            out.append(err(e))
    return out


# ------------------------------------------------------------------------------------------------
# finite-difference oracle
# ------------------------------------------------------------------------------------------------
class Op:
    def __init__(self, key, build, dims=(2, 3), eps=1e-6, tol=2e-5, max_coords=24):
        self.key, self.build, self.dims, self.eps, self.tol, self.max_coords = key, build, dims, eps, tol, max_coords


def rnd(gen, *shape, lo=-1.0, hi=1.0):
    return (torch.rand(*shape, dtype=DT, generator=gen) * (hi - lo) + lo)


def mk_grid(D, gen, size=None):
    size = size or ((6, 5) if D == 2 else (5, 4, 4))
    if D == 2:
        direction = [[0.8, -0.6], [0.6, 0.8]]
        return Grid(size=size, spacing=(1.0, 1.5), direction=direction, origin=(1.0, -2.0))
    direction = [[1 / 9, -8 / 9, 4 / 9], [4 / 9, 4 / 9, 7 / 9], [-8 / 9, 1 / 9, 4 / 9]]
    return Grid(size=size, spacing=(1.0, 1.5, 0.75), direction=direction, origin=(1.0, -2.0, 0.5))


def smooth_field(D, gen, shape, amp=0.15):
    """smooth low-amplitude vector field (N, D, ...) so that sampling stays inside the domain"""
    return rnd(gen, 1, D, *shape) * amp


def transform_op(cls, what):
    def build(D, gen):
        grid = mk_grid(D, gen)
        t = cls(grid).to(DT)
        params = list(t.parameters())
        with torch.no_grad():
            for q in params:
                q.add_(rnd(gen, *q.shape) * 0.1)
        pts = rnd(gen, 1, 6, D, lo=-0.6, hi=0.6).requires_grad_(True)
        w = rnd(gen, 1, 6, D)
        if what == "forward":
            f = lambda: (t(pts) * w).sum()
        elif what == "inverse":
            f = lambda: (t.inverse()(pts) * w).sum()
        elif what == "disp":
            # disp() is not forward(): the documented protocol is update() first (buffers are recomputed from parameters)
            f = lambda: (t.update().disp() * wd[0]).sum()
            wd = [None]
            with torch.no_grad():
                wd[0] = rnd(gen, *t.update().disp().shape)
        else:
            raise KeyError(what)
        leaves = params + ([pts] if what != "disp" else [])
        return f, leaves
    return build


def image_transformer_op(cls):
    def build(D, gen):
        grid = mk_grid(D, gen)
        t = cls(grid).to(DT)
        params = list(t.parameters())
        with torch.no_grad():
            for q in params:
                q.add_(rnd(gen, *q.shape) * 0.05)
        data = rnd(gen, 1, 1, *grid.shape).requires_grad_(True)
        w = rnd(gen, 1, 1, *grid.shape)
        warp = S.ImageTransformer(t).to(DT)   # buffers (grid coordinates, target-to-source matrix) in float64 as well
        f = lambda: (warp(data) * w).sum()
        return f, params + [data]
    return build


def build_sample(D, gen):
    shape = (5, 6) if D == 2 else (4, 5, 5)
    data = rnd(gen, 1, 2, *shape).requires_grad_(True)
    coords = rnd(gen, 1, 7, D, lo=-0.83, hi=0.83).requires_grad_(True)
    w = rnd(gen, 1, 2, 7)
    f = lambda: (U.sample_image(data, coords, mode="linear", padding="border", align_corners=True) * w).sum()
    return f, [data, coords]


def build_grid_sample(D, gen):
    shape = (5, 6) if D == 2 else (4, 5, 5)
    data = rnd(gen, 1, 2, *shape).requires_grad_(True)
    oshape = (3, 4) if D == 2 else (2, 3, 3)
    coords = rnd(gen, 1, *oshape, D, lo=-0.83, hi=0.83).requires_grad_(True)
    w = rnd(gen, 1, 2, *oshape)
    f = lambda: (U.grid_sample(data, coords, mode="linear", padding="zeros", align_corners=False) * w).sum()
    return f, [data, coords]


def build_warp_image(D, gen):
    grid = mk_grid(D, gen)
    data = rnd(gen, 1, 1, *grid.shape).requires_grad_(True)
    flow = smooth_field(D, gen, grid.shape).movedim(1, -1).contiguous().requires_grad_(True)
    coords = grid.coords(dtype=DT).unsqueeze(0)
    w = rnd(gen, 1, 1, *grid.shape)
    f = lambda: (U.warp_image(data, coords, flow=flow, mode="linear", padding="border") * w).sum()
    return f, [data, flow]


def build_expv(D, gen):
    shape = (6, 5) if D == 2 else (4, 4, 5)
    v = smooth_field(D, gen, shape, amp=0.2).requires_grad_(True)
    w = rnd(gen, 1, D, *shape)
    f = lambda: (U.expv(v, steps=3) * w).sum()
    return f, [v]


def build_compose_flows(D, gen):
    shape = (6, 5) if D == 2 else (4, 4, 5)
    u = smooth_field(D, gen, shape).requires_grad_(True)
    v = smooth_field(D, gen, shape).requires_grad_(True)
    w = rnd(gen, 1, D, *shape)
    f = lambda: (U.compose_flows(u, v) * w).sum()
    return f, [u, v]


def build_compose_svfs(D, gen):
    shape = (7, 7) if D == 2 else (5, 5, 5)
    u = smooth_field(D, gen, shape).requires_grad_(True)
    v = smooth_field(D, gen, shape).requires_grad_(True)
    w = rnd(gen, 1, D, *shape)
    f = lambda: (U.compose_svfs(u, v, bch_terms=2) * w).sum()
    return f, [u, v]


def build_bspline(D, gen):
    shape = (5, 6) if D == 2 else (4, 5, 4)
    c = rnd(gen, 1, D, *shape).requires_grad_(True)
    f0 = lambda: U.evaluate_cubic_bspline(c, stride=2)
    with torch.no_grad():
        w = rnd(gen, *f0().shape)
    f = lambda: (f0() * w).sum()
    return f, [c]


def build_bspline_deriv(D, gen):
    shape = (5, 6) if D == 2 else (4, 5, 4)
    c = rnd(gen, 1, D, *shape).requires_grad_(True)
    f0 = lambda: U.evaluate_cubic_bspline(c, stride=3, derivative=1)
    with torch.no_grad():
        w = rnd(gen, *f0().shape)
    f = lambda: (f0() * w).sum()
    return f, [c]


def build_subdivide(D, gen):
    shape = (5, 6) if D == 2 else (4, 5, 4)
    c = rnd(gen, 1, D, *shape).requires_grad_(True)
    f0 = lambda: U.subdivide_cubic_bspline(c)
    with torch.no_grad():
        w = rnd(gen, *f0().shape)
    f = lambda: (f0() * w).sum()
    return f, [c]


def deriv_op(mode, which):
    def build(D, gen):
        shape = (6, 7) if D == 2 else (5, 6, 5)
        x = rnd(gen, 1, 2, *shape).requires_grad_(True)

        def f0():
            d = U.spatial_derivatives(x, mode=mode, which=which, spacing=0.5)
            return torch.cat([v.reshape(-1) for _, v in sorted(d.items())])
        with torch.no_grad():
            w = rnd(gen, *f0().shape)
        f = lambda: (f0() * w).sum()
        return f, [x]
    return build


def flow_fn_op(fn):
    def build(D, gen):
        shape = (6, 7) if D == 2 else (5, 6, 5)
        u = smooth_field(D, gen, shape, amp=0.5).requires_grad_(True)
        f0 = lambda: fn(u)
        with torch.no_grad():
            w = rnd(gen, *f0().shape)
        f = lambda: (f0() * w).sum()
        return f, [u]
    return build


def sim_loss_op(fn, positive=False, channels=2, **kw):
    def build(D, gen):
        shape = (6, 7) if D == 2 else (5, 6, 5)
        lo = 0.05 if positive else -1.0
        x = rnd(gen, 1, channels, *shape, lo=lo, hi=1.0).requires_grad_(True)
        y = rnd(gen, 1, channels, *shape, lo=lo, hi=1.0).requires_grad_(True)
        f = lambda: fn(x, y, **kw)
        return f, [x, y]
    return build


def reg_loss_op(fn, **kw):
    def build(D, gen):
        shape = (6, 7) if D == 2 else (5, 6, 5)
        u = smooth_field(D, gen, shape, amp=0.5).requires_grad_(True)
        f = lambda: fn(u, **kw)
        return f, [u]
    return build


def build_inverse_consistency(D, gen):
    shape = (6, 7) if D == 2 else (5, 6, 5)
    u = smooth_field(D, gen, shape).requires_grad_(True)
    v = smooth_field(D, gen, shape).requires_grad_(True)
    f = lambda: LF.inverse_consistency_loss(u, v)
    return f, [u, v]


def build_kld(D, gen):
    mean = rnd(gen, 3, 5).requires_grad_(True)
    logvar = rnd(gen, 3, 5).requires_grad_(True)
    return (lambda: LF.kld_loss(mean, logvar)), [mean, logvar]


def logits_loss_op(fn, **kw):
    def build(D, gen):
        shape = (6, 7) if D == 2 else (5, 6, 5)
        x = rnd(gen, 1, 1, *shape, lo=-2.0, hi=2.0).requires_grad_(True)
        y = (torch.rand(1, 1, *shape, dtype=DT, generator=gen) > 0.5).to(DT)
        f = lambda: fn(x, y, **kw)
        return f, [x]
    return build


def build_affine_fn(which):
    def build(D, gen):
        if which == "euler":
            a = rnd(gen, 2, 3 if D == 3 else 1).requires_grad_(True)
            f0 = lambda: U.euler_rotation_matrix(a, order="ZXZ") if D == 3 else U.euler_rotation_matrix(a)
        elif which == "quaternion":
            a = rnd(gen, 2, 4, lo=0.3, hi=1.0).requires_grad_(True)
            f0 = lambda: U.quaternion_to_rotation_matrix(a)
        elif which == "angle_axis":
            a = rnd(gen, 2, 3, lo=0.2, hi=1.0).requires_grad_(True)
            f0 = lambda: U.angle_axis_to_rotation_matrix(a)
        else:
            a = rnd(gen, 2, D, D + 1).requires_grad_(True)
            b = rnd(gen, 2, D, D + 1)
            f0 = lambda: U.homogeneous_matmul(a, b)
        with torch.no_grad():
            w = rnd(gen, *f0().shape)
        f = lambda: (f0() * w).sum()
        return f, [a]
    return build


def build_grid_points(D, gen):
    grid = mk_grid(D, gen)
    x = rnd(gen, 5, D, lo=-0.9, hi=0.9).requires_grad_(True)
    w = rnd(gen, 5, D)
    f = lambda: (grid.transform_points(x, axes=Axes.CUBE_CORNERS, to_axes=Axes.WORLD, decimals=None) * w).sum()
    return f, [x]


def build_grid_points_default(D, gen):
    """default decimals: rounding on a coordinate path must not cut the gradient of generic points"""
    grid = mk_grid(D, gen)
    x = rnd(gen, 5, D, lo=-0.9, hi=0.9).requires_grad_(True)
    w = rnd(gen, 5, D)
    f = lambda: (grid.transform_points(x, axes=Axes.CUBE_CORNERS, to_axes=Axes.WORLD) * w).sum()
    return f, [x]


LINEAR = ["Translation", "EulerRotation", "QuaternionRotation", "IsotropicScaling", "AnisotropicScaling", "Shearing",
          "RigidTransform", "RigidQuaternionTransform", "SimilarityTransform", "AffineTransform", "FullAffineTransform",
          "HomogeneousTransform"]
NONRIGID = ["DisplacementFieldTransform", "StationaryVelocityFieldTransform", "FreeFormDeformation",
            "StationaryVelocityFreeFormDeformation"]


def inverse_op(cls, update_buffers, via):
    """inverse(link=False, update_buffers=...) with the loss taken through inv(points), inv.tensor() or inv.disp().
    Protocol of the docstrings: t.update() before inverse(update_buffers=True); inv.update() before using an inverse
    created with update_buffers=False other than by calling it."""
    def build(D, gen):
        grid = mk_grid(D, gen)
        t = cls(grid).to(DT)
        params = list(t.parameters())
        with torch.no_grad():
            for q in params:
                q.add_(rnd(gen, *q.shape) * 0.1)
        pts = rnd(gen, 1, 6, D, lo=-0.6, hi=0.6)
        w = {}

        def value():
            t.update()
            inv = t.inverse(link=False, update_buffers=update_buffers)
            if via == "call":
                y = inv(pts)
            else:
                if not update_buffers:
                    inv.update()
                y = inv.tensor() if via == "tensor" else inv.disp()
            return y

        with torch.no_grad():
            w["w"] = rnd(gen, *value().shape)
        f = lambda: (value() * w["w"]).sum()
        return f, params
    return build


def loss_class_ops():
    """every loss class exported by deepali.losses, w.r.t. every tensor argument that can require grad"""
    import deepali.losses as LS
    ops = []

    def pair(mk, positive=False, channels=2, dims=(2, 3)):
        def build(D, gen):
            shape = (6, 7) if D == 2 else (5, 6, 5)
            lo = 0.05 if positive else -1.0
            x = rnd(gen, 1, channels, *shape, lo=lo, hi=1.0).requires_grad_(True)
            y = rnd(gen, 1, channels, *shape, lo=lo, hi=1.0).requires_grad_(True)
            loss = mk(D, gen)
            return (lambda: loss(x, y)), [x, y]
        return build, dims

    pairwise = [("Dice", lambda D, g: LS.Dice(), dict(positive=True)), ("NCC", lambda D, g: LS.NCC(), {}),
                ("LCC", lambda D, g: LS.LCC(kernel_size=3), {}), ("WLCC", lambda D, g: LS.WLCC(kernel_size=3), {}),
                ("MI", lambda D, g: LS.MI(vmin=-1.25, vmax=1.25, num_bins=8), dict(channels=1)),
                ("NMI", lambda D, g: LS.NMI(vmin=-1.25, vmax=1.25, num_bins=8), dict(channels=1)),
                ("L1ImageLoss", lambda D, g: LS.L1ImageLoss(), {}), ("HuberImageLoss", lambda D, g: LS.HuberImageLoss(), {}),
                ("SmoothL1ImageLoss", lambda D, g: LS.SmoothL1ImageLoss(), {}), ("L2ImageLoss", lambda D, g: LS.L2ImageLoss(), {}),
                ("SSD", lambda D, g: LS.SSD(), {}),
                ("PatchwiseImageLoss", lambda D, g: LS.PatchwiseImageLoss(rnd(g, 1, 2, 3, 3, 3, lo=-0.8, hi=0.8)), dict(dims=(3,)))]
    for name, mk, kw in pairwise:
        b, dims = pair(mk, **kw)
        ops.append(Op(f"losses.{name}", b, dims=dims))

    def disp(mk):
        def build(D, gen):
            shape = (6, 7) if D == 2 else (5, 6, 5)
            u = smooth_field(D, gen, shape, amp=0.5).requires_grad_(True)
            loss = mk()
            return (lambda: loss(u)), [u]
        return build
    for name, mk in (("Bending", lambda: LS.Bending()), ("Curvature", lambda: LS.Curvature()), ("Diffusion", lambda: LS.Diffusion()),
                     ("Divergence", lambda: LS.Divergence()), ("Elasticity", lambda: LS.Elasticity(first_parameter=1.0, second_parameter=0.5)), ("TotalVariation", lambda: LS.TotalVariation())):
        ops.append(Op(f"losses.{name}", disp(mk)))

    def bspline(D, gen):
        shape = (6, 7) if D == 2 else (5, 6, 5)
        c = smooth_field(D, gen, shape, amp=0.5).requires_grad_(True)
        loss = LS.BSplineBending()
        return (lambda: loss(c)), [c]
    ops.append(Op("losses.BSplineBending", bspline))

    def params(mk):
        def build(D, gen):
            q = rnd(gen, 2, 7, lo=0.1, hi=1.0).requires_grad_(True)
            loss = mk()
            return (lambda: loss(q)), [q]
        return build
    for name, mk in (("L1Norm", lambda: LS.L1Norm()), ("L2Norm", lambda: LS.L2Norm()), ("Sparsity", lambda: LS.Sparsity())):
        ops.append(Op(f"losses.{name}", params(mk), dims=(2,)))

    def points(mk, same_count):
        def build(D, gen):
            # well separated targets (lattice sites + jitter) and sources near distinct targets: the closest-point assignment
            # is stable under the finite-difference step (these losses cast to float32: step 4e-3)
            sites = torch.stack(torch.meshgrid(*[torch.arange(3, dtype=DT)] * D, indexing="ij"), -1).reshape(-1, D)
            picks = [torch.randperm(sites.shape[0], generator=gen)[:7] for _ in range(2)]   # per batch item, shared by all targets

            def cloud(n):
                return torch.stack([sites[picks[b][:n]] + rnd(gen, n, D) * 0.05 for b in range(2)])
            # every target set holds (a jittered copy of) the site each source point sits next to: the closest point is unambiguous
            ys = [cloud(5 if same_count else 7).requires_grad_(True) for _ in range(2)]
            off = rnd(gen, 2, 5, D, lo=0.2, hi=0.28) * torch.where(rnd(gen, 2, 5, D) < 0, -1.0, 1.0)
            x = (ys[0].detach()[:, :5] + off).requires_grad_(True)
            loss = mk()
            return (lambda: loss(x, *ys)), [x] + ys
        return build
    ops.append(Op("losses.ClosestPointDistance", points(lambda: LS.ClosestPointDistance(), False)))
    ops.append(Op("losses.LandmarkPointDistance", points(lambda: LS.LandmarkPointDistance(), True)))
    return ops


# SpatialTransform.disp(grid) / flow(grid) on a grid other than the transform's own (other sampling, other domain), w.r.t. the
# parameters: non-rigid transforms resample their displacement field, composite / linear transforms re-express coordinates
# (both were defects of the original tree: DataTensor wrapping detached the field, CompositeTransform.disp rounded coordinates).


def disp_other_grid_ops():
    ops = []

    def other_grid(D, which):
        if which == "resampled":     # same domain, other sampling
            return Grid(size=(8, 7), spacing=(0.75, 1.0), direction=[[0.8, -0.6], [0.6, 0.8]], origin=(1.0, -2.0)) if D == 2 else \
                Grid(size=(6, 5, 5), spacing=(0.8, 1.2, 0.6), direction=[[1 / 9, -8 / 9, 4 / 9], [4 / 9, 4 / 9, 7 / 9], [-8 / 9, 1 / 9, 4 / 9]], origin=(1.0, -2.0, 0.5))
        return Grid(size=(6, 5), spacing=(1.0, 1.5), direction=[[0.8, -0.6], [0.6, 0.8]], origin=(1.6, -1.3)) if D == 2 else \
            Grid(size=(5, 4, 4), spacing=(1.0, 1.5, 0.75), direction=[[1 / 9, -8 / 9, 4 / 9], [4 / 9, 4 / 9, 7 / 9], [-8 / 9, 1 / 9, 4 / 9]], origin=(1.4, -1.6, 0.9))

    def build_for(cls, which, via):
        def build(D, gen):
            grid = mk_grid(D, gen)
            t = cls(grid).to(DT)
            params = list(t.parameters())
            with torch.no_grad():
                for q in params:
                    q.add_(rnd(gen, *q.shape) * 0.05)
            h = other_grid(D, which)
            w = {}

            def value():
                t.update()
                return t.disp(h) if via == "disp" else t.flow(h).tensor()
            with torch.no_grad():
                w["w"] = rnd(gen, *value().shape)
            return (lambda: (value() * w["w"]).sum()), params
        return build
    for name in ("DisplacementFieldTransform", "StationaryVelocityFieldTransform", "FreeFormDeformation",
                 "StationaryVelocityFreeFormDeformation", "Translation", "AffineTransform", "RigidTransform"):
        for which in ("resampled", "other-domain"):
            for via in ("disp", "flow"):
                ops.append(Op(f"{name}.{via}({which} grid)", build_for(getattr(S, name), which, via), max_coords=10))
    return ops


def data_tensor_ops():
    """method pipelines of the data tensor classes (Image, ImageBatch, FlowField, FlowFields) w.r.t. the wrapped data: the wrapped
    tensor is a NON-LEAF of the graph (2 * x), so a wrapper that detaches loses the gradient to x"""
    from deepali.data import FlowField, FlowFields, Image, ImageBatch
    ops = []

    def other(D):
        return Grid(size=(8, 7), spacing=(0.75, 1.0), direction=[[0.8, -0.6], [0.6, 0.8]], origin=(1.0, -2.0)) if D == 2 else \
            Grid(size=(6, 5, 5), spacing=(0.8, 1.2, 0.6), direction=[[1 / 9, -8 / 9, 4 / 9], [4 / 9, 4 / 9, 7 / 9], [-8 / 9, 1 / 9, 4 / 9]], origin=(1.0, -2.0, 0.5))

    def image_op(method, single=False):
        def build(D, gen):
            grid = mk_grid(D, gen)
            x = rnd(gen, *(() if single else (2,)), 2, *grid.shape).requires_grad_(True)
            coords = rnd(gen, 1, 6, D, lo=-0.8, hi=0.8)
            kernel = rnd(gen, 3, lo=0.1, hi=1.0)

            def value():
                im = (Image if single else ImageBatch)(x * 2, grid)
                if method == "sample(grid)":
                    r = im.sample(other(D))
                elif method == "sample(coords)":
                    r = im.sample(coords if not single else coords[0])
                elif method == "resize":
                    r = im.resize(*[n + 2 for n in grid.size()])
                elif method == "resample":
                    r = im.resample(*[float(v) * 0.8 for v in grid.spacing()])
                elif method == "avg_pool":
                    r = im.avg_pool(2)
                elif method == "downsample":
                    r = im.downsample(1)
                elif method == "upsample":
                    r = im.upsample(1)
                elif method == "crop+pad":
                    r = im.crop(margin=1).pad(margin=2)
                elif method == "center_crop":
                    r = im.center_crop(*[n - 2 for n in grid.size()])
                elif method == "conv":
                    r = im.conv(kernel)
                elif method == "rescale":
                    r = im.rescale(0.0, 1.0)
                elif method == "normalize":
                    r = im.normalize()
                else:
                    raise KeyError(method)
                return r.tensor() if hasattr(r, "tensor") else r
            with torch.no_grad():
                w = rnd(gen, *value().shape)
            return (lambda: (value() * w).sum()), [x]
        return build
    for m in ("sample(grid)", "sample(coords)", "resize", "resample", "avg_pool", "downsample", "upsample", "crop+pad", "center_crop", "conv"):
        # (rescale / normalize are not exercised: they treat the data's own min / max as constants by design, so the entries that
        #  attain the extremes have a different finite difference; intensity normalisation is not among the property's operations)
        ops.append(Op(f"ImageBatch.{m}", image_op(m), max_coords=12))
    for m in ("sample(grid)", "resize", "downsample", "conv"):
        ops.append(Op(f"Image.{m}", image_op(m, single=True), max_coords=12))

    def flow_op(method, single=False):
        def build(D, gen):
            grid = mk_grid(D, gen)
            u = (rnd(gen, *(() if single else (2,)), D, *grid.shape) * 0.15).requires_grad_(True)
            y = rnd(gen, *(() if single else (2,)), 1, *grid.shape).requires_grad_(True)
            axes = Axes.CUBE_CORNERS

            def value():
                fl = (FlowField if single else FlowFields)(u * 2, grid, axes)
                if method == "exp":
                    r = fl.exp(steps=3)
                elif method == "axes(world)":
                    r = fl.axes(Axes.WORLD)
                elif method == "axes(grid)":
                    r = fl.axes(Axes.GRID)
                elif method == "sample(grid)":
                    r = fl.sample(other(D))
                elif method == "curl":
                    r = fl.curl()
                elif method == "warp_image":
                    r = fl.warp_image((Image if single else ImageBatch)(y * 2, grid))
                else:
                    raise KeyError(method)
                return r.tensor()
            with torch.no_grad():
                w = rnd(gen, *value().shape)
            leaves = [u, y] if method == "warp_image" else [u]
            return (lambda: (value() * w).sum()), leaves
        return build
    # (FlowFields.curl / FlowField.curl raise RuntimeError for every input on this tree -- `self.ndim` is the tensor rank -- reported)
    for m in ("exp", "axes(world)", "axes(grid)", "sample(grid)", "warp_image"):
        ops.append(Op(f"FlowFields.{m}", flow_op(m), max_coords=12))
    for m in ("exp", "warp_image", "axes(world)"):
        ops.append(Op(f"FlowField.{m}", flow_op(m, single=True), max_coords=12))
    return ops


def round3_ops():
    """composite transforms w.r.t. the parameters of EVERY member (all-linear, all-non-rigid, mixed; forward / tensor / disp),
    losses whose option arguments are tensors computed from the differentiated inputs (norm) or differentiable themselves (masks),
    PointSetTransformer w.r.t. the input points and the parameters for several (grid, axes, to_grid, to_axes) combinations"""
    ops = []

    def members(kind, grid):
        if kind == "linear":
            return [S.AnisotropicScaling(grid), S.EulerRotation(grid), S.Translation(grid)]
        if kind == "linear2":
            return [S.AffineTransform(grid), S.Shearing(grid)]
        if kind == "nonrigid":
            return [S.FreeFormDeformation(grid, stride=2), S.StationaryVelocityFieldTransform(grid)]
        return [S.AffineTransform(grid), S.FreeFormDeformation(grid, stride=2)]       # mixed

    def composite(cls_name, kind, via):
        def build(D, gen):
            grid = mk_grid(D, gen)
            ms = members(kind, grid)
            t = getattr(S, cls_name)(*ms).to(DT)
            params = list(t.parameters())
            with torch.no_grad():
                for q in params:
                    q.add_(rnd(gen, *q.shape) * 0.05)
            pts = rnd(gen, 1, 6, D, lo=-0.6, hi=0.6).requires_grad_(True)
            w = {}

            def value():
                if via == "forward":
                    return t(pts)
                t.update()
                if via == "tensor":
                    return t.tensor()
                if via == "disp":
                    return t.disp()
                return t.inverse()(pts)
            with torch.no_grad():
                w["w"] = rnd(gen, *value().shape)
            return (lambda: (value() * w["w"]).sum()), params + ([pts] if via in ("forward", "inverse") else [])
        return build
    for cls_name in ("MultiLevelTransform", "SequentialTransform"):
        for kind in ("linear", "linear2", "nonrigid", "mixed"):
            for via in ("forward", "tensor", "disp"):
                ops.append(Op(f"{cls_name}[{kind}].{via}", composite(cls_name, kind, via), max_coords=8))
    for kind in ("linear", "linear2"):
        ops.append(Op(f"SequentialTransform[{kind}].inverse", composite("SequentialTransform", kind, "inverse"), max_coords=8))

    # ---- losses: tensor-valued norm computed from the inputs, differentiable masks
    def normed(fn, **kw):
        def build(D, gen):
            shape = (6, 7) if D == 2 else (5, 6, 5)
            x = rnd(gen, 1, 2, *shape).requires_grad_(True)
            y = rnd(gen, 1, 2, *shape).requires_grad_(True)
            f = lambda: fn(x, y, norm=x.square().mean() + y.square().mean() + 1, **kw)
            return f, [x, y]
        return build
    for nm, fn in (("ssd_loss", LF.ssd_loss), ("mse_loss", LF.mse_loss), ("l1_loss", LF.l1_loss), ("mae_loss", LF.mae_loss),
                   ("huber_loss", LF.huber_loss), ("smooth_l1_loss", LF.smooth_l1_loss)):
        ops.append(Op(f"{nm}(norm=tensor of inputs)", normed(fn)))

    def soft_masked(fn, key, **kw):
        def build(D, gen):
            shape = (6, 7) if D == 2 else (5, 6, 5)
            x = rnd(gen, 1, 2, *shape).requires_grad_(True)
            y = rnd(gen, 1, 2, *shape).requires_grad_(True)
            z = rnd(gen, 1, 1, *shape).requires_grad_(True)
            f = lambda: fn(x, y, **{key: torch.sigmoid(z)}, **kw)
            return f, [x, y, z]
        return build
    for nm, fn, key, kw in (("mse_loss", LF.mse_loss, "mask", {}), ("ssd_loss", LF.ssd_loss, "mask", {}), ("lcc_loss", LF.lcc_loss, "mask", {"kernel_size": 3}),
                            ("wlcc_loss", LF.wlcc_loss, "source_mask", {"kernel_size": 3}), ("wlcc_loss", LF.wlcc_loss, "mask", {"kernel_size": 3})):
        ops.append(Op(f"{nm}({key}=differentiable)", soft_masked(fn, key, **kw)))

    # ---- PointSetTransformer w.r.t. the input points and the parameters
    def pointset(cls_name, combo):
        def build(D, gen):
            grid = mk_grid(D, gen)
            t = getattr(S, cls_name)(grid).to(DT)
            params = list(t.parameters())
            with torch.no_grad():
                for q in params:
                    q.add_(rnd(gen, *q.shape) * 0.05)
            other = Grid(size=(8, 7), spacing=(0.75, 1.0), direction=[[0.8, -0.6], [0.6, 0.8]], origin=(1.0, -2.0)) if D == 2 else \
                Grid(size=(6, 5, 5), spacing=(0.8, 1.2, 0.6), direction=[[1 / 9, -8 / 9, 4 / 9], [4 / 9, 4 / 9, 7 / 9], [-8 / 9, 1 / 9, 4 / 9]], origin=(1.0, -2.0, 0.5))
            kw = {"default": {}, "world": {"axes": Axes.WORLD}, "other-grid": {"grid": other, "axes": Axes.CUBE},
                  "grid-to-world": {"axes": Axes.GRID, "to_axes": Axes.WORLD}, "to-other-grid": {"to_grid": other, "to_axes": Axes.CUBE_CORNERS}}[combo]
            tr = S.PointSetTransformer(t, **kw)
            if combo == "world":
                pts = (rnd(gen, 1, 6, D, lo=-0.5, hi=0.5) * 3 + grid.center().to(DT)).requires_grad_(True)
            elif combo == "grid-to-world":
                pts = (rnd(gen, 1, 6, D, lo=0.2, hi=0.8) * (grid.size_tensor().to(DT) - 1)).requires_grad_(True)
            else:
                pts = rnd(gen, 1, 6, D, lo=-0.6, hi=0.6).requires_grad_(True)
            w = rnd(gen, 1, 6, D)
            return (lambda: (tr(pts) * w).sum()), params + [pts]
        return build
    for cls_name in ("AffineTransform", "FreeFormDeformation"):
        for combo in ("default", "world", "other-grid", "grid-to-world", "to-other-grid"):
            ops.append(Op(f"PointSetTransformer({cls_name},{combo})", pointset(cls_name, combo), max_coords=10))
    return ops


def option_variant_ops():
    """the same operations under their other option values: padding modes and numeric padding values of the samplers, masks and
    reductions of the losses, Euler orders outside the closed forms, sampling modes of warping / expv"""
    import deepali.losses as LS
    ops = []

    # ---- samplers: every padding mode incl. a non-zero scalar value, align_corners both ways
    def sampler(fn_name, padding, align):
        def build(D, gen):
            shape = (5, 6) if D == 2 else (4, 5, 5)
            data = rnd(gen, 1, 2, *shape).requires_grad_(True)
            if fn_name == "sample_image":
                coords = rnd(gen, 1, 7, D, lo=-1.15, hi=1.15).requires_grad_(True)    # some points outside: the padding branch is live
                w = rnd(gen, 1, 2, 7)
                f = lambda: (U.sample_image(data, coords, mode="linear", padding=padding, align_corners=align) * w).sum()
            else:
                oshape = (3, 4) if D == 2 else (2, 3, 3)
                coords = rnd(gen, 1, *oshape, D, lo=-1.15, hi=1.15).requires_grad_(True)
                w = rnd(gen, 1, 2, *oshape)
                f = lambda: (U.grid_sample(data, coords, mode="linear", padding=padding, align_corners=align) * w).sum()
            return f, [data, coords]
        return build
    for fn_name in ("sample_image", "grid_sample"):
        for padding in ("zeros", "border", "reflection", 0.375, -1.5):
            for align in (True, False):
                ops.append(Op(f"{fn_name}(padding={padding},align_corners={align})", sampler(fn_name, padding, align), max_coords=16))

    def warp(padding, mode):
        def build(D, gen):
            grid = mk_grid(D, gen)
            data = rnd(gen, 1, 1, *grid.shape).requires_grad_(True)
            flow = smooth_field(D, gen, grid.shape, amp=0.4).movedim(1, -1).contiguous().requires_grad_(True)
            coords = grid.coords(dtype=DT).unsqueeze(0)
            w = rnd(gen, 1, 1, *grid.shape)
            f = lambda: (U.warp_image(data, coords, flow=flow, mode=mode, padding=padding) * w).sum()
            return f, [data, flow]
        return build
    for padding in ("zeros", 0.375):
        ops.append(Op(f"warp_image(padding={padding})", warp(padding, "linear"), max_coords=16))

    def transformer(padding):
        def build(D, gen):
            grid = mk_grid(D, gen)
            t = S.AffineTransform(grid).to(DT)
            params = list(t.parameters())
            with torch.no_grad():
                for q in params:
                    q.add_(rnd(gen, *q.shape) * 0.05)
            data = rnd(gen, 1, 1, *grid.shape).requires_grad_(True)
            w = rnd(gen, 1, 1, *grid.shape)
            warp_ = S.ImageTransformer(t, padding=padding).to(DT)
            return (lambda: (warp_(data) * w).sum()), params + [data]
        return build
    for padding in ("zeros", 0.375):
        ops.append(Op(f"ImageTransformer(AffineTransform,padding={padding})", transformer(padding), max_coords=12))

    # ---- Euler rotations: orders outside the five closed forms (generic product of elementary rotations), every axis
    def euler(order):
        def build(D, gen):
            a = rnd(gen, 2, 3).requires_grad_(True)
            f0 = lambda: U.euler_rotation_matrix(a, order=order)
            with torch.no_grad():
                w = rnd(gen, *f0().shape)
            return (lambda: (f0() * w).sum()), [a]
        return build
    for order in ("XYX", "YXY", "YZY", "ZYX", "XZY", "YXZ", "YZX", "ZXY", "XYZ", "ZYZ", "XZX"):
        ops.append(Op(f"euler_rotation_matrix({order})", euler(order), dims=(3,)))

    def euler_transform(order):
        def build(D, gen):
            grid = mk_grid(3, gen)
            t = S.EulerRotation(grid, order=order).to(DT)
            params = list(t.parameters())
            with torch.no_grad():
                for q in params:
                    q.add_(rnd(gen, *q.shape) * 0.1)
            pts = rnd(gen, 1, 6, 3, lo=-0.6, hi=0.6)
            w = rnd(gen, 1, 6, 3)
            return (lambda: (t(pts) * w).sum()), params
        return build
    for order in ("XYX", "ZYX", "YZY"):
        ops.append(Op(f"EulerRotation(order={order}).forward", euler_transform(order), dims=(3,)))

    # ---- losses with masks / other reductions
    def masked(fn, kwmask, positive=False, channels=2, **kw):
        def build(D, gen):
            shape = (6, 7) if D == 2 else (5, 6, 5)
            lo = 0.05 if positive else -1.0
            x = rnd(gen, 1, channels, *shape, lo=lo, hi=1.0).requires_grad_(True)
            y = rnd(gen, 1, channels, *shape, lo=lo, hi=1.0).requires_grad_(True)
            masks = {k: rnd(gen, 1, 1 if one else channels, *shape, lo=0.2, hi=1.0) for k, one in kwmask.items()}
            return (lambda: fn(x, y, **masks, **kw)), [x, y]
        return build
    soft = [("mse_loss", LF.mse_loss, {}), ("ssd_loss", LF.ssd_loss, {}), ("l1_loss", LF.l1_loss, {}), ("huber_loss", LF.huber_loss, {}),
            ("smooth_l1_loss", LF.smooth_l1_loss, {}), ("lcc_loss", LF.lcc_loss, {"kernel_size": 3})]
    for nm, fn, kw in soft:
        ops.append(Op(f"{nm}(mask)", masked(fn, {"mask": True}, **kw)))
        ops.append(Op(f"{nm}(reduction=sum)", sim_loss_op(fn, reduction="sum", **kw)))
    ops.append(Op("mi_loss(mask)", masked(LF.mi_loss, {"mask": True}, channels=1, num_bins=8, vmin=-1.25, vmax=1.25)))
    for combo in ({"mask": False}, {"source_mask": False, "target_mask": False}, {"source_mask": False}, {"target_mask": False},
                  {"mask": False, "source_mask": False, "target_mask": False}):
        ops.append(Op("wlcc_loss(" + "+".join(sorted(combo)) + ")", masked(LF.wlcc_loss, combo, kernel_size=3)))
    ops.append(Op("losses.WLCC(source_mask+target_mask)",
                  (lambda D, gen: _wlcc_class(D, gen, LS))))
    for nm, mk in (("losses.SSD", lambda: LS.SSD()), ("losses.LCC", lambda: LS.LCC(kernel_size=3)), ("losses.L2ImageLoss", lambda: LS.L2ImageLoss())):
        def build(D, gen, mk=mk):
            shape = (6, 7) if D == 2 else (5, 6, 5)
            x = rnd(gen, 1, 2, *shape).requires_grad_(True)
            y = rnd(gen, 1, 2, *shape).requires_grad_(True)
            m = rnd(gen, 1, 1, *shape, lo=0.2, hi=1.0)
            loss = mk()
            return (lambda: loss(x, y, mask=m)), [x, y]
        ops.append(Op(f"{nm}(mask)", build))
    return ops


def _wlcc_class(D, gen, LS):
    shape = (6, 7) if D == 2 else (5, 6, 5)
    x = rnd(gen, 1, 2, *shape).requires_grad_(True)
    y = rnd(gen, 1, 2, *shape).requires_grad_(True)
    ms = rnd(gen, 1, 2, *shape, lo=0.2, hi=1.0)
    mt = rnd(gen, 1, 2, *shape, lo=0.2, hi=1.0)
    loss = LS.WLCC(kernel_size=3)
    return (lambda: loss(x, y, source_mask=ms, target_mask=mt)), [x, y]


def registry():
    ops = []
    for name in LINEAR + NONRIGID:
        cls = getattr(S, name)
        dims = (3,) if "Quaternion" in name else (2, 3)
        ops.append(Op(f"{name}.forward", transform_op(cls, "forward"), dims=dims))
        if name not in ("DisplacementFieldTransform", "FreeFormDeformation"):
            ops.append(Op(f"{name}.inverse", transform_op(cls, "inverse"), dims=dims))
    for name in NONRIGID + ["AffineTransform"]:
        ops.append(Op(f"{name}.disp", transform_op(getattr(S, name), "disp"), dims=(2,) if name != "AffineTransform" else (2, 3)))
    for name in ("AffineTransform", "DisplacementFieldTransform", "StationaryVelocityFreeFormDeformation"):
        ops.append(Op(f"ImageTransformer({name})", image_transformer_op(getattr(S, name)), dims=(2,) if name != "AffineTransform" else (2, 3)))
    ops += [
        Op("sample_image", build_sample), Op("grid_sample", build_grid_sample), Op("warp_image", build_warp_image),
        Op("expv", build_expv), Op("compose_flows", build_compose_flows), Op("compose_svfs", build_compose_svfs),
        Op("evaluate_cubic_bspline", build_bspline), Op("evaluate_cubic_bspline(derivative=1)", build_bspline_deriv),
        Op("subdivide_cubic_bspline", build_subdivide),
        Op("euler_rotation_matrix", build_affine_fn("euler")), Op("quaternion_to_rotation_matrix", build_affine_fn("quaternion"), dims=(3,)),
        Op("angle_axis_to_rotation_matrix", build_affine_fn("angle_axis"), dims=(3,)), Op("homogeneous_matmul", build_affine_fn("hmm")),
        Op("Grid.transform_points(decimals=None)", build_grid_points), Op("Grid.transform_points", build_grid_points_default),
    ]
    for mode in ("forward", "backward", "central", "forward_central_backward", "bspline", "gaussian"):
        ops.append(Op(f"spatial_derivatives({mode},x+xy)", deriv_op(mode, ["x", "y", "xy", "xx"])))
    for nm, fn in (("jacobian_det", U.jacobian_det), ("divergence", U.divergence), ("curl", U.curl), ("normalize_flow", U.normalize_flow),
                   ("denormalize_flow", U.denormalize_flow), ("jacobian_matrix", U.jacobian_matrix)):
        ops.append(Op(nm, flow_fn_op(fn)))
    ops.append(Op("lie_bracket", lambda D, gen: _lie(D, gen)))
    sims = [("mse_loss", LF.mse_loss, {}), ("ssd_loss", LF.ssd_loss, {}), ("l1_loss", LF.l1_loss, {}), ("mae_loss", LF.mae_loss, {}),
            ("huber_loss", LF.huber_loss, {}), ("smooth_l1_loss", LF.smooth_l1_loss, {}), ("ncc_loss", LF.ncc_loss, {}),
            ("lcc_loss", LF.lcc_loss, {"kernel_size": 3}), ("wlcc_loss", None, {}), ("mi_loss", LF.mi_loss, {"num_bins": 8, "vmin": -1.25, "vmax": 1.25, "channels": 1}),
            ("nmi_loss", LF.nmi_loss, {"num_bins": 8, "vmin": -1.25, "vmax": 1.25, "channels": 1})]
    for nm, fn, kw in sims:
        if fn is not None:
            ops.append(Op(nm, sim_loss_op(fn, **kw)))
    ops.append(Op("dice_loss", sim_loss_op(LF.dice_loss, positive=True)))
    ops.append(Op("dice_score", sim_loss_op(LF.dice_score, positive=True)))
    ops.append(Op("tversky_index", sim_loss_op(LF.tversky_index, positive=True)))
    ops.append(Op("balanced_binary_cross_entropy_with_logits", logits_loss_op(LF.balanced_binary_cross_entropy_with_logits)))
    ops.append(Op("focal_loss_with_logits", logits_loss_op(LF.focal_loss_with_logits)))
    ops.append(Op("kld_loss", build_kld, dims=(2,)))
    regs = [("grad_loss", LF.grad_loss, {}), ("bending_loss", LF.bending_loss, {}), ("bending_loss(fcb)", LF.bending_loss, {"mode": "forward_central_backward"}),
            ("curvature_loss", LF.curvature_loss, {}), ("diffusion_loss", LF.diffusion_loss, {}), ("divergence_loss", LF.divergence_loss, {}),
            ("elasticity_loss", LF.elasticity_loss, {"material_name": None, "first_parameter": 1.0, "second_parameter": 0.5}),
            ("total_variation_loss", LF.total_variation_loss, {}), ("bspline_bending_loss", LF.bspline_bending_loss, {})]
    for nm, fn, kw in regs:
        ops.append(Op(nm, reg_loss_op(fn, **{k: v for k, v in kw.items() if v is not None or k != "material_name"})))
    ops.append(Op("inverse_consistency_loss", build_inverse_consistency))
    ops.append(Op("wlcc_loss", sim_loss_op(LF.wlcc_loss, kernel_size=3)))
    for name in LINEAR + NONRIGID:
        if name in ("DisplacementFieldTransform", "FreeFormDeformation"):
            continue          # no inverse() implemented
        cls = getattr(S, name)
        dims = (3,) if "Quaternion" in name else (2, 3)
        for ub in (False, True):
            for via in ("call", "tensor", "disp"):
                if via == "call" and not ub:
                    continue  # = "<name>.inverse" above
                ops.append(Op(f"{name}.inverse(update_buffers={ub}).{via}", inverse_op(cls, ub, via), dims=dims, max_coords=10))
    ops += loss_class_ops()
    ops += option_variant_ops()
    ops += disp_other_grid_ops()
    ops += data_tensor_ops()
    ops += round3_ops()
    return ops


def _lie(D, gen):
    shape = (6, 7) if D == 2 else (5, 6, 5)
    u = smooth_field(D, gen, shape, amp=0.5).requires_grad_(True)
    v = smooth_field(D, gen, shape, amp=0.5).requires_grad_(True)
    f0 = lambda: U.lie_bracket(u, v)
    with torch.no_grad():
        w = rnd(gen, *f0().shape)
    return (lambda: (f0() * w).sum()), [u, v]


def fd_check(op, D, seed, max_coords):
    gen = torch.Generator().manual_seed(seed)
    f, leaves = op.build(D, gen)
    y = f()
    info = {"dtype": str(y.dtype), "requires_grad": bool(y.requires_grad), "leaves": len(leaves)}
    problems = []
    eps, tol = op.eps, op.tol
    if y.dtype != DT:
        # the operation casts to float32: matching step size and tolerance
        info["note"] = f"output is {y.dtype} for float64 inputs: step 4e-3, tolerance 2e-4 + 4e-3 |fd|"
        eps, tol = 4e-3, 4e-3
    # float32 outputs: the rounding noise of a finite difference grows with the magnitude of the value itself
    atol = tol if y.dtype == DT else 2e-4 * max(1.0, abs(float(y)))
    if not y.requires_grad:
        problems.append({"kind": "no-grad", "what": "output does not require grad although its inputs do"})
        return info, problems
    if not math.isfinite(float(y)):
        problems.append({"kind": "non-finite-value", "what": f"value {float(y)}"})
        return info, problems
    grads = torch.autograd.grad(y, leaves, allow_unused=True)
    y0 = float(y)
    rng = random.Random(seed)
    checked = 0
    worst = 0.0
    for li, (t, g) in enumerate(zip(leaves, grads)):
        n = t.numel()
        idx = list(range(n)) if n <= max_coords else rng.sample(range(n), max_coords)
        gflat = None if g is None else g.reshape(-1)
        if gflat is not None and not bool(torch.isfinite(gflat).all()):
            problems.append({"kind": "non-finite-gradient", "leaf": li, "what": "gradient contains inf/nan"})
            continue
        for k in idx:
            with torch.no_grad():
                flat = t.view(-1)
                old = float(flat[k])
                flat[k] = old + eps
                yp = float(f())
                flat[k] = old - eps
                ym = float(f())
                flat[k] = old
            fd = (yp - ym) / (2 * eps)
            ag = 0.0 if gflat is None else float(gflat[k])
            dev = abs(ag - fd)
            checked += 1
            worst = max(worst, dev / (1 + abs(fd)))
            if dev > atol + tol * abs(fd) and eps < 1e-3:
                # float32 arithmetic inside a float64 operation (e.g. float32 grid coordinates) makes a 1e-6 step meaningless,
                # and a coarse step may cross an interpolation kink: the mismatch stands only if NO step of the ladder agrees
                agreed = False
                for e2 in (1e-5, 1e-4, 2e-3):
                    with torch.no_grad():
                        flat[k] = old + e2
                        yp = float(f())
                        flat[k] = old - e2
                        ym = float(f())
                        flat[k] = old
                    fd2 = (yp - ym) / (2 * e2)
                    if abs(ag - fd2) <= 2e-3 * (1 + abs(fd2)):
                        agreed = True
                        break
                    # a kink (interpolation cell boundary, clamping) at the evaluation point itself: the two one-sided
                    # derivatives differ and autograd returns one of them -- excluded by the property ("non-kink inputs")
                    fwd, bwd = (yp - y0) / e2, (y0 - ym) / e2
                    if e2 >= 1e-4 and abs(fwd - bwd) > 4e-3 * (1 + abs(fd2)) and \
                            min(abs(ag - fwd), abs(ag - bwd)) <= 2e-3 * (1 + abs(ag)):
                        agreed = True
                        info["kink_at_input"] = info.get("kink_at_input", 0) + 1
                        break
                if agreed:
                    info["coarse_step_used"] = info.get("coarse_step_used", 0) + 1
                    continue
            if dev > atol + tol * abs(fd):
                problems.append({"kind": "gradient-mismatch", "leaf": li, "index": k, "autograd": ag, "finite_difference": fd,
                                 "what": f"leaf {li} (shape {tuple(t.shape)}) entry {k}: autograd {ag:.8g} vs central difference {fd:.8g}"})
                if len(problems) > 4:
                    break
    info.update({"checked": checked, "worst_rel_dev": worst})
    return info, problems


def fd(p):
    ops = registry()
    only = p.get("only")
    results = []
    for op in ops:
        if only and op.key not in only:
            continue
        force = p.get("force")
        for D in op.dims:
            if force and D != force["D"]:
                continue
            for r in range(1 if force else p.get("repeats", 1)):
                seed = force["seed"] if force else (p["seed"] * 1000003 + hash_str(op.key) * 31 + D * 7 + r) % (2 ** 31)
                try:
                    info, problems = fd_check(op, D, seed, p.get("max_coords", op.max_coords))
                    results.append({"op": op.key, "D": D, "seed": seed, "info": info, "problems": problems})
                except Exception as e:  # noqa
                    results.append({"op": op.key, "D": D, "seed": seed, "raised": err(e), "tb": traceback.format_exc()[-400:]})
    return results


def hash_str(s):
    h = 0
    for ch in s:
        h = (h * 131 + ord(ch)) % 1000003
    return h


if __name__ == "__main__":
    payload = json.load(sys.stdin)
    fn = payload["fn"]
    if fn == "ad_cases":
        emit_json(ad_cases(payload))
    elif fn == "fd":
        emit_json(fd(payload))
    else:
        emit_json({"error": "unknown fn"})
