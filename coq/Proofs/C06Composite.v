(* C06, clause 3: a sequential composite applies its members in the listed order (any number of members);
   a multi-level composite adds displacements (generic branch: any number of members; the linear branch adds
   homogeneous matrices instead, which is the sum of the member MAPS, not of their displacements). *)
From Coq Require Import ZArith List Field Ring Lia.
From DV Require Import Base.Field Base.FieldFacts Base.LinAlg Base.Tactics Model.Enums Model.Homog
  Model.Grid Model.Transform Gen.Hmm Gen.Transform Proofs.C08Hmm.
Import ListNotations.
Local Open Scope fld_scope.

Section Composite.
Variable K : fld.
Hypothesis Kf : is_field K.
Add Field KF_C06Comp : Kf.

Ltac len2 X H := destruct X as [|?x0 [|?x1 [|? ?]]]; try discriminate H; clear H.
Ltac len3 X H := destruct X as [|?x0 [|?x1 [|?x2 [|? ?]]]]; try discriminate H; clear H.

Variable D : nat.
Hypothesis HD : D = 2%nat \/ D = 3%nat.

(* the traced two-member SequentialTransform.tensor() is homogeneous_matmul(second, first) *)
Lemma seq2_is_hmm (fa fb : form) (a b : nat -> nat -> K) :
  gen_seq2 D fa fb (tab D (fcols D fa) a) (tab D (fcols D fb) b)
  = gen_hmm D fb fa (tab D (fcols D fb) b) (tab D (fcols D fa) a)
  /\ gen_seq_form fa fb = gen_hmm_form fb fa.
Proof. destruct HD as [-> | ->]; destruct fa, fb; split; reflexivity. Qed.

Lemma seq2_shape (fa fb : form) (a b : nat -> nat -> K) :
  mshape D (fcols D (gen_seq_form fa fb)) (gen_seq2 D fa fb (tab D (fcols D fa) a) (tab D (fcols D fb) b)).
Proof. destruct HD as [-> | ->]; destruct fa, fb; (split; [reflexivity | repeat constructor]). Qed.

Lemma vtab_all (X : list K) : length X = D -> X = vtab D (fun i => nth i X 0).
Proof. intro HX. destruct HD as [-> | ->]; [len2 X HX | len3 X HX]; reflexivity. Qed.

Lemma m_apply_length (m : member (K:=K)) (X : list K) : m_ok D m -> length X = D -> length (m_apply D m X) = D.
Proof.
  intros Hm HX. destruct m as [f M]. unfold m_ok in Hm. cbn [fst snd] in Hm.
  rewrite (tab_all K _ _ M Hm). unfold m_apply. cbn [fst snd].
  destruct HD as [-> | ->]; [len2 X HX | len3 X HX]; destruct f; reflexivity.
Qed.

(* one step: composite of (what was accumulated) then (next member) *)
Lemma seq_step_apply (acc m : member (K:=K)) (X : list K) : m_ok D acc -> m_ok D m -> length X = D ->
  m_apply D (seq_step D acc m) X = m_apply D m (m_apply D acc X) /\ m_ok D (seq_step D acc m).
Proof.
  intros Ha Hm HX. destruct acc as [fa A], m as [fb B]. unfold m_ok in *. cbn [fst snd] in *.
  rewrite (tab_all K _ _ A Ha), (tab_all K _ _ B Hm), (vtab_all X HX).
  unfold seq_step, m_apply. cbn [fst snd]. split.
  - destruct (seq2_is_hmm fa fb (fun i j => nth j (nth i A []) 0) (fun i j => nth j (nth i B []) 0)) as [E1 E2].
    rewrite E1, E2. apply (hmm_compose K Kf D fb fa); exact HD.
  - apply seq2_shape.
Qed.

Lemma seq_fold_apply (r : list (member (K:=K))) : forall (acc : member) (X : list K),
  m_ok D acc -> Forall (m_ok D) r -> length X = D ->
  m_apply D (fold_left (seq_step D) r acc) X = fold_left (fun y m => m_apply D m y) r (m_apply D acc X).
Proof.
  induction r as [|m r IH]; intros acc X Ha Hr HX; [reflexivity|].
  apply Forall_cons_iff in Hr as [Hm Hr']. cbn [fold_left].
  destruct (seq_step_apply acc m X Ha Hm HX) as [E Hok].
  rewrite IH by auto. rewrite E. reflexivity.
Qed.

(* SequentialTransform of ANY number of linear members: tensor() denotes "apply the members in listed order" *)
Theorem sequential_order (ms : list (member (K:=K))) (X : list K) :
  Forall (m_ok D) ms -> length X = D ->
  m_apply D (seq_tensor D ms) X = seq_spec D ms X.
Proof.
  intros Hms HX. destruct ms as [|m r].
  - unfold seq_tensor, seq_spec, m_apply. cbn [fst snd fold_left]. rewrite (vtab_all X HX).
    destruct HD as [-> | ->]; fcbv; list_eq; ring.
  - apply Forall_cons_iff in Hms as [Hm Hr]. unfold seq_tensor, seq_spec. cbn [fold_left].
    apply seq_fold_apply; auto.
Qed.

(* the generic (non-matrix) branch of SequentialTransform.forward applies the first member first *)
Lemma seq_forward2_order (a b : nat -> nat -> K) (x : nat -> K) :
  gen_seq_fwd2_2 (tab 2 3 a) (tab 2 3 b) (vtab 2 x) = happly 2 (tab 2 3 b) (happly 2 (tab 2 3 a) (vtab 2 x)) /\
  gen_seq_fwd2_3 (tab 3 4 a) (tab 3 4 b) (vtab 3 x) = happly 3 (tab 3 4 b) (happly 3 (tab 3 4 a) (vtab 3 x)).
Proof. split; fcbv; list_eq; ring. Qed.

(* ------------------------------------------------------------------ multi-level *)
Lemma vadd_length (a b : list K) : length a = length b -> length (vadd a b) = length a.
Proof.
  revert b; induction a as [|x a IH]; intros [|y b] H; try discriminate; [reflexivity|].
  cbn. f_equal. apply IH. now injection H.
Qed.
Lemma vadd_assoc (a b c : list K) : vadd (vadd a b) c = vadd a (vadd b c).
Proof.
  revert b c; induction a as [|x a IH]; intros [|y b] [|z c]; try reflexivity.
  cbn. f_equal; [ring | apply IH].
Qed.
Lemma vadd_comm (a b : list K) : vadd a b = vadd b a.
Proof. revert b; induction a as [|x a IH]; intros [|y b]; try reflexivity. cbn. f_equal; [ring | apply IH]. Qed.
Lemma vadd_zero_l (a : list K) : vadd (vzero (length a)) a = a.
Proof. induction a as [|x a IH]; [reflexivity|]. cbn. f_equal; [ring | exact IH]. Qed.
Lemma vsub_length (a b : list K) : length a = length b -> length (vsub a b) = length a.
Proof.
  revert b; induction a as [|x a IH]; intros [|y b] H; try discriminate; [reflexivity|].
  cbn. f_equal. apply IH. now injection H.
Qed.

(* generic branch of MultiLevelTransform.forward, ANY number of members: the accumulation loop is
   x + sum of the member displacements *)
Lemma ml_loop (x : list K) (ys : list (list K)) : forall u : list K,
  length u = length x -> Forall (fun y => length y = length x) ys ->
  fold_left (fun u y => vadd u (vsub y x)) ys u = vadd u (vsum_list (length x) (map (fun y => vsub y x) ys))
  /\ length (vsum_list (length x) (map (fun y => vsub y x) ys)) = length x.
Proof.
  induction ys as [|y ys IH]; intros u Hu Hys.
  - cbn. split; [|apply repeat_length]. rewrite vadd_comm. rewrite <- Hu. symmetry. apply vadd_zero_l.
  - apply Forall_cons_iff in Hys as [Hy Hys']. cbn [fold_left map vsum_list].
    assert (Ld : length (vsub y x) = length x) by (rewrite vsub_length; auto).
    destruct (IH (vadd u (vsub y x))) as [E L]; [rewrite vadd_length; congruence | exact Hys' |].
    rewrite E. split; [apply vadd_assoc|]. rewrite vadd_length; congruence.
Qed.

Theorem multilevel_sum_generic (x : list K) (ys : list (list K)) :
  Forall (fun y => length y = length x) ys -> ml_forward x ys = ml_spec x ys.
Proof.
  intro H. unfold ml_forward, ml_spec. destruct (ml_loop x ys (vzero (length x))) as [E _]; [apply repeat_length | exact H |].
  rewrite E. f_equal. rewrite <- (vadd_zero_l (vsum_list _ _)) at 2.
  f_equal. f_equal. destruct (ml_loop x ys (vzero (length x))) as [_ L]; [apply repeat_length | exact H | now rewrite L].
Qed.

(* the traced loops for 1, 2, 3 members are the model *)
Lemma ml_forward_traced (x y0 y1 y2 : nat -> K) :
  gen_ml_fwd1_2 (vtab 2 x) (vtab 2 y0) = ml_forward (vtab 2 x) [vtab 2 y0] /\
  gen_ml_fwd2_2 (vtab 2 x) (vtab 2 y0) (vtab 2 y1) = ml_forward (vtab 2 x) [vtab 2 y0; vtab 2 y1] /\
  gen_ml_fwd3_2 (vtab 2 x) (vtab 2 y0) (vtab 2 y1) (vtab 2 y2) = ml_forward (vtab 2 x) [vtab 2 y0; vtab 2 y1; vtab 2 y2] /\
  gen_ml_fwd1_3 (vtab 3 x) (vtab 3 y0) = ml_forward (vtab 3 x) [vtab 3 y0] /\
  gen_ml_fwd2_3 (vtab 3 x) (vtab 3 y0) (vtab 3 y1) = ml_forward (vtab 3 x) [vtab 3 y0; vtab 3 y1] /\
  gen_ml_fwd3_3 (vtab 3 x) (vtab 3 y0) (vtab 3 y1) (vtab 3 y2) = ml_forward (vtab 3 x) [vtab 3 y0; vtab 3 y1; vtab 3 y2].
Proof. repeat split; fcbv; list_eq; ring. Qed.

(* linear branch: the traced two-member tensor() is the SUM of the homogeneous matrices *)
Lemma ml2_is_matrix_sum (fa fb : form) (a b : nat -> nat -> K) :
  gen_ml2 D fa fb (tab D (fcols D fa) a) (tab D (fcols D fb) b)
  = madd (gen_ashom D fa (tab D (fcols D fa) a)) (gen_ashom D fb (tab D (fcols D fb) b)).
Proof. destruct HD as [-> | ->]; destruct fa, fb; fcbv; list_eq; ring. Qed.

(* hence, for ANY number of linear members, tensor() maps x to the sum of the member IMAGES T_i(x) *)
Lemma ml_step_apply (acc : list (list K)) (m : member (K:=K)) (X : list K) :
  mshape D (S D) acc -> m_ok D m -> length X = D ->
  happly D (ml_step D acc m) X = vadd (happly D acc X) (m_apply D m X) /\ mshape D (S D) (ml_step D acc m).
Proof.
  intros Ha Hm HX. destruct m as [f B]. unfold m_ok in Hm. cbn [fst snd] in Hm.
  rewrite (tab_all K _ _ acc Ha), (tab_all K _ _ B Hm), (vtab_all X HX). unfold ml_step, m_apply. cbn [fst snd].
  split; [destruct HD as [-> | ->]; destruct f; fcbv; list_eq; ring |
          destruct HD as [-> | ->]; destruct f; (split; [reflexivity | repeat constructor])].
Qed.

Lemma ml_fold_apply (r : list (member (K:=K))) : forall (acc : list (list K)) (X : list K),
  mshape D (S D) acc -> Forall (m_ok D) r -> length X = D ->
  happly D (fold_left (ml_step D) r acc) X
  = fold_left (fun v m => vadd v (m_apply D m X)) r (happly D acc X).
Proof.
  induction r as [|m r IH]; intros acc X Ha Hr HX; [reflexivity|].
  apply Forall_cons_iff in Hr as [Hm Hr']. cbn [fold_left].
  destruct (ml_step_apply acc m X Ha Hm HX) as [E Hok]. rewrite IH by auto. rewrite E. reflexivity.
Qed.

Theorem multilevel_linear_is_sum_of_images (m : member (K:=K)) (r : list member) (X : list K) :
  m_ok D m -> Forall (m_ok D) r -> length X = D ->
  happly D (ml_tensor D (m :: r)) X = fold_left (fun v m' => vadd v (m_apply D m' X)) r (m_apply D m X).
Proof.
  intros Hm Hr HX. unfold ml_tensor.
  destruct m as [f A]. unfold m_ok in Hm. cbn [fst snd] in *.
  assert (Hsh : mshape D (S D) (gen_matrix D f A) /\ happly D (gen_matrix D f A) X = m_apply D (f, A) X).
  { rewrite (tab_all K _ _ A Hm), (vtab_all X HX). unfold m_apply. cbn [fst snd].
    destruct HD as [-> | ->]; destruct f; (split; [split; [reflexivity | repeat constructor] | fcbv; list_eq; ring]). }
  destruct Hsh as [Hsh E]. rewrite ml_fold_apply by auto. rewrite E. reflexivity.
Qed.

(* a multi-level composite of ONE linear member, and the empty one, do add displacements *)
Theorem multilevel_sum_linear_le1 (ms : list (member (K:=K))) (X : list K) :
  (length ms <= 1)%nat -> Forall (m_ok D) ms -> length X = D ->
  happly D (ml_tensor D ms) X = ml_spec_linear D ms X.
Proof.
  intros Hl Hms HX. destruct ms as [|m [|m' r]]; [| |cbn in Hl; lia].
  - unfold ml_tensor, ml_spec_linear, ml_spec. cbn [map vsum_list]. rewrite (vtab_all X HX).
    destruct HD as [-> | ->]; fcbv; list_eq; ring.
  - apply Forall_cons_iff in Hms as [Hm _].
    rewrite multilevel_linear_is_sum_of_images by auto. cbn [fold_left].
    unfold ml_spec_linear, ml_spec. cbn [map vsum_list].
    pose proof (m_apply_length m X Hm HX) as L. remember (m_apply D m X) as Y.
    clear HeqY. destruct HD as [-> | ->]; [len2 X HX; len2 Y L | len3 X HX; len3 Y L]; fcbv; list_eq; ring.
Qed.
End Composite.
