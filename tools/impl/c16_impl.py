"""Implementation-side runner for C16 (image similarity / overlap losses), against /repo's working tree."""
import json
import math
import random
import sys

import torch

from vlib import emit_json

from deepali.losses import functional as L
from deepali.losses import image as M

torch.set_default_dtype(torch.float64)
torch.set_num_threads(1)


def err(e):
    return {"error": type(e).__name__, "msg": str(e)[:200]}


def T(spec):
    """{"shape": [...], "data": [...]} -> tensor"""
    if spec is None:
        return None
    return torch.tensor(spec["data"], dtype=torch.float64).reshape(spec["shape"])


def flat(t):
    return [float(v) for v in t.reshape(-1).tolist()]


PW = {"ssd": "ssd_loss", "mse": "mse_loss", "mae": "mae_loss", "l1": "l1_loss", "huber": "huber_loss",
      "smooth_l1": "smooth_l1_loss"}


def run_case(c):
    k = c["kind"]
    x, y = T(c["x"]), T(c["y"])
    if k == "pw":
        kw = {"mask": T(c.get("mask")), "norm": c.get("norm"), "reduction": c["reduction"]}
        if c["fn"] == "huber":
            kw["delta"] = c["param"]
        if c["fn"] == "smooth_l1":
            kw["beta"] = c["param"]
        if c.get("module"):
            cls = M.HuberImageLoss if c["fn"] == "huber" else M.SmoothL1ImageLoss
            arg = {"delta": c["param"]} if c["fn"] == "huber" else {"beta": c["param"]}
            r = cls(norm=c.get("norm") if c.get("norm") is not None else False, **arg)(x, y, T(c.get("mask")))
        else:
            r = getattr(L, PW[c["fn"]])(x, y, **kw)
    elif k == "ncc":
        r = L.ncc_loss(x, y, mask=T(c.get("mask")), epsilon=c["eps"], reduction=c["reduction"])
    elif k == "lcc":
        r = L.lcc_loss(x, y, mask=T(c.get("mask")), kernel_size=tuple(c["ks"]), epsilon=c["eps"], reduction=c["reduction"])
    elif k == "wlcc":
        r = L.wlcc_loss(x, y, mask=T(c.get("mask")), source_mask=T(c.get("smask")), target_mask=T(c.get("tmask")),
                        kernel_size=tuple(c["ks"]), epsilon=c["eps"], reduction=c["reduction"])
    elif k == "dice":
        f = L.dice_loss if c.get("loss") else L.dice_score
        r = f(x, y, weight=T(c.get("mask")), epsilon=c["eps"], reduction=c["reduction"])
    elif k == "tversky":
        if c.get("loss"):
            r = L.tversky_loss(x, y, weight=T(c.get("mask")), alpha=c["alpha"], beta=c["beta"], gamma=c.get("gamma"),
                               epsilon=c["eps"], reduction=c["reduction"])
        else:
            r = L.tversky_index(x, y, weight=T(c.get("mask")), alpha=c["alpha"], beta=c["beta"], epsilon=c["eps"],
                                reduction=c["reduction"])
    else:
        raise KeyError(k)
    return {"shape": list(r.shape), "val": flat(r), "dtype": str(r.dtype)}


def model_cases(p):
    out = []
    for c in p["cases"]:
        try:
            out.append(run_case(c))
        except Exception as e:  # noqa
            out.append(err(e))
    return out


# ------------------------------------------------------------------------------------------------
# the property itself on the implementation
# ------------------------------------------------------------------------------------------------
def rnd(rng, shape, lo=0.0, hi=4.0):
    n = 1
    for s in shape:
        n *= s
    return torch.tensor([rng.uniform(lo, hi) for _ in range(n)]).reshape(shape)


def rbin(rng, shape, p=0.5):
    n = 1
    for s in shape:
        n *= s
    return torch.tensor([1.0 if rng.random() < p else 0.0 for _ in range(n)]).reshape(shape)


def close(a, b, tol):
    a = torch.as_tensor(a, dtype=torch.float64)
    b = torch.as_tensor(b, dtype=torch.float64)
    if a.shape != b.shape:
        return False
    if not (torch.isfinite(a).all() and torch.isfinite(b).all()):
        return False
    return bool((a - b).abs().max() <= tol * (1 + b.abs().max())) if a.numel() else True


def rshape(rng):
    D = rng.choice([2, 3])
    N = rng.choice([1, 2, 3])
    C = rng.choice([1, 2])
    sp = [rng.choice([3, 4, 5, 6]) for _ in range(D)]
    return D, N, C, sp


MASK_FORMS = ["11", "N1", "1C", "NC"]


def mask_shape(form, N, C, sp):
    return [1 if form[0] == "1" else N, 1 if form[1] == "1" else C] + list(sp)


class Rec:
    def __init__(self):
        self.fails = []
        self.counts = {}

    def tick(self, group):
        self.counts[group] = self.counts.get(group, 0) + 1

    def fail(self, key, what, **data):
        self.fails.append({"key": key, "what": what, **data})

    def guard(self, key, data, thunk):
        """run thunk; an exception is a violation with key <key>"""
        try:
            return thunk()
        except Exception as e:  # noqa
            self.fail(key, f"raises {type(e).__name__}: {str(e)[:140]}", **data)
            return None


def spec(t):
    return None if t is None else {"shape": list(t.shape), "data": flat(t)}


def losses_table(eps, ks, param):
    """name -> (callable(x, y, mask, reduction), tol, kind)"""
    return {
        "ssd_loss": (lambda x, y, m, r: L.ssd_loss(x, y, mask=m, reduction=r), 1e-9, "pw"),
        "mse_loss": (lambda x, y, m, r: L.mse_loss(x, y, mask=m, reduction=r), 1e-9, "pw"),
        "mae_loss": (lambda x, y, m, r: L.mae_loss(x, y, mask=m, reduction=r), 1e-9, "pw"),
        "l1_loss": (lambda x, y, m, r: L.l1_loss(x, y, mask=m, reduction=r), 1e-9, "pw"),
        "huber_loss": (lambda x, y, m, r: L.huber_loss(x, y, mask=m, reduction=r, delta=param), 1e-9, "pw"),
        "smooth_l1_loss": (lambda x, y, m, r: L.smooth_l1_loss(x, y, mask=m, reduction=r, beta=param), 1e-9, "pw"),
        "ncc_loss": (lambda x, y, m, r: L.ncc_loss(x, y, mask=m, epsilon=eps, reduction=r), 2e-5, "cc"),
        "lcc_loss": (lambda x, y, m, r: L.lcc_loss(x, y, mask=m, kernel_size=ks, epsilon=eps, reduction=r), 2e-5, "win"),
        "wlcc_loss": (lambda x, y, m, r: L.wlcc_loss(x, y, mask=m, kernel_size=ks, epsilon=eps, reduction=r), 2e-5, "win"),
    }


def oracle_similarity(rng, n, R):
    for it in range(n):
        D, N, C, sp = rshape(rng)
        shape = [N, C] + sp
        x, y = rnd(rng, shape), rnd(rng, shape)
        eps = rng.choice([1e-15, 1e-3, 0.25])
        kmax = [k for k in (1, 3, 5) if k <= min(sp)]
        ks = rng.choice([k for k in kmax if k > 1]) if rng.random() < 0.7 else tuple(rng.choice(kmax) for _ in range(D))
        param = rng.choice([0.25, 1.0, 2.5])
        form = MASK_FORMS[it % 4]
        msh = mask_shape(form, N, C, sp)
        m = rbin(rng, msh, 0.6) if it % 3 else rnd(rng, msh, 0.0, 1.0).mul(rbin(rng, msh, 0.7))
        for n_ in range(m.shape[0]):          # positive mask sum for every batch item (zero-sum weights give 0/0)
            if float(m[n_].sum()) == 0:
                m[n_].reshape(-1)[0] = 1.0
        table = losses_table(eps, ks, param)
        for name, (f, tol, kind) in table.items():
            base = {"fn": name, "x": spec(x), "y": spec(y), "mask": spec(m), "eps": eps, "ks": ks, "param": param}
            try:
                similarity_checks(rng, R, name, f, tol, kind, base, x, y, m, shape, form, eps, ks, param)
            except Exception as e:  # noqa  (a call outside the guarded ones raised)
                R.fail(f"C16:{name}:raises", f"raises {type(e).__name__}: {str(e)[:140]}", **base)


def similarity_checks(rng, R, name, f, tol, kind, base, x, y, m, shape, form, eps, ks, param):
    if True:
        if True:
            # ---- identical inputs -> zero / documented minimum
            R.tick("identical")
            for mm, tag in ((None, "nomask"), (m, "mask")):
                v = R.guard(f"C16:{name}:raises", base, lambda: f(x, x, mm, "none"))
                if v is None:
                    continue
                if kind == "pw":
                    ok = float(v.abs().max()) <= 1e-12
                else:
                    # eps / (b^2 + eps) in [0, 1]: zero up to eps wherever the window is not flat
                    # (exactly 1 where the centred window is flat, e.g. windows of a single sample)
                    u = v if mm is None else None
                    ok = bool((v >= -tol).all()) and bool((v <= 1 + tol).all()) and \
                        (eps > 1e-6 or u is None or bool((torch.minimum(u.abs(), (u - 1).abs()) <= 1e-4).all()))
                if not ok:
                    R.fail(f"C16:{name}:identical-nonzero", f"loss of identical inputs is {float(v.abs().max()):.3g} ({tag})", **base)
            # ---- symmetry
            R.tick("symmetry")
            for mm in (None, m):
                for r in ("none", "mean", "sum"):
                    a = R.guard(f"C16:{name}:raises", base, lambda: f(x, y, mm, r))
                    b = R.guard(f"C16:{name}:raises", base, lambda: f(y, x, mm, r))
                    if a is not None and b is not None and not close(a, b, tol):
                        R.fail(f"C16:{name}:asymmetric", f"loss(x,y) != loss(y,x) for reduction={r}", reduction=r, **base)
            # ---- range
            R.tick("range")
            for mm in (None, m):
                v = R.guard(f"C16:{name}:raises", base, lambda: f(x, y, mm, "none"))
                if v is None:
                    continue
                lo_ok = bool((v >= -tol).all())
                hi_ok = kind == "pw" or bool((v <= 1 + tol).all())
                if not (lo_ok and hi_ok):
                    R.fail(f"C16:{name}:out-of-range", f"value {float(v.min()):.4g}..{float(v.max()):.4g} outside the documented range", **base)
            # ---- mean / sum are the mean / sum of none
            R.tick("reductions")
            for mm in (None, m):
                none = R.guard(f"C16:{name}:raises", base, lambda: f(x, y, mm, "none"))
                s = R.guard(f"C16:{name}:raises", base, lambda: f(x, y, mm, "sum"))
                mean = R.guard(f"C16:{name}:raises", base, lambda: f(x, y, mm, "mean"))
                if none is None or s is None or mean is None:
                    continue
                if not close(s, none.sum(), tol * 10):
                    R.fail(f"C16:{name}:sum-not-sum-of-none", f"sum {float(s):.6g} vs {float(none.sum()):.6g}", **base)
                # ncc_loss: one value per batch item, plain mean over the items also with a mask
                div = none.numel() if (mm is None or name == "ncc_loss") else float(mm.expand(none.shape).sum())
                if not close(mean, none.sum() / div, tol * 10):
                    R.fail(f"C16:{name}:mean-not-mean-of-none",
                           f"mean {float(mean):.6g} vs sum(none)/{'numel' if mm is None else 'mask sum'} = {float(none.sum() / div):.6g}", **base)
            # ---- mask: every documented shape accepted; zero-mask samples ignored / weighting
            R.tick("mask")
            vm = R.guard(f"C16:{name}:mask-raises", {"mask_form": form, **base}, lambda: f(x, y, m, "none"))
            if vm is not None:
                v0 = f(x, y, None, "none")
                if kind in ("pw",) or name == "lcc_loss":
                    if not close(vm, v0 * m, tol):
                        R.fail(f"C16:{name}:mask-not-multiplicative", "masked 'none' output differs from unmasked output times mask", **base)
                if name == "ncc_loss":
                    # reference: the correlation of the selected samples only (binary mask), per batch item
                    me = m.expand(shape)
                    if bool(((me == 0) | (me == 1)).all()) and all(int(me[n_].sum()) >= 2 for n_ in range(shape[0])):
                        ref = torch.stack([L.ncc_loss(x[n_][me[n_] == 1].reshape(1, 1, 1, -1), y[n_][me[n_] == 1].reshape(1, 1, 1, -1),
                                                      epsilon=eps, reduction="none")[0] for n_ in range(shape[0])])
                        if not close(vm, ref, 1e-4):
                            R.fail("C16:ncc_loss:mask-not-selected-samples", "masked ncc_loss differs from ncc_loss of the selected samples", **base)
                    ones = f(x, y, torch.ones_like(m), "none")
                    if not close(ones, v0, tol):
                        R.fail("C16:ncc_loss:mask-of-ones", "an all-ones mask changes ncc_loss", **base)
                if kind == "pw" or name == "ncc_loss":
                    # change both images arbitrarily where the mask is zero
                    z = (m.expand(shape) == 0).to(x.dtype)
                    x2, y2 = x + z * rnd(rng, shape, -3, 3), y + z * rnd(rng, shape, -3, 3)
                    for r in ("none", "mean", "sum"):
                        a, b = f(x, y, m, r), f(x2, y2, m, r)
                        if not close(a, b, tol):
                            R.fail(f"C16:{name}:mask-zero-not-ignored", f"changing inputs where mask == 0 changes the loss (reduction={r})", **base)
                if name in ("lcc_loss", "wlcc_loss"):
                    a = f(x, y, m, "mean")
                    want = (vm.sum() / m.expand(vm.shape).sum())
                    if not close(a, want, tol * 10):
                        R.fail(f"C16:{name}:mask-weighting", "'mean' is not the mask-weighted mean of the local scores", **base)
            # ---- normalisation factor
            if kind == "pw":
                R.tick("norm")
                cval = rng.choice([0.5, 2.0, 4.0])
                fn = getattr(L, name)
                extra = {"delta": param} if name == "huber_loss" else {"beta": param} if name == "smooth_l1_loss" else {}
                for mm in (None, m):
                    for r in ("none", "mean", "sum"):
                        a = R.guard(f"C16:{name}:norm-raises", base, lambda: fn(x, y, mask=mm, norm=cval, reduction=r, **extra))
                        b = fn(x, y, mask=mm, reduction=r, **extra)
                        if a is not None and not close(a, b / cval, tol):
                            R.fail(f"C16:{name}:norm-scaling", f"norm={cval} does not divide the loss by {cval} (reduction={r})", **base)
                if name in ("ssd_loss", "mse_loss"):
                    a = fn(x / cval, y / cval, mask=m, reduction="mean")
                    b = fn(x, y, mask=m, norm=cval * cval, reduction="mean")
                    if not close(a, b, tol):
                        R.fail(f"C16:{name}:norm-prescaling", "norm=c^2 is not the loss of the images divided by c", **base)
            # ---- intensity scale and offset (correlation losses)
            if kind in ("cc", "win"):
                R.tick("affine")
                a_, b_ = rng.choice([-2.0, 0.5, 3.0]), rng.choice([-1.5, 0.0, 10.0])
                f0 = {"ncc_loss": lambda x, y: L.ncc_loss(x, y, epsilon=1e-15, reduction="none"),
                      "lcc_loss": lambda x, y: L.lcc_loss(x, y, kernel_size=ks, epsilon=1e-15, reduction="none"),
                      "wlcc_loss": lambda x, y: L.wlcc_loss(x, y, kernel_size=ks, epsilon=1e-15, reduction="none")}[name]
                u = R.guard(f"C16:{name}:raises", base, lambda: f0(x, y))
                v = R.guard(f"C16:{name}:raises", base, lambda: f0(a_ * x + b_, y))
                w = R.guard(f"C16:{name}:raises", base, lambda: f0(x, a_ * y + b_))
                if u is not None and v is not None and w is not None:
                    if not (close(u, v, 2e-3) and close(u, w, 2e-3)):
                        R.fail(f"C16:{name}:not-affine-invariant", f"loss changes under x -> {a_} x + {b_}", a=a_, b=b_, **base)


def oracle_overlap(rng, n, R):
    for it in range(n):
        D, N, C, sp = rshape(rng)
        shape = [N, C] + sp
        p, t = rbin(rng, shape), rbin(rng, shape)
        soft_p, soft_t = rnd(rng, shape, 0, 1), rnd(rng, shape, 0, 1)
        eps = rng.choice([1e-15, 1e-3, 0.5])
        form = ["N1", "NC"][it % 2]     # documented weight shapes: (N, 1|C, ..., X)
        w = rnd(rng, mask_shape(form, N, C, sp), 0.1, 1.0)
        base = {"p": spec(p), "t": spec(t), "eps": eps, "weight": spec(w), "weight_form": form, "C": C}
        R.tick("overlap")
        for ww, tag in ((None, "noweight"), (w, "weight")):
            # identical binary -> 1
            d = R.guard("C16:dice_score:raises" if ww is None else "C16:dice_score:weight-raises", base,
                        lambda: L.dice_score(p, p, weight=ww, epsilon=eps, reduction="none"))
            if d is not None and not close(d, torch.ones_like(d), 1e-5):
                R.fail("C16:dice_score:identical-not-one", f"dice(p,p) = {d.reshape(-1).tolist()[:3]} ({tag})", **base)
            dl = R.guard("C16:dice_loss:raises", base, lambda: L.dice_loss(p, p, weight=ww, epsilon=eps, reduction="none"))
            if dl is not None and not close(dl, torch.zeros_like(dl), 1e-5):
                R.fail("C16:dice_loss:identical-not-zero", f"dice_loss(p,p) != 0 ({tag})", **base)
            kt = "C16:tversky_index:raises" if ww is None else ("C16:tversky_index:weight-binary-raises" if C == 1 else "C16:tversky_index:weight-raises")
            ti = R.guard(kt, base, lambda: L.tversky_index(p, p, weight=ww, alpha=0.3, beta=0.7, epsilon=eps, reduction="none"))
            if ti is not None and not close(ti, torch.ones_like(ti), 1e-5):
                R.fail("C16:tversky_index:identical-not-one", f"tversky(p,p) != 1 ({tag})", **base)
            # symmetry
            a = R.guard("C16:dice_score:raises", base, lambda: L.dice_score(soft_p, soft_t, weight=ww, epsilon=eps, reduction="none"))
            b = R.guard("C16:dice_score:raises", base, lambda: L.dice_score(soft_t, soft_p, weight=ww, epsilon=eps, reduction="none"))
            if a is not None and b is not None:
                if not close(a, b, 1e-5):
                    R.fail("C16:dice_score:asymmetric", "dice(p,t) != dice(t,p)", **base)
                if not (bool((a >= -1e-6).all()) and bool((a <= 1 + 1e-6).all())):
                    R.fail("C16:dice_score:out-of-range", "dice outside [0, 1]", **base)
            a = R.guard(kt, base, lambda: L.tversky_index(soft_p, soft_t, weight=ww, alpha=0.3, beta=0.7, epsilon=eps, reduction="none"))
            b = R.guard(kt, base, lambda: L.tversky_index(soft_t, soft_p, weight=ww, alpha=0.7, beta=0.3, epsilon=eps, reduction="none"))
            if a is not None and b is not None and not close(a, b, 1e-5):
                R.fail("C16:tversky_index:asymmetric", "tversky(alpha,beta)(p,t) != tversky(beta,alpha)(t,p)", **base)
            # Tversky(1/2, 1/2, eps) = Dice(2 eps) on binary inputs
            a = R.guard(kt, base, lambda: L.tversky_index(p, t, weight=ww, alpha=0.5, beta=0.5, epsilon=eps, reduction="none"))
            b = R.guard("C16:dice_score:raises", base, lambda: L.dice_score(p, t, weight=ww, epsilon=2 * eps, reduction="none"))
            if a is not None and b is not None and not close(a, b, 1e-5):
                R.fail("C16:tversky_index:half-not-dice", f"tversky(1/2,1/2,eps) {a.reshape(-1).tolist()[:3]} != dice(2 eps) {b.reshape(-1).tolist()[:3]} ({tag})", **base)
            a0 = R.guard(kt, base, lambda: L.tversky_index(p, t, weight=ww, epsilon=eps, reduction="none"))
            if a is not None and a0 is not None and not close(a, a0, 1e-6):
                R.fail("C16:tversky_index:default-not-half", "default alpha, beta are not 1/2", **base)
            # defining formulas, evaluated independently
            wf = torch.ones_like(soft_p) if ww is None else ww.expand(shape)
            dims = tuple(range(2, len(shape)))
            I_ = (soft_p * soft_t * wf).sum(dims)
            P_ = (soft_p * soft_p * wf).sum(dims)
            T_ = (soft_t * soft_t * wf).sum(dims)
            FP_ = (soft_p * (1 - soft_t) * wf).sum(dims)
            FN_ = ((1 - soft_p) * soft_t * wf).sum(dims)
            a = R.guard("C16:dice_score:raises", base, lambda: L.dice_score(soft_p, soft_t, weight=ww, epsilon=eps, reduction="none"))
            if a is not None and not close(a, (2 * I_ + eps) / (P_ + T_ + eps), 1e-5):
                R.fail("C16:dice_score:formula", "dice_score differs from (2<p,t> + eps) / (<p,p> + <t,t> + eps)", **base)
            for al_, be_ in ((1.0, 0.0), (0.3, 0.7)):
                a = R.guard(kt, base, lambda: L.tversky_index(soft_p, soft_t, weight=ww, alpha=al_, beta=be_, epsilon=eps, reduction="none"))
                if a is not None and not close(a, (I_ + eps) / (I_ + eps + al_ * FP_ + be_ * FN_), 1e-5):
                    R.fail("C16:tversky_index:formula",
                           f"tversky_index(alpha={al_}, beta={be_}) differs from (TP + eps) / (TP + eps + alpha FP + beta FN)", **base)
            # reductions
            for fname in ("dice_score", "dice_loss", "tversky_index"):
                fn = getattr(L, fname)
                kk = kt if fname == "tversky_index" else f"C16:{fname}:raises"
                none = R.guard(kk, base, lambda: fn(soft_p, soft_t, weight=ww, epsilon=eps, reduction="none"))
                if none is None:
                    continue
                if list(none.shape) != [N, C]:
                    R.fail(f"C16:{fname}:none-shape", f"'none' output has shape {list(none.shape)}, expected (N, C)", **base)
                if not close(fn(soft_p, soft_t, weight=ww, epsilon=eps, reduction="mean"), none.mean(), 1e-6) or \
                        not close(fn(soft_p, soft_t, weight=ww, epsilon=eps, reduction="sum"), none.sum(), 1e-6):
                    R.fail(f"C16:{fname}:reduction", "mean/sum are not the mean/sum of 'none'", **base)
            # tversky_loss: (1 - index)^gamma, gamma < 1 rejected, and the documented Dice clause through tversky_loss itself
            for g_ in (None, 1, 2, 3.0):
                tlg = R.guard("C16:tversky_loss:raises", base, lambda: L.tversky_loss(soft_p, soft_t, weight=ww, alpha=0.3, beta=0.7, gamma=g_, epsilon=eps, reduction="none"))
                tig = R.guard(kt, base, lambda: L.tversky_index(soft_p, soft_t, weight=ww, alpha=0.3, beta=0.7, epsilon=eps, reduction="none"))
                if tlg is not None and tig is not None and not close(tlg, (1 - tig) ** (g_ or 1), 1e-5):
                    R.fail("C16:tversky_loss:gamma", f"tversky_loss(gamma={g_}) != (1 - tversky_index)^gamma", gamma=g_, **base)
            try:
                L.tversky_loss(soft_p, soft_t, gamma=0.5, epsilon=eps)
                R.fail("C16:tversky_loss:gamma-below-one-accepted", "gamma = 0.5 accepted (documented: gamma >= 1)", **base)
            except ValueError:
                pass
            except Exception as e:  # noqa
                R.fail("C16:tversky_loss:raises", f"gamma=0.5 raises {type(e).__name__} instead of ValueError", **base)
            a = R.guard("C16:tversky_loss:raises", base, lambda: L.tversky_loss(p, t, weight=ww, alpha=0.5, beta=0.5, epsilon=eps, reduction="none"))
            b = R.guard("C16:dice_loss:raises", base, lambda: L.dice_loss(p, t, weight=ww, epsilon=2 * eps, reduction="none"))
            if a is not None and b is not None and not close(a, b, 1e-5):
                R.fail("C16:tversky_loss:half-not-dice-loss", "tversky_loss(1/2, 1/2, eps) != dice_loss(2 eps) on binary inputs", **base)
            a0 = R.guard("C16:tversky_loss:raises", base, lambda: L.tversky_loss(p, p, weight=ww, alpha=0.3, beta=0.7, gamma=2, epsilon=eps, reduction="none"))
            if a0 is not None and not close(a0, torch.zeros_like(a0), 1e-5):
                R.fail("C16:tversky_loss:identical-not-zero", "tversky_loss(p, p) != 0 on binary input", **base)
            # tversky_loss = 1 - tversky_index
            tl = R.guard("C16:tversky_loss:raises", base, lambda: L.tversky_loss(soft_p, soft_t, weight=ww, alpha=0.3, beta=0.7, epsilon=eps, reduction="none"))
            ti = None
            try:
                ti = L.tversky_index(soft_p, soft_t, weight=ww, alpha=0.3, beta=0.7, epsilon=eps, reduction="none")
            except Exception:  # noqa
                pass
            if tl is not None and ti is not None and not close(tl, 1 - ti, 1e-6):
                R.fail("C16:tversky_loss:not-one-minus-index", "tversky_loss != 1 - tversky_index", **base)


def oracle_tversky_forms(rng, n, R):
    """documented input / target forms of tversky_index: (N, 1|C, ..., X) predictions; targets as label map (N, ..., X),
    binary (N, 1, ..., X) or one-hot (N, C, ..., X)"""
    for it in range(n):
        D, N, _, sp = rshape(rng)
        eps = rng.choice([1e-3, 0.25])
        kw = dict(alpha=0.3, beta=0.7, epsilon=eps, reduction="none")
        fg = rnd(rng, [N, 1] + sp, 0, 1)
        p2 = torch.cat([1 - fg, fg], 1)                      # background, foreground
        tb = rbin(rng, [N, 1] + sp)
        t2 = torch.cat([1 - tb, tb], 1)
        base = {"shape": [N] + sp, "eps": eps, "fg": spec(fg), "target": spec(tb)}
        R.tick("tversky-forms")
        try:
            ref = L.tversky_index(fg, tb, **kw)
            a = L.tversky_index(p2, tb, **kw)
            if not close(a, ref, 1e-6):
                R.fail("C16:tversky_index:two-channel-prediction-binary-target", "2-channel prediction with a binary target is not scored on the foreground channel", **base)
            a = L.tversky_index(fg, t2, **kw)
            if not close(a, ref, 1e-6):
                R.fail("C16:tversky_index:binary-prediction-onehot-target", "1-channel prediction with a 2-channel one-hot target is not scored against channel 1", **base)
            a = L.tversky_index(fg, tb[:, 0], **kw)
            if not close(a, ref, 1e-6):
                R.fail("C16:tversky_index:labelmap-target-binary", "label-map target (N, ..., X) differs from the binary target (N, 1, ..., X)", **base)
            a = L.tversky_index(p2, t2, **kw)
            if list(a.shape) != [N, 2] or not close(a[:, 1:], ref, 1e-6):
                R.fail("C16:tversky_index:onehot", "one-hot 2-channel case: channel 1 differs from the binary case", **base)
        except Exception as e:  # noqa
            R.fail("C16:tversky_index:forms-raise", f"raises {type(e).__name__}: {str(e)[:140]}", **base)
        # multi-class: label map (N, ..., X) is the one-hot target
        C = rng.choice([2, 3, 4])
        pm = rnd(rng, [N, C] + sp, 0, 1).softmax(1)
        lab = torch.tensor([rng.randrange(C) for _ in range(N * int(torch.tensor(sp).prod()))]).reshape([N] + sp)
        oh = torch.nn.functional.one_hot(lab, C).movedim(-1, 1).to(pm.dtype)
        basem = {"shape": [N, C] + sp, "labels": lab.reshape(-1).tolist()[:64], "eps": eps}
        R.tick("tversky-forms")
        try:
            want = L.tversky_index(pm, oh, **kw)
        except Exception as e:  # noqa
            R.fail("C16:tversky_index:forms-raise", f"one-hot target raises {type(e).__name__}: {str(e)[:140]}", **basem)
            continue
        try:
            got = L.tversky_index(pm, lab, **kw)
            if not close(got, want, 1e-6):
                R.fail("C16:tversky_index:labelmap-target-multiclass", "label-map target differs from its one-hot encoding", **basem)
        except Exception as e:  # noqa
            R.fail("C16:tversky_index:labelmap-target-multiclass-raises",
                   f"documented label-map target (N, ..., X) with a {C}-channel prediction raises {type(e).__name__}: {str(e)[:120]}", **basem)


def oracle_wlcc_masks(rng, n, R):
    """the three masks of wlcc_loss: defaulting rules"""
    for it in range(n):
        D, N, C, sp = rshape(rng)
        shape = [N, C] + sp
        x, y = rnd(rng, shape), rnd(rng, shape)
        ks = rng.choice([k for k in (3, 5) if k <= min(sp)])
        eps = rng.choice([1e-3, 0.25])
        sm = rnd(rng, mask_shape(MASK_FORMS[it % 4], N, C, sp), 0.1, 1.0)
        tm = rnd(rng, mask_shape(MASK_FORMS[(it // 4) % 4], N, C, sp), 0.1, 1.0)
        base = {"x": spec(x), "y": spec(y), "source_mask": spec(sm), "target_mask": spec(tm), "ks": ks, "eps": eps}
        R.tick("wlcc-masks")
        try:
            for r in ("none", "mean"):
                a = L.wlcc_loss(x, y, source_mask=sm, target_mask=tm, kernel_size=ks, epsilon=eps, reduction=r)
                b = L.wlcc_loss(x, y, mask=sm * tm, source_mask=sm, target_mask=tm, kernel_size=ks, epsilon=eps, reduction=r)
                if not close(a, b, 2e-5):
                    R.fail("C16:wlcc_loss:mask-default", "mask=None with both source_mask and target_mask is not mask=source_mask*target_mask", **base)
                a = L.wlcc_loss(x, y, mask=sm, kernel_size=ks, epsilon=eps, reduction=r)
                b = L.wlcc_loss(x, y, mask=sm, source_mask=sm, target_mask=sm, kernel_size=ks, epsilon=eps, reduction=r)
                if not close(a, b, 2e-5):
                    R.fail("C16:wlcc_loss:mask-default", "mask alone is not used as source_mask and target_mask", **base)
                a = L.wlcc_loss(x, y, source_mask=sm, target_mask=tm, kernel_size=ks, epsilon=eps, reduction=r)
                b = L.wlcc_loss(y, x, source_mask=tm, target_mask=sm, kernel_size=ks, epsilon=eps, reduction=r)
                if not close(a, b, 2e-5):
                    R.fail("C16:wlcc_loss:asymmetric", "exchanging (source, source_mask) and (target, target_mask) changes the loss", **base)
            a = L.wlcc_loss(x, y, kernel_size=ks, epsilon=eps, reduction="none")
            b = L.lcc_loss(x, y, kernel_size=ks, epsilon=eps, reduction="none")
            if not close(a, b, 2e-5):
                R.fail("C16:wlcc_loss:no-mask-not-lcc", "wlcc_loss without masks differs from lcc_loss", **base)
        except Exception as e:  # noqa
            R.fail("C16:wlcc_loss:raises", f"raises {type(e).__name__}: {str(e)[:140]}", **base)


def oracle_mi(rng, n, R):
    for it in range(n):
        D, N, _, sp = rshape(rng)
        C = [1, 2, 3][it % 3]            # samples of all channels are pooled
        shape = [N, C] + [s + 3 for s in sp]
        x, y = rnd(rng, shape, 0, 1), rnd(rng, shape, 0, 1)
        bins = rng.choice([8, 16, 32])
        base = {"x": spec(x), "y": spec(y), "bins": bins, "C": C}
        R.tick("mi")
        for fname in ("mi_loss", "nmi_loss"):
            fn = getattr(L, fname)
            kr = f"C16:{fname}:raises" if C == 1 else f"C16:{fname}:multichannel-raises"
            a = R.guard(kr, base, lambda: fn(x, y, num_bins=bins))
            b = R.guard(kr, base, lambda: fn(y, x, num_bins=bins))
            if a is None or b is None:
                continue
            if not close(a, b, 1e-5):
                R.fail(f"C16:{fname}:asymmetric", f"{fname}(x,y) = {float(a):.6g} != {fname}(y,x) = {float(b):.6g} (C = {C})", **base)
            s = fn(x, x, num_bins=bins)
            if not float(s) <= float(a) + 1e-6:
                R.fail(f"C16:{fname}:identical-not-minimal", f"{fname}(x,x) = {float(s):.5g} > {fname}(x,y) = {float(a):.5g} (C = {C})", **base)
            if fname == "nmi_loss" and not (-1e-6 <= float(a) <= 2 + 1e-6):
                R.fail("C16:nmi_loss:out-of-range", f"nmi_loss = {float(a):.5g} outside [0, 2]", **base)
            if C > 1:
                # pooling: a multi-channel image is the one-channel image holding the same samples
                xf, yf = x.reshape(N, 1, -1, shape[-1]), y.reshape(N, 1, -1, shape[-1])
                c1 = R.guard(kr, base, lambda: fn(xf, yf, num_bins=bins))
                if c1 is not None and not close(a, c1, 1e-6):
                    R.fail(f"C16:{fname}:multichannel-not-pooled", f"{fname} of a {C}-channel image {float(a):.6g} differs from the pooled one-channel image {float(c1):.6g}", **base)
            for mN in (1, N):
                m = rbin(rng, [mN, 1] + shape[2:], 0.7)
                am = R.guard(f"C16:{fname}:mask-raises", {"mask_shape": list(m.shape), **base}, lambda: fn(x, y, mask=m, num_bins=bins))
                bm = R.guard(f"C16:{fname}:mask-raises", {"mask_shape": list(m.shape), **base}, lambda: fn(y, x, mask=m, num_bins=bins))
                if am is not None and bm is not None:
                    if not close(am, bm, 1e-5):
                        R.fail(f"C16:{fname}:mask-asymmetric", f"masked {fname} is not symmetric (C = {C})", **base)
                    ones = fn(x, y, mask=torch.ones_like(m), num_bins=bins)
                    if not close(ones, a, 1e-6):
                        R.fail(f"C16:{fname}:mask-of-ones", f"an all-ones mask changes {fname} (C = {C})", **base)


def oracle_modules(rng, n, R):
    """module wrappers pass their options through to the functional forms"""
    for it in range(n):
        D, N, C, sp = rshape(rng)
        shape = [N, C] + sp
        x, y = rnd(rng, shape), rnd(rng, shape)
        m = rbin(rng, mask_shape(MASK_FORMS[it % 4], N, C, sp), 0.7)
        if float(m.sum()) == 0:
            m.reshape(-1)[0] = 1.0
        eps = rng.choice([1e-3, 0.25])
        ks = rng.choice([k for k in (3, 5) if k <= min(sp)])
        par = rng.choice([0.25, 2.5])
        norm = rng.choice([0.5, 4.0])
        base = {"x": spec(x), "y": spec(y), "mask": spec(m), "eps": eps, "ks": ks, "param": par, "norm": norm}
        pairs = [
            ("Dice", lambda mm: M.Dice(epsilon=eps)(x, y, mm), lambda mm: L.dice_loss(x, y, weight=mm, epsilon=eps), True),
            ("NCC", lambda mm: M.NCC(epsilon=eps)(x, y, mm), lambda mm: L.ncc_loss(x, y, mask=mm, epsilon=eps), True),
            ("LCC", lambda mm: M.LCC(kernel_size=ks, epsilon=eps)(x, y, mm), lambda mm: L.lcc_loss(x, y, mask=mm, kernel_size=ks, epsilon=eps), True),
            ("WLCC", lambda mm: M.WLCC(kernel_size=ks, epsilon=eps)(x, y, mm), lambda mm: L.wlcc_loss(x, y, mask=mm, kernel_size=ks, epsilon=eps), True),
            ("L1ImageLoss", lambda mm: M.L1ImageLoss(norm=norm)(x, y, mm), lambda mm: L.mae_loss(x, y, mask=mm, norm=norm), True),
            ("L2ImageLoss", lambda mm: M.L2ImageLoss(norm=norm)(x, y, mm), lambda mm: L.mse_loss(x, y, mask=mm, norm=norm), True),
            ("SSD", lambda mm: M.SSD(norm=norm)(x, y, mm), lambda mm: L.ssd_loss(x, y, mask=mm, norm=norm), True),
            ("HuberImageLoss", lambda mm: M.HuberImageLoss(norm=norm, delta=par)(x, y, mm), lambda mm: L.huber_loss(x, y, mask=mm, norm=norm, delta=par), True),
            ("SmoothL1ImageLoss", lambda mm: M.SmoothL1ImageLoss(norm=norm, beta=par)(x, y, mm), lambda mm: L.smooth_l1_loss(x, y, mask=mm, norm=norm, beta=par), True),
        ]
        for name, mod, fun, with_mask in pairs:
            R.tick("modules")
            for mm in ((None, m) if with_mask else (None,)):
                a = R.guard(f"C16:{name}.forward:raises", base, lambda: mod(mm))
                b = None
                try:
                    b = fun(mm)
                except Exception:  # noqa
                    pass
                if a is not None and b is not None and not close(a, b, 1e-6):
                    R.fail(f"C16:{name}.forward:option-not-passed",
                           f"module gives {float(a):.6g}, functional form with the same options {float(b):.6g}", **base)
        # default normalisation factor for every way of constructing a normalised loss (intensities outside [0, 1])
        def mdiff(a_, b_):
            return max(abs(float(a_.max() - b_.min())), abs(float(b_.max() - a_.min())))
        xs, ys = 3 * x - 1, 2 * y + 5
        ctor = {"L1ImageLoss": (M.L1ImageLoss, lambda s_, t_, mm, nn: L.mae_loss(s_, t_, mask=mm, norm=nn)),
                "L2ImageLoss": (M.L2ImageLoss, lambda s_, t_, mm, nn: L.mse_loss(s_, t_, mask=mm, norm=nn)),
                "SSD": (M.SSD, lambda s_, t_, mm, nn: L.ssd_loss(s_, t_, mask=mm, norm=nn)),
                "HuberImageLoss": (M.HuberImageLoss, lambda s_, t_, mm, nn: L.huber_loss(s_, t_, mask=mm, norm=nn)),
                "SmoothL1ImageLoss": (M.SmoothL1ImageLoss, lambda s_, t_, mm, nn: L.smooth_l1_loss(s_, t_, mask=mm, norm=nn))}
        for cname, (cls, fun) in ctor.items():
            for tag, kw, want in (("source", dict(source=xs), mdiff(xs, xs) ** 2), ("target", dict(target=ys), mdiff(ys, ys) ** 2),
                                  ("source+target", dict(source=xs, target=ys), mdiff(xs, ys) ** 2),
                                  ("target,norm=True", dict(target=ys, norm=True), mdiff(ys, ys) ** 2),
                                  ("norm=False", dict(source=xs, target=ys, norm=False), None), ("none", dict(), None)):
                R.tick("modules")
                try:
                    a = cls(**kw)(xs, ys, m)
                    b = fun(xs, ys, m, want)
                    if not close(a, b, 1e-9):
                        R.fail(f"C16:{cname}:default-norm",
                               f"{cname}({tag}) gives {float(a):.6g}; with the normalisation factor max_difference^2 of the given image(s) it is {float(b):.6g}",
                               ctor=tag, **base)
                except Exception as e:  # noqa
                    R.fail(f"C16:{cname}.forward:raises", f"{cname}({tag}) raises {type(e).__name__}: {str(e)[:120]}", **base)
        # default norm of NormalizedPairwiseImageLoss: max_difference(source, target)^2
        R.tick("modules")
        a = R.guard("C16:SSD.forward:raises", base, lambda: M.SSD(x, y)(x, y))
        if a is not None:
            md = max(abs(float(x.max() - y.min())), abs(float(y.max() - x.min())))
            b = L.ssd_loss(x, y) / (md * md)
            if not close(a, b, 1e-6):
                R.fail("C16:NormalizedPairwiseImageLoss:default-norm", f"default norm: {float(a):.6g} vs ssd / max_difference^2 = {float(b):.6g}", **base)
        xm, ym = rnd(rng, [N, 1] + [s + 3 for s in sp], 0, 1), rnd(rng, [N, 1] + [s + 3 for s in sp], 0, 1)
        R.tick("modules")
        try:
            if close(M.NMI(num_bins=16)(xm, ym), M.MI(num_bins=16)(xm, ym), 1e-9):
                R.fail("C16:NMI.forward:option-not-passed", "NMI module returns the value of the MI module", x=spec(xm), y=spec(ym))
            if not M.NMI().normalized or M.MI().normalized:
                R.fail("C16:NMI.forward:option-not-passed", "NMI().normalized / MI().normalized flags are wrong")
        except Exception as e:  # noqa
            R.fail("C16:NMI.forward:raises", f"raises {type(e).__name__}: {str(e)[:120]}")
        for name, mod, fun in (("MI", lambda: M.MI(bins=16)(xm, ym), lambda: L.mi_loss(xm, ym, num_bins=16)),
                               ("NMI", lambda: M.NMI(num_bins=16)(xm, ym), lambda: L.nmi_loss(xm, ym, num_bins=16))):
            R.tick("modules")
            a = R.guard(f"C16:{name}.forward:raises", {}, mod)
            if a is not None and not close(a, fun(), 1e-6):
                R.fail(f"C16:{name}.forward:option-not-passed", "module differs from functional form", x=spec(xm), y=spec(ym))


def oracle(p):
    rng = random.Random(p["seed"])
    n = p["n"]
    R = Rec()
    oracle_similarity(rng, n, R)
    oracle_overlap(rng, n, R)
    oracle_wlcc_masks(rng, max(n // 2, 8), R)
    oracle_tversky_forms(rng, max(n // 4, 6), R)
    oracle_mi(rng, max(n // 4, 4), R)
    oracle_modules(rng, max(n // 2, 8), R)
    # keep the first (smallest) failure per key
    best = {}
    for f in R.fails:
        k = f["key"]
        size = len(json.dumps(f))
        if k not in best or size < best[k][0]:
            best[k] = (size, f)
    return {"fails": [v[1] for v in best.values()], "counts": R.counts, "total_fails": len(R.fails)}


def raises_table():
    """the calls the translator attempts symbolically (tr_units/losses.py: attempt), on the real code"""
    x, y, w = torch.rand(1, 1, 2, 2), torch.rand(1, 1, 2, 2), torch.rand(1, 1, 2, 2)
    calls = {
        "tversky_index_p3_t1": lambda: L.tversky_index(torch.rand(1, 3, 1, 2), torch.rand(1, 1, 1, 2), epsilon=0.1),
        "tversky_index_binary_weight": lambda: L.tversky_index(x, y, weight=w, epsilon=0.1),
        "tversky_loss": lambda: L.tversky_loss(x, y, epsilon=0.1),
        "tversky_loss_gamma_half": lambda: L.tversky_loss(x, y, gamma=0.5, epsilon=0.1),
        "ncc_loss_mask": lambda: L.ncc_loss(x, y, mask=w, epsilon=0.1),
        "dice_score_weight": lambda: L.dice_score(x, y, weight=w, epsilon=0.1),
        "lcc_loss_mask": lambda: L.lcc_loss(x, y, mask=w, kernel_size=3, epsilon=0.1),
    }
    out = {}
    for k, f in calls.items():
        try:
            f()
            out[k] = "Ok"
        except Exception as e:  # noqa
            out[k] = type(e).__name__
    return out


def main():
    p = json.load(sys.stdin)
    fn = p["fn"]
    if fn == "model_cases":
        emit_json(model_cases(p))
    elif fn == "oracle":
        emit_json(oracle(p))
    elif fn == "raises_table":
        emit_json(raises_table())
    else:
        raise SystemExit("unknown fn " + fn)


if __name__ == "__main__":
    main()
