"""C04 -- image operations move voxel data and sampling grid in lock-step."""
import vlib
from vlib import Violation, qc, qc_mat, qc_vec, coq_list

ID = "C04"
GEN_UNITS = ["GridT", "GridCtor", "GridDerive", "ImageOpsT", "SampleT"]
PROPS_FILE = "Props/C04.v"
PROPS_MOD = "Props.C04"
COQ_TARGETS = ["Props/C04.vo", "Base/QcCmp.vo", "Model/ImageOpsQc.vo"]
SOURCES = ["deepali/data/image.py", "deepali/data/flow.py", "deepali/core/image.py", "deepali/core/grid.py"]
TRUSTED = [
    "Coq 8.16.1 kernel + vm_compute",
    "translator (tools/symtorch.py, tools/tr_units/grid.py, gridctor.py, gridderive.py, imageopst.py): ImageBatch methods are run on a duck-typed "
    "stand-in for the tensor subclass (a symbolic tensor carrying grids); F.interpolate is a recorder, F.pad with margins of either sign is "
    "re-implemented in the unit (constant mode), slicing / avg_pool are symtorch's; the internal allclose assertions of Grid._resize are C03's",
    "hand-written data-side model coq/Model/ImageOps.v (per-axis crop / linear interpolation / window mean / correlation and the argument "
    "conventions of core/image.py) and grid-side model coq/Model/GridDerive.v (C03), validated by this run's correspondence on chains",
    "modelled not verified: F.interpolate (linear modes: source index formulas, clamping = border), F.pad (constant), F.avg_pool*d, F.conv*d, "
    "grid_sample (zeros padding) -- validated against torch by the correspondence; the Gaussian taps of downsample's pre-smoothing are oracle "
    "values taken from the implementation (normalisation and symmetry are checked inside Coq)",
]
ASSUMPTIONS = ["'inside the original field of view' = the source index lies in the hull [0, n-1] of the previous stage's sample centres on every "
               "axis (F.interpolate clamps, i.e. does not extrapolate, outside it) and, for smoothing / convolution, the whole stencil lies inside",
               "chains whose intermediate float size lies within 1e-3 of an integer without being one are skipped in the correspondence",
               "reflection / replication padding modes, nearest / cubic resizing and ceil_mode pooling are outside the model"]

TOL = "1 # 5000"


def zl(v):
    return coq_list([f"({int(x)})%Z" for x in v])


def ob(a):
    return "None" if a is None else ("(Some true)" if a else "(Some false)")


def dims(d):
    return "None" if d is None else "(Some " + coq_list([f"{int(i)}%nat" for i in d]) + ")"


def coq_iop(op, D, stage):
    k = op["op"]
    cv = qc(float(op.get("value", 0)))
    kern = qc_vec(stage.get("kernel") or [])
    if k == "conv" and "kernel_nd" in op:
        return f"(IConv{D} {nested(op['kernel_nd'])})"
    if k == "conv":
        return f"(IConv {qc_vec(op['kernel'])})"
    if k == "resize":
        g = f"(OResize {zl(op['size'])} {ob(op.get('ac'))})"
    elif k == "down" and op["levels"] < 0:   # Grid.downsample(levels < 0) doubles the size: same derivation as upsample
        g = f"(OUp {-op['levels']}%nat {dims(op.get('dims'))} {ob(op.get('ac'))})"
    elif k == "down":
        g = f"(ODown {op['levels']}%nat {dims(op.get('dims'))} ({op.get('min_size', 0)})%Z {ob(op.get('ac'))})"
    elif k == "up":
        g = f"(OUp {op['levels']}%nat {dims(op.get('dims'))} {ob(op.get('ac'))})"
    elif k == "resample":
        g = f"(OResample (K:=QcF) {qc_vec(op['spacing'])} (1)%Z)"
    elif k == "crop":
        g = f"(OCrop {zl(num_of(op))})"
    elif k == "pad":
        g = f"(OPad {zl(num_of(op))})"
    elif k == "center_crop":
        g = f"(OCenterCrop {zl(op['size'])})"
    elif k == "center_pad":
        g = f"(OCenterPad {zl(op['size'])})"
    elif k == "narrow":
        g = f"(ONarrow {op['dim']}%nat ({op['start']})%Z ({op['length']})%Z)"
    elif k == "roi":
        g = f"(ORoi {zl(op['start'])} {zl(op['size'])})"
    elif k == "pool":
        ks = op["ks"]
        g = f"(OPool {zl([ks] * D if isinstance(ks, int) else ks)} false)"
    else:
        raise KeyError(k)
    return f"(IGrid (K:=QcF) {g} {cv} {kern})" if False else f"(IGrid {g} {cv} {kern})"


def nested(v):
    return coq_list([nested(x) for x in v]) if isinstance(v, list) else qc(float(v))


def num_of(op):
    """margin=(mx, my, ..) is num=(mx, mx, my, my, ..)"""
    return op["num"] if "num" in op else [m for m in op["margin"] for _ in range(2)]


def coq_state(s):
    return (f"({qc_vec(s['fs'])}, {zl(s['n'])}, {qc_vec(s['s'])}, {qc_vec(s['c'])}, {qc_vec(s['o'])}, {qc_vec(s['cube'])}, "
            f"{'true' if s['ac'] else 'false'})")


def near_integer(x):
    r = abs(x - round(x))
    return 0 < r < 1e-3


def flat(v):
    out = []

    def rec(x):
        if isinstance(x, list):
            for y in x:
                rec(y)
        else:
            out.append(float(x))
    rec(v)
    return out


def correspondence(ctx):
    n = ctx.n(140, 1400)
    cases = vlib.run_impl("c04_impl", {"fn": "gen_chains", "seed": ctx.seed, "n": n, "maxlen": 3})
    res = vlib.run_impl("c04_impl", {"fn": "run_chains", "cases": cases})
    header = ["From Coq Require Import ZArith QArith Qcanon List String Bool.",
              "From DV Require Import Base.Field Base.LinAlg Base.QcInst Base.QcCmp Model.Enums Model.Sampler Model.GridDerive Model.GridDeriveQc "
              "Model.ImageOps Model.ImageOpsQc.",
              "Import ListNotations.", f"Definition tol : Q := {TOL}."]
    items, failures, dist, skipped, nstage = [], [], {}, 0, 0
    for i, (c, r) in enumerate(zip(cases, res)):
        if "error" in r:
            failures.append({"case": brief(c), "impl": r, "why": "valid image batch rejected"})
            continue
        ops, stages = c["ops"], r["stages"]
        if stages and "error" in stages[-1]:
            failures.append({"case": brief(c), "impl": stages[-1], "why": f"implementation raised on {ops[len(stages) - 1]['op']}, which the model defines"})
            ops, stages = ops[:len(stages) - 1], stages[:-1]
        if any(near_integer(x) for st in stages for g in st["grids"] for x in g["fs"]):
            skipped += 1
            continue
        if not ops:
            continue
        D = len(c["grids"][0]["size"])
        bad_count = [st for st in stages if st["ngrids"] != st["nitems"]]
        if bad_count:
            failures.append({"case": brief(c), "why": "number of returned grids differs from the number of images"})
            continue
        for k in range(len(c["grids"])):
            st0 = r["init"][k]
            g0 = f"(mkG (K:=QcF) {qc_vec(st0['fs'])} {qc_vec(st0['s'])} {qc_vec(st0['c'])} {qc_mat(st0['d'])} {'true' if st0['ac'] else 'false'})"
            shape0 = list(reversed(shape_of(c["data"][k])))
            im0 = f"(of_table (K:=QcF) {zl(shape0)} {qc_vec(flat(c['data'][k]))})"
            iops = coq_list([coq_iop(o, D, st) for o, st in zip(ops, stages)])
            exp = coq_list([f"({coq_state(st['grids'][k])}, {zl(st['shape'])}, {qc_vec(st['values'][k])}, "
                            f"{coq_list(['true'] * len(st['values'][k]))})" for st in stages])
            items.append(((i, k), f"stages_ok tol {D} (run_iops {D} {iops} {g0} {im0}) {exp}"))
            nstage += len(stages)
        for o in ops:
            tag = o["op"] + (":negative-levels" if o["op"] == "down" and o["levels"] < 0 else
                             ":gauss" if o["op"] == "down" and o.get("sigma", 0) is None else "")
            dist[tag] = dist.get(tag, 0) + 1
        dist[f"len{len(ops)}"] = dist.get(f"len{len(ops)}", 0) + 1
        dist[f"D{D}:N{len(c['grids'])}:{'ramp' if c['ramp'] else 'random'}"] = dist.get(f"D{D}:N{len(c['grids'])}:{'ramp' if c['ramp'] else 'random'}", 0) + 1
    bad, errs = vlib.run_cases(ctx.scratch, header, items, shard=60, name="cases_c04")
    for e in errs:
        failures.append({"why": "case file did not evaluate (generated definitions missing or ill-typed)", "coq": e[-600:]})
    for (i, k) in bad:
        failures.append({"case": brief(cases[i]), "image": k,
                         "why": "model (grid state, data shape or data values of some stage) differs from the implementation"})
    # the Gaussian taps used as oracle values: normalised and symmetric (checked inside Coq)
    kerns = {tuple(st["kernel"]) for r in res if "stages" in r for st in r["stages"] if st.get("kernel")}
    for kk in kerns:
        lines = header + [f"Definition w : list Qc := {qc_vec(list(kk))}.",
                          "Definition okw : list bool := [qcloser (1 # 100000) (vsum (K:=QcF) w) (q 1 1); vcloser (1 # 1000000) w (rev w)].",
                          'Eval vm_compute in ("FAIL"%string, failing okw).']
        rc, out = vlib.coqc_text("\n".join(lines) + "\n", ctx.scratch, "kern_c04")
        b = vlib.parse_nat_list(out, "FAIL")
        if rc != 0 or b:
            failures.append({"why": "Gaussian taps of downsample are not a normalised symmetric stencil", "kernel": list(kk)})
    return {"evaluations": nstage, "distinct_nontrivial": len({str(c) for c in cases}),
            "rule": "seeded random oriented anisotropic grids (sizes 3..6, 2-D and 3-D), ramp or random dyadic images, batches of 1 or 2 images with "
                    "per-image grids, chains of <= 3 operations among resize / downsample (no smoothing and default Gaussian) / upsample / resample "
                    "/ crop / pad (num and margin forms, either sign, pad value) / center crop / center pad / narrow (also on per-image grids) / region_of_interest (2-D and 3-D) / avg_pool / conv (separable 1-D and n-D kernel tensors), incl. resample with unchanged rounded shape, run "
                    "through the ImageBatch methods; after EVERY operation the grid state (float size, integer size, spacing, center, origin, cube "
                    "extent, flag), the data shape and every data value are compared with the executable model inside Coq; evaluations = stages "
                    f"compared; {skipped} chains skipped (float size within 1e-3 of an integer)",
            "samples": [{"case": brief(cases[i]), "first_values": (res[i].get("stages") or [{}])[0].get("values", [[]])[0][:4]} for i in range(min(3, len(cases)))],
            "failures": failures, "distribution": dist,
            "tolerances": {"grid state and data values": "2e-4 * (1 + |model|) (grid attributes are float32)"}}


def shape_of(v):
    s = []
    while isinstance(v, list):
        s.append(len(v))
        v = v[0]
    return s


def brief(c):
    return {"grids": c["grids"], "ops": c["ops"], "ramp": c.get("ramp"), "data_shape": shape_of(c["data"])}


def search(ctx, broken, corr_failures):
    n = ctx.n(120, 1200)
    r = vlib.run_impl("c04_impl", {"fn": "oracle", "seed": ctx.seed, "n": n, "maxlen": 3}, timeout=1500)
    ctx.notes.append(f"implementation-side property evaluation (ramp images a.x+b and validity masks through chains of <= 3 operations incl. pyramid "
                     f"levels and sampling on another grid, per-image grids, exactness of index-only operations, flow fields, argument-form "
                     f"probes): {r['counts']}")
    out, seen = [], set()
    for f in r["fails"]:
        key = f["key"]
        if key.startswith("C04:ImageBatch.narrow:per-image-grids"):
            key = "C04:ImageBatch.narrow:per-image-grids"
        if key in seen:
            continue
        seen.add(key)
        out.append(Violation(key=key, what=f["what"], replay={"oracle": "c04", "seed": ctx.seed, "n": n, "failure": dict(f, key=key)}))
    return out


KNOWN = ()


def explains(broken_item, found):
    new = [v for v in found if v.key not in KNOWN]
    if not new:
        return False
    b = broken_item.lower()
    keys = " ".join(v.key for v in new).lower()
    for word in ("resize", "resample", "downsample", "upsample", "crop", "pad", "narrow", "pool", "conv", "region_of_interest", "pyramid", "sample"):
        if word in b and word in keys:
            return True
    # any new concrete violation is attributed to broken obligations without a more specific cause
    return True


def replay(ctx, data):
    f = data.get("failure") or {}
    r = vlib.run_impl("c04_impl", {"fn": "oracle", "seed": data.get("seed", ctx.seed), "n": data.get("n", 120), "maxlen": 3}, timeout=1500)
    for g in r["fails"]:
        key = g["key"]
        if key.startswith("C04:ImageBatch.narrow:per-image-grids"):
            key = "C04:ImageBatch.narrow:per-image-grids"
        if key == f.get("key"):
            return g["what"]
    return None


MANIFEST_ENTRY = {
    "text": "Theorems over every field of characteristic 0: (1) lockstep_index_map for D in {2,3}, all grids, both align_corners conventions and "
            "every continuous index: the grid returned by the resize family (resize, downsample, upsample, pyramid levels; spacing formulas generated "
            "from Grid._resize), by resample and by pooling puts index J where the old grid puts the data path's source index of J (F.interpolate's "
            "formulas, concentric-lattice sampling, window centroid); (2) interp_affine_exact per axis for images of ANY number of axes and sizes: "
            "linear interpolation, window means of every length (induction) and every normalised zero-first-moment stencil reproduce index-affine "
            "functions inside the field of view; (3) ramp_preserved for resize family / resample in 2-D and 3-D (a.x+b on the old grid is returned as "
            "a.x+b on the new grid), pooling of index-affine images; (4) index_ops_exact: crop, pad (2-D, 3-D crop), center crop / pad incl. the // 2 "
            "roundings: original values at shifted indices, pad value elsewhere, and the derived grid (C03's origin route) puts every retained index at "
            "its original world position; shape_agrees for crop / resize; (5) chains of any length by induction over an abstract step relation. Tie: "
            "Gen/ImageOpsT.v traces the ImageBatch methods together with the grid methods they call (data provenance, returned grid, what reaches "
            "F.interpolate) and Coq re-proves lock-step on every traced call; correspondence: executable model of grid AND data vs "
            "Image/ImageBatch methods after every operation of chains <= 3, per-image grids, ramp and random images.",
    "note": "Chains: proved for chains of per-axis steps of ANY length and ANY number of axes (C04_steps_affine, C04_coef_phi), at world level "
            "for D in {2,3} (C04_ramp_chain_world) with lock-step of the derived grids composing along the chain (C04_lock_trans, C04_lock_resize / "
            "resample / crop / pool); the data operations of the executable model are proved to BE those chains (C04_d_*_steps*; exact for the "
            "crop family and pooling, same shape and values for the interpolating ones). shape_agrees is proved for crop, pad, center crop / pad, "
            "narrow, region of interest, pooling, resize, resample, downsample (all axes, no minimum size, Qc instance, any D and level count) and "
            "upsample with integral float size. Partial: Gaussian pre-smoothing enters through oracle tap values + the stencil lemma; downsample with "
            "a dims subset / positive min_size and 3-D pad / roi shape lemmas are compared in the correspondence only; float rounding is outside the "
            "exact model. All defects found on the original tree (same-shape resample, fractional-size upsample, avg_pool tuple order, narrow on per-image "
            "grids, 2-D region_of_interest, n-D conv kernels, one-grid sampling of N>1 batches) are repaired in /repo and are now part of the positive "
            "statements, traced cases and correspondence; their oracle keys are kept as regression probes. Trusted: Coq kernel, vm_compute, translator, torch kernel semantics (validated by correspondence).",
}
