(* Border-padded multilinear sampling of images that are affine functions of their own normalised coordinates
   returns the affine function at the sample position, for EVERY image size, as long as the position's cell lies
   inside the sample hull (good_cell).  Abstract field, arbitrary floor function. *)
From Coq Require Import ZArith List Field Ring Lia Bool.
From DV Require Import Base.Field Base.FieldFacts Base.LinAlg Base.Tactics Model.Sampler Model.Flow Proofs.SamplerFacts.
Import ListNotations.
Local Open Scope fld_scope.

Section Interp.
Variable K : fld.
Hypothesis Kf : is_field K.
Hypothesis Kc : char0 K.
Add Field KFI : Kf.
Variable floorK : K -> Z.

Lemma zseq_length n : length (zseq n) = Z.to_nat n.
Proof. unfold zseq. now rewrite map_length, seq_length. Qed.

Lemma zlen_map_zseq {A} (f : Z -> A) n : (0 <= n)%Z -> zlen (map f (zseq n)) = n.
Proof. intro H. unfold zlen. rewrite map_length, zseq_length. lia. Qed.

Lemma nth_zseq (j : nat) n d : (j < Z.to_nat n)%nat -> nth j (zseq n) d = Z.of_nat j.
Proof.
  intro H. unfold zseq. rewrite (nth_indep _ d (Z.of_nat 0%nat)) by (rewrite map_length, seq_length; lia).
  rewrite map_nth, seq_nth by lia. reflexivity.
Qed.

Lemma nth_map_zseq {A} (f : Z -> A) n j d : (0 <= j < n)%Z -> nth (Z.to_nat j) (map f (zseq n)) d = f j.
Proof.
  intro H. rewrite (nth_indep _ d (f 0%Z)) by (rewrite map_length, zseq_length; lia).
  rewrite map_nth, nth_zseq by lia. f_equal. lia.
Qed.

Lemma in_zseq j n : In j (zseq n) -> (0 <= j < n)%Z.
Proof. unfold zseq. rewrite in_map_iff. intros [i [<- Hi]]. apply in_seq in Hi. lia. Qed.

Lemma getp_border_tab {A} (f : Z -> A) n i d : (1 <= n)%Z ->
  getp PBorder d (map f (zseq n)) i = f (clampz i n).
Proof.
  intro H. unfold getp. rewrite zlen_map_zseq by lia. apply nth_map_zseq. unfold clampz. lia.
Qed.

Lemma hd_map_zseq {A} (f : Z -> A) n d : (1 <= n)%Z -> hd d (map f (zseq n)) = f 0%Z.
Proof.
  intro H. unfold zseq. destruct (Z.to_nat n) eqn:E; [lia|]. reflexivity.
Qed.

Lemma get1_tab1 n f x : (0 <= x < n)%Z -> get1 (tab1 (K:=K) n f) x = f x.
Proof. intro H. unfold get1, tab1. now apply nth_map_zseq. Qed.
Lemma get2_tab2 nx ny f x y : (0 <= x < nx)%Z -> (0 <= y < ny)%Z -> get2 (tab2 (K:=K) nx ny f) x y = f x y.
Proof. intros Hx Hy. unfold get2, tab2. rewrite nth_map_zseq by lia. exact (get1_tab1 nx (fun x => f x y) x Hx). Qed.
Lemma get3_tab3 nx ny nz f x y z : (0 <= x < nx)%Z -> (0 <= y < ny)%Z -> (0 <= z < nz)%Z ->
  get3 (tab3 (K:=K) nx ny nz f) x y z = f x y z.
Proof. intros Hx Hy Hz. unfold get3, tab3. rewrite nth_map_zseq by lia. exact (get2_tab2 nx ny (fun x y => f x y z) x y Hx Hy). Qed.

Lemma tab1_ext n (f g : Z -> K) : (forall x, (0 <= x < n)%Z -> f x = g x) -> tab1 n f = tab1 n g.
Proof. intro H. unfold tab1. apply map_ext_in. intros x Hx. apply H. now apply in_zseq. Qed.
Lemma tab2_ext nx ny (f g : Z -> Z -> K) :
  (forall x y, (0 <= x < nx)%Z -> (0 <= y < ny)%Z -> f x y = g x y) -> tab2 nx ny f = tab2 nx ny g.
Proof.
  intro H. unfold tab2. apply map_ext_in. intros y Hy. apply tab1_ext. intros x Hx. apply H; [lia|now apply in_zseq].
Qed.
Lemma tab3_ext nx ny nz (f g : Z -> Z -> Z -> K) :
  (forall x y z, (0 <= x < nx)%Z -> (0 <= y < ny)%Z -> (0 <= z < nz)%Z -> f x y z = g x y z) ->
  tab3 nx ny nz f = tab3 nx ny nz g.
Proof.
  intro H. unfold tab3. apply map_ext_in. intros z Hz. apply tab2_ext. intros x y Hx Hy. apply H; [lia|lia|now apply in_zseq].
Qed.

Lemma of_Z_succ (i : Z) : @of_Z K (i + 1) = of_Z i + 1.
Proof. rewrite (of_Z_add K Kf). cbn [of_Z of_pos]. reflexivity. Qed.

(* the one-dimensional core: lerp between the clamped neighbours of cell i of a sequence that is affine on [0, n) *)
Lemma lerp_clamped_affine (n : Z) (g : Z -> K) (a b : K) (i : Z) (t : K) :
  (0 <= i)%Z -> ((i <= n - 2)%Z \/ (i = n - 1)%Z /\ t = 0) ->
  (forall j, (0 <= j < n)%Z -> g j = a * of_Z j + b) ->
  lerp (g (clampz i n)) (g (clampz (i + 1) n)) t = a * (of_Z i + t) + b.
Proof.
  intros H0 [H1 | [H1 Ht]] Hg; unfold lerp.
  - replace (clampz i n) with i by (unfold clampz; lia).
    replace (clampz (i + 1) n) with (i + 1)%Z by (unfold clampz; lia).
    rewrite !Hg by lia. rewrite of_Z_succ. ring.
  - subst t. replace (clampz i n) with i by (unfold clampz; lia).
    replace (clampz (i + 1) n) with i by (unfold clampz; lia).
    rewrite !Hg by lia. ring.
Qed.

(* border-padded interpolation of tabulated images reads the tabulated function at clamped indices *)
Lemma interp1_tab n f i t : (1 <= n)%Z ->
  interp1 (K:=K) PBorder (tab1 n f) i t = lerp (f (clampz i n)) (f (clampz (i + 1) n)) t.
Proof. intro H. unfold interp1, tab1. now rewrite !getp_border_tab. Qed.

Lemma interp2_tab nx ny f ix iy tx ty : (1 <= nx)%Z -> (1 <= ny)%Z ->
  interp2 (K:=K) PBorder (tab2 nx ny f) ix iy tx ty =
  lerp (lerp (f (clampz ix nx) (clampz iy ny)) (f (clampz (ix + 1) nx) (clampz iy ny)) tx)
       (lerp (f (clampz ix nx) (clampz (iy + 1) ny)) (f (clampz (ix + 1) nx) (clampz (iy + 1) ny)) tx) ty.
Proof.
  intros Hx Hy. unfold interp2, tab2. rewrite !getp_border_tab by lia. now rewrite !interp1_tab.
Qed.

Lemma interp3_tab nx ny nz f ix iy iz tx ty tz : (1 <= nx)%Z -> (1 <= ny)%Z -> (1 <= nz)%Z ->
  interp3 (K:=K) PBorder (tab3 nx ny nz f) ix iy iz tx ty tz =
  lerp (interp2 PBorder (tab2 nx ny (fun x y => f x y (clampz iz nz))) ix iy tx ty)
       (interp2 PBorder (tab2 nx ny (fun x y => f x y (clampz (iz + 1) nz))) ix iy tx ty) tz.
Proof. intros Hx Hy Hz. unfold interp3, tab3. now rewrite !getp_border_tab by lia. Qed.

(* normalised coordinates are affine in the index, and un-normalisation inverts them *)
Lemma nm1_nz n : (2 <= n)%Z -> @of_Z K n - 1 <> 0.
Proof.
  intro H. replace (of_Z n - 1) with (@of_Z K (n - 1)).
  - apply (of_Z_nz K Kf Kc). lia.
  - rewrite (of_Z_sub K Kf). reflexivity.
Qed.
Lemma n_nz n : (2 <= n)%Z -> @of_Z K n <> 0.
Proof. intro H. apply (of_Z_nz K Kf Kc). lia. Qed.

Lemma ncoordK_unnorm ac n (y : K) : (2 <= n)%Z -> ncoordK ac n (unnorm ac n y) = y.
Proof.
  intro H. unfold ncoordK, unnorm. replace (n =? 1)%Z with false by (symmetry; apply Z.eqb_neq; lia).
  pose proof (nm1_nz n H). pose proof (n_nz n H). pose proof (two_nz K Kf Kc).
  destruct ac; field; auto.
Qed.

Definition nslope (ac : bool) (n : Z) : K := if ac then (1 + 1) / (of_Z n - 1) else (1 + 1) / of_Z n.
Definition noffs (ac : bool) (n : Z) : K := if ac then - (1) else 1 / of_Z n - 1.
Lemma ncoordK_affine ac n (p : K) : (2 <= n)%Z -> ncoordK ac n p = nslope ac n * p + noffs ac n.
Proof.
  intro H. unfold ncoordK, nslope, noffs. replace (n =? 1)%Z with false by (symmetry; apply Z.eqb_neq; lia).
  pose proof (nm1_nz n H). pose proof (n_nz n H).
  destruct ac; field; auto.
Qed.

(* ---- grid_sample of an image that is affine in its own normalised coordinates ---- *)
Lemma cell_recompose (p : K) i t : cell floorK p = (i, t) -> of_Z i + t = p.
Proof. unfold cell. intro E. injection E as Ei Et. subst. ring. Qed.

Lemma gs1_affine ac n (a b p : K) : (2 <= n)%Z -> good_cell floorK n (unnorm ac n p) ->
  grid_sample1 floorK PBorder ac (tab1 n (fun x => a * ncoord ac n x + b)) p = a * p + b.
Proof.
  intros Hn Hg. unfold grid_sample1, tab1. rewrite zlen_map_zseq by lia. fold (tab1 n (fun x => a * ncoord ac n x + b)).
  unfold sample1. unfold good_cell in Hg. destruct (cell floorK (unnorm ac n p)) as [i t] eqn:E.
  destruct Hg as [H0 H1]. rewrite interp1_tab by lia.
  pose proof (lerp_clamped_affine n (fun x => a * ncoord ac n x + b) (a * nslope ac n) (a * noffs ac n + b) i t H0 H1) as L.
  cbv beta in L. rewrite L.
  - rewrite (cell_recompose _ _ _ E).
    transitivity (a * (nslope ac n * unnorm ac n p + noffs ac n) + b); [ring|].
    rewrite <- ncoordK_affine by lia. now rewrite ncoordK_unnorm.
  - intros j Hj. unfold ncoord. rewrite ncoordK_affine by lia. ring.
Qed.

Lemma gs2_affine ac nx ny (a b c px py : K) : (2 <= nx)%Z -> (2 <= ny)%Z ->
  good_cell floorK nx (unnorm ac nx px) -> good_cell floorK ny (unnorm ac ny py) ->
  grid_sample2 floorK PBorder ac (tab2 nx ny (fun x y => a * ncoord ac nx x + b * ncoord ac ny y + c)) px py
  = a * px + b * py + c.
Proof.
  intros Hnx Hny Hgx Hgy. unfold grid_sample2.
  replace (zlen (tab2 nx ny _)) with ny by (unfold tab2; now rewrite zlen_map_zseq by lia).
  replace (zlen (hd [] (tab2 nx ny _))) with nx
    by (unfold tab2; rewrite hd_map_zseq by lia; unfold tab1; now rewrite zlen_map_zseq by lia).
  unfold sample2. unfold good_cell in Hgx, Hgy.
  destruct (cell floorK (unnorm ac nx px)) as [ix tx] eqn:Ex. destruct (cell floorK (unnorm ac ny py)) as [iy ty] eqn:Ey.
  destruct Hgx as [Hx0 Hx1]. destruct Hgy as [Hy0 Hy1].
  rewrite interp2_tab by lia.
  (* inner lerps along x, for both rows *)
  assert (Hrow : forall r, (0 <= r < ny)%Z ->
            lerp (a * ncoord ac nx (clampz ix nx) + b * ncoord ac ny r + c)
                 (a * ncoord ac nx (clampz (ix + 1) nx) + b * ncoord ac ny r + c) tx
            = (b * nslope ac ny) * of_Z r + (a * px + b * noffs ac ny + c)).
  { intros r Hr.
    pose proof (lerp_clamped_affine nx (fun x => a * ncoord ac nx x + b * ncoord ac ny r + c)
               (a * nslope ac nx) (a * noffs ac nx + b * ncoord ac ny r + c) ix tx Hx0 Hx1) as L.
    cbv beta in L. rewrite L.
    - rewrite (cell_recompose _ _ _ Ex).
      transitivity (a * (nslope ac nx * unnorm ac nx px + noffs ac nx) + b * ncoord ac ny r + c); [ring|].
      rewrite <- ncoordK_affine by lia. rewrite ncoordK_unnorm by lia.
      unfold ncoord. rewrite (ncoordK_affine ac ny) by lia. ring.
    - intros j Hj. unfold ncoord. rewrite (ncoordK_affine ac nx) by lia. ring. }
  pose proof (lerp_clamped_affine ny
             (fun r => lerp (a * ncoord ac nx (clampz ix nx) + b * ncoord ac ny r + c)
                            (a * ncoord ac nx (clampz (ix + 1) nx) + b * ncoord ac ny r + c) tx)
             (b * nslope ac ny) (a * px + b * noffs ac ny + c) iy ty Hy0 Hy1 Hrow) as L.
  cbv beta in L. rewrite L.
  rewrite (cell_recompose _ _ _ Ey).
  transitivity (a * px + b * (nslope ac ny * unnorm ac ny py + noffs ac ny) + c); [ring|].
  rewrite <- ncoordK_affine by lia. now rewrite ncoordK_unnorm by lia.
Qed.

Lemma gs3_affine ac nx ny nz (a b c d px py pz : K) : (2 <= nx)%Z -> (2 <= ny)%Z -> (2 <= nz)%Z ->
  good_cell floorK nx (unnorm ac nx px) -> good_cell floorK ny (unnorm ac ny py) -> good_cell floorK nz (unnorm ac nz pz) ->
  grid_sample3 floorK PBorder ac
    (tab3 nx ny nz (fun x y z => a * ncoord ac nx x + b * ncoord ac ny y + c * ncoord ac nz z + d)) px py pz
  = a * px + b * py + c * pz + d.
Proof.
  intros Hnx Hny Hnz Hgx Hgy Hgz. unfold grid_sample3.
  replace (zlen (tab3 nx ny nz _)) with nz by (unfold tab3; now rewrite zlen_map_zseq by lia).
  replace (zlen (hd [] (tab3 nx ny nz _))) with ny
    by (unfold tab3; rewrite hd_map_zseq by lia; unfold tab2; now rewrite zlen_map_zseq by lia).
  replace (zlen (hd [] (hd [] (tab3 nx ny nz _)))) with nx
    by (unfold tab3; rewrite hd_map_zseq by lia; unfold tab2; rewrite hd_map_zseq by lia; unfold tab1;
        now rewrite zlen_map_zseq by lia).
  unfold sample3.
  pose proof Hgz as Hgz'. unfold good_cell in Hgz'.
  destruct (cell floorK (unnorm ac nx px)) as [ix tx] eqn:Ex. destruct (cell floorK (unnorm ac ny py)) as [iy ty] eqn:Ey.
  destruct (cell floorK (unnorm ac nz pz)) as [iz tz] eqn:Ez.
  destruct Hgz' as [Hz0 Hz1].
  rewrite interp3_tab by lia.
  (* each slice is a 2-D affine image: reuse the 2-D result through sample2 *)
  assert (Hsl : forall r, (0 <= r < nz)%Z ->
            interp2 PBorder (tab2 nx ny (fun x y => a * ncoord ac nx x + b * ncoord ac ny y + c * ncoord ac nz r + d)) ix iy tx ty
            = (c * nslope ac nz) * of_Z r + (a * px + b * py + c * noffs ac nz + d)).
  { intros r Hr.
    pose proof (gs2_affine ac nx ny a b (c * ncoord ac nz r + d) px py Hnx Hny Hgx Hgy) as G2.
    unfold grid_sample2 in G2.
    replace (zlen (tab2 nx ny _)) with ny in G2 by (unfold tab2; now rewrite zlen_map_zseq by lia).
    replace (zlen (hd [] (tab2 nx ny _))) with nx in G2
      by (unfold tab2; rewrite hd_map_zseq by lia; unfold tab1; now rewrite zlen_map_zseq by lia).
    unfold sample2 in G2. rewrite Ex, Ey in G2.
    rewrite (tab2_ext nx ny _ (fun x y => a * ncoord ac nx x + b * ncoord ac ny y + (c * ncoord ac nz r + d)))
      by (intros; ring).
    rewrite G2. unfold ncoord. rewrite (ncoordK_affine ac nz) by lia. ring. }
  pose proof (lerp_clamped_affine nz
             (fun r => interp2 PBorder (tab2 nx ny (fun x y => a * ncoord ac nx x + b * ncoord ac ny y + c * ncoord ac nz r + d)) ix iy tx ty)
             (c * nslope ac nz) (a * px + b * py + c * noffs ac nz + d) iz tz Hz0 Hz1 Hsl) as L.
  cbv beta in L. rewrite L.
  rewrite (cell_recompose _ _ _ Ez).
  transitivity (a * px + b * py + c * (nslope ac nz * unnorm ac nz pz + noffs ac nz) + d); [ring|].
  rewrite <- ncoordK_affine by lia. now rewrite ncoordK_unnorm by lia.
Qed.
End Interp.
Arguments tab1_ext {K}. Arguments tab2_ext {K}. Arguments tab3_ext {K}.
Arguments get1_tab1 {K}. Arguments get2_tab2 {K}. Arguments get3_tab3 {K}.
