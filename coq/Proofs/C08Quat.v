From Coq Require Import ZArith List Field Ring.
From DV Require Import Base.Field Base.FieldFacts Base.LinAlg Base.Tactics Model.Enums Model.Rotation Gen.Quat.
Import ListNotations.
Local Open Scope fld_scope.

Section Proofs.
Variable K : fld.
Hypothesis Kf : is_field K.
Add Field KF : Kf.

Lemma K1nz : (1 : K) <> 0.
Proof. destruct Kf as [_ H1 _ _]. exact H1. Qed.
Hint Resolve K1nz : core.
Ltac side := repeat split; auto.

(* polynomial form in the unit quaternion u = q / n *)
Definition unit_quat_matrix (w x y z : K) : list (list K) :=
  let t := (1 + 1 : K) in
  [[1 - t * (y * y + z * z); t * (x * y - z * w); t * (x * z + y * w)];
   [t * (x * y + z * w); 1 - t * (x * x + z * z); t * (y * z - x * w)];
   [t * (x * z - y * w); t * (y * z + x * w); 1 - t * (x * x + y * y)]].

Lemma quat_matrix_unit (n w x y z : K) : n <> 0 ->
  gen_quat_matrix n w x y z = unit_quat_matrix (w / n) (x / n) (y / n) (z / n).
Proof. intro Hn. fcbv. list_eq; field; side. Qed.

Lemma unit_quat_rotation (w x y z : K) :
  w * w + x * x + y * y + z * z = 1 -> is_rotation 3 (unit_quat_matrix w x y z).
Proof.
  intro H. assert (Hw : w * w = 1 - x * x - y * y - z * z) by (rewrite <- H; ring).
  repeat split; fcbv; list_eq; ring [Hw].
Qed.

Lemma quat_rotation (n w x y z : K) :
  n <> 0 -> n * n = gen_quat_norm2 w x y z -> is_rotation 3 (gen_quat_matrix n w x y z).
Proof.
  intros Hn Hnn. rewrite quat_matrix_unit by assumption. apply unit_quat_rotation.
  unfold gen_quat_norm2 in Hnn.
  assert (Hnn0 : n * n <> 0).
  { intro E. apply Hn. transitivity (n * n / n); [field; side | rewrite E; field; side]. }
  transitivity ((w * w + x * x + y * y + z * z) / (n * n)); [field; side|].
  rewrite <- Hnn. field; side.
Qed.

Lemma quat_sign (n w x y z : K) :
  gen_quat_matrix n (- w) (- x) (- y) (- z) = gen_quat_matrix n w x y z.
Proof. fcbv. list_eq; unfold fdiv; rewrite ?(Fdiv_def Kf); ring. Qed.

Lemma quat_scale (k n w x y z : K) : k <> 0 -> n <> 0 ->
  gen_quat_matrix (k * n) (k * w) (k * x) (k * y) (k * z) = gen_quat_matrix n w x y z.
Proof. intros Hk Hn. fcbv. list_eq; field; side. Qed.

Lemma quat_identity : gen_quat_matrix 1 1 0 0 0 = eye (K:=K) 3.
Proof. fcbv. list_eq; field; side. Qed.

(* rotation_matrix_to_quaternion: in every branch of its case analysis the four numerators are
   4 * pivot * (w, x, y, z) and the square-root argument is 4 * pivot^2 (eps = 0), where (w,x,y,z) is a unit
   quaternion of the input rotation and pivot its component selected by the branch -- so the result
   numerators / (2 sqrt(arg)) is +-(w, x, y, z), the same rotation (quat_sign) *)
Definition m2q_spec (p w x y z : K) : list K := [(1+1)*(1+1) * p * w; (1+1)*(1+1) * p * x; (1+1)*(1+1) * p * y; (1+1)*(1+1) * p * z].

Lemma m2q_branches_sound (w x y z : K) :
  w * w + x * x + y * y + z * z = 1 ->
  let M := unit_quat_matrix w x y z in
  gen_m2q_num_0 0 M = m2q_spec w w x y z /\ gen_m2q_arg_0 0 M = (1+1)*(1+1) * w * w /\
  gen_m2q_num_1 0 M = m2q_spec x w x y z /\ gen_m2q_arg_1 0 M = (1+1)*(1+1) * x * x /\
  gen_m2q_num_2 0 M = m2q_spec y w x y z /\ gen_m2q_arg_2 0 M = (1+1)*(1+1) * y * y /\
  gen_m2q_num_3 0 M = m2q_spec z w x y z /\ gen_m2q_arg_3 0 M = (1+1)*(1+1) * z * z /\
  (gen_m2q_pivot_0, gen_m2q_pivot_1, gen_m2q_pivot_2, gen_m2q_pivot_3) = (0, 1, 2, 3)%nat.
Proof.
  intros H M. assert (Hw : w * w = 1 - x * x - y * y - z * z) by (rewrite <- H; ring).
  repeat split; fcbv; list_eq; ring [Hw].
Qed.
End Proofs.
