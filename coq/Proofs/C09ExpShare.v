(* C09 -- with a private ExpFlow per grid_ every transform exponentiates with the align_corners flag of
   its own grid after ANY history of constructions, shallow copies, grid changes (in place or functional)
   and inversions; writing into the shared module (the code before 5d5a4a7) breaks this. *)
From Coq Require Import List Bool Arith Lia.
From DV Require Import Model.ExpShare.
Import ListNotations.

Lemma xreplace_length {A} (l : list A) n x : length (xreplace n x l) = length l.
Proof. revert n. induction l; intros [|n]; cbn; auto. Qed.
Lemma Forall_xreplace {A} (Q : A -> Prop) l n x : Forall Q l -> Q x -> Forall Q (xreplace n x l).
Proof. revert n. induction l; intros [|n] H Hx; cbn; auto; inversion H; subst; constructor; auto. Qed.
Lemma nth_error_app_l {A} (l : list A) x n y : nth_error l n = Some y -> nth_error (l ++ [x]) n = Some y.
Proof. revert n. induction l; intros [|n] H; cbn in *; try discriminate; auto. Qed.
Lemma nth_error_app_new {A} (l : list A) x : nth_error (l ++ [x]) (length l) = Some x.
Proof. induction l; cbn; auto. Qed.

Lemma cons_grow s f : xconsistent s -> Forall (fun ob => nth_error (xexps s ++ [f]) (x_exp ob) = Some (x_align ob)) (xobjs s).
Proof. unfold xconsistent. intro H. eapply Forall_impl; [|exact H]. intros ob E. apply nth_error_app_l. exact E. Qed.

Lemma cons_get s o ob : xconsistent s -> nth_error (xobjs s) o = Some ob -> nth_error (xexps s) (x_exp ob) = Some (x_align ob).
Proof. unfold xconsistent. rewrite Forall_forall. intros H E. apply H. eapply nth_error_In; eauto. Qed.
Lemma cons_push s ob : xconsistent s -> nth_error (xexps s) (x_exp ob) = Some (x_align ob) -> xconsistent (mkXS (xobjs s ++ [ob]) (xexps s)).
Proof. unfold xconsistent. cbn. intros H E. apply Forall_app. split; auto. Qed.

Lemma xgrid_consistent s o a : xconsistent s -> xconsistent (xgrid true s o a).
Proof.
  intro H. unfold xgrid. destruct (nth_error (xobjs s) o); auto.
  unfold xconsistent. cbn. apply Forall_xreplace; [apply cons_grow; auto|]. cbn. apply nth_error_app_new.
Qed.

Theorem xstep_consistent s x : xconsistent s -> xconsistent (xstep true s x).
Proof.
  intro H. destruct x; cbn.
  - unfold xconsistent. cbn. apply Forall_app. split; [apply cons_grow; auto|]. constructor; auto. cbn. apply nth_error_app_new.
  - destruct (nth_error (xobjs s) o) eqn:E; auto. apply cons_push; auto. eapply cons_get; eauto.
  - apply xgrid_consistent; auto.
  - destruct (nth_error (xobjs s) o) eqn:E; auto. apply xgrid_consistent. apply cons_push; auto. eapply cons_get; eauto.
  - destruct (nth_error (xobjs s) o) eqn:E; auto. unfold xconsistent. cbn.
    apply Forall_app. split; [apply cons_grow; auto|]. constructor; auto. cbn. rewrite nth_error_app_new. f_equal.
    pose proof (cons_get s o x H E) as Hx. apply nth_error_nth with (d := false) in Hx. exact Hx.
Qed.

Theorem exp_flag_consistent_after_any_history (h : list xop) : xconsistent (xrun true h).
Proof.
  unfold xrun. assert (G : forall s, xconsistent s -> xconsistent (fold_left (xstep true) h s)).
  { induction h as [|x h IH]; intros s Hs; cbn; auto. apply IH. apply xstep_consistent; auto. }
  apply G. constructor.
Qed.

(* the code before 5d5a4a7: the receiver of t.grid(g_other_flag) is left with the flag of the copy's grid *)
Lemma shared_module_breaks_consistency :
  xconsistentb (xrun false [XNew false; XGridCopy 0 true]) = false /\
  xconsistentb (xrun true [XNew false; XGridCopy 0 true]) = true.
Proof. vm_compute. split; reflexivity. Qed.

From DV Require Import Gen.TState Model.TransformCfg.
Lemma gen_private_exp_true : gen_private_exp = true.
Proof. vm_compute. reflexivity. Qed.
Theorem exp_flag_consistent_gen (h : list xop) : xconsistent (xrun gen_private_exp h).
Proof. rewrite gen_private_exp_true. apply exp_flag_consistent_after_any_history. Qed.
