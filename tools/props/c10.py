"""C10 -- flow fields mean the same displacement in every vector representation."""
import itertools

import vlib
from vlib import Violation, qc, qc_vec, qc_mat, coq_list
from props.c01 import _rand_grid
from props.c11 import qc_nested, rand_field, _flat

ID = "C10"
GEN_UNITS = ["GridT", "FlowAlg", "FlowFieldsT", "PointsetNorm"]
PROPS_FILE = "Props/C10.v"
PROPS_MOD = "Props.C10"
COQ_TARGETS = ["Props/C10.vo"]
SOURCES = ["deepali/data/flow.py", "deepali/core/grid.py", "deepali/core/flow.py", "deepali/core/pointset.py", "deepali/data/image.py"]
TRUSTED = [
    "Coq 8.16.1 kernel + vm_compute",
    "translator: Gen/GridT.v (Grid.transform / transform_vectors closed forms, unit of C01) and Gen/FlowAlg.v (expv skeleton, C11)",
    "model of data/flow.py (FlowFields.axes / exp / sample / warp_image: Model/FlowRepr.v): its choice points are regenerated from "
    "the source by tracing the methods with a stub ImageBatch base (Gen/FlowFields.v) and proved equal; values tied by correspondence; "
    "FlowFields.sample = resample every channel at the target grid's points mapped into the source cube + vector re-scaling (sample_item)",
    "modelled not verified: torch.nn.functional.grid_sample (Model/Sampler.v), float rounding (float32 grid attributes)",
]
ASSUMPTIONS = [
    "FlowFields.sample: the whole method (data resampling + vector re-scaling) is modelled (sample_item), tied by correspondence, and "
    "proved to commute with representation changes for D in {2,3}",
    "the image warped by warp_image lives on the same lattice as the flow field (as the code assumes)",
]
AXN = ["GRID", "CUBE", "CUBE_CORNERS", "WORLD"]
HEADER = ["From Coq Require Import ZArith QArith Qcanon List String Bool.",
          "From DV Require Import Base.Field Base.LinAlg Base.QcInst Base.QcCmp Model.Enums Model.Homog Model.Grid Model.Sampler Model.SamplerQc "
          "Model.Flow Model.FlowQc Model.FlowRepr Gen.GridT Gen.PointsetNorm.",
          "Import ListNotations.",
          "Definition tol : Q := 2 # 100000.", "Definition tolS : Q := 3 # 10000.",
          "Definition mkg (n s c : list Qc) (d : list (list Qc)) : @gridf QcF :=",
          "  (fun i => nth i n (q 1 1), fun i => nth i s (q 1 1), fun i => nth i c (q 0 1), fun i j => nth j (nth i d []) (q 0 1)).",
          "Definition vclose_all (a b : list (list Qc)) : bool := all2 (vcloser tol) a b."]


def small_grid(rng, D, nmax):
    g = _rand_grid(rng, D)
    g["size"] = [rng.randint(2, nmax) for _ in range(D)]
    return g


def gcoq(st):
    return f"(mkg {qc_vec(st['n'])} {qc_vec(st['s'])} {qc_vec(st['c'])} {qc_mat(st['d'])})"


def vectors(item):
    """(D, ..., X) nested list -> list of D-vectors, one per lattice point"""
    chans = [list(_flat(ch)) for ch in item]
    return [[ch[i] for ch in chans] for i in range(len(chans[0]))]


def vcoq(vs):
    return coq_list([coq_list([qc(float(x)) for x in v]) for v in vs])


def shape_of(g):
    return tuple(reversed(g["size"]))


def gen_cases(ctx):
    rng = ctx.rng
    cases = []
    pairs = list(itertools.product(AXN, AXN))
    rng.shuffle(pairs)
    k = 0
    for i in range(ctx.n(64, 400)):
        kind = ["axes", "exp", "axes", "warp", "sample", "axes1", "exp"][i % 7]
        D = 2 if rng.random() < 0.6 else 3
        nmax = 4 if D == 2 else 3
        if kind in ("axes", "axes1"):
            a, b = pairs[k % 16]
            k += 1
            N = 1 if kind == "axes1" else rng.choice([1, 2, 3])
            base = small_grid(rng, D, nmax)
            shared = rng.random() < 0.4
            grids = []
            for _ in range(N):
                g = dict(base) if shared else small_grid(rng, D, nmax)
                g["size"], g["align_corners"] = base["size"], base["align_corners"]
                grids.append(g)
            data = [rand_field(rng, D, shape_of(base), 1.5, 4) for _ in range(N)]
            cases.append({"kind": kind, "D": D, "a": a, "b": b, "grids": grids if (not shared or N == 1) else [grids[0]], "data": data,
                          "shared": shared, "ngrids_model": grids})
        elif kind == "exp":
            a = AXN[i % 4] if rng.random() < 0.7 else rng.choice(AXN)
            g = small_grid(rng, D, nmax)
            amp = {"GRID": 0.6, "CUBE": 0.4, "CUBE_CORNERS": 0.4, "WORLD": 0.5 * min(g["spacing"])}[a]
            cases.append({"kind": kind, "D": D, "a": a, "grids": [g], "data": [rand_field(rng, D, shape_of(g), amp, 4)],
                          "scale": rng.choice([1, 1, 0.5, -1]), "steps": rng.choice([0, 1, 2])})
        elif kind == "warp":
            a = rng.choice(AXN)
            g = small_grid(rng, D, nmax)
            amp = {"GRID": 1.2, "CUBE": 0.8, "CUBE_CORNERS": 0.8, "WORLD": 1.0 * min(g["spacing"])}[a]
            img = rand_field(rng, 1, shape_of(g), 2, 3)
            cases.append({"kind": kind, "D": D, "a": a, "grids": [g], "data": [rand_field(rng, D, shape_of(g), amp, 4)], "image": [img]})
        else:
            a = rng.choice(AXN)
            g = small_grid(rng, D, nmax)
            t = dict(g)
            t["size"] = [max(2, s + rng.choice([-1, 0, 1])) for s in g["size"]]
            t["spacing"] = [s * rng.choice([0.5, 1, 2]) for s in g["spacing"]]
            if t["size"] == g["size"] and t["spacing"] == g["spacing"]:
                t["size"] = [s + 1 for s in g["size"]]
            cases.append({"kind": kind, "D": D, "a": a, "grids": [g], "to": [t], "data": [rand_field(rng, D, shape_of(g), 1.0, 4)]})
    return cases


def correspondence(ctx):
    cases = gen_cases(ctx)
    for fn in ("normalize_grid", "denormalize_grid", "normalize_flow", "denormalize_flow"):      # generated per-axis helpers
        for ac in (True, False):
            cases.append({"kind": "norm", "D": 1, "a": fn, "fn": fn, "ac": ac, "n": ctx.rng.randint(2, 9),
                          "x": [ctx.rng.randint(-40, 40) / 8 for _ in range(4)]})
    for fn in ("normalize_grid", "denormalize_grid", "normalize_flow", "denormalize_flow"):      # size=None, both layouts
        for layout in ("last", "first"):
            if fn.endswith("_flow") and layout == "last":
                continue
            ny, nx = ctx.rng.choice([(3, 5), (4, 2), (2, 6)])
            cases.append({"kind": "norm_auto", "D": 2, "a": f"{fn}:{layout}", "fn": fn, "layout": layout, "ac": ctx.rng.random() < 0.5,
                          "x": [[[ctx.rng.randint(-24, 24) / 8 for _ in range(2)] for _ in range(nx)] for _ in range(ny)]})
    payload = [{k: v for k, v in c.items() if k != "ngrids_model"} for c in cases]
    res = vlib.run_impl("c10_impl", {"fn": "model_cases", "cases": payload})
    failures, dist = [], {}
    lines, names, shards = [], [], []
    evals = 0
    for i, (c, r) in enumerate(zip(cases, res)):
        tag = f"{c['kind']}:D{c['D']}:{c['a']}" + (f"->{c['b']}" if "b" in c else "")
        dist[tag] = dist.get(tag, 0) + 1
        slim = {k: v for k, v in c.items() if k not in ("data", "image", "ngrids_model")}
        if "error" in r:
            failures.append({"case": slim, "impl": r, "why": "implementation raised where the model is defined"})
            continue
        D = c["D"]
        if c["kind"] == "norm_auto":
            acb = "true" if c["ac"] else "false"
            ny, nx = len(c["x"]), len(c["x"][0])
            m, o = [], []
            for yy in range(ny):
                for xx in range(nx):
                    for ch, n_ in ((0, nx), (1, ny)):
                        m.append(f"gen_{c['fn']} (K:=QcF) {acb} (q {n_} 1) {qc(float(c['x'][yy][xx][ch]))}")
                        o.append(qc(float(r["val"][yy][xx][ch])))
            lines.append(f"Definition c{i} : bool := vcloser tol {coq_list(m)} {coq_list(o)}.")
            names.append((i, f"c{i}", "plain"))
            evals += 1
            continue
        if c["kind"] == "norm":
            acb = "true" if c["ac"] else "false"
            m = coq_list([f"gen_{c['fn']} (K:=QcF) {acb} (q {c['n']} 1) {qc(float(x))}" for x in c["x"]])
            lines.append(f"Definition c{i} : bool := vcloser tol {m} {coq_list([qc(float(v)) for v in r['val']])}.")
            names.append((i, f"c{i}", "plain"))
            evals += 1
            continue
        st = r["stored"]
        if c["kind"] in ("axes", "axes1"):
            if r["axes"] != c["b"].lower():
                failures.append({"case": slim, "why": f"result labelled {r['axes']}"})
            terms = []
            for item in range(len(c["data"])):
                g = st[item] if len(st) > 1 else st[0]
                terms.append(f"vclose_all (snd (axes_item {D} {c['a']} {c['b']} ({gcoq(g)}, {vcoq(vectors(c['data'][item]))}))) "
                             f"{vcoq(vectors(r['val'][item]))}")
                evals += 1
            lines.append(f"Definition c{i} : bool := " + " && ".join(terms) + ".")
            names.append((i, f"c{i}", "plain"))
        elif c["kind"] == "exp":
            sc = qc(float(c["scale"]))
            u = qc_nested(c["data"][0])
            o = qc_nested(r["val"][0])
            lines.append(f"Definition c{i} : bool := fclose{D} tol (exp_code{D} (K:=QcF) floorQ {c['a']} {gcoq(st[0])} {sc} "
                         f"{c['steps']} {u}) {o}.")
            names.append((i, f"c{i}", "plain"))
            evals += 1
        elif c["kind"] == "warp":
            cmp = "mcloser tol" if D == 2 else "all2 (mcloser tol)"
            lines.append(f"Definition c{i} : bool := {cmp} (warp{D} (K:=QcF) floorQ PZeros {c['a']} {gcoq(st[0])} "
                         f"{qc_nested(c['image'][0][0])} {qc_nested(c['data'][0])}) {qc_nested(r['val'][0][0])}.")
            names.append((i, f"c{i}", "plain"))
            evals += 1
        else:
            if r["axes"] != c["a"].lower():
                failures.append({"case": slim, "why": f"sample relabels the axes: {r['axes']}"})
            ac = "true" if c["grids"][0]["align_corners"] else "false"
            tsz = " ".join(str(n_) for n_ in c["to"][0]["size"])
            lines.append(f"Definition c{i} : bool := vclose_all (map (gvecs2 {D} {c['a']} {c['a']} {gcoq(st[0])} {gcoq(r['stored_to'][0])}) "
                         f"{vcoq(vectors(r['plain'][0]))}) {vcoq(vectors(r['val'][0]))} && "
                         f"fclose{D} tolS (sample_item{D} (K:=QcF) floorQ PZeros {ac} {c['a']} {gcoq(st[0])} {gcoq(r['stored_to'][0])} {tsz} "
                         f"{qc_nested(c['data'][0])}) {qc_nested(r['val'][0])}.")
            names.append((i, f"c{i}", "plain"))
            evals += 2
        if len(lines) >= 60:
            shards.append((lines, names))
            lines, names = [], []
    if lines:
        shards.append((lines, names))
    verdict = {}
    for si, (ls, nms) in enumerate(shards):
        text = "\n".join(HEADER + ls + ["Definition results : list bool := " + coq_list([nm for _, nm, _ in nms]) + ".",
                                        'Eval vm_compute in ("FAIL"%string, failing results).']) + "\n"
        rc, out = vlib.coqc_text(text, ctx.scratch, f"cases_c10_{si}")
        bad = vlib.parse_nat_list(out, "FAIL")
        if rc != 0 or bad is None:
            failures.append({"why": "case file did not evaluate (model or generated definitions missing / ill-typed)", "coq": out[-600:]})
            continue
        badset = set(bad)
        for j, (i, nm, variant) in enumerate(nms):
            verdict.setdefault(i, {})[variant] = j not in badset
    for i, v in verdict.items():
        c = cases[i]
        slim = {k: x for k, x in c.items() if k not in ("ngrids_model",)}
        if not v.get("plain", False):
            failures.append({"case": slim, "why": "model value differs from implementation"})
    samples = [{"case": {k: v for k, v in cases[i].items() if k != "ngrids_model"}, "impl": res[i]} for i in range(min(2, len(cases)))]
    return {"evaluations": evals, "distinct_nontrivial": len({str(c) for c in cases}),
            "rule": "all 16 ordered axes pairs (batches of 1-3 with shared / per-item rotated anisotropic grids, FlowFields and FlowField); "
                    "exp per axes x steps 0..2 x scale (D = 2, 3) against the coded model (= the specification, proved); warp_image per axes "
                    "(zeros padding, D = 2, 3); sample(grid') against sample_item (data resampling at the mapped points + gen_vecs2 re-scaling) and its vector part alone; fields "
                    "are random dyadic (never all-zero), distinct by full input",
            "samples": samples, "failures": failures, "distribution": dist,
            "tolerances": {"all": "2e-5 * (1 + |model|) (grid attributes are float32 in the implementation; the model uses the stored values)",
                           "sample data part": "3e-4 * (1 + |model|): the two-grid point map is composed in float32 by the implementation "
                                               "(centers up to 50, spacings down to 0.25 give ~1e-5 samples of position error)"}}


def search(ctx, broken, corr_failures):
    n = ctx.n(90, 700)
    r = vlib.run_impl("c10_impl", {"fn": "oracle", "seed": ctx.seed, "n": n})
    ctx.notes.append("implementation-side property evaluation (round trip / path independence / grid vector map over the 16 pairs, D in {2,3}, "
                     "rotated anisotropic grids, batches with shared or per-field grids; exp / warp_image / sample representation independence; "
                     f"normalize/denormalize helpers; SimpleITK world axes): {r['counts']}")
    out, seen = [], set()
    for f in r["fails"]:
        if f["key"] in seen:
            continue
        seen.add(f["key"])
        out.append(Violation(key=f["key"], what=f["what"], replay={"oracle": "c10", "seed": ctx.seed, "n": n, "failure": f}))
    if corr_failures:
        f = corr_failures[0]
        c = f.get("case", {})
        if c:
            out.append(Violation(key=f"C10:{c.get('kind', 'model')}:model-vs-implementation:{c.get('a')}" + (f"->{c['b']}" if "b" in c else ""),
                                 what=f"implementation differs from the executable model: {f.get('why')}",
                                 replay={"corr": True, "failure": f}))
    return out


def explains(broken_item, found):
    return bool(found)


def replay(ctx, data):
    if data.get("corr"):
        c = dict(data["failure"].get("case", {}))
        if "data" in c:
            r = vlib.run_impl("c10_impl", {"fn": "model_cases", "cases": [c]})
            return f"re-ran {c.get('kind')} on the recorded input: {str(r[0])[:200]} (compare with the model through ./check C10)"
        return None
    f = data.get("failure") or {}
    r = vlib.run_impl("c10_impl", {"fn": "oracle", "seed": data.get("seed", ctx.seed), "n": data.get("n", 90)})
    for g in r["fails"]:
        if g["key"] == f.get("key"):
            return g["what"]
    return None


MANIFEST_ENTRY = {
    "text": "Theorems (Coq, closed under the global context), any field of characteristic 0: for D in {2,3}, every well-formed (oriented, "
            "anisotropic) grid, all 4x4(x4) representations and batches of ANY size with one grid per item (induction over the batch): axes "
            "conversion is invertible, path independent, the identity on equal axes, and every converted vector is the difference of the "
            "item's own grid point map at x+v and x (derived from the C01 theorems on the generated Grid.transform_vectors); for D in {2,3}, any "
            "lattice size: compose_flows / expv on cube vectors of either align_corners convention are the same index-space operation, and "
            "exp AS SPECIFIED commutes with representation changes (it is the index-space operation conjugated by the representation "
            "change), and warp_image gives the same image for all four representations of one displacement; FlowFields.exp AS CODED "
            "is the specification for all four axes, hence representation independent (the repaired defect -- exponentiating the "
            "unconverted tensor -- is kept as a variant and proved different: C10_exp_unconverted_differs). Tie: "
            "Gen/GridT.v and Gen/FlowFields.v (glue of FlowFields.axes / exp / warp_image / sample traced on symbolic tensors, proved to "
            "make the model's choices) regenerated by tracing; hand model of data/flow.py run in Coq against FlowFields / FlowField axes (16 pairs, shared "
            "/ per-item grids), exp, warp_image, sample's vector re-scaling.",
    "note": "normalize_grid / denormalize_grid / normalize_flow / denormalize_flow are traced per axis (Gen/PointsetNorm.v) and proved "
            "equal to the grid's GRID<->CUBE(_CORNERS) point / vector maps for both flags and mutually inverse (the half-sample defect of "
            "align_corners=False is repaired in /repo 97344fc; its search key stays as a regression check). FlowFields.sample as a whole (data resampling at the mapped points, zeros or border padding, + vector re-scaling) "
            "is proved to commute with every representation change (C10_sample_commutes_with_axes_2d/3d: transform_vectors is a "
            "constant matrix per item -- proved for the 16 generated closed forms -- and multilinear sampling is linear per channel); the "
            "generated closed forms of transform_vectors are proved equal to the specified maps through index space "
            "(C10_transform_vectors_closed_forms). Trusted: Coq kernel, vm_compute, F.grid_sample model, symtorch, float rounding.",
}
