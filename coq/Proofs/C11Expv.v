(* Scaling and squaring on affine velocity fields: closed form for EVERY number of steps k (induction on k). *)
From Coq Require Import ZArith List Field Ring Lia Bool.
From DV Require Import Base.Field Base.FieldFacts Base.LinAlg Base.Tactics Model.Sampler Model.Flow
  Proofs.SamplerFacts Proofs.C11Interp Proofs.C11Compose Proofs.C11Compose3.
Import ListNotations.
Local Open Scope fld_scope.

(* ---- repeated squaring is the 2^k-th power, in any monoid-on-a-carrier ---- *)
Section Monoid.
Variable M : Type.
Variable op : M -> M -> M.
Variable e : M.
Variable wf : M -> Prop.
Hypothesis wf_e : wf e.
Hypothesis wf_op : forall a b, wf a -> wf b -> wf (op a b).
Hypothesis op_assoc : forall a b c, wf a -> wf b -> wf c -> op a (op b c) = op (op a b) c.
Hypothesis op_e_l : forall a, wf a -> op e a = a.
Hypothesis op_e_r : forall a, wf a -> op a e = a.

Fixpoint mpow (a : M) (m : nat) : M := match m with O => e | S m' => op a (mpow a m') end.

Lemma mpow_wf a m : wf a -> wf (mpow a m).
Proof. intro H. induction m; cbn; auto. Qed.
Lemma mpow_add a m n : wf a -> mpow a (m + n) = op (mpow a m) (mpow a n).
Proof.
  intro H. induction m as [|m IH]; cbn [mpow Nat.add].
  - symmetry. apply op_e_l. now apply mpow_wf.
  - rewrite IH. apply op_assoc; auto using mpow_wf.
Qed.
Lemma mpow_sq a m : wf a -> mpow (op a a) m = mpow a (2 * m).
Proof.
  intro H. induction m as [|m IH]; [reflexivity|].
  replace (2 * S m)%nat with (2 + 2 * m)%nat by lia. rewrite (mpow_add a 2 (2 * m) H). cbn [mpow].
  rewrite IH. f_equal. now rewrite op_e_r.
Qed.
Lemma sq_iter_pow k : forall a, wf a -> sq_iter (fun x => op x x) k a = mpow a (2 ^ k).
Proof.
  induction k as [|k IH]; intros a H.
  - cbn. symmetry. now apply op_e_r.
  - cbn [sq_iter]. rewrite IH by auto. rewrite mpow_sq by auto. f_equal; cbn [Nat.pow]; lia.
Qed.
End Monoid.

Section Expv.
Variable K : fld.
Hypothesis Kf : is_field K.
Hypothesis Kc : char0 K.
Add Field KFE : Kf.
Variable floorK : K -> Z.

Definition is_H1 (A : list (list K)) : Prop := exists a t, A = H1 a t.
Definition is_H2 (A : list (list K)) : Prop := exists a00 a01 t0 a10 a11 t1, A = H2 a00 a01 t0 a10 a11 t1.
Definition is_H3 (A : list (list K)) : Prop :=
  exists a00 a01 a02 t0 a10 a11 a12 t1 a20 a21 a22 t2, A = H3 a00 a01 a02 t0 a10 a11 a12 t1 a20 a21 a22 t2.

Lemma is_H1_hcomp A B : is_H1 A -> is_H1 B -> is_H1 (hcomp 1 A B).
Proof. intros [a [t ->]] [b [s ->]]. rewrite (hcomp1_H1 K Kf). repeat (eapply ex_intro); reflexivity. Qed.
Lemma is_H2_hcomp A B : is_H2 A -> is_H2 B -> is_H2 (hcomp 2 A B).
Proof.
  intros [a00 [a01 [t0 [a10 [a11 [t1 ->]]]]]] [b00 [b01 [s0 [b10 [b11 [s1 ->]]]]]]. rewrite (hcomp2_H2 K Kf). repeat (eapply ex_intro); reflexivity.
Qed.
Lemma is_H3_hcomp A B : is_H3 A -> is_H3 B -> is_H3 (hcomp 3 A B).
Proof.
  intros [a00 [a01 [a02 [t0 [a10 [a11 [a12 [t1 [a20 [a21 [a22 [t2 ->]]]]]]]]]]]]
         [b00 [b01 [b02 [s0 [b10 [b11 [b12 [s1 [b20 [b21 [b22 [s2 ->]]]]]]]]]]]].
  rewrite (hcomp3_H3 K Kf). repeat (eapply ex_intro); reflexivity.
Qed.
Lemma is_H1_hid : is_H1 (hid 1). Proof. exists 1, 0. reflexivity. Qed.
Lemma is_H2_hid : is_H2 (hid 2). Proof. exists 1, 0, 0, 0, 1, 0. reflexivity. Qed.
Lemma is_H3_hid : is_H3 (hid 3). Proof. exists 1, 0, 0, 0, 0, 1, 0, 0, 0, 0, 1, 0. reflexivity. Qed.

(* monoid laws of hcomp on well-shaped matrices *)
Lemma hcomp1_assoc A B C : is_H1 A -> is_H1 B -> is_H1 C -> hcomp 1 A (hcomp 1 B C) = hcomp 1 (hcomp 1 A B) C.
Proof. intros [a [t ->]] [b [s ->]] [c [r ->]]. rewrite !(hcomp1_H1 K Kf). unfold H1. list_eq; ring. Qed.
Lemma hcomp1_id_l A : is_H1 A -> hcomp 1 (hid 1) A = A.
Proof. intros [a [t ->]]. fcbv. list_eq; ring. Qed.
Lemma hcomp1_id_r A : is_H1 A -> hcomp 1 A (hid 1) = A.
Proof. intros [a [t ->]]. fcbv. list_eq; ring. Qed.
Lemma hcomp2_assoc A B C : is_H2 A -> is_H2 B -> is_H2 C -> hcomp 2 A (hcomp 2 B C) = hcomp 2 (hcomp 2 A B) C.
Proof.
  intros [a00 [a01 [t0 [a10 [a11 [t1 ->]]]]]] [b00 [b01 [s0 [b10 [b11 [s1 ->]]]]]] [c00 [c01 [r0 [c10 [c11 [r1 ->]]]]]].
  rewrite !(hcomp2_H2 K Kf). unfold H2. list_eq; ring.
Qed.
Lemma hcomp2_id_l A : is_H2 A -> hcomp 2 (hid 2) A = A.
Proof. intros [a00 [a01 [t0 [a10 [a11 [t1 ->]]]]]]. fcbv. list_eq; ring. Qed.
Lemma hcomp2_id_r A : is_H2 A -> hcomp 2 A (hid 2) = A.
Proof. intros [a00 [a01 [t0 [a10 [a11 [t1 ->]]]]]]. fcbv. list_eq; ring. Qed.
Lemma hcomp3_assoc A B C : is_H3 A -> is_H3 B -> is_H3 C -> hcomp 3 A (hcomp 3 B C) = hcomp 3 (hcomp 3 A B) C.
Proof.
  intros [a00 [a01 [a02 [t0 [a10 [a11 [a12 [t1 [a20 [a21 [a22 [t2 ->]]]]]]]]]]]]
         [b00 [b01 [b02 [s0 [b10 [b11 [b12 [s1 [b20 [b21 [b22 [s2 ->]]]]]]]]]]]]
         [c00 [c01 [c02 [r0 [c10 [c11 [c12 [r1 [c20 [c21 [c22 [r2 ->]]]]]]]]]]]].
  rewrite !(hcomp3_H3 K Kf). unfold H3. list_eq; ring.
Qed.
Lemma hcomp3_id_l A : is_H3 A -> hcomp 3 (hid 3) A = A.
Proof. intros [a00 [a01 [a02 [t0 [a10 [a11 [a12 [t1 [a20 [a21 [a22 [t2 ->]]]]]]]]]]]]. fcbv. list_eq; ring. Qed.
Lemma hcomp3_id_r A : is_H3 A -> hcomp 3 A (hid 3) = A.
Proof. intros [a00 [a01 [a02 [t0 [a10 [a11 [a12 [t1 [a20 [a21 [a22 [t2 ->]]]]]]]]]]]]. fcbv. list_eq; ring. Qed.

Lemma hpow_mpow D (A : list (list K)) m : hpow D A m = mpow _ (hcomp D) (hid D) A m.
Proof. induction m; cbn; congruence. Qed.

(* k squarings give the 2^k-th power *)
Lemma hsq_iter1_pow k A : is_H1 A -> hsq_iter 1 k A = hpow 1 A (2 ^ k).
Proof.
  intro H. unfold hsq_iter. rewrite hpow_mpow.
  apply (sq_iter_pow _ (hcomp 1) (hid 1) is_H1 is_H1_hid is_H1_hcomp hcomp1_assoc hcomp1_id_l hcomp1_id_r k A H).
Qed.
Lemma hsq_iter2_pow k A : is_H2 A -> hsq_iter 2 k A = hpow 2 A (2 ^ k).
Proof.
  intro H. unfold hsq_iter. rewrite hpow_mpow.
  apply (sq_iter_pow _ (hcomp 2) (hid 2) is_H2 is_H2_hid is_H2_hcomp hcomp2_assoc hcomp2_id_l hcomp2_id_r k A H).
Qed.
Lemma hsq_iter3_pow k A : is_H3 A -> hsq_iter 3 k A = hpow 3 A (2 ^ k).
Proof.
  intro H. unfold hsq_iter. rewrite hpow_mpow.
  apply (sq_iter_pow _ (hcomp 3) (hid 3) is_H3 is_H3_hid is_H3_hcomp hcomp3_assoc hcomp3_id_l hcomp3_id_r k A H).
Qed.

(* ---- one squaring step and the loop ---- *)
Lemma square_step1 ac nx A : (2 <= nx)%Z -> is_H1 A -> cells_ok1 floorK ac nx A ->
  compose1 floorK ac (aff_field1 ac nx A) (aff_field1 ac nx A) = aff_field1 ac nx (hcomp 1 A A).
Proof. intros Hn [a [t ->]] Hc. now apply (compose1_affine K Kf Kc). Qed.
Lemma square_step2 ac nx ny A : (2 <= nx)%Z -> (2 <= ny)%Z -> is_H2 A -> cells_ok2 floorK ac nx ny A ->
  compose2 floorK ac (aff_field2 ac nx ny A) (aff_field2 ac nx ny A) = aff_field2 ac nx ny (hcomp 2 A A).
Proof. intros Hx Hy [a00 [a01 [t0 [a10 [a11 [t1 ->]]]]]] Hc. now apply (compose2_affine K Kf Kc). Qed.
Lemma square_step3 ac nx ny nz A : (2 <= nx)%Z -> (2 <= ny)%Z -> (2 <= nz)%Z -> is_H3 A -> cells_ok3 floorK ac nx ny nz A ->
  compose3 floorK ac (aff_field3 ac nx ny nz A) (aff_field3 ac nx ny nz A) = aff_field3 ac nx ny nz (hcomp 3 A A).
Proof.
  intros Hx Hy Hz [a00 [a01 [a02 [t0 [a10 [a11 [a12 [t1 [a20 [a21 [a22 [t2 ->]]]]]]]]]]]] Hc.
  now apply (compose3_affine K Kf Kc).
Qed.

Lemma sq_loop1 ac nx k : (2 <= nx)%Z -> forall A, is_H1 A ->
  (forall j, (j < k)%nat -> cells_ok1 floorK ac nx (hsq_iter 1 j A)) ->
  sq_iter (fun d => compose1 floorK ac d d) k (aff_field1 ac nx A) = aff_field1 ac nx (hsq_iter 1 k A).
Proof.
  intro Hn. induction k as [|k IH]; intros A HA Hc; [reflexivity|].
  cbn [sq_iter]. rewrite square_step1 by (auto; apply (Hc 0%nat); lia).
  rewrite IH; [reflexivity | now apply is_H1_hcomp |]. intros j Hj. apply (Hc (S j)). lia.
Qed.
Lemma sq_loop2 ac nx ny k : (2 <= nx)%Z -> (2 <= ny)%Z -> forall A, is_H2 A ->
  (forall j, (j < k)%nat -> cells_ok2 floorK ac nx ny (hsq_iter 2 j A)) ->
  sq_iter (fun d => compose2 floorK ac d d) k (aff_field2 ac nx ny A) = aff_field2 ac nx ny (hsq_iter 2 k A).
Proof.
  intros Hx Hy. induction k as [|k IH]; intros A HA Hc; [reflexivity|].
  cbn [sq_iter]. rewrite square_step2 by (auto; apply (Hc 0%nat); lia).
  rewrite IH; [reflexivity | now apply is_H2_hcomp |]. intros j Hj. apply (Hc (S j)). lia.
Qed.
Lemma sq_loop3 ac nx ny nz k : (2 <= nx)%Z -> (2 <= ny)%Z -> (2 <= nz)%Z -> forall A, is_H3 A ->
  (forall j, (j < k)%nat -> cells_ok3 floorK ac nx ny nz (hsq_iter 3 j A)) ->
  sq_iter (fun d => compose3 floorK ac d d) k (aff_field3 ac nx ny nz A) = aff_field3 ac nx ny nz (hsq_iter 3 k A).
Proof.
  intros Hx Hy Hz. induction k as [|k IH]; intros A HA Hc; [reflexivity|].
  cbn [sq_iter]. rewrite square_step3 by (auto; apply (Hc 0%nat); lia).
  rewrite IH; [reflexivity | now apply is_H3_hcomp |]. intros j Hj. apply (Hc (S j)). lia.
Qed.

(* ---- scaling a velocity field gives the displacement field of I + c G ---- *)
Lemma is_H1_hone_plus c G : is_H1 G -> is_H1 (hone_plus 1 c G).
Proof. intros [a [t ->]]. repeat (eapply ex_intro); reflexivity. Qed.
Lemma is_H2_hone_plus c G : is_H2 G -> is_H2 (hone_plus 2 c G).
Proof. intros [a00 [a01 [t0 [a10 [a11 [t1 ->]]]]]]. repeat (eapply ex_intro); reflexivity. Qed.
Lemma is_H3_hone_plus c G : is_H3 G -> is_H3 (hone_plus 3 c G).
Proof. intros [a00 [a01 [a02 [t0 [a10 [a11 [a12 [t1 [a20 [a21 [a22 [t2 ->]]]]]]]]]]]]. repeat (eapply ex_intro); reflexivity. Qed.

Lemma fscale1_tab c nx (f : Z -> K) : map (fmul c) (tab1 nx f) = tab1 nx (fun x => c * f x).
Proof. unfold tab1. now rewrite map_map. Qed.
Lemma fscale2_tab c nx ny (f : Z -> Z -> K) : map (map (fmul c)) (tab2 nx ny f) = tab2 nx ny (fun x y => c * f x y).
Proof. unfold tab2. rewrite map_map. apply map_ext. intro y. apply fscale1_tab. Qed.
Lemma fscale3_tab c nx ny nz (f : Z -> Z -> Z -> K) :
  map (map (map (fmul c))) (tab3 nx ny nz f) = tab3 nx ny nz (fun x y z => c * f x y z).
Proof. unfold tab3. rewrite map_map. apply map_ext. intro z. apply fscale2_tab. Qed.

Lemma scaled_velocity1 ac nx c G : is_H1 G -> fscale1 c (vel_field1 ac nx G) = aff_field1 ac nx (hone_plus 1 c G).
Proof.
  intros [a [t ->]]. unfold fscale1, vel_field1, aff_field1. cbn [seq map]. rewrite !fscale1_tab.
  f_equal. apply tab1_ext. intros. fcbv. ring.
Qed.
Lemma scaled_velocity2 ac nx ny c G : is_H2 G -> fscale2 c (vel_field2 ac nx ny G) = aff_field2 ac nx ny (hone_plus 2 c G).
Proof.
  intros [a00 [a01 [t0 [a10 [a11 [t1 ->]]]]]]. unfold fscale2, vel_field2, aff_field2. cbn [seq map]. rewrite !fscale2_tab.
  f_equal; [|f_equal]; apply tab2_ext; intros;
    generalize (ncoord (K:=K) ac nx x) (ncoord (K:=K) ac ny y); intros cx cy; fcbv; ring.
Qed.
Lemma scaled_velocity3 ac nx ny nz c G : is_H3 G ->
  fscale3 c (vel_field3 ac nx ny nz G) = aff_field3 ac nx ny nz (hone_plus 3 c G).
Proof.
  intros [a00 [a01 [a02 [t0 [a10 [a11 [a12 [t1 [a20 [a21 [a22 [t2 ->]]]]]]]]]]]].
  unfold fscale3, vel_field3, aff_field3. cbn [seq map]. rewrite !fscale3_tab.
  f_equal; [|f_equal; [|f_equal]]; apply tab3_ext; intros;
    generalize (ncoord (K:=K) ac nx x) (ncoord (K:=K) ac ny y) (ncoord (K:=K) ac nz z); intros cx cy cz; fcbv; ring.
Qed.

(* ---- the closed form, every k ---- *)
Theorem expv1_affine_closed_form ac nx (scale : K) inverse k G : (2 <= nx)%Z -> is_H1 G ->
  let A0 := hone_plus 1 (expv_pre k (expv_scale scale inverse)) G in
  (forall j, (j < k)%nat -> cells_ok1 floorK ac nx (hsq_iter 1 j A0)) ->
  expv1 floorK ac scale inverse k (vel_field1 ac nx G) = aff_field1 ac nx (hpow 1 A0 (2 ^ k)).
Proof.
  intros Hn HG A0 Hc. unfold expv1. rewrite scaled_velocity1 by auto. fold A0.
  rewrite sq_loop1 by (auto; now apply is_H1_hone_plus). now rewrite hsq_iter1_pow by (now apply is_H1_hone_plus).
Qed.
Theorem expv2_affine_closed_form ac nx ny (scale : K) inverse k G : (2 <= nx)%Z -> (2 <= ny)%Z -> is_H2 G ->
  let A0 := hone_plus 2 (expv_pre k (expv_scale scale inverse)) G in
  (forall j, (j < k)%nat -> cells_ok2 floorK ac nx ny (hsq_iter 2 j A0)) ->
  expv2 floorK ac scale inverse k (vel_field2 ac nx ny G) = aff_field2 ac nx ny (hpow 2 A0 (2 ^ k)).
Proof.
  intros Hx Hy HG A0 Hc. unfold expv2. rewrite scaled_velocity2 by auto. fold A0.
  rewrite sq_loop2 by (auto; now apply is_H2_hone_plus). now rewrite hsq_iter2_pow by (now apply is_H2_hone_plus).
Qed.
Theorem expv3_affine_closed_form ac nx ny nz (scale : K) inverse k G : (2 <= nx)%Z -> (2 <= ny)%Z -> (2 <= nz)%Z -> is_H3 G ->
  let A0 := hone_plus 3 (expv_pre k (expv_scale scale inverse)) G in
  (forall j, (j < k)%nat -> cells_ok3 floorK ac nx ny nz (hsq_iter 3 j A0)) ->
  expv3 floorK ac scale inverse k (vel_field3 ac nx ny nz G) = aff_field3 ac nx ny nz (hpow 3 A0 (2 ^ k)).
Proof.
  intros Hx Hy Hz HG A0 Hc. unfold expv3. rewrite scaled_velocity3 by auto. fold A0.
  rewrite sq_loop3 by (auto; now apply is_H3_hone_plus). now rewrite hsq_iter3_pow by (now apply is_H3_hone_plus).
Qed.

(* ---- steps = 0, the inverse flag ---- *)
Lemma expv2_steps_zero ac scale inverse flow :
  expv2 floorK ac scale inverse 0 flow = fscale2 (expv_scale scale inverse) flow.
Proof. reflexivity. Qed.
Lemma expv3_steps_zero ac scale inverse flow :
  expv3 floorK ac scale inverse 0 flow = fscale3 (expv_scale scale inverse) flow.
Proof. reflexivity. Qed.
Lemma expv2_inverse_is_negated_scale ac scale k flow :
  expv2 floorK ac scale true k flow = expv2 floorK ac (- scale) false k flow.
Proof. reflexivity. Qed.
Lemma expv3_inverse_is_negated_scale ac scale k flow :
  expv3 floorK ac scale true k flow = expv3 floorK ac (- scale) false k flow.
Proof. reflexivity. Qed.

Lemma pow2_nz k : @pow2 K k <> 0.
Proof. unfold pow2. apply (of_Z_nz K Kf Kc). apply Z.pow_nonzero; lia. Qed.
Lemma expv_pre_neg k (s : K) : expv_pre k (- s) = expv_pre k s * - (1).
Proof. destruct k; cbn [expv_pre]; [ring|]. field. apply pow2_nz. Qed.

Lemma fscale2_fscale2 (a b : K) u : fscale2 a (fscale2 b u) = fscale2 (a * b) u.
Proof.
  unfold fscale2. rewrite map_map. apply map_ext. intro c. rewrite map_map. apply map_ext. intro r.
  rewrite map_map. apply map_ext. intro x. ring.
Qed.
Lemma fscale3_fscale3 (a b : K) u : fscale3 a (fscale3 b u) = fscale3 (a * b) u.
Proof.
  unfold fscale3. rewrite map_map. apply map_ext. intro c. rewrite map_map. apply map_ext. intro s.
  rewrite map_map. apply map_ext. intro r. rewrite map_map. apply map_ext. intro x. ring.
Qed.
Lemma expv2_inverse_is_negated_field ac scale k flow :
  expv2 floorK ac scale true k flow = expv2 floorK ac scale false k (fscale2 (- (1)) flow).
Proof. unfold expv2, expv_scale. rewrite fscale2_fscale2. now rewrite expv_pre_neg. Qed.
Lemma expv3_inverse_is_negated_field ac scale k flow :
  expv3 floorK ac scale true k flow = expv3 floorK ac scale false k (fscale3 (- (1)) flow).
Proof. unfold expv3, expv_scale. rewrite fscale3_fscale3. now rewrite expv_pre_neg. Qed.
End Expv.
