(* The Lie bracket of core/flow.py (generated formula over the Jacobians) is bilinear and antisymmetric for every
   linear derivative operator, at every sample point. *)
From Coq Require Import ZArith List Field Ring Lia Bool.
From DV Require Import Base.Field Base.LinAlg Base.Tactics Gen.FlowDeriv Model.Lie.
Import ListNotations.
Local Open Scope fld_scope.

Section LieFacts.
Variable K : fld.
Hypothesis Kf : is_field K.
Add Field KFL : Kf.
Variable P : Type.
Variable dx : nat -> (P -> K) -> (P -> K).
Hypothesis Hlin : linear_op P dx.

Ltac lin := destruct Hlin as [Hadd Hsc]; intro p; cbn [fst snd lie2 lie3 vadd2 vscale2 vadd3 vscale3];
  rewrite ?Hadd, ?Hsc; unfold gen_lie2, gen_lie3, sadd, sscale; cbn [nth]; repeat split; ring.

Theorem lie2_add_l v v' u : veq2 P (lie2 P dx (vadd2 P v v') u) (vadd2 P (lie2 P dx v u) (lie2 P dx v' u)).
Proof. destruct v as [v0 v1], v' as [w0 w1], u as [u0 u1]. lin. Qed.
Theorem lie2_add_r v u u' : veq2 P (lie2 P dx v (vadd2 P u u')) (vadd2 P (lie2 P dx v u) (lie2 P dx v u')).
Proof. destruct v as [v0 v1], u' as [w0 w1], u as [u0 u1]. lin. Qed.
Theorem lie2_scale_l c v u : veq2 P (lie2 P dx (vscale2 P c v) u) (vscale2 P c (lie2 P dx v u)).
Proof. destruct v as [v0 v1], u as [u0 u1]. lin. Qed.
Theorem lie2_scale_r c v u : veq2 P (lie2 P dx v (vscale2 P c u)) (vscale2 P c (lie2 P dx v u)).
Proof. destruct v as [v0 v1], u as [u0 u1]. lin. Qed.
Theorem lie2_antisym v u : veq2 P (lie2 P dx v u) (vscale2 P (- (1)) (lie2 P dx u v)).
Proof. destruct v as [v0 v1], u as [u0 u1]. lin. Qed.
Theorem lie2_self v : veq2 P (lie2 P dx v v) (fun _ => 0, fun _ => 0).
Proof. destruct v as [v0 v1]. lin. Qed.

Theorem lie3_add_l v v' u : veq3 P (lie3 P dx (vadd3 P v v') u) (vadd3 P (lie3 P dx v u) (lie3 P dx v' u)).
Proof. destruct v as [[v0 v1] v2], v' as [[w0 w1] w2], u as [[u0 u1] u2]. lin. Qed.
Theorem lie3_add_r v u u' : veq3 P (lie3 P dx v (vadd3 P u u')) (vadd3 P (lie3 P dx v u) (lie3 P dx v u')).
Proof. destruct v as [[v0 v1] v2], u' as [[w0 w1] w2], u as [[u0 u1] u2]. lin. Qed.
Theorem lie3_scale_l c v u : veq3 P (lie3 P dx (vscale3 P c v) u) (vscale3 P c (lie3 P dx v u)).
Proof. destruct v as [[v0 v1] v2], u as [[u0 u1] u2]. lin. Qed.
Theorem lie3_scale_r c v u : veq3 P (lie3 P dx v (vscale3 P c u)) (vscale3 P c (lie3 P dx v u)).
Proof. destruct v as [[v0 v1] v2], u as [[u0 u1] u2]. lin. Qed.
Theorem lie3_antisym v u : veq3 P (lie3 P dx v u) (vscale3 P (- (1)) (lie3 P dx u v)).
Proof. destruct v as [[v0 v1] v2], u as [[u0 u1] u2]. lin. Qed.
Theorem lie3_self v : veq3 P (lie3 P dx v v) (fun _ => 0, fun _ => 0, fun _ => 0).
Proof. destruct v as [[v0 v1] v2]. lin. Qed.
End LieFacts.
