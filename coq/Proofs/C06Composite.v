(* C06, clause 3: a sequential composite applies its members in the listed order (any number of members);
   a multi-level composite adds displacements (generic branch: any number of members; the linear branch adds
   homogeneous matrices instead, which is the sum of the member MAPS, not of their displacements). *)
From Coq Require Import ZArith List Field Ring Lia.
From DV Require Import Base.Field Base.FieldFacts Base.LinAlg Base.Tactics Model.Enums Model.Homog
  Model.Grid Model.Transform Gen.Hmm Gen.Transform Proofs.C08Hmm.
Import ListNotations.
Local Open Scope fld_scope.

Section Composite.
Variable K : fld.
Hypothesis Kf : is_field K.
Add Field KF_C06Comp : Kf.

Ltac len2 X H := destruct X as [|?x0 [|?x1 [|? ?]]]; try discriminate H; clear H.
Ltac len3 X H := destruct X as [|?x0 [|?x1 [|?x2 [|? ?]]]]; try discriminate H; clear H.

Variable D : nat.
Hypothesis HD : D = 2%nat \/ D = 3%nat.

(* the traced two-member SequentialTransform.tensor() is homogeneous_matmul(second, first) *)
Lemma seq2_is_hmm (fa fb : form) (a b : nat -> nat -> K) :
  gen_seq2 D fa fb (tab D (fcols D fa) a) (tab D (fcols D fb) b)
  = gen_hmm D fb fa (tab D (fcols D fb) b) (tab D (fcols D fa) a)
  /\ gen_seq_form fa fb = gen_hmm_form fb fa.
Proof. destruct HD as [-> | ->]; destruct fa, fb; split; reflexivity. Qed.

Lemma seq2_shape (fa fb : form) (a b : nat -> nat -> K) :
  mshape D (fcols D (gen_seq_form fa fb)) (gen_seq2 D fa fb (tab D (fcols D fa) a) (tab D (fcols D fb) b)).
Proof. destruct HD as [-> | ->]; destruct fa, fb; (split; [reflexivity | repeat constructor]). Qed.

Lemma vtab_all (X : list K) : length X = D -> X = vtab D (fun i => nth i X 0).
Proof. intro HX. destruct HD as [-> | ->]; [len2 X HX | len3 X HX]; reflexivity. Qed.

Lemma m_apply_length (m : member (K:=K)) (X : list K) : m_ok D m -> length X = D -> length (m_apply D m X) = D.
Proof.
  intros Hm HX. destruct m as [f M]. unfold m_ok in Hm. cbn [fst snd] in Hm.
  rewrite (tab_all K _ _ M Hm). unfold m_apply. cbn [fst snd].
  destruct HD as [-> | ->]; [len2 X HX | len3 X HX]; destruct f; reflexivity.
Qed.

(* one step: composite of (what was accumulated) then (next member) *)
Lemma seq_step_apply (acc m : member (K:=K)) (X : list K) : m_ok D acc -> m_ok D m -> length X = D ->
  m_apply D (seq_step D acc m) X = m_apply D m (m_apply D acc X) /\ m_ok D (seq_step D acc m).
Proof.
  intros Ha Hm HX. destruct acc as [fa A], m as [fb B]. unfold m_ok in *. cbn [fst snd] in *.
  rewrite (tab_all K _ _ A Ha), (tab_all K _ _ B Hm), (vtab_all X HX).
  unfold seq_step, m_apply. cbn [fst snd]. split.
  - destruct (seq2_is_hmm fa fb (fun i j => nth j (nth i A []) 0) (fun i j => nth j (nth i B []) 0)) as [E1 E2].
    rewrite E1, E2. apply (hmm_compose K Kf D fb fa); exact HD.
  - apply seq2_shape.
Qed.

Lemma seq_fold_apply (r : list (member (K:=K))) : forall (acc : member) (X : list K),
  m_ok D acc -> Forall (m_ok D) r -> length X = D ->
  m_apply D (fold_left (seq_step D) r acc) X = fold_left (fun y m => m_apply D m y) r (m_apply D acc X).
Proof.
  induction r as [|m r IH]; intros acc X Ha Hr HX; [reflexivity|].
  apply Forall_cons_iff in Hr as [Hm Hr']. cbn [fold_left].
  destruct (seq_step_apply acc m X Ha Hm HX) as [E Hok].
  rewrite IH by auto. rewrite E. reflexivity.
Qed.

(* SequentialTransform of ANY number of linear members: tensor() denotes "apply the members in listed order" *)
Theorem sequential_order (ms : list (member (K:=K))) (X : list K) :
  Forall (m_ok D) ms -> length X = D ->
  m_apply D (seq_tensor D ms) X = seq_spec D ms X.
Proof.
  intros Hms HX. destruct ms as [|m r].
  - unfold seq_tensor, seq_spec, m_apply. cbn [fst snd fold_left]. rewrite (vtab_all X HX).
    destruct HD as [-> | ->]; fcbv; list_eq; ring.
  - apply Forall_cons_iff in Hms as [Hm Hr]. unfold seq_tensor, seq_spec. cbn [fold_left].
    apply seq_fold_apply; auto.
Qed.

(* the generic (non-matrix) branch of SequentialTransform.forward applies the first member first *)
Lemma seq_forward2_order (a b : nat -> nat -> K) (x : nat -> K) :
  gen_seq_fwd2_2 (tab 2 3 a) (tab 2 3 b) (vtab 2 x) = happly 2 (tab 2 3 b) (happly 2 (tab 2 3 a) (vtab 2 x)) /\
  gen_seq_fwd2_3 (tab 3 4 a) (tab 3 4 b) (vtab 3 x) = happly 3 (tab 3 4 b) (happly 3 (tab 3 4 a) (vtab 3 x)).
Proof. split; fcbv; list_eq; ring. Qed.

(* ------------------------------------------------------------------ multi-level *)
Lemma vadd_length (a b : list K) : length a = length b -> length (vadd a b) = length a.
Proof.
  revert b; induction a as [|x a IH]; intros [|y b] H; try discriminate; [reflexivity|].
  cbn. f_equal. apply IH. now injection H.
Qed.
Lemma vadd_assoc (a b c : list K) : vadd (vadd a b) c = vadd a (vadd b c).
Proof.
  revert b c; induction a as [|x a IH]; intros [|y b] [|z c]; try reflexivity.
  cbn. f_equal; [ring | apply IH].
Qed.
Lemma vadd_comm (a b : list K) : vadd a b = vadd b a.
Proof. revert b; induction a as [|x a IH]; intros [|y b]; try reflexivity. cbn. f_equal; [ring | apply IH]. Qed.
Lemma vadd_zero_l (a : list K) : vadd (vzero (length a)) a = a.
Proof. induction a as [|x a IH]; [reflexivity|]. cbn. f_equal; [ring | exact IH]. Qed.
Lemma vsub_length (a b : list K) : length a = length b -> length (vsub a b) = length a.
Proof.
  revert b; induction a as [|x a IH]; intros [|y b] H; try discriminate; [reflexivity|].
  cbn. f_equal. apply IH. now injection H.
Qed.

(* generic branch of MultiLevelTransform.forward, ANY number of members: the accumulation loop is
   x + sum of the member displacements *)
Lemma ml_loop (x : list K) (ys : list (list K)) : forall u : list K,
  length u = length x -> Forall (fun y => length y = length x) ys ->
  fold_left (fun u y => vadd u (vsub y x)) ys u = vadd u (vsum_list (length x) (map (fun y => vsub y x) ys))
  /\ length (vsum_list (length x) (map (fun y => vsub y x) ys)) = length x.
Proof.
  induction ys as [|y ys IH]; intros u Hu Hys.
  - cbn. split; [|apply repeat_length]. rewrite vadd_comm. rewrite <- Hu. symmetry. apply vadd_zero_l.
  - apply Forall_cons_iff in Hys as [Hy Hys']. cbn [fold_left map vsum_list].
    assert (Ld : length (vsub y x) = length x) by (rewrite vsub_length; auto).
    destruct (IH (vadd u (vsub y x))) as [E L]; [rewrite vadd_length; congruence | exact Hys' |].
    rewrite E. split; [apply vadd_assoc|]. rewrite vadd_length; congruence.
Qed.

Theorem multilevel_sum_generic (x : list K) (ys : list (list K)) :
  Forall (fun y => length y = length x) ys -> ml_forward x ys = ml_spec x ys.
Proof.
  intro H. unfold ml_forward, ml_spec. destruct (ml_loop x ys (vzero (length x))) as [E _]; [apply repeat_length | exact H |].
  rewrite E. f_equal. rewrite <- (vadd_zero_l (vsum_list _ _)) at 2.
  f_equal. f_equal. destruct (ml_loop x ys (vzero (length x))) as [_ L]; [apply repeat_length | exact H | now rewrite L].
Qed.

(* the traced loops for 1, 2, 3 members are the model *)
Lemma ml_forward_traced (x y0 y1 y2 : nat -> K) :
  gen_ml_fwd1_2 (vtab 2 x) (vtab 2 y0) = ml_forward (vtab 2 x) [vtab 2 y0] /\
  gen_ml_fwd2_2 (vtab 2 x) (vtab 2 y0) (vtab 2 y1) = ml_forward (vtab 2 x) [vtab 2 y0; vtab 2 y1] /\
  gen_ml_fwd3_2 (vtab 2 x) (vtab 2 y0) (vtab 2 y1) (vtab 2 y2) = ml_forward (vtab 2 x) [vtab 2 y0; vtab 2 y1; vtab 2 y2] /\
  gen_ml_fwd1_3 (vtab 3 x) (vtab 3 y0) = ml_forward (vtab 3 x) [vtab 3 y0] /\
  gen_ml_fwd2_3 (vtab 3 x) (vtab 3 y0) (vtab 3 y1) = ml_forward (vtab 3 x) [vtab 3 y0; vtab 3 y1] /\
  gen_ml_fwd3_3 (vtab 3 x) (vtab 3 y0) (vtab 3 y1) (vtab 3 y2) = ml_forward (vtab 3 x) [vtab 3 y0; vtab 3 y1; vtab 3 y2].
Proof. repeat split; fcbv; list_eq; ring. Qed.

(* ------------------------------------------------------------------ linear branch *)
Lemma ml_step_apply (acc : list (list K)) (m : member (K:=K)) (X : list K) :
  mshape D (S D) acc -> m_ok D m -> length X = D ->
  happly D (ml_step D acc m) X = vadd (happly D acc X) (m_apply D m X) /\ mshape D (S D) (ml_step D acc m).
Proof.
  intros Ha Hm HX. destruct m as [f B]. unfold m_ok in Hm. cbn [fst snd] in Hm.
  rewrite (tab_all K _ _ acc Ha), (tab_all K _ _ B Hm), (vtab_all X HX). unfold ml_step, m_apply. cbn [fst snd].
  split; [destruct HD as [-> | ->]; destruct f; fcbv; list_eq; ring |
          destruct HD as [-> | ->]; destruct f; (split; [reflexivity | repeat constructor])].
Qed.

Lemma ml_fold_apply (r : list (member (K:=K))) : forall (acc : list (list K)) (X : list K),
  mshape D (S D) acc -> Forall (m_ok D) r -> length X = D ->
  happly D (fold_left (ml_step D) r acc) X
  = fold_left (fun v m => vadd v (m_apply D m X)) r (happly D acc X)
  /\ mshape D (S D) (fold_left (ml_step D) r acc).
Proof.
  induction r as [|m r IH]; intros acc X Ha Hr HX; [split; [reflexivity | exact Ha]|].
  apply Forall_cons_iff in Hr as [Hm Hr']. cbn [fold_left].
  destruct (ml_step_apply acc m X Ha Hm HX) as [E Hok].
  destruct (IH (ml_step D acc m) X Hok Hr' HX) as [E2 Hok2]. rewrite E2, E. split; [reflexivity | exact Hok2].
Qed.

(* subtracting c identities from a homogeneous matrix subtracts c x from the image *)
Lemma msub_identities_apply (Sm : list (list K)) (c : K) (X : list K) :
  mshape D (S D) Sm -> length X = D ->
  happly D (msub Sm (mscale c (hid D))) X = vsub (happly D Sm X) (vscale c X).
Proof.
  intros Hs HX. rewrite (tab_all K _ _ Sm Hs), (vtab_all X HX).
  destruct HD as [-> | ->]; fcbv; list_eq; ring.
Qed.

Lemma vsum_list_length (l : list (list K)) : Forall (fun v => length v = D) l -> length (vsum_list D l) = D.
Proof.
  induction l as [|v l IH]; intro H; [apply repeat_length|].
  apply Forall_cons_iff in H as [Hv Hl]. cbn [vsum_list]. rewrite vadd_length; [exact Hv | rewrite IH; auto].
Qed.

Lemma of_Z_succ (n : nat) : @of_Z K (Z.of_nat (S n)) = of_Z (Z.of_nat n) + 1.
Proof. rewrite Nat2Z.inj_succ, <- Z.add_1_r. rewrite (of_Z_add K Kf). cbn [of_Z of_pos]. reflexivity. Qed.

(* sum of the images minus the surplus copies of x = sum of the displacements (accumulator form) *)
Lemma images_minus_copies (X : list K) (HX : length X = D) (r : list (member (K:=K))) : forall (v : list K) (c : K),
  Forall (m_ok D) r -> length v = D ->
  vsub (fold_left (fun v m => vadd v (m_apply D m X)) r v) (vscale (c + of_Z (Z.of_nat (length r))) X)
  = vadd (vsub v (vscale c X)) (vsum_list D (map (fun m => vsub (m_apply D m X) X) r)).
Proof.
  induction r as [|m r IH]; intros v c Hr Hv.
  - cbn [fold_left map vsum_list length Z.of_nat of_Z].
    destruct HD as [-> | ->]; [len2 X HX; len2 v Hv | len3 X HX; len3 v Hv]; fcbv; list_eq; ring.
  - apply Forall_cons_iff in Hr as [Hm Hr']. cbn [fold_left map vsum_list length].
    pose proof (m_apply_length m X Hm HX) as LY. remember (m_apply D m X) as Y eqn:EY.
    rewrite of_Z_succ. replace (c + (of_Z (Z.of_nat (length r)) + 1)) with ((c + 1) + of_Z (Z.of_nat (length r))) by ring.
    rewrite (IH (vadd v Y) (c + 1) Hr') by (rewrite vadd_length; congruence).
    assert (LR : length (vsum_list D (map (fun m0 => vsub (m_apply D m0 X) X) r)) = D).
    { apply vsum_list_length. apply Forall_forall. intros w Hw. apply in_map_iff in Hw as (m0 & <- & Hin).
      rewrite vsub_length; [apply m_apply_length; auto; rewrite Forall_forall in Hr'; auto |].
      rewrite m_apply_length; auto. rewrite Forall_forall in Hr'; auto. }
    remember (vsum_list D (map (fun m0 => vsub (m_apply D m0 X) X) r)) as R eqn:ER. clear ER EY IH.
    destruct HD as [-> | ->]; [len2 X HX; len2 v Hv; len2 Y LY; len2 R LR | len3 X HX; len3 v Hv; len3 Y LY; len3 R LR];
      fcbv; list_eq; ring.
Qed.

(* MultiLevelTransform of ANY number of linear members: tensor() maps x to x + sum_i (T_i(x) - x) *)
Theorem multilevel_sum_linear (ms : list (member (K:=K))) (X : list K) :
  Forall (m_ok D) ms -> length X = D ->
  happly D (ml_tensor D ms) X = ml_spec_linear D ms X.
Proof.
  intros Hms HX. destruct ms as [|m r].
  - unfold ml_tensor, ml_spec_linear, ml_spec. cbn [map vsum_list]. rewrite (vtab_all X HX).
    destruct HD as [-> | ->]; fcbv; list_eq; ring.
  - apply Forall_cons_iff in Hms as [Hm Hr].
    destruct m as [f A]. pose proof Hm as Hm'. unfold m_ok in Hm'. cbn [fst snd] in Hm'.
    assert (Hsh : mshape D (S D) (gen_matrix D f A) /\ happly D (gen_matrix D f A) X = m_apply D (f, A) X).
    { rewrite (tab_all K _ _ A Hm'), (vtab_all X HX). unfold m_apply. cbn [fst snd].
      destruct HD as [-> | ->]; destruct f; (split; [split; [reflexivity | repeat constructor] | fcbv; list_eq; ring]). }
    destruct Hsh as [Hsh E].
    pose proof (m_apply_length (f, A) X Hm HX) as LY.
    assert (G : vsub (fold_left (fun v m' => vadd v (m_apply D m' X)) r (m_apply D (f, A) X)) (vscale (of_Z (Z.of_nat (length r))) X)
                = ml_spec_linear D ((f, A) :: r) X).
    { pose proof (images_minus_copies X HX r (m_apply D (f, A) X) 0 Hr LY) as H.
      replace (0 + of_Z (Z.of_nat (length r))) with (@of_Z K (Z.of_nat (length r))) in H by ring.
      rewrite H. unfold ml_spec_linear, ml_spec. cbn [map vsum_list]. rewrite HX.
      assert (LR : length (vsum_list D (map (fun y => vsub y X) (map (fun m0 => m_apply D m0 X) r))) = D).
      { apply vsum_list_length. apply Forall_forall. intros w Hw. apply in_map_iff in Hw as (y & <- & Hy).
        apply in_map_iff in Hy as (m0 & <- & Hin). rewrite vsub_length; rewrite m_apply_length; auto; rewrite Forall_forall in Hr; auto. }
      rewrite map_map in *. remember (vsum_list D (map (fun m0 => vsub (m_apply D m0 X) X) r)) as R eqn:ER.
      remember (m_apply D (f, A) X) as Y eqn:EY. clear ER EY H.
      destruct HD as [-> | ->]; [len2 X HX; len2 Y LY; len2 R LR | len3 X HX; len3 Y LY; len3 R LR]; fcbv; list_eq; ring. }
    destruct r as [|m2 r2].
    + etransitivity; [|exact G]. unfold ml_tensor. cbn [fst snd]. rewrite E. cbn [fold_left length Z.of_nat of_Z].
      clear G E. remember (m_apply D (f, A) X) as Y eqn:EY. clear EY.
      destruct HD as [-> | ->]; [len2 X HX; len2 Y LY | len3 X HX; len3 Y LY]; fcbv; list_eq; ring.
    + unfold ml_tensor. cbn [fst snd].
      destruct (ml_fold_apply (m2 :: r2) (gen_matrix D f A) X Hsh Hr HX) as [E2 Hok2].
      rewrite msub_identities_apply by auto. rewrite E2, E. exact G.
Qed.

(* the traced tensor() of two members (all 9 form pairs) and of three homogeneous members is the model *)
Lemma ml2_is_model (fa fb : form) (a b : nat -> nat -> K) :
  gen_ml2 D fa fb (tab D (fcols D fa) a) (tab D (fcols D fb) b)
  = ml_tensor D [(fa, tab D (fcols D fa) a); (fb, tab D (fcols D fb) b)].
Proof. destruct HD as [-> | ->]; destruct fa, fb; fcbv; list_eq; ring. Qed.
End Composite.

Section Traced3.
Variable K : fld.
Hypothesis Kf : is_field K.
Add Field KF_C06Comp3 : Kf.
Lemma ml3_is_model (a b c : nat -> nat -> K) :
  gen_ml3_HHH_2 (tab 2 3 a) (tab 2 3 b) (tab 2 3 c) = ml_tensor 2 [(FH, tab 2 3 a); (FH, tab 2 3 b); (FH, tab 2 3 c)] /\
  gen_ml3_HHH_3 (tab 3 4 a) (tab 3 4 b) (tab 3 4 c) = ml_tensor 3 [(FH, tab 3 4 a); (FH, tab 3 4 b); (FH, tab 3 4 c)].
Proof. split; fcbv; list_eq; ring. Qed.

(* evaluating the composite leaves every member's tensor untouched (generated from the trace) *)
Lemma ml_members_unchanged (fa : form) : gen_ml_overwrites_first fa = false.
Proof. destruct fa; reflexivity. Qed.
End Traced3.
