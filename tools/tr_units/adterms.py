"""Gen/ADTerms.v -- differentiable deepali functions as terms of the AD expression language (Model/AD.v).

Each family of tools/adfam.py is executed from the source text on symbolic leaf tensors; the traced outputs
(expression trees over + - * / neg and sqrt exp log tanh sin cos) are emitted verbatim as `expr` terms, variables
numbered in leaf order.  Anything outside that vocabulary aborts the unit (fail-closed)."""
import types

import numpy as np

import adfam
import symtorch as st
from symtorch import E, TraceError

UF = {"sqrt": "Usqrt", "exp": "Uexp", "log": "Uln", "tanh": "Utanh", "sin": "Usin", "cos": "Ucos"}
BIN = {"add": "EAdd", "sub": "ESub", "mul": "EMul", "div": "EDiv"}


# ------------------------------------------------------------------------------------------------
# graph cuts: detach(), .data and everything computed under torch.no_grad() is wrapped in a "detach" node, which
# becomes ECut in the AD language (value unchanged, nothing flows through it in reverse mode)
# ------------------------------------------------------------------------------------------------
def _cut(e):
    e = E.const(e) if not isinstance(e, (bool, np.bool_)) else e
    if not isinstance(e, E) or e.is_const() or (e.op == "fn" and e.args[0] == "detach"):
        return e
    return E("fn", "detach", e)


def _cut_array(a):
    out = np.empty(a.shape, dtype=object)
    for idx in np.ndindex(a.shape):
        v = a[idx]
        out[idx] = _cut(v) if isinstance(v, E) else v
    if a.ndim == 0:
        out[()] = _cut(a[()]) if isinstance(a[()], E) else a[()]
    return out


class cut_tracking:
    """temporarily give tools/symtorch.py graph-cut semantics (restored on exit; other units are not affected)"""
    depth = 0

    def __enter__(self):
        T, ng = st.Tensor, st.no_grad
        self.saved = (T.__init__, T.detach, T.__dict__.get("data"), ng.__enter__, ng.__exit__, ng.__call__)
        orig_init = T.__init__

        def init(t, a, dtype=None, is_bool=False):
            orig_init(t, a, dtype=dtype, is_bool=is_bool)
            if cut_tracking.depth > 0 and t.dtype is not st.bool_:
                t.a = _cut_array(t.a)
        T.__init__ = init
        T.detach = lambda t: t._new(_cut_array(t.a))
        T.data = property(lambda t: t._new(_cut_array(t.a)))

        def enter(c):
            cut_tracking.depth += 1
            return c

        def exit_(c, *a):
            cut_tracking.depth -= 1
            return False

        def call(c, f):
            def g(*a, **k):
                cut_tracking.depth += 1
                try:
                    return f(*a, **k)
                finally:
                    cut_tracking.depth -= 1
            return g
        ng.__enter__, ng.__exit__, ng.__call__ = enter, exit_, call
        return self

    def __exit__(self, *a):
        T, ng = st.Tensor, st.no_grad
        T.__init__, T.detach, data, ng.__enter__, ng.__exit__, ng.__call__ = self.saved
        if data is None:
            del T.data
        else:
            T.data = data
        cut_tracking.depth = 0
        return False


def to_ad(e, index, memo):
    k = id(e)
    if k in memo:
        return memo[k]
    if e.op == "const":
        v = e.args[0]
        r = f"(EC ({v.numerator} # {v.denominator}))"
    elif e.op == "var":
        if e.args[0] not in index:
            raise TraceError(f"free symbol {e.args[0]} is not an input of the family")
        r = f"(EV {index[e.args[0]]})"
    elif e.op == "neg":
        r = f"(ENeg {to_ad(e.args[0], index, memo)})"
    elif e.op in BIN:
        r = f"({BIN[e.op]} {to_ad(e.args[0], index, memo)} {to_ad(e.args[1], index, memo)})"
    elif e.op == "fn":
        name = e.args[0]
        if name == "tan":
            a = to_ad(e.args[1], index, memo)
            r = f"(EDiv (EU Usin {a}) (EU Ucos {a}))"
        elif name == "detach":
            r = f"(ECut {to_ad(e.args[1], index, memo)})"
        elif name in UF:
            r = f"(EU {UF[name]} {to_ad(e.args[1], index, memo)})"
        else:
            raise TraceError(f"function {name} is outside the AD language")
    else:
        raise TraceError(f"node {e.op} is outside the AD language")
    memo[k] = r
    return r


def modules(loader):
    m = types.SimpleNamespace()
    m.torch = st
    m.affine = loader.load("deepali.core.affine")
    m.linalg = loader.load("deepali.core.linalg")
    m.kornia = loader.load("deepali.core._kornia")
    m.losses = loader.load("deepali.losses.functional")
    m.flow = loader.load("deepali.core.flow")
    return m


def leaves(fam):
    ts, index, k = [], {}, 0
    for j, shape in enumerate(fam.shapes):
        a = np.empty(shape, dtype=object)
        for idx in np.ndindex(*shape):
            name = f"v{j}_" + "_".join(str(i) for i in idx)
            a[idx] = E.var(name)
            index[name] = k
            k += 1
        ts.append(st.Tensor(a))
    return ts, index


def trace(fam, m):
    ts, index = leaves(fam)
    with cut_tracking():
        out = fam.call(m, *ts)
    a = out.a if isinstance(out, st.Tensor) else np.array(out, dtype=object)
    st._check_init(a)
    flat = [E.const(x) for x in a.reshape(-1)]
    return flat, list(a.shape), index


def generate(loader):
    m = modules(loader)
    out = ["From Coq Require Import QArith String.", "From DV Require Import Model.AD.", "Local Open Scope string_scope.", ""]
    names = []
    for fam in adfam.FAMILIES:
        flat, shape, index = trace(fam, m)
        memo = {}
        terms = [to_ad(e, index, memo) for e in flat]
        out.append(f"(* {fam.name}: {fam.note or 'traced'}; {fam.nvars()} variables, output shape {shape} *)")
        out.append(f"Definition gen_ad_{fam.name} : list expr :=\n  [" + ";\n   ".join(terms) + "].\n")
        names.append(f"(\"{fam.name}\", ({fam.nvars()}%nat, gen_ad_{fam.name}))")
    out.append("Definition gen_ad_families : list (string * (nat * list expr)) :=\n  [" + ";\n   ".join(names) + "].\n")
    return "\n".join(out)
