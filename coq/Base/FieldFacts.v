From Coq Require Import ZArith List Field Ring Lia.
From DV Require Import Base.Field.
Local Open Scope fld_scope.

Section Facts.
Variable K : fld.
Hypothesis Kf : is_field K.
Hypothesis Kc : char0 K.
Add Field KF : Kf.

Lemma of_pos_succ p : @of_pos K (Pos.succ p) = of_pos p + 1.
Proof. induction p as [r IHr|r IHr|]; cbn [of_pos Pos.succ]; try ring. rewrite IHr. ring. Qed.

Lemma of_pos_add p q : @of_pos K (p + q) = of_pos p + of_pos q.
Proof.
  revert p. induction q as [|q IH] using Pos.peano_ind; intro p.
  - rewrite Pos.add_1_r, of_pos_succ. reflexivity.
  - rewrite Pos.add_succ_r, !of_pos_succ, IH. ring.
Qed.

Lemma of_pos_mul p q : @of_pos K (p * q) = of_pos p * of_pos q.
Proof.
  revert p. induction q as [|q IH] using Pos.peano_ind; intro p.
  - rewrite Pos.mul_1_r. cbn [of_pos]. ring.
  - rewrite Pos.mul_succ_r, of_pos_add, IH, of_pos_succ. ring.
Qed.

Lemma of_Z_pos_sub p q : @of_Z K (Z.pos_sub p q) = of_pos p - of_pos q.
Proof.
  destruct (Pos.compare_spec p q) as [E|L|L].
  - subst. rewrite Z.pos_sub_diag. cbn. ring.
  - rewrite (Z.pos_sub_lt _ _ L). cbn [of_Z].
    replace (of_pos q) with (@of_pos K (p + (q - p))) by (f_equal; lia).
    rewrite of_pos_add. ring.
  - rewrite (Z.pos_sub_gt _ _ L). cbn [of_Z].
    replace (of_pos p) with (@of_pos K (q + (p - q))) by (f_equal; lia).
    rewrite of_pos_add. ring.
Qed.

Lemma of_Z_add a b : @of_Z K (a + b) = of_Z a + of_Z b.
Proof.
  destruct a, b; cbn [of_Z Z.add]; rewrite ?of_pos_add, ?of_Z_pos_sub; ring.
Qed.

Lemma of_Z_opp a : @of_Z K (- a) = - of_Z a.
Proof. destruct a; cbn [of_Z Z.opp]; ring. Qed.

Lemma of_Z_sub a b : @of_Z K (a - b) = of_Z a - of_Z b.
Proof. unfold Z.sub. rewrite of_Z_add, of_Z_opp. ring. Qed.

Lemma of_Z_mul a b : @of_Z K (a * b) = of_Z a * of_Z b.
Proof. destruct a, b; cbn [of_Z Z.mul]; rewrite ?of_pos_mul; ring. Qed.

Lemma of_Z_nz z : z <> 0%Z -> @of_Z K z <> 0.
Proof.
  destruct z as [|p|p]; intro H; [congruence| apply Kc|].
  cbn [of_Z]. intro E. apply (Kc p). transitivity (- - @of_pos K p); [ring|]. rewrite E. ring.
Qed.

Lemma of_Z_inj a b : @of_Z K a = of_Z b -> a = b.
Proof.
  intro E. destruct (Z.eq_dec (a - b) 0) as [e|n]; [lia|].
  exfalso. apply (of_Z_nz _ n). rewrite of_Z_sub, E. ring.
Qed.

Lemma two_nz : (1 + 1 : K) <> 0.
Proof. intro E. apply (Kc 2%positive). cbn [of_pos]. rewrite E. ring. Qed.

Lemma one_nz : (1 : K) <> 0.
Proof. exact (Kc 1%positive). Qed.

End Facts.
