(* C09 -- who shares which ExpFlow module (definitions only).  A velocity-field transform holds a grid
   (of which only the align_corners flag matters here) and a reference to an ExpFlow module carrying its
   own align_corners flag.  Shallow copies share the module; inverse() makes a shallow copy of the module
   (ExpFlow.inverse); grid_ either installs a private copy with the new flag (private = true, the code
   since 5d5a4a7) or writes the flag into the shared module (private = false, the code before). *)
From Coq Require Import List Bool Arith.
Import ListNotations.

Record xobj := mkX { x_align : bool; x_exp : nat }.
Record xstate := mkXS { xobjs : list xobj; xexps : list bool }.
Definition xempty : xstate := mkXS [] [].

Inductive xop :=
| XNew (a : bool)              (* StationaryVelocityFieldTransform(grid with flag a) *)
| XCopy (o : nat)              (* copy.copy(t) / any functional setter *)
| XGrid (o : nat) (a : bool)   (* t.grid_(grid with flag a) *)
| XGridCopy (o : nat) (a : bool)   (* t.grid(grid with flag a): shallow copy, then grid_ on the copy *)
| XInverse (o : nat).          (* t.inverse(): shallow copy with exp = self.exp.inverse() (a copy of the module) *)

Fixpoint xreplace {A} (n : nat) (x : A) (l : list A) : list A :=
  match l, n with
  | [], _ => []
  | _ :: r, O => x :: r
  | y :: r, S m => y :: xreplace m x r
  end.

Definition xgrid (private : bool) (s : xstate) (o : nat) (a : bool) : xstate :=
  match nth_error (xobjs s) o with
  | Some ob =>
      if private
      then mkXS (xreplace o (mkX a (length (xexps s))) (xobjs s)) (xexps s ++ [a])
      else mkXS (xreplace o (mkX a (x_exp ob)) (xobjs s)) (xreplace (x_exp ob) a (xexps s))
  | None => s
  end.

Definition xstep (private : bool) (s : xstate) (x : xop) : xstate :=
  match x with
  | XNew a => mkXS (xobjs s ++ [mkX a (length (xexps s))]) (xexps s ++ [a])
  | XCopy o => match nth_error (xobjs s) o with Some ob => mkXS (xobjs s ++ [ob]) (xexps s) | None => s end
  | XGrid o a => xgrid private s o a
  | XGridCopy o a =>
      match nth_error (xobjs s) o with
      | Some ob => xgrid private (mkXS (xobjs s ++ [ob]) (xexps s)) (length (xobjs s)) a
      | None => s
      end
  | XInverse o =>
      match nth_error (xobjs s) o with
      | Some ob => mkXS (xobjs s ++ [mkX (x_align ob) (length (xexps s))]) (xexps s ++ [nth (x_exp ob) (xexps s) false])
      | None => s
      end
  end.
Definition xrun (private : bool) (h : list xop) : xstate := fold_left (xstep private) h xempty.

(* every transform exponentiates with the align_corners flag of its OWN grid *)
Definition xconsistent (s : xstate) : Prop :=
  Forall (fun ob => nth_error (xexps s) (x_exp ob) = Some (x_align ob)) (xobjs s).
Definition xconsistentb (s : xstate) : bool :=
  forallb (fun ob => match nth_error (xexps s) (x_exp ob) with Some f => Bool.eqb f (x_align ob) | None => false end) (xobjs s).
(* observation used by the correspondence: per object (flag of its grid, flag of its module, module id) *)
Definition xview (s : xstate) : list (bool * bool * nat) :=
  map (fun ob => (x_align ob, nth (x_exp ob) (xexps s) false, x_exp ob)) (xobjs s).

(* canonical form of a view: module ids replaced by the position of their first occurrence *)
Fixpoint first_pos (x : nat) (l : list nat) : nat :=
  match l with [] => 0 | y :: r => if Nat.eqb x y then 0 else S (first_pos x r) end.
Definition xcanon (v : list (bool * bool * nat)) : list (bool * bool * nat) :=
  let ids := map snd v in map (fun t => (fst t, first_pos (snd t) ids)) v.
Fixpoint xview_eqb (a b : list (bool * bool * nat)) : bool :=
  match a, b with
  | [], [] => true
  | (g1, e1, i1) :: a', (g2, e2, i2) :: b' => Bool.eqb g1 g2 && Bool.eqb e1 e2 && Nat.eqb i1 i2 && xview_eqb a' b'
  | _, _ => false
  end.
Definition xagree (private : bool) (h : list xop) (impl : list (bool * bool * nat)) : bool :=
  xview_eqb (xcanon (xview (xrun private h))) (xcanon impl).
