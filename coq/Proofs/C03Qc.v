From Coq Require Import ZArith QArith Qround Qcanon List Bool.
From DV Require Import Base.Field Base.QcInst Model.GridDerive Model.GridDeriveQc.
Lemma leQc_refl (x : Qc) : leQc x x = true.
Proof. unfold leQc. apply Qle_bool_iff. apply Qle_refl. Qed.
Lemma leQc_antisym (x y : Qc) : leQc x y = true -> leQc y x = true -> x = y.
Proof.
  unfold leQc. intros H1 H2. apply Qle_bool_iff in H1. apply Qle_bool_iff in H2.
  apply Qc_is_canon. apply Qle_antisym; assumption.
Qed.
