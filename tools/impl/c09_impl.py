"""Implementation-side runner for C09 (runs against /repo's working tree).

fn = "tables"    : data shapes of every transform kind on every grid of the family, grid equality
fn = "histories" : interpret operation histories on real deepali transforms; every outcome is reported
                   as (status, error kind, observation) -- observations are the constant displacement
                   a transform with constant-valued parameters produces (which identifies the
                   parameter version it was computed from), the buffer/tensor shape (which identifies
                   the grid version) -- the comparison with the Coq model happens inside Coq
fn = "oracle"    : the property itself on random smooth parameters (freshness of calls, disp() after
                   replacing operations, regridding preserves the world-space deformation)
"""
import copy
import json
import math
import random
import sys
import traceback
import warnings

warnings.filterwarnings("ignore")

import torch
from torch.nn import Parameter

from vlib import emit_json

from deepali.core.grid import Grid
import deepali.spatial as S
from deepali.spatial.base import ReadOnlyParameters

KINDS = {
    "disp": S.DisplacementFieldTransform,
    "svf": S.StationaryVelocityFieldTransform,
    "ffd": S.FreeFormDeformation,
    "svffd": S.StationaryVelocityFreeFormDeformation,
    "lin": S.Translation,
}
FFD_STRIDE = 2
X = [[0.0, 0.0], [0.25, -0.5], [-0.375, 0.125]]


def mkgrid(spec):
    return Grid(size=tuple(spec["size"]), spacing=tuple(spec["spacing"]), align_corners=bool(spec["align"]))


def errkind(e):
    if isinstance(e, ReadOnlyParameters):
        return "ReadOnly"
    if isinstance(e, TypeError):
        return "TypeErr"
    if isinstance(e, ValueError):
        return "ValueErr"
    if isinstance(e, AssertionError):
        return "AssertErr"
    if isinstance(e, AttributeError):
        return "AttrErr"
    if isinstance(e, NotImplementedError):
        return "NotImpl"
    if isinstance(e, (IndexError, KeyError)):
        return "IndexErr"
    return "Other"


def kind_of(t):
    if isinstance(t, S.SequentialTransform):
        return "seq"
    for k, c in KINDS.items():
        if type(t) is c:
            return k
    raise RuntimeError("unknown transform type")


def make(kind, grid, **kw):
    cls = KINDS[kind]
    if kind in ("ffd", "svffd"):
        return cls(grid, stride=FFD_STRIDE, **kw)
    return cls(grid, **kw)


def data_shape(kind, grid):
    """shape (without batch) of the parameters of a transform of this kind on this grid"""
    if kind == "lin":
        return (grid.ndim,)
    if kind in ("ffd", "svffd") and not grid.align_corners():
        # data_shape does not depend on the flag; only the constructor insists on align_corners=True
        grid = grid.align_corners(True)
    t = make(kind, grid, params=None)
    return tuple(int(n) for n in t.data_shape)


def const_tensor(shape, val):
    t = torch.zeros((1,) + tuple(shape), dtype=torch.float32)
    for i, v in enumerate(val):
        t[:, i] = float(v)
    return t


def tables(p):
    grids = [mkgrid(s) for s in p["grids"]]
    # geq: the early-return test of SpatialTransform.grid_ (Grid.__eq__ and equal align_corners)
    out = {"dshape": {}, "geq": [[bool(a == b and a.align_corners() == b.align_corners()) for b in grids] for a in grids],
           "same_domain": [[bool(a.same_domain_as(b)) for b in grids] for a in grids]}
    for k in KINDS:
        out["dshape"][k] = [data_shape(k, g) for g in grids]
    return out


class World:
    """interpreter of one history"""

    def __init__(self, grids):
        self.grids = grids
        self.objs = []
        self.kinds = []

    def register_copy(self, new, kind):
        """a composite returned by condition(...) / grid(g) comes with fresh member copies: they are objects of their
        own (the model allocates them in this order)"""
        if kind == "seq":
            for m in new.transforms():
                self.objs.append(m)
                self.kinds.append(kind_of(m))
        self.objs.append(new)
        self.kinds.append(kind)

    def fn(self, kind, fid, gf, as_module):
        grids = self.grids

        def f(c=None):
            k, g = (0, gf) if c is None else (int(c[0]), int(c[1]))
            shape = data_shape(kind, grids[g])
            if shape is None:
                raise ValueError("no parameters of this kind on that grid")
            return const_tensor(shape, fval(fid, k))
        if not as_module:
            return f

        class M(torch.nn.Module):
            def forward(self, c=None):
                return f(c)
        return M()

    def observe_points(self, t):
        x = torch.tensor([X], dtype=torch.float32)
        y = t(x)
        d = (y - x)[0]
        return {"val": d.mean(0).tolist(), "spread": float((d - d.mean(0, keepdim=True)).abs().max())}

    def observe_field(self, u):
        if u.ndim == 3:  # linear: (N, D, 1) translation
            if tuple(u.shape[1:]) != (2, 1):
                return {"val": None, "shape": list(u.shape[1:]), "spread": 0.0}
            return {"val": [float(u[0, 0, 0]), float(u[0, 1, 0])], "shape": [], "spread": 0.0}
        v = [float(u[0, i].mean()) for i in range(u.shape[1])]
        sp = max(float((u[0, i] - u[0, i].mean()).abs().max()) for i in range(u.shape[1]))
        return {"val": v, "shape": list(u.shape[2:]), "spread": sp}

    def run(self, op):
        k = op["op"]
        objs = self.objs
        if k == "new":
            kind = op["kind"]
            g = self.grids[op["grid"]]
            pk = op["pk"]
            if pk == "param":
                params = True
            elif pk == "buf":
                params = False
            elif pk == "none":
                params = None
            elif pk in ("tensor", "ptensor"):
                shape = data_shape(kind, self.grids[op["gfor"]])
                if shape is None:
                    raise ValueError("no parameters of this kind on that grid")
                params = const_tensor(shape, op["val"])
                if pk == "ptensor":
                    params = Parameter(params)
            elif pk in ("fun", "mod"):
                params = self.fn(kind, op["f"], op["gfor"], pk == "mod")
            else:
                raise RuntimeError("bad pk")
            t = make(kind, g, params=params)
            objs.append(t)
            self.kinds.append(kind)
            return {}
        if k == "seq":
            t = S.SequentialTransform(*[objs[i] for i in op["members"]])
            objs.append(t)
            self.kinds.append("seq")
            return {}
        t = objs[op["o"]]
        kind = self.kinds[op["o"]]
        if k == "data_":
            shape = data_shape(kind, self.grids[op["gfor"]])
            if shape is None:
                raise ValueError("no parameters of this kind on that grid")
            arg = const_tensor(shape, op["val"])
            if op.get("isparam"):
                arg = Parameter(arg)
            t.data_(arg)
            return {}
        if k == "edit":
            with torch.no_grad():
                d = t.data()
                for i, v in enumerate(op["val"]):
                    d[:, i].fill_(float(v))
            return {}
        if k == "grid_":
            t.grid_(self.grids[op["grid"]])
            return {}
        if k == "cond_":
            t.condition_((int(op["c"][0]), int(op["c"][1])))
            return {}
        if k == "cond":
            # functional form: conditioned shallow copy, positional or keyword argument
            c = (int(op["c"][0]), int(op["c"][1]))
            new = t.condition(c=c) if op.get("kw") else t.condition(c)
            if not isinstance(new, S.SpatialTransform):
                raise TypeError("condition() with arguments did not return a transform")
            self.register_copy(new, kind)
            return {}
        if k == "grid":
            # functional form: shallow copy (private _parameters dict; members copied for composites), then grid_
            self.register_copy(t.grid(self.grids[op["grid"]]), kind)
            return {}
        if k == "data":
            shape = data_shape(kind, self.grids[op["gfor"]])
            arg = const_tensor(shape, op["val"])
            if op.get("isparam"):
                arg = Parameter(arg)
            self.register_copy(t.data(arg), kind)
            return {}
        if k == "reset":
            t.reset_parameters()
            return {}
        if k == "update":
            t.update()
            return {}
        if k == "clear":
            t.clear_buffers()
            return {}
        if k == "call":
            with torch.no_grad():
                return self.observe_points(t)
        if k == "disp":
            with torch.no_grad():
                return self.observe_field(t.disp())
        if k == "tensor":
            with torch.no_grad():
                return self.observe_field(t.tensor())
        if k == "inverse":
            inv = t.inv if op.get("prop") else t.inverse(link=bool(op["link"]), update_buffers=bool(op["upd"]))
            if kind == "seq":
                # the member inverses are objects of their own (the model allocates them in this order)
                for m in inv.transforms():
                    objs.append(m)
                    self.kinds.append(kind_of(m))
            objs.append(inv)
            self.kinds.append(kind)
            return {}
        if k == "link_":
            t.link_(objs[op["other"]])
            return {}
        if k == "unlink_":
            t.unlink_()
            return {}
        if k == "copy":
            objs.append(copy.copy(t))
            self.kinds.append(kind)
            return {}
        raise RuntimeError("unknown op " + k)


def fval(fid, k):
    """value a callable with id fid returns on condition k (distinct, dyadic)"""
    a = (fid + 1) / 4.0 + k / 32.0
    return [a, -a / 2.0 - 1.0 / 64.0]


def run_op(w, op):
    try:
        with torch.no_grad():   # the whole history runs without autograd (in-place edits stand for optimiser steps)
            r = w.run(op)
        r["st"] = "ok"
    except Exception as e:  # noqa
        r = {"st": "err", "err": errkind(e), "msg": f"{type(e).__name__}: {str(e)[:160]}"}
    return r


def histories(p):
    grids = [mkgrid(s) for s in p["grids"]]
    out = []
    for h in p["histories"]:
        w = World(grids)
        out.append([run_op(w, op) for op in h])
    return out


# ------------------------------------------------------------------------------------------------
# seeded generator of histories; it looks at the real objects only to pick references / shapes that
# make most operations valid (a separate share of deliberately malformed arguments is kept)
# ------------------------------------------------------------------------------------------------
def dy(rng):
    return rng.randint(-48, 48) / 64.0


def grid_id(grids, g):
    for i, x in enumerate(grids):
        if x == g and x.align_corners() == g.align_corners():
            return i
    return 0


FOCUS = {"mode": None}


def gen_new(rng, grids, specs):
    kind = rng.choice(list(KINDS) if FOCUS["mode"] != "inverse" else ["svf", "svffd", "lin", "lin"])
    pk = rng.choice(["param", "buf", "tensor", "ptensor", "fun", "mod", "none", "tensor", "fun"])
    cands = [g for g in range(len(grids)) if kind == "lin" or kind in ("disp", "svf") or specs[g]["align"]]
    if rng.random() < 0.06:
        cands = list(range(len(grids)))
    g = rng.choice(cands)
    op = {"op": "new", "kind": kind, "grid": g, "pk": pk}
    if pk in ("tensor", "ptensor"):
        op["val"] = [dy(rng), dy(rng)]
        op["gfor"] = g if rng.random() < 0.93 else rng.randrange(len(grids))
    if pk in ("fun", "mod"):
        op["f"] = rng.randrange(3)
        op["gfor"] = g if rng.random() < 0.93 else rng.randrange(len(grids))
    return op


FFD_NEXT = {0: [1, 3, 0, 4, 2], 3: [1, 3, 6], 1: [6, 1, 0, 5], 4: [0, 4, 1], 6: [6, 1]}


def gen_op(rng, w, specs):
    grids = w.grids
    if not w.objs or rng.random() < 0.05:
        return gen_new(rng, grids, specs)
    if rng.random() < 0.09:
        base = rng.randrange(len(w.objs))
        same = [i for i, t in enumerate(w.objs) if w.kinds[i] != "seq" and t.grid().same_domain_as(w.objs[base].grid())]
        if same and w.kinds[base] != "seq":
            return {"op": "seq", "members": [base] + [rng.choice(same) for _ in range(rng.randint(0, 2))]}
    o = rng.randrange(len(w.objs))
    seqs = [i for i, k in enumerate(w.kinds) if k == "seq"]
    if seqs and rng.random() < 0.3:
        o = rng.choice(seqs)
        if rng.random() < 0.5:     # one of its members
            ms = [i for i, t in enumerate(w.objs) if any(t is m for m in w.objs[o].transforms())]
            if ms:
                o = rng.choice(ms)
    t = w.objs[o]
    kind = w.kinds[o]
    cur = grid_id(grids, t.grid())
    choices = ["call"] * 5 + ["disp"] * 3 + ["tensor"] * 3 + ["update"] * 2 + ["clear", "copy", "cond_", "cond", "grid", "grid_", "grid_", "inverse", "inverse"]
    if kind != "seq":
        choices += ["data_"] * 3 + ["edit"] * 3 + ["reset", "link_", "unlink_", "cond_", "data"]
    if FOCUS["mode"] == "inverse":
        choices = ["call"] * 6 + ["inverse"] * 5 + ["tensor", "disp", "update", "copy", "cond_", "clear"]
        if kind != "seq":
            choices += ["edit"] * 5 + ["data_"] * 2 + ["reset", "link_", "unlink_"]
    k = rng.choice(choices)
    op = {"op": k, "o": o if rng.random() < 0.985 else len(w.objs) + 1}
    if k in ("data_", "data"):
        op["val"] = [dy(rng), dy(rng)]
        op["gfor"] = cur if rng.random() < 0.92 else rng.randrange(len(grids))
        op["isparam"] = rng.random() < 0.2
    elif k == "edit":
        op["val"] = [dy(rng), dy(rng)]
    elif k in ("grid_", "grid"):
        if kind in ("ffd", "svffd") and rng.random() < 0.9:
            op["grid"] = rng.choice(FFD_NEXT.get(cur, [0, 1]))
        else:
            op["grid"] = rng.randrange(len(grids))
    elif k in ("cond_", "cond"):
        op["c"] = [rng.randint(1, 6), cur if rng.random() < 0.9 else rng.randrange(len(grids))]
        if k == "cond":
            op["kw"] = rng.random() < 0.5
    elif k == "inverse":
        op["link"] = rng.random() < 0.5
        op["upd"] = rng.random() < 0.5
        if rng.random() < 0.15:
            op["prop"], op["link"], op["upd"] = True, True, True
    elif k == "link_":
        same = [i for i, x in enumerate(w.kinds) if x == kind]
        op["other"] = rng.choice(same) if same and rng.random() < 0.9 else rng.randrange(len(w.objs))
    return op


def scripted_composite(rng, specs):
    """child with buffered state, composite of it, call/update, in-place edit, an invalidating operation on the
    COMPOSITE, then direct access (no __call__) to composite and child"""
    kind = rng.choice(["svf", "ffd", "svffd", "disp"])
    g = rng.choice([0, 1, 3, 4, 6])
    h = [{"op": "new", "kind": kind, "grid": g, "pk": rng.choice(["tensor", "ptensor", "param"])}]
    if h[0]["pk"] != "param":
        h[0]["val"], h[0]["gfor"] = [dy(rng), dy(rng)], g
    members = [0]
    if rng.random() < 0.4:
        h.append({"op": "new", "kind": rng.choice(["lin", "svf"]), "grid": g, "pk": "tensor", "val": [dy(rng), dy(rng)], "gfor": g})
        members = [0, 1] if rng.random() < 0.5 else [1, 0]
    h.append({"op": "seq", "members": members})
    c = len(h) - 1
    h.append({"op": rng.choice(["call", "update"]), "o": c})
    h.append({"op": "edit", "o": 0, "val": [dy(rng), dy(rng)]})
    k = rng.choice(["clear", "clear", "cond_", "grid_"])
    op = {"op": k, "o": c}
    if k == "cond_":
        op["c"] = [rng.randint(1, 6), g]
    if k == "grid_":
        op["grid"] = rng.choice([q for q in (0, 1, 3, 4, 6) if q != g])
    h.append(op)
    for _ in range(rng.randint(1, 2)):
        h.append({"op": rng.choice(["disp", "tensor"]), "o": rng.choice([c, c, 0])})
    return h


def generate(p):
    FOCUS["mode"] = p.get("focus")
    rng = random.Random(p["seed"])
    specs = p["grids"]
    grids = [mkgrid(s) for s in specs]
    hs, rs = [], []
    for _ in range(p["n"]):
        w = World(grids)
        h, res = [], []
        L = rng.randint(3, p["maxlen"])
        if FOCUS["mode"] is None and rng.random() < 0.12:
            for op in scripted_composite(rng, specs):
                h.append(op)
                res.append(run_op(w, op))
        for _ in range(rng.choice([1, 1, 2, 3]) if not h else 0):
            op = gen_new(rng, grids, specs)
            h.append(op)
            res.append(run_op(w, op))
        while len(h) < L:
            op = gen_op(rng, w, specs)
            h.append(op)
            res.append(run_op(w, op))
        hs.append(h)
        rs.append(res)
    return {"histories": hs, "results": rs}


# ------------------------------------------------------------------------------------------------
# the property itself, on random smooth (non-constant) parameters
# ------------------------------------------------------------------------------------------------
def smooth(rng, shape, amp):
    """low-frequency random field of given (C, Y, X) shape"""
    C = shape[0]
    sp = shape[1:]
    out = torch.zeros((1,) + tuple(shape), dtype=torch.float32)
    axes = [torch.linspace(-1, 1, n) for n in sp]
    mesh = torch.meshgrid(*axes, indexing="ij")
    for c in range(C):
        f = torch.zeros(tuple(sp))
        f += rng.uniform(-1, 1)
        for m in mesh:
            f += rng.uniform(-1, 1) * m + rng.uniform(-0.5, 0.5) * torch.cos(2.0 * m + rng.uniform(0, 3))
        out[0, c] = amp * f / 3.0
    return out


def rnd_params(rng, kind, grid, amp=0.08):
    shape = data_shape(kind, grid)
    if kind == "lin":
        return torch.tensor([[rng.uniform(-0.3, 0.3) for _ in range(grid.ndim)]], dtype=torch.float32)
    return smooth(rng, shape, amp)


def held_params(t):
    """the parameters the transform holds now, by its documented semantics (no buffers); None if undefined"""
    try:
        p = t.params
        if p is None:
            return None
        if isinstance(p, S.SpatialTransform):
            return p.data()
        if callable(p) and not isinstance(p, torch.Tensor):
            a, kw = t.condition()
            return p(*a, **kw)
        return p
    except Exception:  # noqa
        return None


def consistent(t, kind):
    """held parameters exist and have the shape the held grid asks for"""
    d = held_params(t)
    if d is None:
        return False
    return tuple(d.shape[1:]) == tuple(data_shape(kind, t.grid()))


def fresh_twin(t, kind):
    """a newly constructed transform with the state t holds now"""
    data = held_params(t)
    tw = make(kind, t.grid(), params=data.detach().clone())
    if kind == "lin":
        tw.invert = bool(t.invert)
    if kind in ("svf", "svffd"):
        tw.exp.scale = float(t.exp.scale)
        tw.exp.steps = int(t.exp.steps)
    return tw


def maxdiff(a, b):
    if tuple(a.shape) != tuple(b.shape):
        return float("inf")
    return float((a - b).abs().max())


def cname(t, kd):
    return "LinearTransform" if kd == "lin" else type(t).__name__


def pkname(t):
    p = t.params
    if isinstance(p, Parameter):
        return "Parameter"
    if isinstance(p, S.SpatialTransform):
        return "link"
    if isinstance(p, torch.Tensor):
        return "tensor"
    if p is None:
        return "none"
    return "callable"


def condition_api_checks(grids, report):
    """SpatialTransform.condition(): get with no arguments, new conditioned transform otherwise"""
    t = make("lin", grids[0], params=lambda *a, **k: torch.zeros((1, 2)))
    try:
        r = t.condition(a=1)
        if not isinstance(r, S.SpatialTransform):
            report("C09:SpatialTransform.condition:kwargs-only-returns-current",
                   "condition(a=1) returns the current (args, kwargs) instead of a transform conditioned on a=1", [{"op": "condition", "kwargs": {"a": 1}}])
        r = t.condition(1, a=2)
        if not isinstance(r, S.SpatialTransform) or r.condition() != ((1,), {"a": 2}):
            got = r.condition() if isinstance(r, S.SpatialTransform) else r
            report("C09:SpatialTransform.condition:kwargs-dropped",
                   f"condition(1, a=2) is conditioned on {got!r}: keyword arguments are dropped", [{"op": "condition", "args": [1], "kwargs": {"a": 2}}])
        t2 = make("lin", grids[0], params=lambda *a, **k: torch.zeros((1, 2)))
        t2.condition_(3, b=4)
        if t2.condition() != ((3,), {"b": 4}):
            report("C09:SpatialTransform.condition_:not-stored", f"condition_(3, b=4) stored {t2.condition()!r}", [{"op": "condition_"}])
    except Exception as e:  # noqa
        report("C09:SpatialTransform.condition:raises", f"{type(e).__name__}: {str(e)[:100]}", [{"op": "condition"}])


def admissible_grids(kd, t, grids, specs, dom):
    cur = [g for g in range(len(grids)) if grids[g] == t.grid() and grids[g].align_corners() == t.grid().align_corners()]
    if not cur:
        return []
    grp = [g for g in dom if cur[0] in g]
    cands = list(grp[0]) if grp else []
    if kd in ("ffd", "svffd"):
        ok = []
        for g in cands:
            if not specs[g]["align"] or not grids[g].same_domain_as(t.grid()):
                continue
            if all(nb in (na, 2 * na - 1) for na, nb in zip(specs[cur[0]]["size"], specs[g]["size"])):
                ok.append(g)
        cands = ok
    return cands


def oracle(p):
    rng = random.Random(p["seed"])
    specs = p["grids"]
    grids = [mkgrid(s) for s in specs]
    dom = p["domain_groups"]          # lists of grid ids sharing the sample-point hull
    n = p["n"]
    maxlen = p["maxlen"]
    fails = []
    counts = {"histories": 0, "ops": 0, "call_checks": 0, "disp_checks": 0, "regrid_checks": 0, "raised": 0}

    def report(key, what, hist, extra=None):
        fails.append({"key": key, "what": what, "history": hist, "extra": extra or {}})

    condition_api_checks(grids, report)
    for it in range(n):
        kind = rng.choice(["disp", "svf", "ffd", "svffd", "lin"])
        pk = rng.choice(["param", "tensor", "ptensor", "fun", "buf"])
        group = rng.choice(dom)
        if kind in ("ffd", "svffd"):
            group = [g for g in group if specs[g]["align"]]
        gi = rng.choice(group)
        hist = [{"op": "new", "kind": kind, "pk": pk, "grid": gi}]
        store = {}

        def fun(c=None, store=store):
            return store[("f", c)]

        try:
            if pk == "param":
                t = make(kind, grids[gi], params=True)
                with torch.no_grad():
                    t.params.copy_(rnd_params(rng, kind, grids[gi]))
            elif pk == "buf":
                t = make(kind, grids[gi], params=False)
                t.params.copy_(rnd_params(rng, kind, grids[gi]))
            elif pk == "tensor":
                t = make(kind, grids[gi], params=rnd_params(rng, kind, grids[gi]))
            elif pk == "ptensor":
                t = make(kind, grids[gi], params=Parameter(rnd_params(rng, kind, grids[gi])))
            else:
                store[("f", None)] = rnd_params(rng, kind, grids[gi])
                t = make(kind, grids[gi], params=fun)
        except Exception as e:  # noqa
            report(f"C09:{KINDS[kind].__name__}.__init__:{pk}:raises", f"constructor raises {type(e).__name__}: {str(e)[:100]}", hist)
            continue
        counts["histories"] += 1
        objs = [(t, kind)]
        x = torch.rand((1, 7, 2), generator=torch.Generator().manual_seed(rng.randint(0, 10 ** 6))) * 1.6 - 0.8
        L = rng.randint(2, maxlen)
        for step in range(L):
            ti = rng.randrange(len(objs))
            t, kd = objs[ti]
            pkn = pkname(t)
            ops = ["call", "call", "update", "clear", "copy"]
            if pkn in ("Parameter", "tensor"):
                ops += ["data_", "edit", "edit", "reset"]
            if pkn == "callable":
                ops += ["cond_", "cond_", "reset"]
            if kd != "lin" and pkn != "link":
                ops += ["grid_", "grid_"]
            if kd in ("svf", "svffd", "lin"):
                ops += ["inverse", "inverse"]
            if pkn == "link":
                ops += ["unlink_"]
            op = rng.choice(ops)
            rec = {"op": op, "o": ti}
            hist.append(rec)
            counts["ops"] += 1
            replaced = False
            stop = False
            was_consistent = consistent(t, kd)
            try:
                if op == "data_":
                    t.data_(rnd_params(rng, kd, t.grid()))
                    replaced = True
                elif op == "edit":
                    with torch.no_grad():
                        t.data().add_(rnd_params(rng, kd, t.grid(), amp=0.05))
                elif op == "reset":
                    t.reset_parameters()
                    replaced = True
                elif op == "cond_":
                    c = rng.randint(1, 5)
                    rec["c"] = c
                    store[("f", c)] = rnd_params(rng, kd, t.grid())
                    t.condition_(c)
                    replaced = True
                elif op == "grid_":
                    cands = admissible_grids(kd, t, grids, specs, dom)
                    if not cands:
                        hist.pop()
                        continue
                    gn = rng.choice(cands)
                    rec["grid"] = gn
                    before = None
                    if pkn in ("Parameter", "tensor") and consistent(t, kd):
                        t.update()
                        before = t.flow().axes("world")
                    if pkn == "callable":
                        a, _ = t.condition()
                        cc = a[0] if a else None
                        # the callable must return matching size after the grid change
                        store[("f", cc)] = rnd_params(rng, kd, grids[gn])
                    t.grid_(grids[gn])
                    replaced = True
                    ga = t.grid()
                    if not (ga == grids[gn] and ga.align_corners() == grids[gn].align_corners()):
                        d = float("nan")
                        if before is not None:
                            t.update()
                            d = maxdiff(t.flow().axes("world").sample(before.grid()).tensor(), before.tensor())
                        base = "DenseVectorFieldTransform" if kd in ("disp", "svf") else ("BSplineTransform" if kd != "lin" else "SpatialTransform")
                        report(f"C09:{base}.grid_:align-corners-only:grid-not-replaced",
                               "grid_() with a grid that differs from the current one only in align_corners re-expresses the parameters for "
                               f"the new axes but keeps the previous grid (align_corners {ga.align_corners()} instead of {grids[gn].align_corners()}); "
                               f"world-space displacement changed by {d:.3g}", list(hist))
                        stop = True
                    elif before is not None:
                        counts["regrid_checks"] += 1
                        t.update()
                        after = t.flow().axes("world")
                        same = after.grid() == before.grid() and after.grid().align_corners() == before.grid().align_corners()
                        # compare at the sample points of the coarser of the two lattices (both share the corner points)
                        if same:
                            d = maxdiff(after.tensor(), before.tensor())
                        elif after.grid().numel() >= before.grid().numel():
                            d = maxdiff(after.sample(before.grid()).tensor(), before.tensor())
                        else:
                            d = maxdiff(before.sample(after.grid()).tensor(), after.tensor())
                        tol = 0.05 * float(before.tensor().abs().max()) + 1e-4
                        if d > tol:
                            report(f"C09:{type(t).__name__}.grid_:world-deformation-changed",
                                   f"world-space displacement changed by {d:.3g} (tolerance {tol:.3g}) after grid_()", list(hist))
                elif op == "update":
                    t.update()
                elif op == "clear":
                    t.clear_buffers()
                elif op == "copy":
                    objs.append((copy.copy(t), kd))
                elif op == "inverse":
                    link = rng.random() < 0.4
                    upd = rng.random() < 0.5
                    rec["link"], rec["upd"] = link, upd
                    objs.append((t.inverse(link=link, update_buffers=upd), kd))
                elif op == "unlink_":
                    t.unlink_()
            except Exception as e:  # noqa
                counts["raised"] += 1
                if op == "inverse" and rec.get("link") and isinstance(e, TypeError):
                    report(f"C09:ParametricTransform.link_:{pkn}:TypeError",
                           f"inverse(link=True) raises {type(e).__name__}: {str(e)[:120]}", list(hist))
                elif was_consistent:
                    # an operation on a transform whose held state is well-formed must not fail
                    report(f"C09:{cname(t, kd)}.{op}:{pkn}:raises", f"{op} raises {type(e).__name__}: {str(e)[:100]}", list(hist))
                continue
            if stop:
                break
            # checks: every object whose held state is consistent must evaluate exactly that state when called
            for oi, (u, uk) in enumerate(objs):
                if not consistent(u, uk):
                    continue
                if uk == "svf" and bool(u.exp.align_corners) != bool(u.grid().align_corners()):
                    # the ExpFlow module is shared by shallow copies; grid_ of ANOTHER copy rewrote its flag
                    report("C09:StationaryVelocityFieldTransform.grid_:shared-ExpFlow:align_corners-of-another-grid",
                           "grid_() of a shallow copy sets exp.align_corners on the ExpFlow module it shares with this transform: "
                           f"this transform's grid has align_corners={u.grid().align_corners()} but it exponentiates with "
                           f"align_corners={u.exp.align_corners}", list(hist), {"object": oi})
                    continue
                try:
                    tw = fresh_twin(u, uk)
                    with torch.no_grad():
                        want = tw(x)
                        got = u(x)
                    counts["call_checks"] += 1
                    d = maxdiff(got, want)
                    if d > 1e-5:
                        report(f"C09:{cname(u, uk)}.__call__:{pkname(u)}:stale-after-{op}",
                               f"call differs from a freshly built transform with the same parameters/grid/condition by {d:.3g}", list(hist),
                               {"object": oi})
                except Exception as e:  # noqa
                    report(f"C09:{cname(u, uk)}.__call__:{pkname(u)}:raises-after-{op}", f"{type(e).__name__}: {str(e)[:100]}", list(hist), {"object": oi})
        # replacing operations are checked separately on fresh objects so that no call intervenes
    replace_checks(rng, grids, specs, dom, n, report, counts)
    composite_checks(rng, grids, specs, max(20, n // 3), report, counts)
    composite_direct_checks(rng, grids, specs, max(24, n // 4), report, counts)
    expflow_sharing_checks(rng, max(24, n // 5), report, counts)
    fit_checks(rng, max(10, n // 12), report, counts)
    accessor_copy_checks(rng, max(20, n // 6), report, counts)
    linked_inverse_checks(rng, max(24, n // 5), report, counts)
    nested_composite_checks(rng, max(12, n // 10), report, counts)
    deepcopy_checks(rng, max(16, n // 8), report, counts)
    regrid_stride_checks(rng, max(12, n // 10), report, counts)
    # de-duplicate by key keeping the shortest history
    best = {}
    for f in fails:
        if f["key"] not in best or len(f["history"]) < len(best[f["key"]]["history"]):
            best[f["key"]] = f
    return {"fails": list(best.values()), "counts": counts}


def replace_checks(rng, grids, specs, dom, n, report, counts):
    """disp()/tensor() IMMEDIATELY after data_/reset/condition_/grid_ must reflect the new state"""
    for it in range(n):
        kind = rng.choice(["disp", "svf", "ffd", "svffd", "lin"])
        pk = rng.choice(["param", "tensor", "ptensor", "fun", "buf"])
        group = rng.choice(dom)
        if kind in ("ffd", "svffd"):
            group = [g for g in group if specs[g]["align"]]
        gi = rng.choice(group)
        store = {}

        def fun(c=None, store=store):
            return store[("f", c)]
        if pk == "param":
            t = make(kind, grids[gi], params=True)
            with torch.no_grad():
                t.params.copy_(rnd_params(rng, kind, grids[gi]))
        elif pk == "buf":
            t = make(kind, grids[gi], params=False)
            t.params.copy_(rnd_params(rng, kind, grids[gi]))
        elif pk == "tensor":
            t = make(kind, grids[gi], params=rnd_params(rng, kind, grids[gi]))
        elif pk == "ptensor":
            t = make(kind, grids[gi], params=Parameter(rnd_params(rng, kind, grids[gi])))
        else:
            store[("f", None)] = rnd_params(rng, kind, grids[gi])
            t = make(kind, grids[gi], params=fun)
        hist = [{"op": "new", "kind": kind, "pk": pk, "grid": gi}]
        x = torch.rand((1, 5, 2), generator=torch.Generator().manual_seed(it)) * 1.6 - 0.8
        for step in range(rng.randint(1, 4)):
            pre = rng.choice(["call", "update", "edit", "none", "disp"])
            try:
                if pre == "call":
                    t(x)
                elif pre == "update":
                    t.update()
                elif pre == "disp":
                    t.disp()
                elif pre == "edit" and pk != "fun":
                    with torch.no_grad():
                        t.data().add_(rnd_params(rng, kind, t.grid(), amp=0.05))
                hist.append({"op": pre})
                ops = ["data_", "reset"] if pk != "fun" else ["cond_", "cond_", "reset"]
                if kind != "lin":
                    ops.append("grid_")
                op = rng.choice(ops)
                rec = {"op": op}
                hist.append(rec)
                if op == "data_":
                    t.data_(rnd_params(rng, kind, t.grid()))
                elif op == "reset":
                    t.reset_parameters()
                elif op == "cond_":
                    c = rng.randint(1, 5)
                    rec["c"] = c
                    store[("f", c)] = rnd_params(rng, kind, t.grid())
                    t.condition_(c)
                else:
                    cands = [g for g in admissible_grids(kind, t, grids, specs, dom)
                             if not (grids[g] == t.grid() and grids[g].align_corners() == t.grid().align_corners())]
                    if not cands:
                        hist.pop()
                        continue
                    gn = rng.choice(cands)
                    rec["grid"] = gn
                    if pk == "fun":
                        a, _ = t.condition()
                        store[("f", a[0] if a else None)] = rnd_params(rng, kind, grids[gn])
                    t.grid_(grids[gn])
                if not consistent(t, kind):
                    break
                tw = fresh_twin(t, kind)
                with torch.no_grad():
                    want = [tw.tensor(), tw.disp()]
                    got = [t.tensor(), t.disp()]
                counts["disp_checks"] += 1
                d = max(maxdiff(a, b) for a, b in zip(got, want))
                if d > 1e-5:
                    base = cname(t, kind)
                    if op == "grid_" and kind in ("ffd", "svffd"):
                        base = "BSplineTransform"
                    opn = {"cond_": "condition_", "reset": "reset_parameters"}.get(op, op)
                    report(f"C09:{base}.{opn}:{'callable' if pk == 'fun' else 'tensor'}:tensor-stale",
                           f"tensor()/disp() right after {opn} differ from the new state by {d:.3g} (a call or update() in between repairs it)",
                           list(hist))
                    break
            except Exception as e:  # noqa
                report(f"C09:{cname(t, kind)}.{hist[-1]['op']}:replace-raises", f"{type(e).__name__}: {str(e)[:100]}", list(hist))
                break


def composite_checks(rng, grids, specs, n, report, counts):
    """a SequentialTransform called after its members changed must evaluate the members' current state"""
    counts["composite_checks"] = 0
    for it in range(n):
        gi = rng.choice([0, 1, 3, 4])
        g = grids[gi]
        kinds = [rng.choice(["disp", "svf", "ffd", "svffd", "lin"]) for _ in range(rng.randint(1, 3))]
        store = {}
        members = []
        for j, k in enumerate(kinds):
            if rng.random() < 0.3:
                store[(j, None)] = rnd_params(rng, k, g)
                members.append(make(k, g, params=(lambda c=None, j=j: store[(j, c)])))
            else:
                members.append(make(k, g, params=rnd_params(rng, k, g)))
        hist = [{"op": "seq", "kinds": kinds, "grid": gi}]
        try:
            seq = S.SequentialTransform(*members)
            x = torch.rand((1, 6, 2), generator=torch.Generator().manual_seed(it)) * 1.2 - 0.6
            objs = [(seq, members, kinds)]
            for step in range(rng.randint(1, 5)):
                cs, ms, ks = objs[rng.randrange(len(objs))]
                j = rng.randrange(len(ms))
                m, k = ms[j], ks[j]
                op = rng.choice(["edit", "data_", "cond_", "call", "disp", "inverse", "copy"])
                hist.append({"op": op, "member": j})
                with torch.no_grad():
                    if op == "call":
                        cs(x)
                    elif op == "disp":
                        cs.disp()
                    elif op == "copy":
                        objs.append((copy.copy(cs), ms, ks))
                    elif op == "inverse":
                        if all(kk in ("svf", "svffd", "lin") for kk in ks) and not any(isinstance(mm.params, Parameter) for mm in ms):
                            inv = cs.inverse(link=rng.random() < 0.5, update_buffers=rng.random() < 0.5)
                            objs.append((inv, list(inv.transforms()), list(reversed(ks))))
                    elif pkname(m) == "callable" or pkname(m) == "link":
                        if op == "cond_" and pkname(m) == "callable":
                            jj = [q for q in range(len(members)) if members[q] is m]
                            if jj:
                                c = rng.randint(1, 4)
                                for q in range(len(members)):
                                    if pkname(members[q]) == "callable":
                                        store[(q, c)] = rnd_params(rng, kinds[q], g)
                                cs.condition_(c)
                    elif op == "edit":
                        m.data().add_(rnd_params(rng, k, g, amp=0.05))
                    elif op == "data_":
                        m.data_(rnd_params(rng, k, g))
                    for cs2, ms2, ks2 in objs:
                        if not all(consistent(mm, kk) for mm, kk in zip(ms2, ks2)):
                            continue
                        twin = S.SequentialTransform(*[fresh_twin(mm, kk) for mm, kk in zip(ms2, ks2)])
                        want = twin(x)
                        got = cs2(x)
                        counts["composite_checks"] += 1
                        d = maxdiff(got, want)
                        if d > 1e-5:
                            report(f"C09:SequentialTransform.__call__:stale-after-{op}",
                                   f"composite call differs from a freshly built composite of the members' current state by {d:.3g}", list(hist))
        except Exception as e:  # noqa
            report(f"C09:SequentialTransform:{hist[-1]['op']}:raises", f"{type(e).__name__}: {str(e)[:120]}", list(hist))


def nested_composite_checks(rng, n, report, counts):
    """composite inside composite: outer.condition(z) / outer.grid(g) return a new transform; the leaves of the ORIGINAL
    (at any nesting depth) keep their condition and their buffers, the new one evaluates its own state"""
    counts["nested_checks"] = 0
    g = Grid(size=(9, 7), align_corners=True)
    g2 = Grid(size=(17, 13), spacing=(0.5, 0.5), align_corners=True)
    for it in range(n):
        acc = rng.choice(["condition", "condition", "grid"])
        case = [{"op": "nested", "accessor": acc}]
        try:
            store = {}

            def net(c=None, store=store):
                return store[c]
            store[None] = rnd_params(rng, "svf", g)
            store[3] = rnd_params(rng, "svf", g)
            leaf_a = make("svf", g, params=net)
            leaf_b = make("lin", g, params=rnd_params(rng, "lin", g))
            leaf_c = make("disp", g, params=rnd_params(rng, "disp", g))
            inner = S.SequentialTransform(leaf_a, leaf_b)
            outer = S.SequentialTransform(inner, leaf_c) if rng.random() < 0.5 else S.SequentialTransform(leaf_c, inner)
            x = torch.rand((1, 6, 2), generator=torch.Generator().manual_seed(5000 + it)) * 1.2 - 0.6
            with torch.no_grad():
                y0 = outer(x)
                c0 = [leaf_a.condition(), leaf_b.condition(), leaf_c.condition(), inner.condition()]
                u0 = getattr(leaf_a, "u", None)
                new = outer.condition(3) if acc == "condition" else outer.grid(g2)
                counts["nested_checks"] += 1
                c1 = [leaf_a.condition(), leaf_b.condition(), leaf_c.condition(), inner.condition()]
                if c0 != c1 or (u0 is not None and getattr(leaf_a, "u", None) is None):
                    report(f"C09:CompositeTransform.{acc}:nested:modifies-receiver",
                           f"outer.{acc}(...) on a composite containing a composite changed the leaves of the original: conditions {c0!r} -> {c1!r}, "
                           f"buffer u of a leaf {'cleared' if getattr(leaf_a, 'u', None) is None else 'kept'}", case)
                    continue
                y1 = outer(x)
                d = maxdiff(y1, y0)
                if d > 1e-6:
                    report(f"C09:CompositeTransform.{acc}:nested:modifies-receiver", f"the original maps points differently by {d:.3g} afterwards", case)
                    continue
                if acc == "condition":
                    tw_a = make("svf", g, params=store[3].clone())
                    tw_in = S.SequentialTransform(tw_a, fresh_twin(leaf_b, "lin"))
                    tw = S.SequentialTransform(tw_in, fresh_twin(leaf_c, "disp")) if list(outer.transforms())[0] is inner else \
                        S.SequentialTransform(fresh_twin(leaf_c, "disp"), tw_in)
                    d = maxdiff(new(x), tw(x))
                    if d > 1e-5:
                        report("C09:CompositeTransform.condition:nested:new-transform-not-conditioned",
                               f"the transform returned by outer.condition(3) differs from one built with the re-conditioned leaves by {d:.3g}", case)
        except Exception as e:  # noqa
            report(f"C09:CompositeTransform.{acc}:nested:raises", f"{type(e).__name__}: {str(e)[:120]}", case)


def deepcopy_checks(rng, n, report, counts):
    """copy.deepcopy(t) is independent of t, including the buffers t.update() cached (u, v, p): an in-place optimiser step
    on t's parameters leaves tensor() / disp() / v of the copy unchanged, before and after the copy's next update()"""
    counts["deepcopy_checks"] = 0
    for it in range(n):
        kind = rng.choice(["disp", "svf", "disp", "svf", "ffd", "lin"])
        g = Grid(size=(9, 7), align_corners=rng.random() < 0.5 or kind == "ffd")
        case = [{"op": "new", "kind": kind, "params": "Parameter(requires_grad)"}, {"op": "update"}, {"op": "deepcopy"}, {"op": "edit"}]
        try:
            t = make(kind, g, params=Parameter(rnd_params(rng, kind, g)))
            x = torch.rand((1, 6, 2), generator=torch.Generator().manual_seed(3000 + it)) * 1.2 - 0.6
            t.update()                 # autograd enabled: the cached fields are non-leaf tensors
            c = copy.deepcopy(t)
            with torch.no_grad():
                before = [c.tensor().clone()] + ([c.disp().clone()] if kind != "lin" else []) + \
                    ([c.v.clone()] if hasattr(c, "v") else [])
                t.data().add_(rnd_params(rng, kind, g, amp=0.05))
                after = [c.tensor()] + ([c.disp()] if kind != "lin" else []) + ([c.v] if hasattr(c, "v") else [])
                counts["deepcopy_checks"] += 1
                d = max(maxdiff(a, b) for a, b in zip(after, before))
                if d > 1e-7:
                    report(f"C09:SpatialTransform.__deepcopy__:{'cached-buffer' if kind != 'lin' else 'parameters'}-follows-original",
                           f"after an in-place edit of the original's parameters, tensor()/disp()/v of the deep copy changed by {d:.3g}", case)
                    continue
                y = c(x)
                tw = fresh_twin(c, kind)
                d = maxdiff(y, tw(x))
                if d > 1e-5 or maxdiff(c.data(), t.data()) < 1e-9:
                    report("C09:SpatialTransform.__deepcopy__:copy-not-independent",
                           f"deep copy evaluates {d:.3g} away from its own parameters / shares the edited parameters", case)
        except Exception as e:  # noqa
            report(f"C09:SpatialTransform.__deepcopy__:{kind}:raises", f"{type(e).__name__}: {str(e)[:120]}", case)


def regrid_stride_checks(rng, n, report, counts):
    """dense vector field models with stride > 1 (parameters on a coarser lattice): grid_() / grid() to a grid with the
    OTHER align_corners flag (or another lattice of the domain) preserves the world-space deformation of an affine field"""
    counts["regrid_stride_checks"] = 0
    for it in range(n):
        kind = rng.choice(["disp", "disp", "svf"])
        flag = rng.random() < 0.5
        stride = rng.choice([2, 2, 3])
        g = Grid(size=(25, 21), align_corners=flag)
        how = rng.choice(["grid_", "grid"])
        case = [{"op": "new", "kind": kind, "stride": stride, "align_corners": flag}, {"op": how, "align_corners": not flag}]
        try:
            cls = KINDS[kind]
            dg = cls(g, params=None, stride=stride).data_grid()
            co = dg.coords()
            A = torch.tensor([[rng.uniform(-0.06, 0.06) for _ in range(2)] for _ in range(2)])
            bb = torch.tensor([rng.uniform(-0.04, 0.04) for _ in range(2)])
            p = (torch.einsum("ij,yxj->yxi", A, co) + bb).permute(2, 0, 1).unsqueeze(0).contiguous()
            t = cls(g, params=p, stride=stride)
            from deepali.data.flow import FlowFields

            def world_field(tr):
                # displacement field of a DDF; VELOCITY field of an SVF (its exponential adds boundary effects of its own)
                tr.update()
                if kind == "disp":
                    return tr.flow(g).axes("world").tensor()
                return FlowFields(tr.v, grid=tr.grid(), axes=tr.axes()).sample(g).axes("world").tensor()
            with torch.no_grad():
                w0 = world_field(t)
                g2 = g.align_corners(not flag)
                t2 = t.grid(g2) if how == "grid" else t.grid_(g2)
                w1 = world_field(t2)
            counts["regrid_stride_checks"] += 1
            # lattice points of the new parameter lattice outside the hull of the old one are extrapolated (border
            # padding); that reaches one coarse cell inwards, so compare beyond two coarse cells from the boundary
            m = 2 * stride + 2
            d = float((w1 - w0)[..., m:-m, m:-m].abs().max())
            tol = 2e-4
            if d > tol:
                report("C09:DenseVectorFieldTransform.grid_:stride>1:align_corners-flip:world-deformation-changed",
                       f"{cls.__name__}(stride={stride}).{how}(grid with align_corners={not flag}): world-space displacement of an affine field "
                       f"changed by {d:.3g} in the interior (tolerance {tol:.3g})", case)
        except Exception as e:  # noqa
            report(f"C09:DenseVectorFieldTransform.grid_:stride>1:raises", f"{type(e).__name__}: {str(e)[:120]}", case)


def linked_inverse_checks(rng, n, report, counts):
    """an inverse created with inverse(link=True) / .inv reads the parameters of the transform it was created from: after
    that transform's parameters are REPLACED (data_) or updated in place, a call of the inverse evaluates the new
    parameters (with the opposite sign) -- for every way the parameters are held"""
    counts["linked_inverse_checks"] = 0
    for it in range(n):
        kind = rng.choice(["svf", "svf", "svffd", "lin"])
        pk = rng.choice(["tensor", "buf", "ptensor", "param"])
        g = Grid(size=(9, 7), align_corners=True)
        via = rng.choice(["inverse", "inverse", "inv"])
        upd = rng.random() < 0.5
        change = rng.choice(["data_", "data_", "edit"])
        case = [{"op": "new", "kind": kind, "pk": pk}, {"op": via, "link": True, "upd": upd}, {"op": change}]
        try:
            d0 = rnd_params(rng, kind, g)
            if pk == "tensor":
                t = make(kind, g, params=d0)
            elif pk == "ptensor":
                t = make(kind, g, params=Parameter(d0))
            else:
                t = make(kind, g, params=(pk == "param"))
                with torch.no_grad():
                    t.data().copy_(d0)
            x = torch.rand((1, 6, 2), generator=torch.Generator().manual_seed(6000 + it)) * 1.2 - 0.6
            with torch.no_grad():
                if rng.random() < 0.6:
                    t(x)
                ti = t.inv if via == "inv" else t.inverse(link=True, update_buffers=upd)
                ti(x)
                if change == "data_":
                    t.data_(rnd_params(rng, kind, g))
                else:
                    t.data().add_(rnd_params(rng, kind, g, amp=0.05))
                tw = fresh_twin(t, kind)
                if kind == "lin":
                    tw.invert = not bool(t.invert)
                else:
                    tw.exp.scale = -float(t.exp.scale)
                got, want = ti(x), tw(x)
            counts["linked_inverse_checks"] += 1
            d = maxdiff(got, want)
            if d > 1e-5:
                held = "Parameter" if pk in ("param", "ptensor") else "tensor"
                report(f"C09:{cname(t, kind)}.inverse:link:{held}:stale-after-{change}",
                       f"the linked inverse evaluates parameters its forward transform no longer holds: differs from the inverse of the current "
                       f"parameters by {d:.3g} after {change} on the forward transform", case)
        except Exception as e:  # noqa
            report(f"C09:{cname(make(kind, g, params=None), kind)}.inverse:link:raises", f"{type(e).__name__}: {str(e)[:120]}", case)


def accessor_copy_checks(rng, n, report, counts):
    """regressions ac06f87 / 91d1617: the functional accessors grid(g), data(arg), unlink(), condition(...) return a new
    transform and leave the receiver evaluating exactly what it held before (same parameters, same condition of the members,
    same buffers semantics); the new transform evaluates its own state"""
    counts["accessor_checks"] = 0
    same_dom = [0, 1, 3, 4, 6]
    specs_grids = None
    for it in range(n):
        kind = rng.choice(["disp", "svf", "ffd", "svffd", "lin", "seq"])
        gi = rng.choice([0, 1])
        g = Grid(size=((5, 4), (9, 7))[gi], spacing=((1, 1), (0.5, 0.5))[gi], align_corners=True)
        g2 = Grid(size=((9, 7), (17, 13))[gi], spacing=((0.5, 0.5), (0.25, 0.25))[gi], align_corners=True)
        acc = rng.choice(["grid", "grid", "data", "unlink", "condition"])
        case = [{"op": "new", "kind": kind, "grid": gi, "Parameter": True}, {"op": acc}]
        try:
            if kind == "seq":
                kinds = [rng.choice(["svf", "disp", "lin"]) for _ in range(2)]
                members = [make(k, g, params=Parameter(rnd_params(rng, k, g))) for k in kinds]
                t = S.SequentialTransform(*members)
                acc = rng.choice(["grid", "condition"])
                case[1]["op"] = acc
            else:
                t = make(kind, g, params=Parameter(rnd_params(rng, kind, g)))
            x = torch.rand((1, 6, 2), generator=torch.Generator().manual_seed(4000 + it)) * 1.2 - 0.6
            with torch.no_grad():
                y0 = t(x)
                cond0 = [m.condition() for m in t.transforms()] if kind == "seq" else t.condition()
                if acc == "grid":
                    t2 = t.grid(g2)
                elif acc == "data":
                    t2 = t.data(rnd_params(rng, kind, g))
                elif acc == "unlink":
                    t2 = t.unlink()
                else:
                    t2 = t.condition(3)
                counts["accessor_checks"] += 1
                cond1 = [m.condition() for m in t.transforms()] if kind == "seq" else t.condition()
                y1 = t(x)
                d = maxdiff(y1, y0)
                if d > 1e-6 or cond0 != cond1:
                    what = f"receiver maps points differently by {d:.3g}" if d > 1e-6 else f"condition of the receiver's members changed from {cond0!r} to {cond1!r}"
                    report(f"C09:{'CompositeTransform' if kind == 'seq' else 'SpatialTransform'}.{acc}:modifies-receiver",
                           f"{type(t).__name__}.{acc}(...) returned a new transform but the transform it was called on changed: {what}", case)
                    continue
                if acc in ("grid", "data") and kind != "seq":
                    # the new transform holds its own state: a later data_() on the receiver must not reach it
                    y2 = t2(x)
                    t.data_(rnd_params(rng, kind, g))
                    d = maxdiff(t2(x), y2)
                    if d > 1e-6:
                        report(f"C09:SpatialTransform.{acc}:copy-follows-receiver",
                               f"the transform returned by {acc}(...) changed by {d:.3g} after data_() on the original", case)
        except Exception as e:  # noqa
            report(f"C09:{KINDS[kind].__name__ if kind != 'seq' else 'SequentialTransform'}.{acc}:accessor-raises", f"{type(e).__name__}: {str(e)[:120]}", case)


def fit_checks(rng, n, report, counts):
    """regressions 7f34b92 / 8d514ae: fit(flow) of a non-rigid model (2-D and 3-D): afterwards disp() matches the flow
    and a call evaluates the fitted parameters (fresh twin), i.e. fit works on the current parameters in every iteration
    and leaves no stale buffer behind"""
    from deepali.data.flow import FlowFields
    counts["fit_checks"] = 0
    for it in range(n):
        kind = rng.choice(["ffd", "svf", "disp", "disp"])
        D = rng.choice([2, 3])
        g = Grid(size=(9, 7, 5)[:D], align_corners=True)
        case = [{"op": "fit", "kind": kind, "D": D}]
        try:
            c = [rng.uniform(-0.06, 0.06) for _ in range(D)]
            target = torch.zeros((1, D) + tuple(g.shape))
            for d in range(D):
                target[:, d] = c[d]
            t = make(kind, g) if kind != "ffd" else KINDS["ffd"](g, stride=2)
            pre = rng.choice(["call", "none", "update"])
            x = torch.rand((1, 5, D), generator=torch.Generator().manual_seed(it)) - 0.5
            if pre == "call":
                with torch.no_grad():
                    t(x)
            elif pre == "update":
                t.update()
            case.append({"op": pre})
            t.fit(FlowFields(target, grid=g), steps=200 if kind != "disp" else 1, lr=0.02)
            with torch.no_grad():
                d1 = maxdiff(t.disp(), target)
                tw = fresh_twin(t, kind) if kind != "ffd" else KINDS["ffd"](g, stride=2, params=t.data().detach().clone())
                # right after fit(): disp()/tensor() without an intervening update() must already be those of the fitted parameters
                d0 = max(maxdiff(t.disp(), tw.disp()), maxdiff(t.tensor(), tw.tensor()))
                d2 = maxdiff(t(x), tw(x))
            if d0 > 1e-6:
                report(f"C09:SpatialTransform.fit:buffers-stale-after-last-step",
                       f"{type(t).__name__}: disp()/tensor() right after fit() differ by {d0:.3g} from the fitted parameters "
                       "(the buffered field was computed before the last optimizer step)", case)
            counts["fit_checks"] += 1
            tol = 1e-6 if kind == "disp" else 0.02
            if d1 > tol:
                report(f"C09:{type(t).__name__}.fit:disp-differs-from-flow", f"after fit() disp() differs from the fitted constant flow by {d1:.3g}", case)
            if d2 > 1e-5:
                report(f"C09:{type(t).__name__}.fit:call-stale", f"after fit() a call differs from a fresh transform with the fitted parameters by {d2:.3g}", case)
        except Exception as e:  # noqa
            report(f"C09:{KINDS[kind].__name__}.fit:D{D}:raises", f"{type(e).__name__}: {str(e)[:120]}", case)


def expflow_sharing_checks(rng, n, report, counts):
    """regressions 5d5a4a7 / be342f9: shallow copies of a velocity-field transform share the ExpFlow module; changing the
    grid of one (in place or through t.grid(g)) must leave the others exponentiating with the flag of THEIR grid, and
    every object must evaluate like a freshly built one; steps=0 models can be evaluated at all"""
    counts["expflow_checks"] = 0
    for it in range(n):
        flag = rng.random() < 0.5
        steps = rng.choice([0, 1, 5, 5])
        g = Grid(size=(9, 7), align_corners=flag)
        hist = [{"op": "new", "align_corners": flag, "steps": steps}]
        try:
            v = smooth(rng, (2, 7, 9), 0.08)
            t = S.StationaryVelocityFieldTransform(g, params=v, steps=steps)
            objs = [t]
            x = torch.rand((1, 6, 2), generator=torch.Generator().manual_seed(9000 + it)) * 1.2 - 0.6
            with torch.no_grad():
                t(x)
                for _ in range(rng.randint(1, 4)):
                    o = rng.randrange(len(objs))
                    k = rng.choice(["grid", "grid", "grid_", "copy", "inverse"])
                    a = rng.random() < 0.6
                    hist.append({"op": k, "o": o, "align_corners": (not objs[o].grid().align_corners()) if a else objs[o].grid().align_corners()})
                    ng = objs[o].grid().align_corners(hist[-1]["align_corners"])
                    if k == "grid":
                        objs.append(objs[o].grid(ng))
                    elif k == "grid_":
                        objs[o].grid_(ng)
                    elif k == "copy":
                        objs.append(copy.copy(objs[o]))
                    else:
                        objs.append(objs[o].inverse())
                    for oi, u in enumerate(objs):
                        counts["expflow_checks"] += 1
                        if bool(u.exp.align_corners) != bool(u.grid().align_corners()):
                            report("C09:StationaryVelocityFieldTransform.grid_:shared-ExpFlow:align_corners-of-another-grid",
                                   f"after {k} on object {o}, object {oi} has a grid with align_corners={u.grid().align_corners()} but exponentiates "
                                   f"with align_corners={u.exp.align_corners} (the ExpFlow module shared by shallow copies was modified)", list(hist))
                            raise StopIteration
                        tw = S.StationaryVelocityFieldTransform(u.grid(), params=u.data().detach().clone(), steps=steps)
                        tw.exp.scale = float(u.exp.scale)
                        d = maxdiff(u(x), tw(x))
                        if d > 1e-5:
                            report("C09:StationaryVelocityFieldTransform.__call__:after-grid-change-of-a-copy",
                                   f"object {oi} evaluates differently from a fresh transform with its state by {d:.3g}", list(hist))
                            raise StopIteration
        except StopIteration:
            pass
        except Exception as e:  # noqa
            key = "C09:StationaryVelocityFieldTransform.__call__:steps=0:raises" if steps == 0 else f"C09:StationaryVelocityFieldTransform.{hist[-1]['op']}:expflow-raises"
            report(key, f"{type(e).__name__}: {str(e)[:120]}", list(hist))


def composite_direct_checks(rng, grids, specs, n, report, counts):
    """disp() / tensor() / forward() of a COMPOSITE (no __call__, hence no pre-hook) right after
    clear_buffers / condition_ / grid_ on the composite, or data_ on a child, must reflect the children's
    current (edited) parameters: the composite has to forward the invalidation to its children."""
    counts["composite_direct_checks"] = 0
    same_dom = [0, 1, 3, 4, 6]
    for it in range(n):
        cname, ccls = rng.choice([("SequentialTransform", S.SequentialTransform), ("MultiLevelTransform", S.MultiLevelTransform)])
        gi = rng.choice(same_dom)
        g = grids[gi]
        kinds = [rng.choice(["svf", "ffd", "svffd", "disp"]) for _ in range(rng.randint(1, 2))]
        if rng.random() < 0.3:
            kinds.append("lin")
        as_param = rng.random() < 0.5
        hist = [{"op": "composite", "cls": cname, "children": kinds, "grid": gi, "Parameter": as_param}]
        try:
            children = []
            for k in kinds:
                d = rnd_params(rng, k, g)
                children.append(make(k, g, params=Parameter(d) if as_param else d))
            comp = ccls(*children)
            x = torch.rand((1, 6, 2), generator=torch.Generator().manual_seed(7000 + it)) * 1.2 - 0.6
            with torch.no_grad():
                pre = rng.choice(["call", "update", "call"])
                hist.append({"op": pre})
                if pre == "call":
                    comp(x)
                else:
                    comp.update()
                # optimiser-style in-place step on one non-rigid child
                j = rng.choice([i for i, k in enumerate(kinds) if k != "lin"])
                children[j].data().add_(rnd_params(rng, kinds[j], g, amp=0.06))
                hist.append({"op": "edit", "child": j})
                op = rng.choice(["clear_buffers", "clear_buffers", "condition_", "grid_", "child.data_"])
                rec = {"op": op}
                hist.append(rec)
                if op == "clear_buffers":
                    comp.clear_buffers()
                elif op == "condition_":
                    comp.condition_(rng.randint(1, 5))
                elif op == "grid_":
                    gn = rng.choice([q for q in same_dom if q != gi])
                    rec["grid"] = gn
                    comp.grid_(grids[gn])
                else:
                    jj = rng.randrange(len(children))
                    rec["child"] = jj
                    children[jj].data_(rnd_params(rng, kinds[jj], g))
                    if jj != j:
                        # the edited child itself has not been invalidated: only the composite may do that
                        comp.clear_buffers()
                        hist.append({"op": "clear_buffers"})
                twin = ccls(comp.grid(), *[fresh_twin(c, k) for c, k in zip(children, kinds)])
                access = rng.choice(["disp", "tensor", "forward"])
                hist.append({"op": access})
                if access == "disp":
                    got, want = comp.disp(), twin.disp()
                elif access == "tensor":
                    got, want = comp.tensor(), twin.tensor()
                else:
                    got, want = comp.forward(x), twin.forward(x)
            counts["composite_direct_checks"] += 1
            d = maxdiff(got, want)
            if d > 1e-5:
                report(f"C09:CompositeTransform.{op}:{access}-stale-child-buffers",
                       f"{cname}.{access}() right after {op} (no __call__) differs by {d:.3g} from the children's current parameters: "
                       "the buffered field of an edited child was not invalidated", list(hist))
        except Exception as e:  # noqa
            report(f"C09:CompositeTransform.{hist[-1]['op']}:direct-access-raises", f"{type(e).__name__}: {str(e)[:120]}", list(hist))


def expshare(p):
    """who shares which ExpFlow module: histories of construction / copy / grid_ / grid() / inverse on real
    StationaryVelocityFieldTransform objects; view per object: (flag of its grid, flag of its module, module identity)"""
    out = []
    for h in p["histories"]:
        objs = []
        try:
            for op in h:
                k = op[0]
                if k == "new":
                    g = Grid(size=(5, 4), align_corners=bool(op[1]))
                    objs.append(S.StationaryVelocityFieldTransform(g, params=torch.zeros((1, 2, 4, 5))))
                elif k == "copy":
                    objs.append(copy.copy(objs[op[1]]))
                elif k == "grid_":
                    objs[op[1]].grid_(objs[op[1]].grid().align_corners(bool(op[2])))
                elif k == "grid":
                    objs.append(objs[op[1]].grid(objs[op[1]].grid().align_corners(bool(op[2]))))
                elif k == "inverse":
                    objs.append(objs[op[1]].inverse(link=bool(op[2]), update_buffers=bool(op[3])))
            ids = []
            view = []
            for t in objs:
                e = t.exp
                if not any(e is x for x in ids):
                    ids.append(e)
                view.append([bool(t.grid().align_corners()), bool(e.align_corners), [i for i, x in enumerate(ids) if x is e][0]])
            out.append({"view": view})
        except Exception as e:  # noqa
            out.append({"error": type(e).__name__, "msg": str(e)[:160]})
    return out


def main():
    p = json.loads(sys.stdin.read())
    fn = p["fn"]
    if fn == "tables":
        emit_json(tables(p))
    elif fn == "histories":
        emit_json(histories(p))
    elif fn == "generate":
        emit_json(generate(p))
    elif fn == "expshare":
        emit_json(expshare(p))
    elif fn == "oracle":
        emit_json(oracle(p))
    else:
        raise SystemExit("unknown fn")


if __name__ == "__main__":
    main()
