(* C12 -- Spatial derivatives of flow fields are exact on polynomial fields.
   Statements only; every proof is `exact <lemma>`.  K ranges over all fields of characteristic 0 (R for meaning,
   Qc for running the model).  gen_* are regenerated from /repo on every run (Gen/FlowDeriv.v); fd1, smooth1 (replicate padding), dstep2,
   deriv2/3, sderivs are the executable model (Model/FiniteDiff.v) that the correspondence runs against the code. *)
From Coq Require Import ZArith QArith Qcanon List Permutation Lia.
From DV Require Import Base.Field Base.LinAlg Base.QcInst Model.BSplineBase Gen.BSpline Model.BSpline
  Gen.FlowDeriv Model.FiniteDiff Proofs.C12FD Proofs.C12ND Proofs.C12ND3 Proofs.C12Flow Proofs.C12Vec Proofs.C12Quad Proofs.C12Quad2 Proofs.C14Eval Proofs.C12Keys.
Import ListNotations.
Local Open Scope fld_scope.

(* 1. first derivatives: every scheme returns the slope of f(i) = a (i h) + b, spacing division included, at the
      points it supports -- forward: all but the last, backward: all but the first, central: interior,
      forward_central_backward (also the difference step of prewitt / sobel): every point; every length n, h <> 0 *)
Theorem C12_first_derivative_exact :
  forall (K : fld), is_field K -> char0 K ->
  forall (m : fdmode) (n : nat) (a b h : K) (i : nat), h <> 0 -> exact1 m n i ->
  nth i (fd1 m h (aff_seq a b h n)) 0 = a.
Proof. exact fd1_affine_exact. Qed.
Print Assumptions C12_first_derivative_exact.

(* the excluded points are really excluded: replicate padding gives 0 (one-sided) resp. a / 2 (central) there *)
Theorem C12_padded_ends :
  forall (K : fld), is_field K -> char0 K ->
  forall (n : nat) (a b h : K), h <> 0 -> (2 <= n)%nat ->
  nth (n - 1) (fd1 Fwd h (aff_seq a b h n)) 0 = 0 /\ nth 0 (fd1 Bwd h (aff_seq a b h n)) 0 = 0 /\
  nth 0 (fd1 Cen h (aff_seq a b h n)) 0 = a / (1 + 1) /\ nth (n - 1) (fd1 Cen h (aff_seq a b h n)) 0 = a / (1 + 1).
Proof. exact fd1_padded_end. Qed.
Print Assumptions C12_padded_ends.

(* 2. second derivatives (repeated first differences) of quadratics f(i) = a (i h)^2 + b (i h) + c are exact (= 2a) in
      the interior: two points away from every padded / one-sided end; every length, h <> 0 *)
Theorem C12_second_derivative_exact :
  forall (K : fld), is_field K -> char0 K ->
  forall (m : fdmode) (n : nat) (a b c h : K) (i : nat), h <> 0 -> exact2 m n i ->
  nth i (fd1 m h (fd1 m h (quad_seq a b c h n))) 0 = (1 + 1) * a.
Proof. exact fd1_quadratic_exact. Qed.
Print Assumptions C12_second_derivative_exact.

(* 2b. second derivatives of quadratic *fields* in 2-D and 3-D (all ten / six coefficients, cross terms included), for the
       sorted key [a; b] as spatial_derivatives evaluates it (difference along a, then along b, each preceded by the prewitt /
       sobel smoothing of the other axes): exact -- 2 q_aa for pure, q_ab for mixed keys -- at every point at least two samples
       away from the boundary; all six modes, all shapes, all spacings <> 0 *)
Theorem C12_second_derivative_field_2d :
  forall (K : fld), is_field K -> char0 K ->
  forall (m : fdmode) (hx hy : K) (q : quad2 (K:=K)) (nx ny a b x y : nat),
  hx <> 0 -> hy <> 0 -> (a < 2)%nat -> (b < 2)%nat -> inm 2 nx x -> inm 2 ny y ->
  at2 (deriv2 m [hx; hy] [a; b] (quad_field2 hx hy q nx ny)) y x = d2q2 q a b.
Proof. exact second_derivative_quadratic_2d. Qed.
Print Assumptions C12_second_derivative_field_2d.

Theorem C12_second_derivative_field_3d :
  forall (K : fld), is_field K -> char0 K ->
  forall (m : fdmode) (hx hy hz : K) (q : quad3 (K:=K)) (nx ny nz a b x y z : nat),
  hx <> 0 -> hy <> 0 -> hz <> 0 -> (a < 3)%nat -> (b < 3)%nat -> inm 2 nx x -> inm 2 ny y -> inm 2 nz z ->
  at3 (deriv3 m [hx; hy; hz] [a; b] (quad_field3 hx hy hz q nx ny nz)) z y x = d2q K q a b.
Proof. exact second_derivative_quadratic_3d. Qed.
Print Assumptions C12_second_derivative_field_3d.

(* 3. prewitt / sobel: the (replicate-padded) smoothing across the other axes keeps an affine sequence in the interior and
      shifts it by + / - kb (slope h) at the first / last sample (kb = 1/3 prewitt, 1/4 sobel, 0 for the other modes) -- a
      constant along every other axis, so derivatives along the other axes are not affected; every length, every index *)
Theorem C12_smoothing_affine :
  forall (K : fld), is_field K -> char0 K ->
  forall (m : fdmode) (n : nat) (a b h : K) (i : nat), (i < n)%nat ->
  nth i (smooth1 m (aff_seq a b h n)) 0 = a * (zn i * h) + b + shiftc K m n i * (a * h).
Proof. exact smooth_affine. Qed.
Print Assumptions C12_smoothing_affine.

(* 4. two dimensions, all six modes, all shapes and spacings: the composed operator returns the analytic partial
      derivatives of f(y, x) = a + bx (x hx) + by (y hy) at EVERY grid point the difference scheme supports along the
      differentiated axis (exact1: every index for forward_central_backward, prewitt, sobel) -- no restriction on the
      other axis *)
Theorem C12_affine_field_2d :
  forall (K : fld), is_field K -> char0 K ->
  forall (m : fdmode) (a bx by_ hx hy : K) (nx ny x y : nat),
  (hx <> 0 -> exact1 m nx x -> (y < ny)%nat ->
     nth x (nth y (dstep2 m 0 hx (field2 a bx by_ hx hy nx ny)) []) 0 = bx) /\
  (hy <> 0 -> exact1 m ny y -> (x < nx)%nat ->
     nth x (nth y (dstep2 m 1 hy (field2 a bx by_ hx hy nx ny)) []) 0 = by_).
Proof.
  intros K Kf Kc m a bx by_ hx hy nx ny x y. split;
  [exact (dstep2_affine_x K Kf Kc m a bx by_ hx hy nx ny x y)|exact (dstep2_affine_y K Kf Kc m a bx by_ hx hy nx ny x y)].
Qed.
Print Assumptions C12_affine_field_2d.

(* three dimensions: f(z, y, x) = a + bx (x hx) + by (y hy) + bz (z hz); the difference along one axis after smoothing
   the two other axes (prewitt / sobel) returns the analytic partial derivative at every grid point the scheme supports
   along that axis; all six modes, shapes, spacings *)
Theorem C12_affine_field_3d :
  forall (K : fld), is_field K -> char0 K ->
  forall (m : fdmode) (a bx by_ bz hx hy hz : K) (nx ny nz x y z : nat),
  let c := field3 a bx by_ bz hx hy hz nx ny nz in
  (hx <> 0 -> exact1 m nx x -> (y < ny)%nat -> (z < nz)%nat -> at3 (dstep3 m 0 hx c) z y x = bx) /\
  (hy <> 0 -> exact1 m ny y -> (x < nx)%nat -> (z < nz)%nat -> at3 (dstep3 m 1 hy c) z y x = by_) /\
  (hz <> 0 -> exact1 m nz z -> (x < nx)%nat -> (y < ny)%nat -> at3 (dstep3 m 2 hz c) z y x = bz).
Proof.
  intros K Kf Kc m a bx by_ bz hx hy hz nx ny nz x y z c. split; [|split];
  [exact (dstep3_affine_x K Kf Kc m a bx by_ bz hx hy hz nx ny nz x y z)
  |exact (dstep3_affine_y K Kf Kc m a bx by_ bz hx hy hz nx ny nz x y z)
  |exact (dstep3_affine_z K Kf Kc m a bx by_ bz hx hy hz nx ny nz x y z)].
Qed.
Print Assumptions C12_affine_field_3d.

(* 5. the quantities assembled from the derivative dictionary equal their definitions (entries j_ik = d u_i / d x_k) *)
Theorem C12_jacobian_det :
  forall (K : fld), is_field K ->
  (forall j00 j01 j10 j11 : K,
     gen_det2 j00 j01 j10 j11 = det2 [[j00; j01]; [j10; j11]] /\
     gen_det2_id j00 j01 j10 j11 = det2 (plus_id 2 [[j00; j01]; [j10; j11]])) /\
  (forall j00 j01 j02 j10 j11 j12 j20 j21 j22 : K,
     let J := [[j00; j01; j02]; [j10; j11; j12]; [j20; j21; j22]] in
     gen_det3 j00 j01 j02 j10 j11 j12 j20 j21 j22 = det3 J /\
     gen_det3_id j00 j01 j02 j10 j11 j12 j20 j21 j22 = det3 (plus_id 3 J)).
Proof. intros K Kf. split; [exact (det2_formula K Kf)|exact (det3_formula K Kf)]. Qed.
Print Assumptions C12_jacobian_det.

Theorem C12_divergence_curl :
  forall (K : fld), is_field K ->
  forall j00 j01 j02 j10 j11 j12 j20 j21 j22 : K,
  (gen_div2 j00 j01 j10 j11 = trace_spec 2 [[j00; j01]; [j10; j11]] /\
   gen_div3 j00 j01 j02 j10 j11 j12 j20 j21 j22 = trace_spec 3 [[j00; j01; j02]; [j10; j11; j12]; [j20; j21; j22]]) /\
  (gen_curl2 j00 j01 j10 j11 = curl2_spec [[j00; j01]; [j10; j11]] /\
   gen_curl3 j00 j01 j02 j10 j11 j12 j20 j21 j22 = curl3_spec [[j00; j01; j02]; [j10; j11; j12]; [j20; j21; j22]]).
Proof.
  intros K Kf j00 j01 j02 j10 j11 j12 j20 j21 j22. split;
  [exact (div_formula K Kf j00 j01 j02 j10 j11 j12 j20 j21 j22)|exact (curl_formula K j00 j01 j02 j10 j11 j12 j20 j21 j22)].
Qed.
Print Assumptions C12_divergence_curl.

Theorem C12_lie_bracket :
  forall (K : fld), is_field K ->
  (forall jv00 jv01 jv10 jv11 ju00 ju01 ju10 ju11 v0 v1 u0 u1 : K,
     gen_lie2 jv00 jv01 jv10 jv11 ju00 ju01 ju10 ju11 v0 v1 u0 u1
     = lie_spec [[jv00; jv01]; [jv10; jv11]] [[ju00; ju01]; [ju10; ju11]] [v0; v1] [u0; u1]) /\
  (forall jv00 jv01 jv02 jv10 jv11 jv12 jv20 jv21 jv22 ju00 ju01 ju02 ju10 ju11 ju12 ju20 ju21 ju22 v0 v1 v2 u0 u1 u2 : K,
     gen_lie3 jv00 jv01 jv02 jv10 jv11 jv12 jv20 jv21 jv22 ju00 ju01 ju02 ju10 ju11 ju12 ju20 ju21 ju22 v0 v1 v2 u0 u1 u2
     = lie_spec [[jv00; jv01; jv02]; [jv10; jv11; jv12]; [jv20; jv21; jv22]]
                [[ju00; ju01; ju02]; [ju10; ju11; ju12]; [ju20; ju21; ju22]] [v0; v1; v2] [u0; u1; u2]).
Proof. intros K Kf. split; [exact (lie2_formula K Kf)|exact (lie3_formula K Kf)]. Qed.
Print Assumptions C12_lie_bracket.

(* 5b. ... and on affine vector fields u(p) = A p + t (v(p) = B p + s) sampled on a grid they take their analytic values
       at every grid point whose coordinates are supported along every axis (reg1 = exact1: ALL grid points for
       forward_central_backward, prewitt and sobel; all but the replicate-padded end(s) for forward / backward / central): Jacobian = A, det = det A, det with identity = det (A + I), divergence = trace A,
       curl = rotation vector of A, [v, u] = B u(p) - A v(p); all shapes, spacings <> 0, D = 2 and D = 3 *)
Theorem C12_flow_operators_affine_2d :
  forall (K : fld), is_field K -> char0 K ->
  forall (m : fdmode) (a00 a01 a10 a11 t0 t1 hx hy : K) (nx ny x y : nat),
  hx <> 0 -> hy <> 0 -> reg1 m nx x -> reg1 m ny y ->
  let A := mat2 a00 a01 a10 a11 in
  let u := affvec2 A [t0; t1] hx hy nx ny in
  jac2_at (jacT2 m [hx; hy] u) y x = A /\
  nth x (nth y (det2_field m [hx; hy] false u ny nx) []) 0 = det2 A /\
  nth x (nth y (det2_field m [hx; hy] true u ny nx) []) 0 = det2 (plus_id 2 A) /\
  nth x (nth y (div2_field m [hx; hy] u ny nx) []) 0 = trace_spec 2 A /\
  nth x (nth y (curl2_field m [hx; hy] u ny nx) []) [] = curl2_spec A.
Proof.
  intros K Kf Kc m a00 a01 a10 a11 t0 t1 hx hy nx ny x y Hx Hy Rx Ry A u. split;
  [exact (jac2_affine K Kf Kc m a00 a01 a10 a11 t0 t1 hx hy nx ny x y Hx Hy Rx Ry)
  |exact (det_div_curl_2d K Kf Kc m a00 a01 a10 a11 t0 t1 hx hy nx ny x y Hx Hy Rx Ry)].
Qed.
Print Assumptions C12_flow_operators_affine_2d.

Theorem C12_lie_bracket_affine_2d :
  forall (K : fld), is_field K -> char0 K ->
  forall (m : fdmode) (a00 a01 a10 a11 s0 s1 b00 b01 b10 b11 t0 t1 hx hy : K) (nx ny x y : nat),
  hx <> 0 -> hy <> 0 -> reg1 m nx x -> reg1 m ny y ->
  let A := mat2 a00 a01 a10 a11 in let B := mat2 b00 b01 b10 b11 in
  let u := affvec2 A [s0; s1] hx hy nx ny in let v := affvec2 B [t0; t1] hx hy nx ny in
  nth x (nth y (lie2_field m [hx; hy] v u ny nx) []) [] = lie_spec B A (vec2_at v y x) (vec2_at u y x) /\
  vec2_at u y x = [s0 + a00 * (zn x * hx) + a01 * (zn y * hy); s1 + a10 * (zn x * hx) + a11 * (zn y * hy)].
Proof.
  intros K Kf Kc m a00 a01 a10 a11 s0 s1 b00 b01 b10 b11 t0 t1 hx hy nx ny x y Hx Hy Rx Ry A B u v. split;
  [exact (lie_2d K Kf Kc m a00 a01 a10 a11 s0 s1 b00 b01 b10 b11 t0 t1 hx hy nx ny x y Hx Hy Rx Ry)
  |exact (vec2_affine K Kf m a00 a01 a10 a11 s0 s1 hx hy nx ny x y Rx Ry)].
Qed.
Print Assumptions C12_lie_bracket_affine_2d.

Theorem C12_flow_operators_affine_3d :
  forall (K : fld), is_field K -> char0 K ->
  forall (m : fdmode) (a00 a01 a02 a10 a11 a12 a20 a21 a22 t0 t1 t2 hx hy hz : K) (nx ny nz x y z : nat),
  hx <> 0 -> hy <> 0 -> hz <> 0 -> reg1 m nx x -> reg1 m ny y -> reg1 m nz z ->
  let A := mat3 a00 a01 a02 a10 a11 a12 a20 a21 a22 in
  let u := affvec3 A [t0; t1; t2] hx hy hz nx ny nz in
  jac3_at (jacT3 m [hx; hy; hz] u) z y x = A /\
  nth x (nth y (nth z (det3_field m [hx; hy; hz] false u nz ny nx) []) []) 0 = det3 A /\
  nth x (nth y (nth z (det3_field m [hx; hy; hz] true u nz ny nx) []) []) 0 = det3 (plus_id 3 A) /\
  nth x (nth y (nth z (div3_field m [hx; hy; hz] u nz ny nx) []) []) 0 = trace_spec 3 A /\
  nth x (nth y (nth z (curl3_field m [hx; hy; hz] u nz ny nx) []) []) [] = curl3_spec A.
Proof.
  intros K Kf Kc m a00 a01 a02 a10 a11 a12 a20 a21 a22 t0 t1 t2 hx hy hz nx ny nz x y z Hx Hy Hz Rx Ry Rz A u. split;
  [exact (jac3_affine K Kf Kc m a00 a01 a02 a10 a11 a12 a20 a21 a22 t0 t1 t2 hx hy hz nx ny nz x y z Hx Hy Hz Rx Ry Rz)
  |exact (det_div_curl_3d K Kf Kc m a00 a01 a02 a10 a11 a12 a20 a21 a22 t0 t1 t2 hx hy hz nx ny nz x y z Hx Hy Hz Rx Ry Rz)].
Qed.
Print Assumptions C12_flow_operators_affine_3d.

Theorem C12_lie_bracket_affine_3d :
  forall (K : fld), is_field K -> char0 K ->
  forall (m : fdmode) (a00 a01 a02 a10 a11 a12 a20 a21 a22 s0 s1 s2 b00 b01 b02 b10 b11 b12 b20 b21 b22 t0 t1 t2 hx hy hz : K)
         (nx ny nz x y z : nat),
  hx <> 0 -> hy <> 0 -> hz <> 0 -> reg1 m nx x -> reg1 m ny y -> reg1 m nz z ->
  let A := mat3 a00 a01 a02 a10 a11 a12 a20 a21 a22 in let B := mat3 b00 b01 b02 b10 b11 b12 b20 b21 b22 in
  let u := affvec3 A [s0; s1; s2] hx hy hz nx ny nz in let v := affvec3 B [t0; t1; t2] hx hy hz nx ny nz in
  nth x (nth y (nth z (lie3_field m [hx; hy; hz] v u nz ny nx) []) []) [] = lie_spec B A (vec3_at v z y x) (vec3_at u z y x).
Proof. exact lie_3d. Qed.
Print Assumptions C12_lie_bracket_affine_3d.

(* 5c. B-spline mode (spatial_derivatives(mode='bspline'), model bsd3_at = order-(dx,dy,dz) spline weights / spacing^order,
       the weights being the analytic basis derivatives by C14_weights_are_basis): on coefficients that are an affine function
       of the physical control point position, the first partial derivatives are its slopes at every output sample, for
       every stride, output size and coefficient-grid spacing <> 0 -- no boundary exclusion *)
Theorem C12_bspline_mode_gradient :
  forall (K : fld), is_field K -> char0 K ->
  forall (sx sy sz mx my mz : nat) (hx hy hz : K) (c : list (list (list K))) (a gx gy gz : K) (x y z : nat),
  (1 <= sx)%nat -> (1 <= sy)%nat -> (1 <= sz)%nat -> (x < mx)%nat -> (y < my)%nat -> (z < mz)%nat ->
  hx <> 0 -> hy <> 0 -> hz <> 0 ->
  (forall k j i, (k < ctrl_size mz sz)%nat -> (j < ctrl_size my sy)%nat -> (i < ctrl_size mx sx)%nat ->
     at3 c k j i = a + gx * (of_Z (Z.of_nat i - 1) * hx) + gy * (of_Z (Z.of_nat j - 1) * hy) + gz * (of_Z (Z.of_nat k - 1) * hz)) ->
  bsd3_at 1 0 0 sx sy sz hx hy hz c z y x = gx /\ bsd3_at 0 1 0 sx sy sz hx hy hz c z y x = gy /\
  bsd3_at 0 0 1 sx sy sz hx hy hz c z y x = gz.
Proof. exact bspline_mode_gradient_3d. Qed.
Print Assumptions C12_bspline_mode_gradient.

(* 6. keys: for an arbitrary list of requested keys (any lengths, repetitions, unsorted mixed keys) every requested key
      gets the derivative along its sorted letters -- a function of the key alone -- so a subset returns the same values
      as the full request; keys that are permutations of each other (mixed derivatives) share one value *)
Theorem C12_key_value :
  forall (V : Type) (data : V) (step : nat -> V -> V) (which : list (list nat)) (k : list nat),
  In k which -> k <> [] ->
  In (k, Some (dcode V data step (sort_code k))) (sderivs V data step which).
Proof. exact sderivs_value. Qed.
Print Assumptions C12_key_value.

Theorem C12_subset_equals_all :
  forall (V : Type) (data : V) (step : nat -> V -> V) (all sub : list (list nat)) (k : list nat),
  incl sub all -> In k sub -> k <> [] ->
  exists v, In (k, Some v) (sderivs V data step sub) /\ In (k, Some v) (sderivs V data step all).
Proof. exact subset_equals_all. Qed.
Print Assumptions C12_subset_equals_all.

Theorem C12_mixed_symmetric :
  forall k1 k2 : list nat, Permutation k1 k2 -> sort_code k1 = sort_code k2.
Proof. exact mixed_keys_symmetric. Qed.
Print Assumptions C12_mixed_symmetric.

(* non-vacuity: concrete instances over Qc (5 samples, h = 1/2, slope 3; a quadratic; a key list with an unsorted
   mixed key and a repetition) *)
Example C12_nonvacuous :
  exact1 Cen 5 2 /\ exact2 Fcb 5 2 /\
  vclose 0%Q (fd1 (K:=QcF) Fcb (q 1 2) (aff_seq (K:=QcF) (q 3 1) (q 1 4) (q 1 2) 5)) [q 3 1; q 3 1; q 3 1; q 3 1; q 3 1] = true /\
  vclose 0%Q (fd1 (K:=QcF) Fwd (q 1 2) (aff_seq (K:=QcF) (q 3 1) (q 1 4) (q 1 2) 5)) [q 3 1; q 3 1; q 3 1; q 3 1; q 0 1] = true /\
  qeqb (nth 2 (fd1 (K:=QcF) Fcb (q 1 2) (fd1 (K:=QcF) Fcb (q 1 2) (quad_seq (K:=QcF) (q 5 1) (q 1 1) (q 2 1) (q 1 2) 5))) (q 0 1)) (q 10 1) = true /\
  qeqb (nth 1 (nth 0 (dstep2 (K:=QcF) Sobel 0 (q 1 1) (field2 (K:=QcF) (q 0 1) (q 1 1) (q 0 1) (q 1 1) (q 1 1) 3 3)) []) (q 0 1)) (q 1 1) = true /\
  map fst (sderivs nat 0%nat (fun a v => (10 * v + a + 1)%nat) [[1; 0]; [0]; [1; 0]; [0; 1]]%nat)
    = [[1; 0]; [0]; [1; 0]; [0; 1]]%nat /\
  map snd (sderivs nat 0%nat (fun a v => (10 * v + a + 1)%nat) [[1; 0]; [0]; [1; 0]; [0; 1]]%nat)
    = [Some 12; Some 1; Some 12; Some 12]%nat.
Proof. vm_compute. repeat split; lia. Qed.
