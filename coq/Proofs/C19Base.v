(* C19 -- basic lemmas about the dispatcher model. *)
From Coq Require Import List ZArith Bool Arith Lia.
From DV Require Import Model.Enums Model.Batch Model.BatchSpec.
Import ListNotations.

Lemma nth_map_seq {A} (f : nat -> A) a n i d : i < n -> nth i (map f (seq a n)) d = f (a + i).
Proof.
  intros H. rewrite nth_indep with (d' := f 0) by (rewrite map_length, seq_length; exact H).
  rewrite map_nth. f_equal. apply seq_nth. exact H.
Qed.

Lemma nth_map' {A B} (f : A -> B) l i d d0 : i < length l -> nth i (map f l) d = f (nth i l d0).
Proof. revert i; induction l as [|x l IH]; simpl; intros [|i] H; try lia; auto. apply IH; lia. Qed.

Lemma nth_ident_src j n i : i < n -> nth i (ident_src j n) [] = [(j, i)].
Proof. intros H. unfold ident_src. rewrite nth_map_seq by exact H. reflexivity. Qed.

Lemma length_ident_src j n : length (ident_src j n) = n.
Proof. unfold ident_src. now rewrite map_length, seq_length. Qed.

Lemma shape_eqb_true a b : shape_eqb a b = true -> a = b.
Proof. unfold shape_eqb. destruct (list_eq_dec Nat.eq_dec a b); [auto | discriminate]. Qed.

Lemma shape_eqb_refl a : shape_eqb a a = true.
Proof. unfold shape_eqb. destruct (list_eq_dec Nat.eq_dec a a); [auto | congruence]. Qed.

Section Base.
Variable gshape : gid -> shape.
Variable gaxes : gid -> axes.

Lemma mk_batch_ok fl sh gs k :
  mk_batch gshape fl sh gs = KOk k ->
  k = TBatch fl gs /\ 4 <= ndim sh /\ Forall (fun g => gshape g = skipn 2 sh) gs
  /\ (forall ax, fl = Some ax -> nth 1 sh 0 = ndim sh - 2).
Proof.
  unfold mk_batch. destruct (ndim sh <? 4) eqn:E4; [discriminate|].
  apply Nat.ltb_ge in E4.
  destruct (forallb (fun g => shape_eqb (gshape g) (skipn 2 sh)) gs) eqn:EF; simpl; [|discriminate].
  assert (HF : Forall (fun g => gshape g = skipn 2 sh) gs).
  { apply Forall_forall. intros g Hg. rewrite forallb_forall in EF. apply shape_eqb_true, EF, Hg. }
  destruct fl as [ax|].
  - destruct (nth 1 sh 0 =? ndim sh - 2) eqn:EC; [|discriminate].
    intros H; inversion H; subst. repeat split; auto. intros ax' _. now apply Nat.eqb_eq.
  - intros H; inversion H; subst. repeat split; auto. discriminate.
Qed.

Lemma mk_single_ok fl sh g k :
  mk_single gshape fl sh g = KOk k ->
  k = TSingle fl g /\ 3 <= ndim sh /\ gshape g = skipn 1 sh.
Proof.
  unfold mk_single. destruct (ndim sh <? 3) eqn:E3; [discriminate|]. apply Nat.ltb_ge in E3.
  destruct (shape_eqb (gshape g) (skipn 1 sh)) eqn:ES; simpl; [|discriminate].
  apply shape_eqb_true in ES.
  destruct fl; [destruct (nth 0 sh 0 =? length (gshape g)); [|discriminate]|];
    intros H; inversion H; subst; auto.
Qed.

(* ImageBatch._torch_function_result: a typed result has exactly the given grids, one per entry *)
Lemma res_batch_typed sh gs fl gs' :
  res_batch gshape sh (Some gs) = KOk (TBatch fl gs') ->
  fl = None /\ gs' = gs /\ length gs = nent sh /\ 4 <= ndim sh /\ Forall (fun g => gshape g = skipn 2 sh) gs.
Proof.
  unfold res_batch. destruct gs as [|g0 r].
  - destruct ((4 <=? ndim sh) && (nent sh =? 0)) eqn:E; [|discriminate].
    apply andb_true_iff in E. destruct E as [_ E0]. apply Nat.eqb_eq in E0.
    intros H. apply mk_batch_ok in H. destruct H as (H1 & H2 & H3 & _). inversion H1; subst. simpl. auto.
  - destruct ((ndim sh =? length (gshape g0) + 2) && (nent sh =? length (g0 :: r)) &&
              shape_eqb (skipn 2 sh) (gshape g0)) eqn:E; [|discriminate].
    apply andb_true_iff in E. destruct E as [E _]. apply andb_true_iff in E. destruct E as [_ EN].
    apply Nat.eqb_eq in EN.
    intros H. apply mk_batch_ok in H. destruct H as (H1 & H2 & H3 & _). inversion H1; subst. auto.
Qed.

Lemma res_batch_typed_ndim sh g0 r fl gs' :
  res_batch gshape sh (Some (g0 :: r)) = KOk (TBatch fl gs') -> ndim sh = length (gshape g0) + 2.
Proof.
  unfold res_batch.
  destruct ((ndim sh =? length (gshape g0) + 2) && (nent sh =? length (g0 :: r)) &&
            shape_eqb (skipn 2 sh) (gshape g0)) eqn:E; [|discriminate].
  apply andb_true_iff in E. destruct E as [E _]. apply andb_true_iff in E. destruct E as [E _].
  apply Nat.eqb_eq in E. auto.
Qed.

Lemma res_batch_not_single sh g fl g' : res_batch gshape sh g = KOk (TSingle fl g') -> False.
Proof.
  unfold res_batch. destruct g as [[|g0 r]|]; try discriminate.
  - destruct ((4 <=? ndim sh) && (nent sh =? 0)); [|discriminate].
    intros H. apply mk_batch_ok in H. destruct H as (H1 & _). discriminate.
  - destruct ((ndim sh =? length (gshape g0) + 2) && (nent sh =? length (g0 :: r)) && shape_eqb (skipn 2 sh) (gshape g0)); [|discriminate].
    intros H. apply mk_batch_ok in H. destruct H as (H1 & _). discriminate.
Qed.

(* a result whose batch size differs from the number of grids is a plain tensor *)
Lemma res_batch_plain_count sh gs : nent sh <> length gs -> res_batch gshape sh (Some gs) = KOk TPlain.
Proof.
  intros H. unfold res_batch. destruct gs as [|g0 r].
  - simpl in H. destruct (nent sh =? 0) eqn:E; [apply Nat.eqb_eq in E; congruence|]. now rewrite andb_false_r.
  - destruct (nent sh =? length (g0 :: r)) eqn:E; [apply Nat.eqb_eq in E; congruence|].
    now rewrite andb_false_r.
Qed.

(* ... and so is a result whose number of dimensions changed *)
Lemma res_batch_plain_ndim sh g0 r :
  ndim sh <> length (gshape g0) + 2 -> res_batch gshape sh (Some (g0 :: r)) = KOk TPlain.
Proof.
  intros H. unfold res_batch. destruct (ndim sh =? length (gshape g0) + 2) eqn:E; [apply Nat.eqb_eq in E; congruence|].
  reflexivity.
Qed.

Lemma res_batch_plain_spatial sh g0 r :
  skipn 2 sh <> gshape g0 -> res_batch gshape sh (Some (g0 :: r)) = KOk TPlain.
Proof.
  intros H. unfold res_batch. destruct (shape_eqb (skipn 2 sh) (gshape g0)) eqn:E; [apply shape_eqb_true in E; congruence|].
  now rewrite andb_false_r.
Qed.
End Base.
