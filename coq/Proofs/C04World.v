(* C04: data and grid move in lock-step (D in {2,3}).  Grid side: Gen/GridT.v, Gen/GridDerive.v (generated);
   data side: Model/ImageOps.v. *)
From Coq Require Import ZArith List Field Ring Lia Bool.
From DV Require Import Base.Field Base.FieldFacts Base.LinAlg Base.Tactics Model.Enums Model.Homog Model.Grid Model.Sampler
  Gen.GridT Gen.GridCtor Gen.GridDerive Model.ImageOps Proofs.C01Grid Proofs.C04Axis.
Import ListNotations.
Local Open Scope fld_scope.

Section C04World.
Variable K : fld.
Hypothesis Kf : is_field K.
Hypothesis Kc : char0 K.
Add Field KF_C04World : Kf.
Variable floorK : K -> Z.
Let K1 := K1nz K Kf.
Let K2 := K2nz K Kf Kc.
Hint Resolve K1 K2 : core.
Ltac side := repeat split; auto.
Ltac len2 X H := destruct X as [|?x0 [|?x1 [|? ?]]]; try discriminate H; clear H.
Ltac len3 X H := destruct X as [|?x0 [|?x1 [|?x2 [|? ?]]]]; try discriminate H; clear H.
Ltac nz H := pose proof (H 0%nat ltac:(lia)); pose proof (H 1%nat ltac:(lia)); try pose proof (H 2%nat ltac:(lia)).


Section Lockstep.
Variable D : nat.
Hypothesis HD : D = 2%nat \/ D = 3%nat.
Variables (n s c m : nat -> K) (d : nat -> nat -> K).
Notation N := (vtab D n). Notation S := (vtab D s). Notation C := (vtab D c). Notation M := (vtab D m).
Notation Dm := (tab D D d).

(* lockstep_index_map, resize family (resize, downsample, upsample, pyramid levels: all are Grid._resize):
   the new grid places continuous index J where the old grid places the F.interpolate source index of J *)
Lemma lockstep_resize (ac : bool) (J : list K) : length J = D ->
  (forall i, (i < D)%nat -> m i - 1 <> 0) -> (forall i, (i < D)%nat -> m i <> 0) ->
  gen_pts D GRID WORLD M ((if ac then gen_resize_spacing_ac else gen_resize_spacing_nac) D N S C Dm M) C Dm J
  = gen_pts D GRID WORLD N S C Dm (vtab D (fun i => rsz ac (n i) (m i) (nth i J 0))).
Proof.
  intros HJ H1 H0. destruct HD as [-> | ->]; [len2 J HJ | len3 J HJ]; nz H1; nz H0; destruct ac; fcbv; list_eq; field; side.
Qed.

(* resample: same center and direction, new spacing s' and size m *)
Lemma lockstep_resample (s' : nat -> K) (J : list K) : length J = D ->
  (forall i, (i < D)%nat -> s i <> 0) ->
  gen_pts D GRID WORLD M (vtab D s') C Dm J
  = gen_pts D GRID WORLD N S C Dm (vtab D (fun i => rsm (n i) (m i) (s i) (s' i) (nth i J 0))).
Proof.
  intros HJ Hs. destruct HD as [-> | ->]; [len2 J HJ | len3 J HJ]; nz Hs; fcbv; list_eq; field; side.
Qed.

(* a world-space ramp A.x + b is an affine function of the continuous index, with these coefficients *)
Definition ramp_coef (A : list K) (i : nat) : K := dot A (col i Dm) * s i.
Definition ramp_off (A : list K) (b : K) : K := dot A (gen_origin D N S C Dm) + b.
Lemma ramp_is_affine (A : list K) (b : K) (X : list K) : length A = D -> length X = D ->
  dot A (gen_pts D GRID WORLD N S C Dm X) + b = dot (vtab D (ramp_coef A)) X + ramp_off A b.
Proof.
  intros HA HX. unfold ramp_coef, ramp_off. destruct HD as [-> | ->]; [len2 A HA; len2 X HX | len3 A HA; len3 X HX]; fcbv; field; side.
Qed.
End Lockstep.

(* F.interpolate's source index (Sampler.interp_src) is the continuous map above at integral j *)
Lemma interp_src_rsz (ac : bool) (nz mz j : Z) : (of_Z mz - 1 : K) <> 0 -> (of_Z mz : K) <> 0 ->
  interp_src (K:=K) ac nz mz j = rsz ac (of_Z nz) (of_Z mz) (of_Z j).
Proof.
  intros H1 H0. unfold interp_src, rsz. destruct ac.
  - destruct (mz =? 1)%Z eqn:E; [|reflexivity]. apply Z.eqb_eq in E. subst mz. exfalso. apply H1. cbn. ring.
  - field; auto.
Qed.
Lemma resample_src_rsm (nz mz j : Z) (s s' : K) : resample_src (K:=K) nz mz s s' j = rsm (of_Z nz) (of_Z mz) s s' (of_Z j).
Proof. reflexivity. Qed.

(* ---------- interpolation along all axes of a 2-D / 3-D image that is affine in the index ---------- *)

Ltac affring := unfold aff, dot, vmul, zget; cbn [map nth vmap2 vsum]; ring.

Lemma interp2_affine_axes (p0 p1 : padmode) (src0 src1 : Z -> K) (m0 m1 nx ny : Z) (im : nimg (K:=K)) (a0 a1 b : K) (jx jy : Z) :
  ishape im = [nx; ny] ->
  (forall ix iy, (0 <= ix < nx)%Z -> (0 <= iy < ny)%Z -> ival im [ix; iy] = a0 * of_Z ix + a1 * of_Z iy + b) ->
  fovc floorK nx (src0 jx) -> fovc floorK ny (src1 jy) ->
  ival (interp_ax floorK p1 1 src1 m1 (interp_ax floorK p0 0 src0 m0 im)) [jx; jy] = a0 * src0 jx + a1 * src1 jy + b.
Proof.
  intros Hs Him [F0 F0'] [F1 F1'].
  set (im1 := interp_ax floorK p0 0 src0 m0 im).
  assert (S1 : ishape im1 = [m0; ny]) by (unfold im1; cbn [interp_ax ishape]; rewrite Hs; reflexivity).
  assert (L1 : forall i, (0 <= i < ny)%Z -> ival im1 [jx; i] = a0 * src0 jx + a1 * of_Z i + b).
  { intros i Hi. unfold im1.
    rewrite (interp_ax_affine K Kf floorK p0 0 src0 m0 im [a0; a1] b [jx; i] eq_refl).
    - affring.
    - cbn; lia.
    - rewrite Hs. intros ix Hix. change (upd 0 ix [jx; i]) with [ix; i]. change (zget [nx; ny] 0) with nx in Hix.
      rewrite Him by auto. affring.
    - rewrite Hs. exact F0.
    - rewrite Hs. exact F0'. }
  rewrite (interp_ax_affine K Kf floorK p1 1 src1 m1 im1 [0; a1] (a0 * src0 jx + b) [jx; jy] eq_refl).
  - affring.
  - cbn; lia.
  - rewrite S1. intros i Hi. change (upd 1 i [jx; jy]) with [jx; i]. rewrite L1 by exact Hi. affring.
  - rewrite S1. exact F1.
  - rewrite S1. exact F1'.
Qed.

Lemma interp3_affine_axes (p0 p1 p2 : padmode) (src0 src1 src2 : Z -> K) (m0 m1 m2 nx ny nz : Z) (im : nimg (K:=K))
      (a0 a1 a2 b : K) (jx jy jz : Z) :
  ishape im = [nx; ny; nz] ->
  (forall ix iy iz, (0 <= ix < nx)%Z -> (0 <= iy < ny)%Z -> (0 <= iz < nz)%Z ->
     ival im [ix; iy; iz] = a0 * of_Z ix + a1 * of_Z iy + a2 * of_Z iz + b) ->
  fovc floorK nx (src0 jx) -> fovc floorK ny (src1 jy) -> fovc floorK nz (src2 jz) ->
  ival (interp_ax floorK p2 2 src2 m2 (interp_ax floorK p1 1 src1 m1 (interp_ax floorK p0 0 src0 m0 im))) [jx; jy; jz]
  = a0 * src0 jx + a1 * src1 jy + a2 * src2 jz + b.
Proof.
  intros Hs Him [F0 F0'] [F1 F1'] [F2 F2'].
  set (im1 := interp_ax floorK p0 0 src0 m0 im).
  assert (S1 : ishape im1 = [m0; ny; nz]) by (unfold im1; cbn [interp_ax ishape]; rewrite Hs; reflexivity).
  assert (L1 : forall iy iz, (0 <= iy < ny)%Z -> (0 <= iz < nz)%Z ->
                 ival im1 [jx; iy; iz] = a0 * src0 jx + a1 * of_Z iy + a2 * of_Z iz + b).
  { intros iy iz Hy Hz. unfold im1.
    rewrite (interp_ax_affine K Kf floorK p0 0 src0 m0 im [a0; a1; a2] b [jx; iy; iz] eq_refl).
    - affring.
    - cbn; lia.
    - rewrite Hs. intros ix Hix. change (upd 0 ix [jx; iy; iz]) with [ix; iy; iz]. change (zget [nx; ny; nz] 0) with nx in Hix.
      rewrite Him by auto. affring.
    - rewrite Hs. exact F0.
    - rewrite Hs. exact F0'. }
  set (im2 := interp_ax floorK p1 1 src1 m1 im1).
  assert (S2 : ishape im2 = [m0; m1; nz]) by (unfold im2; cbn [interp_ax ishape]; rewrite S1; reflexivity).
  assert (L2 : forall iz, (0 <= iz < nz)%Z -> ival im2 [jx; jy; iz] = a0 * src0 jx + a1 * src1 jy + a2 * of_Z iz + b).
  { intros iz Hz. unfold im2.
    rewrite (interp_ax_affine K Kf floorK p1 1 src1 m1 im1 [0; a1; a2] (a0 * src0 jx + b) [jx; jy; iz] eq_refl).
    - affring.
    - cbn; lia.
    - rewrite S1. intros iy Hiy. change (upd 1 iy [jx; jy; iz]) with [jx; iy; iz]. change (zget [m0; ny; nz] 1) with ny in Hiy.
      rewrite L1 by auto. affring.
    - rewrite S1. exact F1.
    - rewrite S1. exact F1'. }
  rewrite (interp_ax_affine K Kf floorK p2 2 src2 m2 im2 [0; 0; a2] (a0 * src0 jx + a1 * src1 jy + b) [jx; jy; jz] eq_refl).
  - affring.
  - cbn; lia.
  - rewrite S2. intros iz Hiz. change (upd 2 iz [jx; jy; jz]) with [jx; jy; iz]. rewrite L2 by exact Hiz. affring.
  - rewrite S2. exact F2.
  - rewrite S2. exact F2'.
Qed.

(* ---------- window means along all axes ---------- *)
Lemma pool2_affine_axes (k0 k1 nx ny : Z) (im : nimg (K:=K)) (a0 a1 b : K) (jx jy : Z) :
  ishape im = [nx; ny] -> (0 < k0)%Z -> (0 < k1)%Z ->
  (forall ix iy, (0 <= ix < nx)%Z -> (0 <= iy < ny)%Z -> ival im [ix; iy] = a0 * of_Z ix + a1 * of_Z iy + b) ->
  (0 <= jx)%Z -> ((jx + 1) * k0 <= nx)%Z -> (0 <= jy)%Z -> ((jy + 1) * k1 <= ny)%Z ->
  ival (pool_ax 1 k1 false (pool_ax 0 k0 false im)) [jx; jy] = a0 * pool_src k0 jx + a1 * pool_src k1 jy + b.
Proof.
  intros Hs Hk0 Hk1 Him Hx Hx' Hy Hy'.
  set (im1 := pool_ax 0 k0 false im).
  assert (S1 : ishape im1 = [nx / k0; ny]%Z) by (unfold im1; cbn [pool_ax ishape]; rewrite Hs; reflexivity).
  assert (L1 : forall i, (0 <= i < ny)%Z -> ival im1 [jx; i] = a0 * pool_src k0 jx + a1 * of_Z i + b).
  { intros i Hi. unfold im1.
    rewrite (pool_ax_affine K Kf Kc 0 k0 im [a0; a1] b [jx; i] eq_refl).
    - affring.
    - cbn; lia.
    - exact Hk0.
    - rewrite Hs. intros ix Hix. change (upd 0 ix [jx; i]) with [ix; i]. change (zget [nx; ny] 0) with nx in Hix.
      rewrite Him by auto. affring.
    - exact Hx.
    - rewrite Hs. exact Hx'. }
  rewrite (pool_ax_affine K Kf Kc 1 k1 im1 [0; a1] (a0 * pool_src k0 jx + b) [jx; jy] eq_refl).
  - affring.
  - cbn; lia.
  - exact Hk1.
  - rewrite S1. intros i Hi. change (upd 1 i [jx; jy]) with [jx; i]. rewrite L1 by exact Hi. affring.
  - exact Hy.
  - rewrite S1. exact Hy'.
Qed.

(* core.image.grid_resample (data side of Image.resample) is the per-axis interpolation the ramp theorems speak about *)
Lemma d_resample2_unfold (s s' : list K) (m0 m1 nx ny : Z) (im : nimg (K:=K)) : ishape im = [nx; ny] ->
  d_resample floorK 2 s s' [m0; m1] im
  = interp_ax floorK PZeros 1 (resample_src ny m1 (nth 1 s 0) (nth 1 s' 0)) m1
      (interp_ax floorK PZeros 0 (resample_src nx m0 (nth 0 s 0) (nth 0 s' 0)) m0 im).
Proof. intro Hs. unfold d_resample, all_axes. cbn [fold_axes interp_ax ishape]. rewrite Hs. reflexivity. Qed.
Lemma d_resample3_unfold (s s' : list K) (m0 m1 m2 nx ny nz : Z) (im : nimg (K:=K)) : ishape im = [nx; ny; nz] ->
  d_resample floorK 3 s s' [m0; m1; m2] im
  = interp_ax floorK PZeros 2 (resample_src nz m2 (nth 2 s 0) (nth 2 s' 0)) m2
      (interp_ax floorK PZeros 1 (resample_src ny m1 (nth 1 s 0) (nth 1 s' 0)) m1
        (interp_ax floorK PZeros 0 (resample_src nx m0 (nth 0 s 0) (nth 0 s' 0)) m0 im)).
Proof. intro Hs. unfold d_resample, all_axes. cbn [fold_axes interp_ax ishape]. rewrite Hs. reflexivity. Qed.

(* ---------- ramp_preserved: resize family and resample, 2-D and 3-D ---------- *)
Section Ramp2.
Variables (nz mz : nat -> Z) (s c : nat -> K) (d : nat -> nat -> K) (A : list K) (b : K) (im : nimg (K:=K)).
Hypothesis HA : length A = 2%nat.
Hypothesis Hshape : ishape im = [nz 0%nat; nz 1%nat].
Notation n := (fun i => of_Z (K:=K) (nz i)).
Notation m := (fun i => of_Z (K:=K) (mz i)).
(* the image is the ramp A.x + b sampled on the grid (n, s, c, d) *)
Hypothesis Hramp : forall ix iy, (0 <= ix < nz 0%nat)%Z -> (0 <= iy < nz 1%nat)%Z ->
  ival im [ix; iy] = dot A (gen_pts 2 GRID WORLD (vtab 2 n) (vtab 2 s) (vtab 2 c) (tab 2 2 d) [of_Z ix; of_Z iy]) + b.

Lemma ramp_index_form ix iy : (0 <= ix < nz 0%nat)%Z -> (0 <= iy < nz 1%nat)%Z ->
  ival im [ix; iy] = ramp_coef 2 s d A 0 * of_Z ix + ramp_coef 2 s d A 1 * of_Z iy + ramp_off 2 n s c d A b.
Proof.
  intros Hx Hy. rewrite Hramp by auto.
  rewrite (ramp_is_affine 2 (or_introl eq_refl) n s c d A b) by auto. unfold dot, vmul. cbn. ring.
Qed.

Theorem ramp_resize2 (ac : bool) (jx jy : Z) :
  (forall i, (i < 2)%nat -> m i - 1 <> 0) -> (forall i, (i < 2)%nat -> m i <> 0) ->
  fovc floorK (nz 0%nat) (resize_src ac (nz 0%nat) (mz 0%nat) jx) -> fovc floorK (nz 1%nat) (resize_src ac (nz 1%nat) (mz 1%nat) jy) ->
  ival (interp_ax floorK PBorder 1 (resize_src ac (nz 1%nat) (mz 1%nat)) (mz 1%nat)
          (interp_ax floorK PBorder 0 (resize_src ac (nz 0%nat) (mz 0%nat)) (mz 0%nat) im)) [jx; jy]
  = dot A (gen_pts 2 GRID WORLD (vtab 2 m)
             ((if ac then gen_resize_spacing_ac else gen_resize_spacing_nac) 2 (vtab 2 n) (vtab 2 s) (vtab 2 c) (tab 2 2 d) (vtab 2 m))
             (vtab 2 c) (tab 2 2 d) [of_Z jx; of_Z jy]) + b.
Proof.
  intros H1 H0 F0 F1.
  rewrite (interp2_affine_axes PBorder PBorder _ _ _ _ (nz 0%nat) (nz 1%nat) im _ _ _ jx jy Hshape ramp_index_form F0 F1).
  rewrite (lockstep_resize 2 (or_introl eq_refl) n s c m d ac [of_Z jx; of_Z jy] eq_refl H1 H0).
  rewrite (ramp_is_affine 2 (or_introl eq_refl) n s c d A b) by auto.
  unfold resize_src. rewrite !interp_src_rsz by (try apply (H1 0%nat); try apply (H1 1%nat); try apply (H0 0%nat); try apply (H0 1%nat); lia).
  unfold dot, vmul. cbn. ring.
Qed.

Theorem ramp_resample2 (s' : nat -> K) (jx jy : Z) :
  (forall i, (i < 2)%nat -> s i <> 0) ->
  fovc floorK (nz 0%nat) (resample_src (nz 0%nat) (mz 0%nat) (s 0%nat) (s' 0%nat) jx) ->
  fovc floorK (nz 1%nat) (resample_src (nz 1%nat) (mz 1%nat) (s 1%nat) (s' 1%nat) jy) ->
  ival (interp_ax floorK PZeros 1 (resample_src (nz 1%nat) (mz 1%nat) (s 1%nat) (s' 1%nat)) (mz 1%nat)
          (interp_ax floorK PZeros 0 (resample_src (nz 0%nat) (mz 0%nat) (s 0%nat) (s' 0%nat)) (mz 0%nat) im)) [jx; jy]
  = dot A (gen_pts 2 GRID WORLD (vtab 2 m) (vtab 2 s') (vtab 2 c) (tab 2 2 d) [of_Z jx; of_Z jy]) + b.
Proof.
  intros Hs F0 F1.
  rewrite (interp2_affine_axes PZeros PZeros _ _ _ _ (nz 0%nat) (nz 1%nat) im _ _ _ jx jy Hshape ramp_index_form F0 F1).
  rewrite (lockstep_resample 2 (or_introl eq_refl) n s c m d s' [of_Z jx; of_Z jy] eq_refl Hs).
  rewrite (ramp_is_affine 2 (or_introl eq_refl) n s c d A b) by auto.
  rewrite !resample_src_rsm. unfold dot, vmul. cbn. ring.
Qed.

(* Image.resample, full statement: for EVERY new spacing and new size (also when the rounded shape does not change) *)
Theorem ramp_d_resample2 (s' : nat -> K) (jx jy : Z) :
  (forall i, (i < 2)%nat -> s i <> 0) ->
  fovc floorK (nz 0%nat) (resample_src (nz 0%nat) (mz 0%nat) (s 0%nat) (s' 0%nat) jx) ->
  fovc floorK (nz 1%nat) (resample_src (nz 1%nat) (mz 1%nat) (s 1%nat) (s' 1%nat) jy) ->
  ival (d_resample floorK 2 (vtab 2 s) (vtab 2 s') [mz 0%nat; mz 1%nat] im) [jx; jy]
  = dot A (gen_pts 2 GRID WORLD (vtab 2 m) (vtab 2 s') (vtab 2 c) (tab 2 2 d) [of_Z jx; of_Z jy]) + b.
Proof. intros Hs F0 F1. rewrite (d_resample2_unfold _ _ _ _ _ _ im Hshape). apply ramp_resample2; auto. Qed.
End Ramp2.

Section Ramp3.
Variables (nz mz : nat -> Z) (s c : nat -> K) (d : nat -> nat -> K) (A : list K) (b : K) (im : nimg (K:=K)).
Hypothesis HA : length A = 3%nat.
Hypothesis Hshape : ishape im = [nz 0%nat; nz 1%nat; nz 2%nat].
Notation n := (fun i => of_Z (K:=K) (nz i)).
Notation m := (fun i => of_Z (K:=K) (mz i)).
Hypothesis Hramp : forall ix iy iz, (0 <= ix < nz 0%nat)%Z -> (0 <= iy < nz 1%nat)%Z -> (0 <= iz < nz 2%nat)%Z ->
  ival im [ix; iy; iz] = dot A (gen_pts 3 GRID WORLD (vtab 3 n) (vtab 3 s) (vtab 3 c) (tab 3 3 d) [of_Z ix; of_Z iy; of_Z iz]) + b.

Lemma ramp_index_form3 ix iy iz : (0 <= ix < nz 0%nat)%Z -> (0 <= iy < nz 1%nat)%Z -> (0 <= iz < nz 2%nat)%Z ->
  ival im [ix; iy; iz] = ramp_coef 3 s d A 0 * of_Z ix + ramp_coef 3 s d A 1 * of_Z iy + ramp_coef 3 s d A 2 * of_Z iz
                         + ramp_off 3 n s c d A b.
Proof.
  intros Hx Hy Hz. rewrite Hramp by auto.
  rewrite (ramp_is_affine 3 (or_intror eq_refl) n s c d A b) by auto. unfold dot, vmul. cbn. ring.
Qed.

Theorem ramp_resize3 (ac : bool) (jx jy jz : Z) :
  (forall i, (i < 3)%nat -> m i - 1 <> 0) -> (forall i, (i < 3)%nat -> m i <> 0) ->
  fovc floorK (nz 0%nat) (resize_src ac (nz 0%nat) (mz 0%nat) jx) -> fovc floorK (nz 1%nat) (resize_src ac (nz 1%nat) (mz 1%nat) jy) ->
  fovc floorK (nz 2%nat) (resize_src ac (nz 2%nat) (mz 2%nat) jz) ->
  ival (interp_ax floorK PBorder 2 (resize_src ac (nz 2%nat) (mz 2%nat)) (mz 2%nat)
         (interp_ax floorK PBorder 1 (resize_src ac (nz 1%nat) (mz 1%nat)) (mz 1%nat)
           (interp_ax floorK PBorder 0 (resize_src ac (nz 0%nat) (mz 0%nat)) (mz 0%nat) im))) [jx; jy; jz]
  = dot A (gen_pts 3 GRID WORLD (vtab 3 m)
             ((if ac then gen_resize_spacing_ac else gen_resize_spacing_nac) 3 (vtab 3 n) (vtab 3 s) (vtab 3 c) (tab 3 3 d) (vtab 3 m))
             (vtab 3 c) (tab 3 3 d) [of_Z jx; of_Z jy; of_Z jz]) + b.
Proof.
  intros H1 H0 F0 F1 F2.
  rewrite (interp3_affine_axes PBorder PBorder PBorder _ _ _ _ _ _ (nz 0%nat) (nz 1%nat) (nz 2%nat) im _ _ _ _ jx jy jz
             Hshape ramp_index_form3 F0 F1 F2).
  rewrite (lockstep_resize 3 (or_intror eq_refl) n s c m d ac [of_Z jx; of_Z jy; of_Z jz] eq_refl H1 H0).
  rewrite (ramp_is_affine 3 (or_intror eq_refl) n s c d A b) by auto.
  unfold resize_src.
  rewrite !interp_src_rsz by (try apply (H1 0%nat); try apply (H1 1%nat); try apply (H1 2%nat);
                              try apply (H0 0%nat); try apply (H0 1%nat); try apply (H0 2%nat); lia).
  unfold dot, vmul. cbn. ring.
Qed.

Theorem ramp_resample3 (s' : nat -> K) (jx jy jz : Z) :
  (forall i, (i < 3)%nat -> s i <> 0) ->
  fovc floorK (nz 0%nat) (resample_src (nz 0%nat) (mz 0%nat) (s 0%nat) (s' 0%nat) jx) ->
  fovc floorK (nz 1%nat) (resample_src (nz 1%nat) (mz 1%nat) (s 1%nat) (s' 1%nat) jy) ->
  fovc floorK (nz 2%nat) (resample_src (nz 2%nat) (mz 2%nat) (s 2%nat) (s' 2%nat) jz) ->
  ival (interp_ax floorK PZeros 2 (resample_src (nz 2%nat) (mz 2%nat) (s 2%nat) (s' 2%nat)) (mz 2%nat)
         (interp_ax floorK PZeros 1 (resample_src (nz 1%nat) (mz 1%nat) (s 1%nat) (s' 1%nat)) (mz 1%nat)
           (interp_ax floorK PZeros 0 (resample_src (nz 0%nat) (mz 0%nat) (s 0%nat) (s' 0%nat)) (mz 0%nat) im))) [jx; jy; jz]
  = dot A (gen_pts 3 GRID WORLD (vtab 3 m) (vtab 3 s') (vtab 3 c) (tab 3 3 d) [of_Z jx; of_Z jy; of_Z jz]) + b.
Proof.
  intros Hs F0 F1 F2.
  rewrite (interp3_affine_axes PZeros PZeros PZeros _ _ _ _ _ _ (nz 0%nat) (nz 1%nat) (nz 2%nat) im _ _ _ _ jx jy jz
             Hshape ramp_index_form3 F0 F1 F2).
  rewrite (lockstep_resample 3 (or_intror eq_refl) n s c m d s' [of_Z jx; of_Z jy; of_Z jz] eq_refl Hs).
  rewrite (ramp_is_affine 3 (or_intror eq_refl) n s c d A b) by auto.
  rewrite !resample_src_rsm. unfold dot, vmul. cbn. ring.
Qed.

Theorem ramp_d_resample3 (s' : nat -> K) (jx jy jz : Z) :
  (forall i, (i < 3)%nat -> s i <> 0) ->
  fovc floorK (nz 0%nat) (resample_src (nz 0%nat) (mz 0%nat) (s 0%nat) (s' 0%nat) jx) ->
  fovc floorK (nz 1%nat) (resample_src (nz 1%nat) (mz 1%nat) (s 1%nat) (s' 1%nat) jy) ->
  fovc floorK (nz 2%nat) (resample_src (nz 2%nat) (mz 2%nat) (s 2%nat) (s' 2%nat) jz) ->
  ival (d_resample floorK 3 (vtab 3 s) (vtab 3 s') [mz 0%nat; mz 1%nat; mz 2%nat] im) [jx; jy; jz]
  = dot A (gen_pts 3 GRID WORLD (vtab 3 m) (vtab 3 s') (vtab 3 c) (tab 3 3 d) [of_Z jx; of_Z jy; of_Z jz]) + b.
Proof. intros Hs F0 F1 F2. rewrite (d_resample3_unfold _ _ _ _ _ _ _ _ im Hshape). apply ramp_resample3; auto. Qed.
End Ramp3.
End C04World.
