"""C19 -- batches keep one correctly aligned grid per image under tensor operations."""
import json
import random

import vlib
from vlib import Violation

ID = "C19"
GEN_UNITS = ["BatchTables"]
PROPS_FILE = "Props/C19.v"
PROPS_MOD = "Props.C19"
COQ_TARGETS = ["Props/C19.vo"]
SOURCES = ["deepali/data/image.py", "deepali/data/flow.py", "deepali/data/tensor.py", "deepali/data/collate.py"]
TRUSTED = [
    "Coq 8.16.1 kernel + vm_compute",
    "modelled not verified: torch's shape/index semantics of the operation family (Model/Batch.v data_sem) -- validated on every run by "
    "measuring the provenance of every result entry on the implementation (one-hot probes) and comparing it exactly inside Coq",
    "modelled not verified: torch's choice of the __torch_function__ override (first overloaded argument type, subclasses first), "
    "Tensor.__torch_function__ returning plain tensors under DisableTorchFunctionSubclass, Python tuple slicing",
    "translator unit BatchTables: Python-ast extraction of the dispatcher's special-cased function lists and keyword default",
]
ASSUMPTIONS = [
    "grids are identified by value (a cloned / unpickled grid equals the grid it was copied from)",
    "operations of the family act independently of the data values (dispatch depends on types, shapes, grids, arguments only)",
]

COQ_HEAD = ("From Coq Require Import ZArith List String Bool.\n"
            "From DV Require Import Model.Enums Model.Batch.\n"
            "Import ListNotations.\nOpen Scope nat_scope.\n")

# ------------------------------------------------------------------------------------------------
# Coq term emission
# ------------------------------------------------------------------------------------------------
def cz(v):
    return f"({int(v)})%Z"


def coz(v):
    return "None" if v is None else f"(Some {cz(v)})"


def cl(items):
    return "[" + "; ".join(items) + "]"


def cnl(v):
    return cl([str(int(x)) for x in v])


def czl(v):
    return cl([cz(x) for x in v])


def cdim(d):
    if d["k"] == "none":
        return "DNone"
    return f"(DPos {cz(d['v'])})" if d["k"] == "pos" else f"(DKw {cz(d['v'])})"


def cindex(ix):
    t = ix["t"]
    if t == "int":
        return f"(IInt {cz(ix['v'])})"
    if t == "slice":
        return f"(ISlice {coz(ix['a'])} {coz(ix['b'])} {coz(ix['c'])})"
    if t == "ell":
        return "IEll"
    if t == "list":
        return f"(IList {czl(ix['v'])})"
    return "(IBools " + cl(["true" if b else "false" for b in ix["v"]]) + ")"


def perm_of(op, nd):
    if op["fn"] == "permute":
        return list(op["perm"])
    d1, d2 = op["d1"] % nd, op["d2"] % nd
    p = list(range(nd))
    if op["fn"] == "transpose":
        p[d1], p[d2] = p[d2], p[d1]
        return p
    p.remove(d1)          # movedim source -> destination
    p.insert(d2, d1)
    return p


def cop(op, cur_shape):
    """Coq term of an operation (cur_shape only for the variants whose model argument is computed here)"""
    k = op["op"]
    if k == "unary":
        return "(OUnary " + ("true" if op["fn"] in ("clone", "torch_clone") else "false") + ")"
    if k == "binary":
        return "OBinary"
    if k == "reduce":
        return f"(OReduce {czl(op['dims'])} {'true' if op['keep'] else 'false'})"
    if k == "reduce_all":
        return "OReduceAll"
    if k == "scan":
        return f"(OScan {cz(op['dim'])})"
    if k == "narrow":
        return f"(ONarrow {cz(op['dim'])} {op['start']} {op['len']})"
    if k == "select":
        return f"(OSelect {cz(op['dim'])} {cz(op['idx'])})"
    if k == "index_select":
        return f"(OIndexSelect {cz(op['dim'])} {cnl(op['idx'])})"
    if k == "cat":
        return f"(OCat {cdim(op['d'])})"
    if k == "stack":
        return f"(OStack {cdim(op['d'])})"
    if k == "split":
        return f"(OSplit {op['size']} {cdim(op['d'])})"
    if k == "split_list":
        return f"(OSplitL {cnl(op['sizes'])} {cdim(op['d'])})"
    if k == "split_with_sizes":
        return f"(OSplitSizes {cnl(op['sizes'])} {cdim(op['d'])})"
    if k == "tensor_split_n":
        return f"(OTSplitN {op['n']} {cdim(op['d'])})"
    if k == "tensor_split_idx":
        return f"(OTSplitI {cnl(op['idx'])} {cdim(op['d'])})"
    if k == "chunk":
        return f"(OChunk {op['n']} {cdim(op['d'])})"
    if k == "unbind":
        return f"(OUnbind {cdim(op['d'])})"
    if k == "flip":
        return f"(OFlip {czl(op['dims'])})"
    if k == "roll":
        return f"(ORoll {cz(op['shift'])} {cz(op['dim'])})"
    if k == "permute":
        return f"(OPermute {cnl(perm_of(op, len(cur_shape)))})"
    if k == "expand":
        return f"(OExpand {czl(op['sizes'])})"
    if k == "repeat":
        return f"(ORepeat {cnl(op['reps'])})"
    if k == "reshape":
        return f"(OReshape {cnl(op['shape'])})"
    if k == "spatial":
        return f"(OSpatial {op['c']} {cnl(op['sp'])})"
    if k == "grid_sample":
        return f"(OGridSample {cnl(op['sp'])})"
    if k == "getitem":
        ix = [cindex(i) for i in op["ix"]]
        return f"(OGetItem (GTup {cl(ix)}))" if op["tuple"] else f"(OGetItem (GOne {ix[0]}))"
    if k == "iter_build":
        return f"(OIterBuild {'BFromImages' if op['how'] == 'from_images' else 'BCollate'} {cnl(op['sel'])})"
    if k == "iter_pick":
        return f"(OIterPick {op['k']})"
    if k == "narrow_method":
        return f"(ONarrowM {cz(op['dim'])} {cz(op['start'])} {op['len']})"
    if k == "copy":
        return "(OCopy " + {"copy": "CCopy", "deepcopy": "CDeep", "pickle": "CPickle"}[op["fn"]] + ")"
    if k == "append":
        return "OAppend"
    if k == "to_batch":
        return "OToBatch"
    if k == "as_flows":
        return "OAsFlows"
    raise ValueError(k)


def ckind(d):
    k = d["kind"]
    if k == "P":
        return "TPlain"
    fl = f"(Some {d['axes']})" if k in ("F", "FI") else "None"
    if k in ("B", "F"):
        return f"(TBatch {fl} {cnl(d['grids'])})"
    return f"(TSingle {fl} {d['grids'][0]})"


def ctval(d):
    return f"(mkT {cnl(d['shape'])} {ckind(d)})"


def coval(d):
    src = cl([cl([f"({j}, {e})" for j, e in ent]) for ent in d["src"]])
    return f"(mkO {cnl(d['shape'])} {ckind(d)} {src})"


def cores(obs):
    if "error" in obs:
        return f"(OErr {obs['error']})"
    outs = [coval(d) for d in obs["outs"]]
    return f"(OTuple {cl(outs)})" if obs["tuple"] else f"(OOne {outs[0]})"


# ------------------------------------------------------------------------------------------------
# program generator (adaptive: each round extends every program by one step, using the state
# the implementation reached)
# ------------------------------------------------------------------------------------------------
AXES = ["WORLD", "GRID", "CUBE", "CUBE_CORNERS"]


def new_case(rng, idx):
    kind = rng.choices(["B", "F", "I", "FI"], weights=[10, 7, 2, 2])[0]
    D = rng.choices([2, 3], weights=[4, 1])[0]
    sp = [rng.choice([2, 3, 4]) for _ in range(D)] if D == 2 else [rng.choice([2, 3]) for _ in range(D)]
    if rng.random() < 0.3:
        sp = [sp[0]] * D
    C = D if kind in ("F", "FI") else rng.choice([1, 2, 3])
    N = rng.choice([1, 2, 2, 3, 3, 4, 6])
    if kind in ("B", "F") and rng.random() < 0.3:
        N = C          # square leading dims: shape-preserving transpositions
    axes = rng.choice(AXES)
    gid = 0
    if kind in ("B", "F"):
        cur = {"kind": kind, "shape": [N, C] + sp, "grids": list(range(N)), "axes": axes}
        gid = N
    else:
        cur = {"kind": kind, "shape": [C] + sp, "grids": [0], "axes": axes}
        gid = 1
    inputs = []
    table = {g: sp for g in range(gid)}

    def add(kind2, shape, n_grids, ax):
        nonlocal gid
        d = {"kind": kind2, "shape": shape, "grids": list(range(gid, gid + n_grids)), "axes": ax}
        for g in d["grids"]:
            table[g] = shape[2:] if kind2 in ("B", "F") else shape[1:]
        gid += n_grids
        inputs.append(d)

    if kind in ("B", "F"):
        n2 = rng.choice([1, 2, 3])
        add(kind, [n2, C] + sp, n2, axes if rng.random() < 0.85 else rng.choice(AXES))       # same class
        add(kind, [N, C] + sp, N, axes)                                                     # same batch size
        other = "B" if kind == "F" else ("F" if C == D else "B")
        add(other, [N, C] + sp, N, axes)                                                    # other class
        inputs.append({"kind": "P", "shape": [N, C] + sp, "grids": [], "axes": axes})
        inputs.append({"kind": "P", "shape": [1, C] + sp, "grids": [], "axes": axes})
        inputs.append({"kind": "P", "shape": [0, C] + sp, "grids": [], "axes": axes})
        add("I" if kind == "B" else "FI", [C] + sp, 1, axes)
    else:
        add(kind, [C] + sp, 1, axes)
        add("I" if kind == "FI" else ("FI" if C == D else "I"), [C] + sp, 1, axes)
        inputs.append({"kind": "P", "shape": [C] + sp, "grids": [], "axes": axes})
        inputs.append({"kind": "P", "shape": [1] + sp, "grids": [], "axes": axes})
    nsteps = rng.choice([1, 2, 2, 3, 3])
    return {"id": idx, "cur": cur, "inputs": inputs, "steps": [], "nsteps": nsteps,
            "gshape": [table[g] for g in range(gid)]}


def rdim(rng, nd, bias0=0.45):
    if nd == 0:
        return 0
    d = 0 if rng.random() < bias0 else rng.randrange(nd)
    if rng.random() < 0.25:
        d -= nd
    if rng.random() < 0.02:
        d = nd + rng.randrange(2)       # malformed
    return d


def rdimarg(rng, nd, bias0=0.5):
    r = rng.random()
    if r < 0.3:
        return {"k": "none"}
    d = rdim(rng, nd, bias0)
    return {"k": "pos", "v": d} if r < 0.6 else {"k": "kw", "v": d}


def compatible_inputs(case, cur):
    """inputs that can be combined with the current value elementwise / by concatenation"""
    out = []
    for i, d in enumerate(case["inputs"]):
        if len(d["shape"]) == len(cur["shape"]) and d["shape"][1:] == cur["shape"][1:]:
            out.append(i)
    return out


OPS = [("unary", 8), ("binary", 6), ("reduce", 5), ("reduce_all", 1), ("scan", 2), ("narrow", 4), ("select", 2),
       ("index_select", 4), ("cat", 7), ("stack", 2), ("split", 4), ("split_list", 3), ("split_with_sizes", 2),
       ("tensor_split_n", 3), ("tensor_split_idx", 3), ("chunk", 2), ("unbind", 2), ("flip", 4), ("roll", 3),
       ("permute", 4), ("expand", 2), ("repeat", 3), ("reshape", 4), ("spatial", 5), ("grid_sample", 1),
       ("getitem", 12), ("iter_build", 3), ("iter_pick", 2), ("narrow_method", 2), ("copy", 4), ("append", 2),
       ("to_batch", 1), ("as_flows", 2)]


def gen_index(rng, n, pos, numpy_ok=True):
    r = rng.random()
    if pos == 0:
        if r < 0.25:
            return {"t": "int", "v": rng.randrange(-n, n) if n else 0}
        if r < 0.6:
            return gen_slice(rng, n)
        if r < 0.9:
            v = [rng.randrange(-n, n) if n else 0 for _ in range(rng.choice([1, 2, 3]))]
            return {"t": "list", "v": v, "as": rng.choice(["list", "tensor", "numpy"] if numpy_ok else ["list", "tensor"])}
        return {"t": "bools", "v": [rng.random() < 0.6 for _ in range(n)], "as": rng.choice(["list", "tensor"])}
    if r < 0.25:
        return {"t": "int", "v": rng.randrange(-n, n) if n else 0}
    return gen_slice(rng, n, full=0.6)


def gen_slice(rng, n, full=0.2):
    r = rng.random()
    if r < full:
        v = rng.choice([(None, None, None), (0, None, None), (None, n, None), (0, n, 1), (None, None, 1)])
        return {"t": "slice", "a": v[0], "b": v[1], "c": v[2]}
    a = rng.choice([None, 0, 1, -1, -2, rng.randrange(0, n + 1)])
    b = rng.choice([None, n, n - 1, -1, n + 3, rng.randrange(0, n + 2)])
    c = rng.choice([None, None, 1, 2, 3]) if rng.random() > 0.02 else -1
    return {"t": "slice", "a": a, "b": b, "c": c}


def gen_step(rng, case, cur):
    """one more step for the program, given the description of the current value"""
    kind, sh = cur["kind"], cur["shape"]
    nd = len(sh)
    n0 = sh[0] if nd else 0
    batched = kind in ("B", "F")
    single = kind in ("I", "FI")
    names = [n for n, _ in OPS]
    weights = [w for _, w in OPS]
    for _ in range(50):
        k = rng.choices(names, weights=weights)[0]
        op = {"op": k}
        args = ["cur"]
        if nd == 0 and k not in ("unary", "reduce_all", "copy"):
            continue
        if 0 in sh and k not in ("unary", "binary", "cat", "stack", "getitem", "copy", "chunk", "split", "unbind", "append",
                                 "tensor_split_idx", "narrow", "index_select", "iter_build", "iter_pick", "as_flows"):
            continue      # zero-size tensors: reductions etc. have special cases in torch that are not modelled
        if k == "unary":
            op["fn"] = rng.choice(["abs", "neg", "mul2", "double", "same_dtype", "clone", "torch_clone", "contiguous", "detach",
                                   "cpu", "relu", "imul", "type"])
        elif k == "binary":
            comp = compatible_inputs(case, cur)
            other = rng.choice(comp) if comp and rng.random() < 0.85 else "cur"
            args = ["cur", other] if rng.random() < 0.6 else [other, "cur"]
            op["fn"] = rng.choice(["add", "torch_add", "maximum"])
        elif k == "reduce":
            ds = rng.sample(range(nd), rng.choice([1, 1, 2]) if nd > 1 else 1)
            if rng.random() < 0.4 and 0 not in ds:
                ds[0] = 0
            op.update(dims=[d - nd if rng.random() < 0.2 else d for d in ds], keep=rng.random() < 0.6,
                      fn=rng.choice(["sum", "amax", "mean"]))
        elif k == "reduce_all":
            pass
        elif k == "scan":
            op["dim"] = rdim(rng, nd)
        elif k == "narrow":
            d = rdim(rng, nd)
            size = sh[d % nd] if -nd <= d < nd else 1
            st = rng.randrange(0, size + 1)
            ln = rng.randrange(0, size - st + 1) if rng.random() > 0.3 else size - st
            if rng.random() < 0.03:
                ln += 1
            op.update(dim=d, start=st, len=ln)
        elif k == "select":
            d = rdim(rng, nd)
            size = sh[d % nd] if -nd <= d < nd else 1
            if size == 0:
                continue
            op.update(dim=d, idx=rng.randrange(-size, size), fn=rng.choice(["func", "method"]))
        elif k == "index_select":
            d = rdim(rng, nd, 0.7)
            size = sh[d % nd] if -nd <= d < nd else 1
            if size == 0:
                continue
            r = rng.random()
            if r < 0.4:
                idx = list(range(size))
                rng.shuffle(idx)
            else:
                idx = [rng.randrange(size) for _ in range(rng.choice([1, 2, size, size + 1]))]
            op.update(dim=d, idx=idx)
        elif k in ("cat", "stack"):
            comp = compatible_inputs(case, cur)
            m = rng.choice([1, 1, 2])
            others = [rng.choice(comp) if comp and rng.random() < 0.8 else "cur" for _ in range(m)]
            args = ["cur"] + others
            if rng.random() < 0.3:
                rng.shuffle(args)
            op["d"] = rdimarg(rng, nd + (1 if k == "stack" else 0))
        elif k == "split":
            op.update(d=rdimarg(rng, nd, 0.7), size=rng.choice([1, 1, 2, 2, 3, max(n0, 1)]), fn=rng.choice(["func", "method"]))
        elif k in ("split_list", "split_with_sizes"):
            d = rdimarg(rng, nd, 0.75)
            dv = d.get("v", 0)
            size = sh[dv % nd] if -nd <= dv < nd else 1
            sizes = []
            rest = size
            while rest > 0:
                s = rng.randrange(1, rest + 1)
                sizes.append(s)
                rest -= s
            if not sizes:
                sizes = [0]
            if rng.random() < 0.03:
                sizes[0] += 1
            op.update(d=d, sizes=sizes, fn=rng.choice(["func", "method"]), seq=rng.choice(["list", "tuple"]))
        elif k == "tensor_split_n":
            op.update(d=rdimarg(rng, nd, 0.75), n=rng.choice([1, 2, 2, 3, 3, 4]), fn=rng.choice(["func", "method"]))
        elif k == "tensor_split_idx":
            d = rdimarg(rng, nd, 0.75)
            dv = d.get("v", 0)
            size = sh[dv % nd] if -nd <= dv < nd else 1
            idx = sorted(rng.randrange(0, size + 2) for _ in range(rng.choice([1, 1, 2])))
            op.update(d=d, idx=idx, fn=rng.choice(["func", "method"]), seq=rng.choice(["list", "tuple"]))
        elif k == "chunk":
            op.update(d=rdimarg(rng, nd, 0.7), n=rng.choice([1, 2, 3]), fn=rng.choice(["func", "method"]))
        elif k == "unbind":
            op.update(d=rdimarg(rng, nd, 0.7), fn=rng.choice(["func", "method"]))
        elif k == "flip":
            ds = rng.sample(range(nd), rng.choice([1, 1, 2]) if nd > 1 else 1)
            if rng.random() < 0.4 and 0 not in ds:
                ds[0] = 0
            op.update(dims=[d - nd if rng.random() < 0.2 else d for d in ds], fn=rng.choice(["func", "method"]))
        elif k == "roll":
            op.update(shift=rng.choice([1, 1, 2, -1, 3, 0, 7]), dim=rdim(rng, nd, 0.6))
        elif k == "permute":
            r = rng.random()
            if r < 0.4 and nd >= 2:
                d1, d2 = rng.sample(range(nd), 2)
                if rng.random() < 0.5:
                    d1, d2 = 0, 1
                op.update(fn="transpose", d1=d1 - (nd if rng.random() < 0.2 else 0), d2=d2)
            elif r < 0.6 and nd >= 2:
                d1, d2 = rng.sample(range(nd), 2)
                op.update(fn="movedim", d1=d1, d2=d2)
            else:
                p = list(range(nd))
                if rng.random() < 0.5 and nd > 2:
                    tail = p[2:]
                    rng.shuffle(tail)
                    p = p[:2] + tail
                elif rng.random() < 0.5 and nd > 1:
                    p[0], p[1] = p[1], p[0]
                else:
                    rng.shuffle(p)
                op.update(fn="permute", perm=p)
        elif k == "expand":
            sizes = [(-1 if rng.random() < 0.5 else s) if s != 1 else rng.choice([1, 2, 3, -1]) for s in sh]
            if rng.random() < 0.2:
                sizes = [rng.choice([1, 2])] + sizes
            op["sizes"] = sizes
        elif k == "repeat":
            reps = [1] * nd
            if rng.random() < 0.6:
                reps[0] = rng.choice([1, 2, 3])
            if rng.random() < 0.3 and nd > 1:
                reps[1] = 2
            if rng.random() < 0.15:
                reps = [rng.choice([1, 2])] + reps
            op["reps"] = reps
        elif k == "reshape":
            r = rng.random()
            if r < 0.2:
                d = rng.randrange(0, nd + 1)
                op.update(fn="unsqueeze", dim=d, shape=sh[:d] + [1] + sh[d:])
            elif r < 0.4:
                d = rng.randrange(nd)
                op.update(fn="squeeze", dim=d, shape=(sh[:d] + sh[d + 1:]) if sh[d] == 1 else list(sh))
            elif r < 0.6 and nd >= 2:
                d1 = rng.randrange(nd - 1)
                d2 = rng.randrange(d1 + 1, nd)
                p = 1
                for s in sh[d1:d2 + 1]:
                    p *= s
                op.update(fn="flatten", d1=d1, d2=d2, shape=sh[:d1] + [p] + sh[d2 + 1:])
            else:
                cand = [list(sh)]
                if nd >= 2:
                    cand.append([sh[1], sh[0]] + sh[2:])
                    cand.append([sh[0] * sh[1]] + sh[2:])
                    cand.append(sh[:-2] + [sh[-1], sh[-2]])
                    if sh[0] % 2 == 0 and sh[0]:
                        cand.append([sh[0] // 2, sh[1] * 2] + sh[2:])
                    cand.append([sh[0]] + [1] + sh[1:])
                if rng.random() < 0.03:
                    cand.append([sh[0] + 1] + sh[1:])
                op.update(fn="reshape", shape=rng.choice(cand))
        elif k == "spatial":
            if single or nd < 4 or nd > 5 or 0 in sh:
                continue
            sp = sh[2:]
            fn = rng.choice(["interp", "avg_pool", "max_pool", "pad", "conv"])
            op["fn"] = fn
            if fn == "interp":
                size = list(sp) if rng.random() < 0.4 else [rng.choice([s, 2 * s, max(1, s - 1)]) for s in sp]
                op.update(size=size, c=sh[1], sp=size)
            elif fn in ("avg_pool", "max_pool"):
                kk = rng.choice([1, 1, 2])
                if kk > min(sp):
                    continue
                op.update(k=kk, c=sh[1], sp=[s // kk for s in sp])
            elif fn == "pad":
                pad = [0] * (2 * len(sp)) if rng.random() < 0.4 else [rng.choice([0, 1]) for _ in range(2 * rng.randrange(1, len(sp) + 1))]
                new = list(sp)
                for i in range(len(pad) // 2):
                    new[len(sp) - 1 - i] += pad[2 * i] + pad[2 * i + 1]
                op.update(pad=pad, c=sh[1], sp=new)
            else:
                cout = rng.choice([sh[1], 1, len(sp)])
                op.update(cout=cout, c=cout, sp=list(sp))
        elif k == "grid_sample":
            if not batched and not (kind == "P" and nd in (4, 5)):
                continue
            if 0 in sh or nd not in (4, 5):
                continue
            sp = sh[2:]
            op["sp"] = list(sp) if rng.random() < 0.6 else [rng.choice([2, 3]) for _ in sp]
        elif k == "getitem":
            r = rng.random()
            if single or kind == "P":
                op.update(tuple=False, ix=[gen_index(rng, n0, 1)])
            elif r < 0.08:
                op.update(tuple=False, ix=[{"t": "ell"}])
            elif r < 0.5:
                op.update(tuple=False, ix=[gen_index(rng, n0, 0)])
            else:
                m = rng.choice([1, 2, 2, 3, nd, nd])
                # (a numpy index array next to an Ellipsis makes __getitem__ raise: search stream only)
                ix = [gen_index(rng, sh[i], i, case.get("numpy_in_tuple", False)) for i in range(min(m, nd))]
                if rng.random() < 0.35:
                    pos = rng.randrange(0, len(ix) + 1)
                    keep_tail = rng.randrange(0, len(ix) - pos + 1)
                    # an ellipsis standing for the dimensions in between
                    tail = [gen_index(rng, sh[nd - keep_tail + t], nd - keep_tail + t) for t in range(keep_tail)] if keep_tail else []
                    ix = ix[:pos] + [{"t": "ell"}] + tail
                    if len([i for i in ix if i["t"] != "ell"]) > nd:
                        continue
                    if ix == [{"t": "ell"}]:
                        continue      # b[(...,)] is in the malformed stream only
                op.update(tuple=True, ix=ix)
        elif k == "iter_build":
            if not batched or n0 == 0:
                continue
            sel = [rng.randrange(n0) for _ in range(rng.choice([1, 2, 3, n0]))]
            op.update(how=rng.choice(["from_images", "collate"]), sel=sel)
        elif k == "iter_pick":
            if not batched or n0 == 0:
                continue
            op["k"] = rng.randrange(n0)
        elif k == "narrow_method":
            if not batched or n0 == 0:
                continue
            d = rng.choice([0, 0, 1, -nd, 1 - nd])      # (spatial dims narrow every grid: not modelled, directed cases only)
            size = sh[d % nd]
            st = rng.randrange(0, size)
            ln = rng.randrange(1, size - st + 1)
            if rng.random() < 0.35:
                st -= size                            # the same range counted from the end (also start + length == 0)
            op.update(dim=d, start=st, len=ln)
        elif k == "as_flows":
            if not batched:
                continue          # FlowFields(batch) constructor (a plain tensor would get a new default grid: not modelled)
        elif k == "copy":
            op["fn"] = rng.choice(["copy", "deepcopy", "pickle"])
        elif k == "append":
            if not batched:
                continue
            comp = [i for i in compatible_inputs(case, cur) if case["inputs"][i]["kind"] in ("B", "F")]
            args = ["cur", rng.choice(comp) if comp and rng.random() < 0.8 else "cur"]
        elif k == "to_batch":
            if not single:
                continue
        else:
            continue
        st = {"op": op, "args": args, "pick": 0}
        return st
    return {"op": {"op": "unary", "fn": "abs"}, "args": ["cur"], "pick": 0}


def run_programs(ctx, n, seed_tag):
    """adaptive generation: returns (cases, results of the final round)"""
    rng = random.Random(f"{ctx.seed}:{seed_tag}")
    cases = [new_case(rng, i) for i in range(n)]
    for c in cases:
        c["numpy_in_tuple"] = seed_tag == "search"
    state = [dict(c["cur"]) for c in cases]
    alive = [True] * n
    res = None
    for rnd in range(3):
        for i, c in enumerate(cases):
            if alive[i] and len(c["steps"]) < c["nsteps"]:
                st = gen_step(rng, c, state[i])
                st["cur_shape"] = list(state[i]["shape"])
                c["steps"].append(st)
        res = vlib.run_impl("c19_impl", {"cases": cases})
        for i, (c, r) in enumerate(zip(cases, res)):
            if "harness_error" in r:
                alive[i] = False
                continue
            last = r["steps"][-1]
            if len(r["steps"]) < len(c["steps"]) or "error" in last:
                alive[i] = False
                continue
            # choose which output to continue with
            outs = last["outs"]
            st = c["steps"][len(r["steps"]) - 1]
            if len(r["steps"]) == len(c["steps"]) and "picked" not in st:
                st["pick"] = rng.randrange(len(outs)) if last["tuple"] and outs else 0
                st["picked"] = True
            if not outs or st["pick"] >= len(outs) or outs[st["pick"]]["kind"] == "X":
                alive[i] = False
                continue
            o = outs[st["pick"]]
            state[i] = {"kind": o["kind"], "shape": o["shape"], "grids": o.get("grids", []), "axes": o.get("axes", c["cur"]["axes"])}
    # the pick of the last generated step may have changed after the run: re-run once so that results match the final programs
    res = vlib.run_impl("c19_impl", {"cases": cases})
    return cases, res


def coq_case(i, c, r):
    """Definition c<i> : bool comparing the model's run with the observed one"""
    tab = cl([cnl(s) for s in c["gshape"]])
    steps = []
    for st in c["steps"][:len(r["steps"])]:
        args = cl(["RCur" if a == "cur" else f"(RIn {a})" for a in st["args"]])
        steps.append(f"(mkStep {cop(st['op'], st['cur_shape'])} {args} {st['pick']})")
    obs = [cores(o) for o in r["steps"]]
    return (f"Definition c{i} : bool := prog_ok (fun g => nth g {tab} []) (fun _ => CUBE_CORNERS) {ctval(c['cur'])} "
            f"{cl([ctval(d) for d in c['inputs']])} {cl(steps)} {cl(obs)}.")


def coq_trace(i, c, r):
    tab = cl([cnl(s) for s in c["gshape"]])
    steps = []
    for st in c["steps"][:len(r["steps"])]:
        args = cl(["RCur" if a == "cur" else f"(RIn {a})" for a in st["args"]])
        steps.append(f"(mkStep {cop(st['op'], st['cur_shape'])} {args} {st['pick']})")
    return (f"Eval vm_compute in (\"TRACE{i}\"%string, trace_prog (fun g => nth g {tab} []) (fun _ => CUBE_CORNERS) {ctval(c['cur'])} "
            f"{cl([ctval(d) for d in c['inputs']])} {cl(steps)}).")


def compare_in_coq(ctx, cases, res, tag):
    failures = []
    names = []
    lines = [COQ_HEAD]
    for i, (c, r) in enumerate(zip(cases, res)):
        if "harness_error" in r:
            failures.append({"case": strip(c), "why": "harness error", "detail": r["harness_error"]})
            continue
        bad = [o for o in r["steps"] if o.get("error") == "Other" or any(d["kind"] == "X" for d in o.get("outs", []))]
        if bad:
            failures.append({"case": strip(c), "why": "implementation result outside the modelled vocabulary", "impl": bad[0]})
            continue
        lines.append(coq_case(i, c, r))
        names.append(i)
    shard = 250
    for s in range(0, len(names), shard):
        part = names[s:s + shard]
        text = "\n".join(l for l in lines if l == COQ_HEAD or int(l.split()[1][1:]) in set(part))
        text += "\nDefinition results : list bool := " + cl([f"c{i}" for i in part]) + ".\n"
        text += 'Fixpoint failing_from (i : nat) (l : list bool) : list nat := match l with [] => [] | b :: r => if b then failing_from (S i) r else i :: failing_from (S i) r end.\n'
        text += 'Eval vm_compute in ("FAIL"%string, failing_from 0 results).\n'
        rc, out = vlib.coqc_text(text, ctx.scratch, f"cases_c19_{tag}_{s}")
        bad = vlib.parse_nat_list(out, "FAIL")
        if rc != 0 or bad is None:
            failures.append({"why": "case file did not evaluate (model definitions missing or ill-typed)", "coq": out[-800:]})
            continue
        for j in bad[:8]:
            i = part[j]
            rc2, out2 = vlib.coqc_text(COQ_HEAD + coq_trace(i, cases[i], res[i]) + "\n", ctx.scratch, f"trace_c19_{tag}_{i}")
            failures.append({"case": strip(cases[i]), "impl": res[i]["steps"], "why": "model run differs from the implementation",
                             "model": " ".join(out2.split())[-1500:]})
        for j in bad[8:]:
            failures.append({"case": strip(cases[part[j]]), "why": "model run differs from the implementation"})
    return failures, len(names)


def strip(c):
    return {"cur": c["cur"], "inputs": c["inputs"], "steps": [{k: v for k, v in s.items() if k != "picked"} for s in c["steps"]],
            "gshape": c["gshape"]}


MALFORMED = [
    {"op": {"op": "getitem", "tuple": True, "ix": [{"t": "ell"}]}, "args": ["cur"]},
    {"op": {"op": "getitem", "tuple": True, "ix": []}, "args": ["cur"]},
    {"op": {"op": "getitem", "tuple": False, "ix": [{"t": "int", "v": 99}]}, "args": ["cur"]},
    {"op": {"op": "getitem", "tuple": False, "ix": [{"t": "list", "v": [99], "as": "list"}]}, "args": ["cur"]},
    {"op": {"op": "getitem", "tuple": False, "ix": [{"t": "slice", "a": None, "b": None, "c": -1}]}, "args": ["cur"]},
    {"op": {"op": "cat", "d": {"k": "kw", "v": 9}}, "args": ["cur", "cur"]},
    {"op": {"op": "split", "size": 0, "d": {"k": "none"}, "fn": "func"}, "args": ["cur"]},
    {"op": {"op": "tensor_split_n", "n": 0, "d": {"k": "none"}, "fn": "func"}, "args": ["cur"]},
    {"op": {"op": "select", "dim": 0, "idx": 50, "fn": "func"}, "args": ["cur"]},
    {"op": {"op": "permute", "fn": "permute", "perm": [0, 0, 1, 2]}, "args": ["cur"]},
    {"op": {"op": "binary", "fn": "add"}, "args": ["cur", 0]},
]


def correspondence(ctx):
    n = ctx.n(400, 6000)
    cases, res = run_programs(ctx, n, "corr")
    # malformed stream
    rng = random.Random(f"{ctx.seed}:malformed")
    mal = []
    for j, m in enumerate(MALFORMED * (1 if ctx.tier == "quick" else 3)):
        c = new_case(rng, n + j)
        while c["cur"]["kind"] not in ("B", "F"):
            c = new_case(rng, n + j)
        st = json.loads(json.dumps(m))
        st["pick"] = 0
        st["cur_shape"] = list(c["cur"]["shape"])
        if st["op"]["op"] == "permute" and len(st["cur_shape"]) != 4:
            st["op"]["perm"] = [0, 0, 1, 2, 3]
        c["steps"] = [st]
        c["nsteps"] = 1
        mal.append(c)
    mres = vlib.run_impl("c19_impl", {"cases": mal})
    failures, compared = compare_in_coq(ctx, cases + mal, res + mres, "corr")
    dist = {}
    nontrivial = set()
    steps_total = 0
    typed_results = 0
    for c, r in zip(cases + mal, res + mres):
        if "harness_error" in r:
            continue
        for st, o in zip(c["steps"], r["steps"]):
            steps_total += 1
            nm = st["op"]["op"]
            dist["op:" + nm] = dist.get("op:" + nm, 0) + 1
            if "error" in o:
                dist["result:error:" + o["error"]] = dist.get("result:error:" + o["error"], 0) + 1
            else:
                for d in o["outs"]:
                    dist["result:" + d["kind"]] = dist.get("result:" + d["kind"], 0) + 1
                    typed_results += d["kind"] != "P"
        dist["cur:" + c["cur"]["kind"]] = dist.get("cur:" + c["cur"]["kind"], 0) + 1
        dist[f"len:{len(c['steps'])}"] = dist.get(f"len:{len(c['steps'])}", 0) + 1
        if c["cur"]["kind"] in ("B", "F") and c["cur"]["shape"][0] >= 2:
            nontrivial.add(json.dumps(strip(c), sort_keys=True))
    samples = [{"case": strip(c), "impl": r.get("steps")} for c, r in list(zip(cases, res))[:3]]
    return {"evaluations": compared, "distinct_nontrivial": len(nontrivial),
            "rule": "adaptively generated programs of 1-3 operations over ImageBatch / FlowFields / Image / FlowField values with pairwise "
                    "distinct grids (ids coded in the spacing); compared exactly inside Coq per step: error class, tuple-ness, type, shape, "
                    "grid ids, axes, and the measured provenance (operand, entry) set of every result entry; non-trivial = batch input with "
                    ">= 2 items; distinct by full program text",
            "samples": samples, "failures": failures, "distribution": dist,
            "tolerances": {"all": "exact (integers, enums, lists)"},
            "exploration": {"steps": steps_total, "typed_results": typed_results, "malformed_cases": len(mal)}}


# ------------------------------------------------------------------------------------------------
# search: the property itself on the implementation
# ------------------------------------------------------------------------------------------------
def directed_cases(rng):
    """programs aimed at every clause of the statement, every op of the family, on batches with distinct grids"""
    out = []
    idx = 100000

    def case(kind, N, C, sp, steps, axes="WORLD", other_axes=None):
        nonlocal idx
        c = new_case(rng, idx)
        idx += 1
        D = len(sp)
        if kind in ("F", "FI"):
            C = D
        c["cur"] = {"kind": kind, "shape": ([N, C] if kind in ("B", "F") else [C]) + sp, "grids": list(range(N if kind in ("B", "F") else 1)), "axes": axes}
        g0 = N if kind in ("B", "F") else 1
        if kind in ("B", "F"):
            c["inputs"] = [{"kind": kind, "shape": [2, C] + sp, "grids": [g0, g0 + 1], "axes": other_axes or axes},
                           {"kind": kind, "shape": [N, C] + sp, "grids": list(range(g0 + 2, g0 + 2 + N)), "axes": axes},
                           {"kind": "P", "shape": [N, C] + sp, "grids": [], "axes": axes}]
        else:
            c["inputs"] = [{"kind": kind, "shape": [C] + sp, "grids": [1], "axes": axes},
                           {"kind": "P", "shape": [C] + sp, "grids": [], "axes": axes}]
        c["steps"] = [dict(s, pick=s.get("pick", 0), cur_shape=c["cur"]["shape"]) for s in steps]
        c["nsteps"] = len(steps)
        out.append(c)

    def S(op, args=("cur",), **kw):
        return dict({"op": op, "args": list(args)}, **kw)

    for kind in ("B", "F"):
        for N, C, sp in ((3, 2, [3, 4]), (2, 2, [3, 3]), (6, 1, [2, 3]), (4, 3, [2, 2, 3]), (1, 2, [3, 4])):
            ops = [
                S({"op": "flip", "dims": [0], "fn": "func"}), S({"op": "flip", "dims": [-1], "fn": "method"}),
                S({"op": "roll", "shift": 1, "dim": 0}), S({"op": "roll", "shift": 1, "dim": -1}),
                S({"op": "index_select", "dim": 0, "idx": list(reversed(range(N)))}),
                S({"op": "index_select", "dim": 0, "idx": [0]}),
                S({"op": "permute", "fn": "transpose", "d1": 0, "d2": 1}),
                S({"op": "permute", "fn": "transpose", "d1": -1, "d2": -2}),
                S({"op": "scan", "dim": 0}), S({"op": "scan", "dim": 1}),
                S({"op": "narrow", "dim": 0, "start": N - 1, "len": 1}), S({"op": "narrow", "dim": 0, "start": 0, "len": N}),
                S({"op": "narrow_method", "dim": 0, "start": N - 1, "len": 1}),
                S({"op": "narrow_method", "dim": 1, "start": 0, "len": 1}),
                S({"op": "narrow_method", "dim": -(2 + len(sp)), "start": N - 1, "len": 1}),
                S({"op": "narrow_method", "dim": -1, "start": 0, "len": 1}),
                S({"op": "select", "dim": 0, "idx": N - 1, "fn": "func"}),
                S({"op": "reduce", "dims": [0], "keep": True, "fn": "sum"}), S({"op": "reduce", "dims": [1], "keep": True, "fn": "mean"}),
                S({"op": "repeat", "reps": [2, 1] + [1] * len(sp)}), S({"op": "expand", "sizes": [-1] * (2 + len(sp))}),
                S({"op": "cat", "d": {"k": "none"}}, ("cur", 0)), S({"op": "cat", "d": {"k": "kw", "v": 0}}, (0, "cur")),
                S({"op": "cat", "d": {"k": "pos", "v": 1}}, ("cur", 1)), S({"op": "cat", "d": {"k": "kw", "v": 1}}, ("cur", 1)),
                S({"op": "cat", "d": {"k": "kw", "v": -(2 + len(sp))}}, ("cur", 0)),
                S({"op": "stack", "d": {"k": "none"}}, ("cur", 1)),
                S({"op": "split", "size": 1, "d": {"k": "none"}, "fn": "func"}, pick=N - 1),
                S({"op": "split", "size": 2, "d": {"k": "none"}, "fn": "method"}, pick=(N - 1) // 2),
                S({"op": "split", "size": 1, "d": {"k": "kw", "v": 1}, "fn": "func"}),
                S({"op": "split_list", "sizes": [1, N - 1] if N > 1 else [1], "d": {"k": "none"}, "fn": "func", "seq": "list"}, pick=min(1, N - 1)),
                S({"op": "split_with_sizes", "sizes": [1, N - 1] if N > 1 else [1], "d": {"k": "none"}, "fn": "func"}, pick=min(1, N - 1)),
                S({"op": "tensor_split_n", "n": 3, "d": {"k": "none"}, "fn": "func"}), S({"op": "tensor_split_n", "n": 2, "d": {"k": "none"}, "fn": "func"}, pick=1),
                S({"op": "tensor_split_idx", "idx": [1], "d": {"k": "none"}, "fn": "func", "seq": "list"}, pick=1),
                S({"op": "tensor_split_idx", "idx": [1], "d": {"k": "none"}, "fn": "func", "seq": "tensor"}, pick=1),
                S({"op": "chunk", "n": 2, "d": {"k": "none"}, "fn": "func"}), S({"op": "unbind", "d": {"k": "none"}, "fn": "func"}),
                S({"op": "getitem", "tuple": False, "ix": [{"t": "ell"}]}),
                S({"op": "getitem", "tuple": False, "ix": [{"t": "bools", "v": [i % 2 == 0 for i in range(N)], "as": "tensor"}]}),
                S({"op": "getitem", "tuple": False, "ix": [{"t": "bools", "v": [i % 2 == 0 for i in range(N)], "as": "list"}]}),
                S({"op": "getitem", "tuple": False, "ix": [{"t": "list", "v": list(reversed(range(N))), "as": "tensor"}]}),
                S({"op": "getitem", "tuple": False, "ix": [{"t": "slice", "a": 1, "b": None, "c": None}]}),
                S({"op": "getitem", "tuple": False, "ix": [{"t": "int", "v": -1}]}),
                S({"op": "getitem", "tuple": True, "ix": [{"t": "slice", "a": None, "b": None, "c": 2}, {"t": "slice", "a": 0, "b": 1, "c": None}]}),
                S({"op": "getitem", "tuple": True, "ix": [{"t": "ell"}, {"t": "slice", "a": 0, "b": sp[-1], "c": None}]}),
                S({"op": "iter_build", "how": "from_images", "sel": list(reversed(range(N)))}),
                S({"op": "iter_build", "how": "collate", "sel": list(reversed(range(N)))}),
                S({"op": "iter_pick", "k": N - 1}),
                S({"op": "append"}, ("cur", 0)),
                S({"op": "copy", "fn": "copy"}), S({"op": "copy", "fn": "deepcopy"}), S({"op": "copy", "fn": "pickle"}),
                S({"op": "unary", "fn": "clone"}), S({"op": "unary", "fn": "double"}), S({"op": "unary", "fn": "cpu"}),
                S({"op": "binary", "fn": "add"}, ("cur", 1)), S({"op": "binary", "fn": "add"}, (2, "cur")),
                S({"op": "spatial", "fn": "interp", "size": list(sp), "c": C, "sp": list(sp)}),
                S({"op": "spatial", "fn": "interp", "size": [2 * s for s in sp], "c": C, "sp": [2 * s for s in sp]}),
                S({"op": "spatial", "fn": "avg_pool", "k": 1, "c": C, "sp": list(sp)}),
                S({"op": "spatial", "fn": "pad", "pad": [1, 1], "c": C, "sp": sp[:-1] + [sp[-1] + 2]}),
                S({"op": "grid_sample", "sp": list(sp)}),
                S({"op": "sample_grid", "gid": 50, "n": 1}), S({"op": "sample_grid", "gid": 50, "n": N}),
                S({"op": "reshape", "fn": "reshape", "shape": [N, C] + sp}),
            ]
            for s in ops:
                case(kind, N, C if kind == "B" else len(sp), sp, [s])
    # FlowFields(batch): one grid per item, those of the batch, in order; FlowFields(flows) keeps the axes of the vectors
    for N, sp in ((3, [3, 4]), (2, [3, 3]), (4, [2, 2, 3]), (1, [3, 4])):
        case("B", N, len(sp), sp, [S({"op": "as_flows"})])
        for ax in ("WORLD", "CUBE", "GRID", "CUBE_CORNERS"):
            case("F", N, len(sp), sp, [S({"op": "as_flows"})], axes=ax)
    # narrow method with a negative start (torch.Tensor.narrow accepts it), along the batch and along a spatial dimension
    for kind in ("B", "F"):
        for N, C, sp in ((3, 2, [3, 4]), (4, 3, [2, 2, 3])):
            for start, ln in ((-1, 1), (-N, N), (-2, 2), (-2, 1), (-N, 1)):
                case(kind, N, C, sp, [S({"op": "narrow_method", "dim": 0, "start": start, "len": ln})])
            case(kind, N, C, sp, [S({"op": "narrow_method", "dim": -1, "start": -2, "len": 2})])
            case(kind, N, C, sp, [S({"op": "narrow_method", "dim": 2, "start": -2, "len": 1})])
    for kind in ("I", "FI"):
        case(kind, 1, 2, [3, 4], [S({"op": "narrow_method", "dim": -1, "start": -2, "len": 2})])
        case(kind, 1, 2, [3, 4], [S({"op": "narrow_method", "dim": 1, "start": -1, "len": 1})])
    # data that requires grad (the typed value is a non-leaf alias attached to the autograd graph of the data)
    for kind in ("B", "F"):
        for s1 in [S({"op": "copy", "fn": "copy"}), S({"op": "copy", "fn": "deepcopy"}), S({"op": "copy", "fn": "pickle"}),
                   S({"op": "unary", "fn": "clone"}), S({"op": "unary", "fn": "detach"}), S({"op": "unary", "fn": "mul2"}),
                   S({"op": "getitem", "tuple": False, "ix": [{"t": "slice", "a": 1, "b": 3, "c": None}]}),
                   S({"op": "getitem", "tuple": False, "ix": [{"t": "int", "v": 1}]}),
                   S({"op": "iter_build", "how": "from_images", "sel": [2, 0]}), S({"op": "iter_pick", "k": 1}),
                   S({"op": "cat", "d": {"k": "none"}}, ("cur", 1)), S({"op": "append"}, ("cur", 0)),
                   S({"op": "split", "size": 1, "d": {"k": "none"}, "fn": "func"}),
                   S({"op": "narrow_method", "dim": 0, "start": -2, "len": 2}), S({"op": "as_flows"}),
                   S({"op": "binary", "fn": "add"}, ("cur", 1))]:
            case(kind, 3, 2, [3, 4], [s1])
            out[-1]["cur"]["rg"] = True
            for d in out[-1]["inputs"]:
                d["rg"] = d["kind"] != "P"
            case(kind, 3, 2, [3, 4], [s1, S({"op": "copy", "fn": "deepcopy"})])
            out[-1]["cur"]["rg"] = True
            if s1["op"]["op"] in ("iter_pick",) or (s1["op"]["op"] == "getitem" and s1["op"]["ix"][0]["t"] == "int"):
                out[-1]["steps"][1]["cur_shape"] = out[-1]["cur"]["shape"][1:]
    for kind in ("I", "FI"):
        for s1 in [S({"op": "copy", "fn": "copy"}), S({"op": "copy", "fn": "deepcopy"}), S({"op": "copy", "fn": "pickle"}),
                   S({"op": "unary", "fn": "clone"}), S({"op": "to_batch"})]:
            case(kind, 1, 2, [3, 4], [s1])
            out[-1]["cur"]["rg"] = True
    # copies of VIEWS: sub-batches, items, iteration items, split chunks, channel slices are views into the storage of the batch
    views = [S({"op": "getitem", "tuple": False, "ix": [{"t": "slice", "a": 1, "b": 3, "c": None}]}),
             S({"op": "getitem", "tuple": False, "ix": [{"t": "int", "v": 2}]}),
             S({"op": "iter_pick", "k": 2}),
             S({"op": "split", "size": 1, "d": {"k": "none"}, "fn": "func"}, pick=2),
             S({"op": "getitem", "tuple": True, "ix": [{"t": "slice", "a": None, "b": None, "c": None}, {"t": "slice", "a": 1, "b": 2, "c": None}]}),
             S({"op": "narrow_method", "dim": 0, "start": 1, "len": 2})]
    for kind in ("B", "F"):
        for v in views:
            for fn in ("pickle", "deepcopy", "copy"):
                case(kind, 4, 2, [3, 4], [v, S({"op": "copy", "fn": fn})])
                if v["op"]["op"] in ("getitem", "iter_pick") and (v["op"].get("ix", [{}])[0].get("t") == "int" or v["op"]["op"] == "iter_pick"):
                    out[-1]["steps"][1]["cur_shape"] = out[-1]["cur"]["shape"][1:]
    # joining flow fields that are expressed in different axes (anisotropic grids: the conversion matters)
    for ax, ox in (("WORLD", "CUBE_CORNERS"), ("GRID", "CUBE"), ("CUBE", "WORLD"), ("CUBE_CORNERS", "GRID")):
        for sp in ([3, 4], [2, 3, 4]):
            case("F", 3, 2, sp, [S({"op": "append"}, ("cur", 0))], axes=ax, other_axes=ox)
            case("F", 3, 2, sp, [S({"op": "append"}, (0, "cur"))], axes=ax, other_axes=ox)
    # three and more flow operands, one of them expressed in other axes (first / middle / last position): refused or converted,
    # never labelled with the axes of another operand
    for ax, ox in (("WORLD", "GRID"), ("CUBE", "CUBE_CORNERS"), ("GRID", "WORLD")):
        for argsel in (("cur", 0, "cur"), ("cur", "cur", 0), (0, "cur", "cur"), ("cur", 0, 1), ("cur", 1, 0, "cur")):
            case("F", 2, 2, [3, 4], [S({"op": "cat", "d": {"k": "none"}}, argsel)], axes=ax, other_axes=ox)
            case("F", 2, 2, [3, 4], [S({"op": "cat", "d": {"k": "pos", "v": 1}}, argsel)], axes=ax, other_axes=ox)
            case("F", 2, 2, [3, 4], [S({"op": "stack", "d": {"k": "none"}}, argsel)], axes=ax, other_axes=ox)
    # empty batches: slicing to N = 0, then operations on / with the empty batch
    empty = S({"op": "getitem", "tuple": False, "ix": [{"t": "slice", "a": 0, "b": 0, "c": None}]})
    for kind in ("B", "F"):
        for s2 in [S({"op": "append"}, ("cur", "cur")), S({"op": "append"}, (1, "cur")), S({"op": "cat", "d": {"k": "none"}}, ("cur", 1)),
                   S({"op": "unary", "fn": "abs"}), S({"op": "copy", "fn": "copy"}), S({"op": "getitem", "tuple": False, "ix": [{"t": "ell"}]}),
                   S({"op": "split", "size": 2, "d": {"k": "none"}, "fn": "func"}),
                   S({"op": "tensor_split_n", "n": 2, "d": {"k": "none"}, "fn": "func"}),
                   S({"op": "narrow_method", "dim": 0, "start": 0, "len": 0})]:
            case(kind, 3, 2, [3, 4], [empty, s2])
            out[-1]["steps"][1]["cur_shape"] = [0] + out[-1]["cur"]["shape"][1:]
    for kind in ("I", "FI"):
        for C, sp in ((2, [3, 4]), (3, [2, 2, 3])):
            for s in [S({"op": "unary", "fn": "neg"}), S({"op": "copy", "fn": "copy"}), S({"op": "copy", "fn": "deepcopy"}),
                      S({"op": "copy", "fn": "pickle"}), S({"op": "unary", "fn": "clone"}),
                      S({"op": "cat", "d": {"k": "none"}}, ("cur", 0)), S({"op": "stack", "d": {"k": "none"}}, ("cur", 0)),
                      S({"op": "binary", "fn": "add"}, ("cur", 0)), S({"op": "to_batch"}),
                      S({"op": "split", "size": 1, "d": {"k": "none"}, "fn": "func"}),
                      S({"op": "getitem", "tuple": False, "ix": [{"t": "slice", "a": 0, "b": 1, "c": None}]}),
                      S({"op": "flip", "dims": [0], "fn": "func"}), S({"op": "permute", "fn": "transpose", "d1": -1, "d2": -2}),
                      S({"op": "narrow_method", "dim": 0, "start": 0, "len": 1}), S({"op": "narrow_method", "dim": 1, "start": 0, "len": 1}),
                      S({"op": "narrow_method", "dim": -1, "start": 0, "len": 1}), S({"op": "narrow_method", "dim": -len(sp) - 1, "start": 0, "len": 1})]:
                case(kind, 1, C, sp, [s])
    return out


def search(ctx, broken, corr_failures):
    rng = random.Random(f"{ctx.seed}:search")
    directed = directed_cases(rng)
    dres = vlib.run_impl("c19_impl", {"cases": directed})
    n = ctx.n(500, 8000)
    cases, res = run_programs(ctx, n, "search")
    # programs on which the correspondence disagreed are evaluated too
    extra = [f["case"] for f in corr_failures if isinstance(f, dict) and "case" in f and "steps" in f.get("case", {})]
    eres = vlib.run_impl("c19_impl", {"cases": extra}) if extra else []
    found = {}
    count = 0
    for c, r in list(zip(directed, dres)) + list(zip(cases, res)) + list(zip(extra, eres)):
        if "harness_error" in r:
            found.setdefault("C19:harness:error", Violation(key="C19:harness:error", what=r["harness_error"][:200], replay={"case": strip(c)}))
            continue
        count += len(r["steps"])
        for v in r["violations"]:
            if v["key"] not in found:
                # minimal program: the single failing step applied to the state it was applied to (replayed as the whole prefix)
                cc = strip(c)
                cc["steps"] = cc["steps"][:v["step"] + 1]
                found[v["key"]] = Violation(key=v["key"], what=v["what"], replay={"case": cc, "key": v["key"]})
    ctx.notes.append(f"implementation-side property evaluation: {count} program steps ({len(directed)} directed programs, {n} random programs), "
                     f"{len(found)} distinct violation keys")
    return list(found.values())


def explains(broken_item, found):
    """a broken obligation is explained only by a concrete failure that is NOT an already recorded finding
    (the recorded defects of the unchanged tree are always found and must not mask a new break)"""
    known, _ = vlib.load_findings()
    fresh = [v for v in found if v.key not in known]
    return bool(fresh)


def replay(ctx, data):
    c = data.get("case")
    if not c:
        return None
    r = vlib.run_impl("c19_impl", {"cases": [c]})[0]
    for v in r.get("violations", []):
        if v["key"] == data.get("key"):
            return f"{v['key']}: {v['what']}"
    return None


MANIFEST_ENTRY = {
    "text": "Coq theorems (closed under the global context) about a provenance semantics of the torch operation family and a "
            "transcription of the grid bookkeeping of data/image.py, data/flow.py, data/tensor.py, data/collate.py, for EVERY batch "
            "size, grid assignment, shape and argument: (1) every single-operand operation reaching the generic branch of "
            "ImageBatch.__torch_function__ and FlowFields.__torch_function__ that does not reorder/mix the batch dimension yields a "
            "plain tensor or a batch with exactly one grid per entry, of the data's spatial shape, entry i carrying the grid (and axes) "
            "of the operand entry whose data it holds, never raising where the plain operation succeeds; (2) elementwise operations "
            "with two tensor operands (both classes, plain tensors, broadcasting; batch o image; image o batch is plain); (3) torch.cat along any dimension, torch.stack, "
            "split / split_with_sizes / tensor_split (sections and indices) along any dimension; cat of any number of FlowFields and every "
            "split form of FlowFields along the batch dimension (grids and axes); (4) __getitem__ for every form, "
            "narrow method (start counted from the front or, negative, from the end), __iter__, from_images / collate of any selection, append, "
            "the FlowFields(batch) constructor, copy / deepcopy / pickle; (5) the Image / FlowField "
            "dispatchers; (6) closure under programs of any length by induction (syntactic family and general form); (7) _refuted "
            "witnesses for the two design decisions kept by the maintainers (batch reordering / mixing with unchanged shape). Tie: "
            "translator unit BatchTables (function tables, dim resolution, typing conditions, fingerprints of all transcribed methods, "
            "proved equal to the pinned ones) + correspondence on adaptively generated programs of 1-3 operations (type, grid ids, axes, "
            "shape and measured per-entry provenance compared exactly inside Coq) + value oracles on the real data (copies of views, "
            "converted flow vectors, result shape vs the plain operation).",
    "note": "No theorem (correspondence + implementation-side evaluation only): cat / split of FlowFields along non-batch dimensions, operations "
            "with three or more operands mixing single images and batches, batch o flow field, ImageBatch.sample, the values of converted flow vectors. Trusted: torch's shape/index semantics as modelled "
            "in data_sem (validated per run by one-hot provenance probes), torch's override selection, Coq kernel.",
}
