"""Load deepali source files from /repo's working tree with ``torch`` bound to tools/symtorch.

This is the front half of the translator: deepali's own function bodies are executed on symbolic
tensors.  Nothing is imported from an installed deepali; the text under REPO_SRC is compiled on
every run, so the generated model follows the working tree.
"""
from __future__ import annotations

import builtins
import os
import warnings
import sys
import types
from typing import Dict

warnings.filterwarnings("ignore")
sys.path.insert(0, os.path.dirname(os.path.abspath(__file__)))
import symtorch  # noqa: E402

REPO_SRC = os.environ.get("DEEPALI_SRC", os.path.join(os.environ.get("DEEPALI_REPO", "/repo"), "src"))


class SymLoader:
    def __init__(self, src_root: str = REPO_SRC):
        self.root = src_root
        self.mods: Dict[str, types.ModuleType] = {}

    def _path(self, dotted: str):
        base = os.path.join(self.root, *dotted.split("."))
        if os.path.isdir(base):
            return os.path.join(base, "__init__.py"), True
        return base + ".py", False

    def load(self, dotted: str, run_init: bool = False) -> types.ModuleType:
        if dotted in self.mods:
            return self.mods[dotted]
        path, is_pkg = self._path(dotted)
        mod = types.ModuleType("sym." + dotted)
        mod.__file__ = path
        mod.__package__ = dotted if is_pkg else dotted.rpartition(".")[0]
        mod.__dict__["__builtins__"] = dict(vars(builtins), __import__=self._make_import(mod))
        self.mods[dotted] = mod
        if is_pkg and not run_init:
            # packages are namespaces only: their __init__ re-exports everything, which would drag
            # in modules far outside the translated vocabulary
            mod.__path__ = [os.path.dirname(path)]
            return mod
        with open(path) as f:
            src = f.read()
        code = compile(src, path, "exec")
        exec(code, mod.__dict__)
        return mod

    def _make_import(self, mod):
        loader = self

        def _import(name, globals=None, locals=None, fromlist=(), level=0):
            if level > 0:
                pkg = mod.__package__.split(".")
                if level > 1:
                    pkg = pkg[: -(level - 1)]
                dotted = ".".join(pkg + ([name] if name else []))
                return loader._import_deepali(dotted, fromlist)
            if name == "deepali" or name.startswith("deepali."):
                return loader._import_deepali(name, fromlist, top_if_no_fromlist=True)
            if name == "torch" or name.startswith("torch."):
                if not fromlist:
                    return symtorch
                obj = symtorch
                for part in name.split(".")[1:]:
                    obj = getattr(obj, part)
                return obj
            return builtins.__import__(name, globals, locals, fromlist, level)

        return _import

    def _import_deepali(self, dotted, fromlist, top_if_no_fromlist=False):
        m = self.load(dotted)
        if fromlist and hasattr(m, "__path__"):
            for n in fromlist:
                if not hasattr(m, n):
                    try:
                        setattr(m, n, self.load(dotted + "." + n))
                    except FileNotFoundError:
                        pass
        if not fromlist and top_if_no_fromlist:
            return self.load(dotted.split(".")[0])
        return m
