(* C19 -- elementwise operations mixing an image batch and a single image.  batch o image: ImageBatch.__torch_function__
   converts the image with Image.batch() and the result is a batch with the grids of the batch; image o batch:
   Image.__torch_function__ runs first and returns a plain tensor. *)
From Coq Require Import List ZArith Bool Arith Lia.
From DV Require Import Model.Enums Model.Batch Model.BatchSpec Proofs.C19Base Proofs.C19Generic Proofs.C19Flow Proofs.C19Binary.
Import ListNotations.
Local Arguments ndim : simpl never.

Section Mixed.
Variable gshape : gid -> shape.
Variable gaxes : gid -> axes.

(* soundness with respect to the converted operands implies soundness with respect to the original ones *)
Lemma out_sound_to_batch a b o :
  out_sound gshape [a; to_batch b] o -> out_sound gshape [a; b] o.
Proof.
  assert (Hgrid : forall s g, entry_grid [a; to_batch b] s = Some g -> entry_grid [a; b] s = Some g).
  { intros [j e] g. unfold entry_grid. cbn [fst snd]. destruct j as [|[|j]]; cbn [nth_error]; auto.
    unfold to_batch. destruct (t_kind b) eqn:Ek; cbn [t_kind]; rewrite ?Ek; auto.
    destruct e as [|e]; cbn; [auto|destruct e; discriminate]. }
  assert (Hax : forall s ax, arg_axes [a; to_batch b] s = Some ax -> arg_axes [a; b] s = Some ax).
  { intros [j e] ax. unfold arg_axes. cbn [fst]. destruct j as [|[|j]]; cbn [nth_error]; auto.
    unfold to_batch. destruct (t_kind b) eqn:Ek; cbn [t_kind kind_axes]; rewrite ?Ek; auto. }
  assert (Hcoh : forall l, coherent [a; to_batch b] l -> coherent [a; b] l).
  { intros l Hc x y Hx Hy Hxy Hb. apply (Hc x y Hx Hy Hxy). unfold arg_is_batch in *.
    destruct (fst x) as [|[|j]]; cbn [nth_error] in *; auto.
    unfold to_batch. destruct (t_kind b) eqn:Ek; cbn [t_kind is_batch] in *; rewrite ?Ek in *; auto. }
  unfold out_sound. destruct (v_kind o) as [|fl gs|fl g]; auto.
  - intros (Hwf & Hent). split; [exact Hwf|]. intros i Hi. destruct (Hent i Hi) as (Hc & (s & Hs & Hg) & Ha).
    split; [apply Hcoh; exact Hc|]. split; [exists s; split; [exact Hs|apply Hgrid; exact Hg]|].
    intros ax Hfl. destruct (Ha ax Hfl) as (s' & Hs' & Hax'). exists s'. split; [exact Hs'|apply Hax; exact Hax'].
  - intros (Hwf & Hex & Ha). split; [exact Hwf|]. split.
    + intros Hp. destruct (Hex Hp) as (i & s & Hs & Hg). exists i, s. split; [exact Hs|apply Hgrid; exact Hg].
    + intros ax Hfl Hp. destruct (Ha ax Hfl Hp) as (i & s & Hs & Hax'). exists i, s. split; [exact Hs|apply Hax; exact Hax'].
Qed.

Theorem binary_batch_image_sound sa gs sb g :
  wf_val gshape (mkT sa (TBatch None gs)) -> wf_val gshape (mkT sb (TSingle None g)) ->
  ndim sa = S (ndim sb) ->
  res_sound gshape [mkT sa (TBatch None gs); mkT sb (TSingle None g)]
    (run_op gshape gaxes OBinary [mkT sa (TBatch None gs); mkT sb (TSingle None g)]).
Proof.
  intros Hwa Hwb Hnd. set (a := mkT sa (TBatch None gs)). set (b := mkT sb (TSingle None g)).
  assert (Hrun : run_op gshape gaxes OBinary [a; b] = run_op gshape gaxes OBinary [a; to_batch b]).
  { unfold run_op, a, b. reflexivity. }
  rewrite Hrun.
  assert (Hs : res_sound gshape [a; to_batch b] (run_op gshape gaxes OBinary [a; to_batch b])).
  { apply binary_sound.
    - reflexivity.
    - reflexivity.
    - exact Hwa.
    - unfold wf_val in Hwb |- *. cbn [to_batch b t_kind t_shape] in *. destruct Hwb as (H3 & Hg).
      repeat split; [unfold ndim in *; cbn [length]; lia|]. constructor; [exact Hg|constructor].
    - intros _ _. unfold a, b, to_batch. cbn [t_kind t_shape]. unfold ndim in *. cbn [length]. exact Hnd. }
  destruct (run_op gshape gaxes OBinary [a; to_batch b]) as [e|o|os]; cbn [res_sound] in *; auto.
  - now apply out_sound_to_batch.
  - eapply Forall_impl; [|exact Hs]. intros o. apply out_sound_to_batch.
Qed.

(* image o batch: the Image dispatcher runs first and does not type a result computed with a batch *)
Theorem binary_image_batch_plain sa fl g sb flb gs :
  match run_op gshape gaxes OBinary [mkT sa (TSingle fl g); mkT sb (TBatch flb gs)] with
  | OOne o => v_kind o = TPlain
  | OErr _ => True
  | OTuple _ => False
  end.
Proof.
  unfold run_op. destruct fl as [ax|], flb as [bx|]; cbn [map t_kind choose_disp fold_left disp_of existsb insert_disp hd disp_eqb is_sub];
    unfold dispatch_single; cbn [class_of map t_kind t_shape data_sem nth_shape nth];
    destruct (bcast sa sb); try exact I;
    repeat match goal with |- context [match tf_axes ?k with _ => _ end] => destruct (tf_axes k) end; try exact I;
    cbn [existsb is_batch orb]; unfold one_kind;
    try (destruct o as [?|]); cbn; try reflexivity;
    repeat match goal with |- context [match ?x with _ => _ end] => destruct x end; reflexivity.
Qed.
End Mixed.
