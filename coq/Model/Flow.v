(* Hand-written executable model of the displacement-field algebra of core/flow.py (definitions only):
     compose_flows(u, v)      = u + v sampled at (own normalised coordinates + u)          -> compose{1,2,3}g
     expv(flow, scale, steps) = scale by scale / 2^steps, then `steps` times d <- d + d o (id + d) -> expv{1,2,3}
   built on the sampler model (Model/Sampler.v: F.grid_sample = un-normalisation + multilinear interpolation).
   The loop structure / scale / flags of expv and compose_flows are regenerated from the source (Gen/FlowAlg.v)
   and proved equal to these definitions in Proofs/C11Gen.v.
   Vector fields are lists of channels (channel c = displacement along spatial axis c; 0 = x), every channel an
   image in torch order [y][x] / [z][y][x], exactly as the tensor (D, ..., X) of one batch item. *)
From Coq Require Import ZArith List Bool.
From DV Require Import Base.Field Base.LinAlg Model.Sampler.
Import ListNotations.
Local Open Scope fld_scope.

Section Flow.
Context {K : fld}.
Variable floorK : K -> Z.
Notation vec := (list K).
Notation mat := (list (list K)).

(* Grid.coords(align_corners = ac): normalised coordinate of (continuous) sample index p on an axis with n samples *)
Definition ncoordK (ac : bool) (n : Z) (p : K) : K :=
  if (n =? 1)%Z then 0
  else if ac then (1 + 1) * p / (of_Z n - 1) - 1 else ((1 + 1) * p + 1) / of_Z n - 1.
Definition ncoord (ac : bool) (n i : Z) : K := ncoordK ac n (of_Z i).

(* element access / tabulation of images *)
Definition get1 (l : list K) (x : Z) : K := nth (Z.to_nat x) l 0.
Definition get2 (m : list (list K)) (x y : Z) : K := get1 (nth (Z.to_nat y) m []) x.
Definition get3 (v : list (list (list K))) (x y z : Z) : K := get2 (nth (Z.to_nat z) v []) x y.
Definition tab1 (nx : Z) (f : Z -> K) : list K := map f (zseq nx).
Definition tab2 (nx ny : Z) (f : Z -> Z -> K) : list (list K) := map (fun y => tab1 nx (fun x => f x y)) (zseq ny).
Definition tab3 (nx ny nz : Z) (f : Z -> Z -> Z -> K) : list (list (list K)) :=
  map (fun z => tab2 nx ny (fun x y => f x y z)) (zseq nz).

(* compose_flows(u, v, align_corners): gac = flag handed to Grid(...).coords, sac = flag handed to F.grid_sample,
   pad = padding mode of the sampling (the code uses the same flag twice and border padding; kept separate so that the
   generated skeleton decides them) *)
Definition compose1g (gac sac : bool) (pad : padmode) (u v : list (list K)) : list (list K) :=
  let u0 := nth 0 u [] in
  let nx := zlen u0 in
  map (fun c => tab1 nx (fun x =>
         get1 (nth c u []) x + grid_sample1 floorK pad sac (nth c v []) (ncoord gac nx x + get1 u0 x))) (seq 0 1).
Definition compose2g (gac sac : bool) (pad : padmode) (u v : list (list (list K))) : list (list (list K)) :=
  let u0 := nth 0 u [] in let u1 := nth 1 u [] in
  let nx := zlen (hd [] u0) in let ny := zlen u0 in
  map (fun c => tab2 nx ny (fun x y =>
         get2 (nth c u []) x y +
         grid_sample2 floorK pad sac (nth c v []) (ncoord gac nx x + get2 u0 x y) (ncoord gac ny y + get2 u1 x y))) (seq 0 2).
Definition compose3g (gac sac : bool) (pad : padmode) (u v : list (list (list (list K)))) : list (list (list (list K))) :=
  let u0 := nth 0 u [] in let u1 := nth 1 u [] in let u2 := nth 2 u [] in
  let nx := zlen (hd [] (hd [] u0)) in let ny := zlen (hd [] u0) in let nz := zlen u0 in
  map (fun c => tab3 nx ny nz (fun x y z =>
         get3 (nth c u []) x y z +
         grid_sample3 floorK pad sac (nth c v []) (ncoord gac nx x + get3 u0 x y z) (ncoord gac ny y + get3 u1 x y z)
                      (ncoord gac nz z + get3 u2 x y z))) (seq 0 3).
Definition compose1 (ac : bool) := compose1g ac ac PBorder.
Definition compose2 (ac : bool) := compose2g ac ac PBorder.
Definition compose3 (ac : bool) := compose3g ac ac PBorder.

(* flow * s *)
Definition fscale1 (s : K) (u : list (list K)) : list (list K) := map (map (fmul s)) u.
Definition fscale2 (s : K) (u : list (list (list K))) : list (list (list K)) := map (map (map (fmul s))) u.
Definition fscale3 (s : K) (u : list (list (list (list K)))) : list (list (list (list K))) := map (map (map (map (fmul s)))) u.
Definition fadd2 (u v : list (list (list K))) : list (list (list K)) :=
  map (fun p => map (fun q => vadd (fst q) (snd q)) (combine (fst p) (snd p))) (combine u v).

(* expv: factor applied before the loop, and the loop *)
Definition pow2 (k : nat) : K := of_Z (2 ^ Z.of_nat k).
Definition expv_pre (k : nat) (s : K) : K := match k with O => s | _ => s / pow2 k end.
Definition expv_scale (scale : K) (inverse : bool) : K := if inverse then - scale else scale.
Fixpoint sq_iter {F : Type} (sq : F -> F) (k : nat) (d : F) : F :=
  match k with O => d | S k' => sq_iter sq k' (sq d) end.
Definition expv1 (ac : bool) (scale : K) (inverse : bool) (k : nat) (flow : list (list K)) :=
  sq_iter (fun d => compose1 ac d d) k (fscale1 (expv_pre k (expv_scale scale inverse)) flow).
Definition expv2 (ac : bool) (scale : K) (inverse : bool) (k : nat) (flow : list (list (list K))) :=
  sq_iter (fun d => compose2 ac d d) k (fscale2 (expv_pre k (expv_scale scale inverse)) flow).
Definition expv3 (ac : bool) (scale : K) (inverse : bool) (k : nat) (flow : list (list (list (list K)))) :=
  sq_iter (fun d => compose3 ac d d) k (fscale3 (expv_pre k (expv_scale scale inverse)) flow).

(* ---- specification side: affine maps x -> A x + t as homogeneous D x (D+1) matrices, their displacement and
   velocity fields sampled on the lattice, repeated squaring and powers ---- *)
Definition affdisp (D : nat) (H : mat) (x : vec) : vec := vsub (happly D H x) x.
Definition aff_field1 (ac : bool) (nx : Z) (H : mat) : list (list K) :=
  map (fun c => tab1 nx (fun x => nth c (affdisp 1 H [ncoord ac nx x]) 0)) (seq 0 1).
Definition aff_field2 (ac : bool) (nx ny : Z) (H : mat) : list (list (list K)) :=
  map (fun c => tab2 nx ny (fun x y => nth c (affdisp 2 H [ncoord ac nx x; ncoord ac ny y]) 0)) (seq 0 2).
Definition aff_field3 (ac : bool) (nx ny nz : Z) (H : mat) : list (list (list (list K))) :=
  map (fun c => tab3 nx ny nz (fun x y z =>
         nth c (affdisp 3 H [ncoord ac nx x; ncoord ac ny y; ncoord ac nz z]) 0)) (seq 0 3).
(* velocity field v(x) = G [x; 1] of a generator G = [H | h] *)
Definition vel_field1 (ac : bool) (nx : Z) (G : mat) : list (list K) :=
  map (fun c => tab1 nx (fun x => nth c (happly 1 G [ncoord ac nx x]) 0)) (seq 0 1).
Definition vel_field2 (ac : bool) (nx ny : Z) (G : mat) : list (list (list K)) :=
  map (fun c => tab2 nx ny (fun x y => nth c (happly 2 G [ncoord ac nx x; ncoord ac ny y]) 0)) (seq 0 2).
Definition vel_field3 (ac : bool) (nx ny nz : Z) (G : mat) : list (list (list (list K))) :=
  map (fun c => tab3 nx ny nz (fun x y z =>
         nth c (happly 3 G [ncoord ac nx x; ncoord ac ny y; ncoord ac nz z]) 0)) (seq 0 3).
(* the affine map  I + c G *)
Definition hone_plus (D : nat) (c : K) (G : mat) : mat := madd (hid D) (mscale c G).
(* A, A^2, A^4, ...: k squarings; and the m-th power by repeated multiplication *)
Definition hsq_iter (D : nat) (k : nat) (A : mat) : mat := sq_iter (fun X => hcomp D X X) k A.
Fixpoint hpow (D : nat) (A : mat) (m : nat) : mat :=
  match m with O => hid D | S m' => hcomp D A (hpow D A m') end.

(* "the sample position stays inside the sample hull", in terms of the cell the sampler selects: cell i in
   [0, n-2], or exactly the last sample (i = n-1 with fraction 0) *)
Definition good_cell (n : Z) (p : K) : Prop :=
  let '(i, t) := cell floorK p in (0 <= i)%Z /\ ((i <= n - 2)%Z \/ (i = n - 1)%Z /\ t = 0).
Definition cells_ok1 (ac : bool) (nx : Z) (H : mat) : Prop :=
  forall x, (0 <= x < nx)%Z ->
  good_cell nx (unnorm ac nx (nth 0 (happly 1 H [ncoord ac nx x]) 0)).
Definition cells_ok2 (ac : bool) (nx ny : Z) (H : mat) : Prop :=
  forall x y, (0 <= x < nx)%Z -> (0 <= y < ny)%Z ->
  let p := happly 2 H [ncoord ac nx x; ncoord ac ny y] in
  good_cell nx (unnorm ac nx (nth 0 p 0)) /\ good_cell ny (unnorm ac ny (nth 1 p 0)).
Definition cells_ok3 (ac : bool) (nx ny nz : Z) (H : mat) : Prop :=
  forall x y z, (0 <= x < nx)%Z -> (0 <= y < ny)%Z -> (0 <= z < nz)%Z ->
  let p := happly 3 H [ncoord ac nx x; ncoord ac ny y; ncoord ac nz z] in
  good_cell nx (unnorm ac nx (nth 0 p 0)) /\ good_cell ny (unnorm ac ny (nth 1 p 0)) /\
  good_cell nz (unnorm ac nz (nth 2 p 0)).

(* explicit homogeneous matrices *)
Definition H1 (a t : K) : mat := [[a; t]].
Definition H2 (a00 a01 t0 a10 a11 t1 : K) : mat := [[a00; a01; t0]; [a10; a11; t1]].
Definition H3 (a00 a01 a02 t0 a10 a11 a12 t1 a20 a21 a22 t2 : K) : mat :=
  [[a00; a01; a02; t0]; [a10; a11; a12; t1]; [a20; a21; a22; t2]].
End Flow.
