(* Operating on cube vectors of either align_corners convention is the SAME index-space operation: compose_flows / expv /
   warp_image results do not depend on the convention (nor, for warp_image, on the representation) the vectors are given in.
   D = 2, every lattice size >= 2, abstract field. *)
From Coq Require Import ZArith List Field Ring Lia Bool.
From DV Require Import Base.Field Base.FieldFacts Base.LinAlg Base.Tactics Model.Enums Model.Homog Model.Grid Model.Sampler
  Model.Flow Model.FlowRepr Gen.GridT Proofs.SamplerFacts Proofs.C11Interp Proofs.C11Compose Proofs.C11Expv Proofs.C13Compose
  Proofs.C10Axes.
Import ListNotations.
Local Open Scope fld_scope.

Section Conv.
Variable K : fld.
Hypothesis Kf : is_field K.
Hypothesis Kc : char0 K.
Add Field KFV : Kf.
Variable floorK : K -> Z.

(* sampling is homogeneous in the image *)
Lemma getp_scale pad (s : K) l i : getp pad 0 (map (fmul s) l) i = s * getp pad 0 l i.
Proof.
  unfold getp. destruct pad.
  - unfold zlen. rewrite map_length. destruct (inb i _); [|ring].
    replace 0 with (s * 0) at 1 by ring. apply map_nth.
  - unfold zlen. rewrite map_length. replace 0 with (s * 0) at 1 by ring. apply map_nth.
Qed.
Lemma getp_scale_row pad (s : K) (img : list (list K)) i :
  getp pad [] (map (map (fmul s)) img) i = map (fmul s) (getp pad [] img i).
Proof.
  unfold getp. destruct pad; unfold zlen; rewrite map_length.
  - destruct (inb i _); [|reflexivity]. change (@nil K) with (map (fmul s) []) at 1. apply map_nth.
  - change (@nil K) with (map (fmul s) []) at 1. apply map_nth.
Qed.
Lemma sample2_scale pad (s : K) img p q :
  sample2 floorK pad (map (map (fmul s)) img) p q = s * sample2 floorK pad img p q.
Proof.
  unfold sample2. destruct (cell floorK p) as [ix tx]. destruct (cell floorK q) as [iy ty].
  unfold interp2, interp1. rewrite !getp_scale_row, !getp_scale. unfold lerp. ring.
Qed.

Lemma zlen_scale2 (s : K) (img : list (list K)) : zlen (map (map (fmul s)) img) = zlen img.
Proof. unfold zlen. now rewrite map_length. Qed.
Lemma zlen_hd_scale2 (s : K) (img : list (list K)) : zlen (hd [] (map (map (fmul s)) img)) = zlen (hd [] img).
Proof. destruct img as [|r img]; [reflexivity|]. cbn [map hd]. unfold zlen. now rewrite map_length. Qed.
Lemma gs2_scale pad ac (s : K) img p q :
  grid_sample2 floorK pad ac (map (map (fmul s)) img) p q = s * grid_sample2 floorK pad ac img p q.
Proof. unfold grid_sample2. rewrite zlen_scale2, zlen_hd_scale2. apply sample2_scale. Qed.

Lemma unnorm_shift ac n x (f : K) : (2 <= n)%Z -> unnorm ac n (ncoord ac n x + nscale ac n * f) = of_Z x + f.
Proof.
  intro H. unfold ncoord, ncoordK, unnorm, nscale. replace (n =? 1)%Z with false by (symmetry; apply Z.eqb_neq; lia).
  pose proof (nm1_nz K Kf Kc n H). pose proof (n_nz K Kf Kc n H). pose proof (two_nz K Kf Kc).
  destruct ac; field; auto.
Qed.

Lemma tab2_scale (s : K) nx ny (g : Z -> Z -> K) : tab2 nx ny (fun x y => s * g x y) = map (map (fmul s)) (tab2 nx ny g).
Proof. symmetry. apply (fscale2_tab K). Qed.

(* one composition step in index space *)
Definition idx_comp (pad : padmode) (nx ny : Z) (f g : (Z -> Z -> K) * (Z -> Z -> K)) : (Z -> Z -> K) * (Z -> Z -> K) :=
  (fun x y => fst f x y + sample2 floorK pad (tab2 nx ny (fst g)) (of_Z x + fst f x y) (of_Z y + snd f x y),
   fun x y => snd f x y + sample2 floorK pad (tab2 nx ny (snd g)) (of_Z x + fst f x y) (of_Z y + snd f x y)).
Definition cube2 (ac : bool) (nx ny : Z) (f : (Z -> Z -> K) * (Z -> Z -> K)) := to_cube2 ac nx ny (fst f) (snd f).

Theorem compose2_is_index_space ac pad nx ny f g : (2 <= nx)%Z -> (2 <= ny)%Z ->
  compose2g floorK ac ac pad (cube2 ac nx ny f) (cube2 ac nx ny g) = cube2 ac nx ny (idx_comp pad nx ny f g).
Proof.
  intros Hx Hy. destruct f as [f0 f1], g as [g0 g1]. unfold cube2, to_cube2, compose2g, idx_comp. cbn [fst snd seq map nth].
  rewrite zlen_tab2, zlen_hd_tab2 by lia.
  f_equal; [|f_equal]; apply tab2_ext; intros x y Hxr Hyr; rewrite !get2_tab2 by lia;
    rewrite tab2_scale, gs2_scale; unfold grid_sample2; rewrite zlen_tab2, zlen_hd_tab2 by lia;
    rewrite !unnorm_shift by lia; ring.
Qed.

(* the loop and expv *)
Fixpoint idx_iter (pad : padmode) (nx ny : Z) (k : nat) (f : (Z -> Z -> K) * (Z -> Z -> K)) :=
  match k with O => f | S k' => idx_iter pad nx ny k' (idx_comp pad nx ny f f) end.
Lemma sq_iter_is_index_space ac pad nx ny k : (2 <= nx)%Z -> (2 <= ny)%Z -> forall f,
  sq_iter (fun d => compose2g floorK ac ac pad d d) k (cube2 ac nx ny f) = cube2 ac nx ny (idx_iter pad nx ny k f).
Proof.
  intros Hx Hy. induction k as [|k IH]; intro f; [reflexivity|].
  cbn [sq_iter idx_iter]. rewrite compose2_is_index_space by lia. apply IH.
Qed.
Lemma fscale2_cube2 ac nx ny (c : K) f :
  fscale2 c (cube2 ac nx ny f) = cube2 ac nx ny (fun x y => c * fst f x y, fun x y => c * snd f x y).
Proof.
  destruct f as [f0 f1]. unfold fscale2, cube2, to_cube2. cbn [fst snd map]. rewrite !(fscale2_tab K).
  f_equal; [|f_equal]; apply tab2_ext; intros; ring.
Qed.
Definition idx_expv (nx ny : Z) (c : K) (k : nat) (f : (Z -> Z -> K) * (Z -> Z -> K)) :=
  idx_iter PBorder nx ny k (fun x y => c * fst f x y, fun x y => c * snd f x y).
Theorem expv2_is_index_space ac nx ny scale inverse k f : (2 <= nx)%Z -> (2 <= ny)%Z ->
  expv2 floorK ac scale inverse k (cube2 ac nx ny f) = cube2 ac nx ny (idx_expv nx ny (expv_pre k (expv_scale scale inverse)) k f).
Proof.
  intros Hx Hy. unfold expv2, idx_expv. rewrite fscale2_cube2. unfold compose2. now apply sq_iter_is_index_space.
Qed.
End Conv.
