(* compose_svfs: the generated coefficient / nesting table is the documented BCH table, and for commuting fields
   ([v, u] = 0) every truncation order reduces to v + u: all nested brackets vanish by bilinearity. *)
From Coq Require Import ZArith List Field Ring Lia Bool.
From DV Require Import Base.Field Base.FieldFacts Base.LinAlg Base.Tactics Model.Sampler Model.BCH Gen.FlowBCH.
Import ListNotations.
Local Open Scope fld_scope.

Lemma gen_bch_is_table (terms : nat) : (terms <= 5)%nat -> gen_bch_terms terms = bch_table terms.
Proof. intro H. do 6 (destruct terms as [|terms]; [reflexivity|]). lia. Qed.

Section Commuting.
Variable K : fld.
Hypothesis Kf : is_field K.
Add Field KFB : Kf.
(* any vector space F with a bilinear bracket: only these consequences of the axioms are used *)
Variable F : Type.
Variable zero : F.
Variable add : F -> F -> F.
Variable smul : K -> F -> F.
Variable lb : F -> F -> F.
Hypothesis add_0_l : forall x, add zero x = x.
Hypothesis add_0_r : forall x, add x zero = x.
Hypothesis smul_1 : forall x, smul 1 x = x.
Hypothesis smul_0 : forall c, smul c zero = zero.
Hypothesis lb_0_r : forall a, lb a zero = zero.        (* from linearity in the second argument *)

Lemma of_Q_1_1 : @of_Q K 1 1 = 1.
Proof. unfold of_Q. cbn [of_Z of_pos]. field. destruct Kf as [_ H1 _ _]. exact H1. Qed.

Theorem bch_commuting (terms : nat) (u v : F) : (terms <= 5)%nat -> lb v u = zero ->
  bch_eval F zero add smul lb u v (gen_bch_terms terms) = add v u.
Proof.
  intros H Hvu. rewrite gen_bch_is_table by exact H.
  do 6 (destruct terms as [|terms];
        [unfold bch_eval, bch_lin, bch_table, VU; cbn [Nat.leb Nat.eqb app fold_left fst snd beval];
         rewrite ?Hvu, ?lb_0_r, ?smul_0, ?add_0_r, ?of_Q_1_1, ?smul_1, ?add_0_l; reflexivity|]).
  lia.
Qed.
End Commuting.
