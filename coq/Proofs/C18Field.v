(* C18 -- the parts of the convention layer that do arithmetic: the NIfTI reader's LPS/RAS sign flips and
   direction = affine / spacing, and the conversion of flow vectors to world axes on write and back. *)
From Coq Require Import String ZArith List Bool Arith Lia Field Ring.
From DV Require Import Base.Field Base.FieldFacts Base.LinAlg Base.Tactics Model.Enums Model.CodecTypes Gen.Codec Model.Codec
  Proofs.C18Layout Proofs.C18Codec.
Import ListNotations.
Local Open Scope fld_scope.

Section Proofs.
Variable K : fld.
Hypothesis Kf : is_field K.
Add Field KF : Kf.
Variable A : Type.
Notation image := (image K A).

Lemma K1nz18 : (1 : K) <> 0.
Proof. destruct Kf as [_ H1 _ _]. exact H1. Qed.
Hint Resolve K1nz18 : core.
Ltac side := repeat split; auto.

Lemma nifti_type_same t : In t torch_types -> @nifti_r_type t = Some t.
Proof. intro H. in_types H; vm_compute; reflexivity. Qed.

(* the NIfTI reader inverts the LPS -> RAS affine of any file whose layout it accepts: 2-D and 3-D, any channel count,
   any size, non-zero spacing *)
Lemma read_nifti_ras (L : nlayout) (D : nat) (x : image) :
  D = 2%nat \/ D = 3%nat -> wf_image D x -> In (i_type x) torch_types ->
  Forall (fun s => s <> 0) (i_spacing x) ->
  nifti_r_status L D (i_chan x) = ROk ->
  read_nifti (mkNfile L D (i_size x) (i_chan x) (i_spacing x ++ repeat 1 (3 - D))
                      (lps_to_ras_affine D (i_origin x) (i_spacing x) (i_dir x)) (i_type x) (i_data x)) = Some x.
Proof.
  intros [-> | ->] H Ht Hs0 Hst.
  - explode2 x H. cbn [i_type i_chan i_size i_origin i_spacing i_dir i_data] in *.
    inv_forall Hs0.
    unfold read_nifti. cbn [n_layout n_ndim n_sizes n_chan n_pixdim n_affine n_type n_buf].
    rewrite Hst. cbn [rstatus_ok negb].
    rewrite (nifti_type_same _ Ht). cbn.
    do 2 f_equal; list_eq; try reflexivity; field; side.
  - explode3 x H. cbn [i_type i_chan i_size i_origin i_spacing i_dir i_data] in *.
    inv_forall Hs0.
    unfold read_nifti. cbn [n_layout n_ndim n_sizes n_chan n_pixdim n_affine n_type n_buf].
    rewrite Hst. cbn [rstatus_ok negb].
    rewrite (nifti_type_same _ Ht). cbn.
    do 2 f_equal; list_eq; try reflexivity; field; side.
Qed.

(* files in ITK's layouts (scalar; vector with dim[5] = C) are read back exactly whenever the reader accepts the layout *)
Lemma nifti_read_itk_cond (D : nat) (x : image) :
  D = 2%nat \/ D = 3%nat -> wf_image D x -> In (i_type x) torch_types ->
  Forall (fun s => s <> 0) (i_spacing x) ->
  nifti_r_status (if Nat.eqb (i_chan x) 1 then LScalar else LItkVector) D (i_chan x) = ROk ->
  read_nifti (itk_write_nii D x) = Some x.
Proof. intros HD H Ht Hs Hst. unfold itk_write_nii. apply read_nifti_ras; assumption. Qed.

(* scalar NIfTI files as ITK writes them are read back exactly (2-D and 3-D, any size, non-zero spacing) *)
Lemma nifti_read_itk_scalar (D : nat) (x : image) :
  D = 2%nat \/ D = 3%nat -> wf_image D x -> i_chan x = 1%nat -> In (i_type x) torch_types ->
  Forall (fun s => s <> 0) (i_spacing x) ->
  read_nifti (itk_write_nii D x) = Some x.
Proof.
  intros HD H HC1 Ht Hs0. apply nifti_read_itk_cond; auto. rewrite HC1. cbn [Nat.eqb].
  destruct HD as [-> | ->]; vm_compute; reflexivity.
Qed.

(* native round trip, conditional form: whenever the writer produces a file (status, modelled layout, the RAS affine of
   the grid) and the reader accepts that layout, the image comes back exactly *)
Lemma nifti_roundtrip_cond (L : nlayout) (D : nat) (x : image) :
  D = 2%nat \/ D = 3%nat -> wf_image D x -> In (i_type x) torch_types ->
  Forall (fun s => s <> 0) (i_spacing x) ->
  nifti_w_status D (i_chan x) = ROk -> nifti_w_layout D (i_chan x) = Some L ->
  sel D (gen_nifti_w_affine_2 (i_origin x) (i_spacing x) (i_dir x)) (gen_nifti_w_affine_3 (i_origin x) (i_spacing x) (i_dir x)) None
    = Some (lps_to_ras_affine D (i_origin x) (i_spacing x) (i_dir x)) ->
  nifti_r_status L D (i_chan x) = ROk ->
  exists f, write_nifti D x = Some f /\ read_nifti f = Some x.
Proof.
  intros HD H Ht Hs Hw Hl Ha Hr. unfold write_nifti. rewrite Hw. cbn [rstatus_ok negb]. rewrite Ha, Hl.
  eexists; split; [reflexivity | apply read_nifti_ras; assumption].
Qed.

(* FULL (after the repair of nifti.py): ITK-written files of every layout are read back; the native round trip is exact *)
Lemma nifti_r_status_ok L D C : D = 2%nat \/ D = 3%nat -> (L = LScalar /\ C = 1%nat) \/ (L = LItkVector /\ (2 <= C)%nat) -> nifti_r_status L D C = ROk.
Proof.
  intros HD [[-> ->] | [-> HC]]; unfold nifti_r_status.
  - destruct HD as [-> | ->]; vm_compute; reflexivity.
  - assert (Hc : Nat.eqb C 1 = false) by (apply Nat.eqb_neq; lia). rewrite Hc. destruct HD as [-> | ->]; vm_compute; reflexivity.
Qed.

Lemma nifti_read_itk (D : nat) (x : image) :
  D = 2%nat \/ D = 3%nat -> wf_image D x -> In (i_type x) torch_types -> Forall (fun s => s <> 0) (i_spacing x) ->
  read_nifti (itk_write_nii D x) = Some x.
Proof.
  intros HD H Ht Hs. apply nifti_read_itk_cond; auto.
  destruct (Nat.eqb (i_chan x) 1) eqn:E; apply nifti_r_status_ok; auto.
  - left. split; [reflexivity | now apply Nat.eqb_eq].
  - right. split; [reflexivity |]. apply Nat.eqb_neq in E. destruct H as (_ & _ & _ & _ & _ & HC & _). lia.
Qed.

Lemma nifti_affine_ok (D : nat) (x : image) :
  D = 2%nat \/ D = 3%nat -> wf_image D x ->
  sel D (gen_nifti_w_affine_2 (i_origin x) (i_spacing x) (i_dir x)) (gen_nifti_w_affine_3 (i_origin x) (i_spacing x) (i_dir x)) None
    = Some (lps_to_ras_affine D (i_origin x) (i_spacing x) (i_dir x)).
Proof.
  intros [-> | ->] H; [explode2 x H | explode3 x H]; cbn; f_equal; list_eq; ring.
Qed.

Lemma nifti_roundtrip (D : nat) (x : image) :
  D = 2%nat \/ D = 3%nat -> wf_image D x -> In (i_type x) torch_types -> Forall (fun s => s <> 0) (i_spacing x) ->
  exists f, write_nifti D x = Some f /\ read_nifti f = Some x.
Proof.
  intros HD H Ht Hsp.
  destruct (Nat.eqb (i_chan x) 1) eqn:E.
  - apply (nifti_roundtrip_cond LScalar); auto.
    + unfold nifti_w_status, cclass. rewrite E. destruct HD as [-> | ->]; vm_compute; reflexivity.
    + unfold nifti_w_layout, cclass. rewrite E. destruct HD as [-> | ->]; vm_compute; reflexivity.
    + apply nifti_affine_ok; assumption.
    + apply nifti_r_status_ok; auto. left. split; [reflexivity | now apply Nat.eqb_eq].
  - apply (nifti_roundtrip_cond LItkVector); auto.
    + unfold nifti_w_status, cclass. rewrite E. destruct HD as [-> | ->]; vm_compute; reflexivity.
    + unfold nifti_w_layout, cclass. rewrite E. destruct HD as [-> | ->]; vm_compute; reflexivity.
    + apply nifti_affine_ok; assumption.
    + apply nifti_r_status_ok; auto. right. split; [reflexivity |]. apply Nat.eqb_neq in E. destruct H as (_ & _ & _ & _ & _ & HC & _). lia.
Qed.

(* ---------------------------------------------------------------------------------------------- *)
(* flow vectors: to world axes on write, back to the original axes after reading                     *)
(* ---------------------------------------------------------------------------------------------- *)
Definition axes_guard (ax : axes) (n : list K) : Prop :=
  match ax with
  | CUBE => Forall (fun v => v <> 0) n
  | CUBE_CORNERS => Forall (fun v => v - 1 <> 0) n
  | _ => True
  end.

Lemma flow_roundtrip_2 (ax : axes) (n0 n1 s0 s1 d00 d01 d10 d11 u0 u1 : K) :
  (1 + 1 : K) <> 0 -> s0 <> 0 -> s1 <> 0 -> axes_guard ax [n0; n1] ->
  orthonormal 2 [[d00; d01]; [d10; d11]] ->
  flow_from_file 2 ax [n0; n1] [s0; s1] [[d00; d01]; [d10; d11]]
    (flow_to_file 2 ax [n0; n1] [s0; s1] [[d00; d01]; [d10; d11]] [u0; u1]) = [u0; u1].
Proof.
  intros H2 Hs0 Hs1 Hg Ho.
  unfold orthonormal in Ho. fcbv_in Ho.
  injection Ho as E00 E01 E10 E11.
  assert (R00 : d10 * d10 = 1 - d00 * d00) by (rewrite <- E00; ring).
  assert (R11 : d11 * d11 = 1 - d01 * d01) by (rewrite <- E11; ring).
  assert (R01 : d10 * d11 = - (d00 * d01)) by (transitivity (0 - d00 * d01); [rewrite <- E01 | ]; ring).
  clear E00 E01 E10 E11.
  destruct ax; cbn [axes_guard] in Hg; inv_forall Hg; fcbv; list_eq;
    try reflexivity; field_simplify_eq; side;
    first [ring [R00 R01] | ring [R11 R01] | ring [R00 R11 R01]].
Qed.

Lemma flow_roundtrip_3 (ax : axes) (n0 n1 n2 s0 s1 s2 d00 d01 d02 d10 d11 d12 d20 d21 d22 u0 u1 u2 : K) :
  (1 + 1 : K) <> 0 -> s0 <> 0 -> s1 <> 0 -> s2 <> 0 -> axes_guard ax [n0; n1; n2] ->
  orthonormal 3 [[d00; d01; d02]; [d10; d11; d12]; [d20; d21; d22]] ->
  flow_from_file 3 ax [n0; n1; n2] [s0; s1; s2] [[d00; d01; d02]; [d10; d11; d12]; [d20; d21; d22]]
    (flow_to_file 3 ax [n0; n1; n2] [s0; s1; s2] [[d00; d01; d02]; [d10; d11; d12]; [d20; d21; d22]] [u0; u1; u2])
  = [u0; u1; u2].
Proof.
  intros H2 Hs0 Hs1 Hs2 Hg Ho.
  unfold orthonormal in Ho. fcbv_in Ho.
  injection Ho as E00 E01 E02 E10 E11 E12 E20 E21 E22.
  assert (R00 : d20 * d20 = 1 - d00 * d00 - d10 * d10) by (rewrite <- E00; ring).
  assert (R11 : d21 * d21 = 1 - d01 * d01 - d11 * d11) by (rewrite <- E11; ring).
  assert (R22 : d22 * d22 = 1 - d02 * d02 - d12 * d12) by (rewrite <- E22; ring).
  assert (R01 : d20 * d21 = - (d00 * d01) - d10 * d11) by (transitivity (0 - d00 * d01 - d10 * d11); [rewrite <- E01 | ]; ring).
  assert (R02 : d20 * d22 = - (d00 * d02) - d10 * d12) by (transitivity (0 - d00 * d02 - d10 * d12); [rewrite <- E02 | ]; ring).
  assert (R12 : d21 * d22 = - (d01 * d02) - d11 * d12) by (transitivity (0 - d01 * d02 - d11 * d12); [rewrite <- E12 | ]; ring).
  clear E00 E01 E02 E10 E11 E12 E20 E21 E22.
  destruct ax; cbn [axes_guard] in Hg; inv_forall Hg; fcbv; list_eq;
    try reflexivity; field_simplify_eq; side;
    first [ring [R00 R01 R02] | ring [R11 R01 R12] | ring [R22 R02 R12] | ring [R00 R11 R22 R01 R02 R12]].
Qed.
End Proofs.
