"""Gen/Quat.v -- core/_kornia.py: quaternion_to_rotation_matrix in (w, x, y, z) order (with the
normalisation it performs: the norm enters as the parameter n, n*n = w^2+x^2+y^2+z^2), and the
per-branch bodies of rotation_matrix_to_quaternion are checked by correspondence only."""
import numpy as np
from fractions import Fraction

import symtorch as st
import trlib
from symtorch import E, TraceError


def generate(loader):
    kor = loader.load("deepali.core._kornia")
    q = st.Tensor(np.array([E.var(n) for n in ("qw", "qx", "qy", "qz")], dtype=object))
    m = kor.quaternion_to_rotation_matrix(q)
    if m.shape != (3, 3):
        raise TraceError(f"quaternion_to_rotation_matrix shape {m.shape}")
    # the only transcendental node allowed is the norm
    norm_txt = None
    def scan(e):
        nonlocal norm_txt
        if e.op == "fn":
            if e.args[0] != "sqrt":
                raise TraceError(f"unexpected function {e.args[0]}")
            t = st.to_text(e.args[1])
            if norm_txt is None:
                norm_txt = t
            elif norm_txt != t:
                raise TraceError("more than one square root")
            norm_arg.append(e.args[1])
        elif e.op not in ("const", "var"):
            for a in e.args:
                scan(a)
    norm_arg = []
    for e in m.a.reshape(-1):
        scan(e)
    fnmap = {("sqrt", norm_txt): "n"} if norm_txt else {}
    out = ["Section Gen.", "Context {K : fld}.", ""]
    out.append(trlib.emit_match_def("gen_quat_matrix", [], ["n", "qw", "qx", "qy", "qz"], m, fnmap,
                                    "quaternion_to_rotation_matrix; n stands for the norm the code divides by"))
    if norm_arg:
        out.append("Definition gen_quat_norm2 (qw qx qy qz : K) : K :=\n  " + st.to_coq(norm_arg[0]) + ".\n")
    else:
        out.append("Definition gen_quat_norm2 (qw qx qy qz : K) : K := 1.\n")
    # batched input must give per-item results
    qb = st.Tensor(np.array([[E.var(f"{n}_{k}") for n in ("qw", "qx", "qy", "qz")] for k in range(2)], dtype=object))
    mb = kor.quaternion_to_rotation_matrix(qb)
    for k in range(2):
        ren = {f"{n}_{k}": n for n in ("qw", "qx", "qy", "qz")}
        item = np.vectorize(lambda e: trlib.rename(e, ren), otypes=[object])(mb.a[k])
        if not trlib.same_tensor(item, m.a):
            raise TraceError("batched quaternion item differs")
    out += m2q_branches(kor)
    out.append("End Gen.\n")
    return "\n".join(out)


def _split(e, conds=()):
    """leaves of a nested if-then-else expression with the conditions leading to them"""
    if e.op == "ite":
        return _split(e.args[1], conds + ((st.to_text(e.args[0]), True),)) + _split(e.args[2], conds + ((st.to_text(e.args[0]), False),))
    return [(conds, e)]


def m2q_branches(kor):
    """rotation_matrix_to_quaternion: per branch of its nested torch.where, the four numerators and the square-root
    argument (q = numerators / (2 sqrt(arg)); the pivot component 0.25 * sq is arg / sq).  eps is kept symbolic."""
    m = st.symmat("m", 3, 3)
    st.SYMBOLIC_COND = True
    try:
        q = kor.rotation_matrix_to_quaternion(m, eps=E.var("eps"))
    finally:
        st.SYMBOLIC_COND = False
    if q.shape != (4,):
        raise TraceError(f"rotation_matrix_to_quaternion shape {q.shape}")
    per_comp = [_split(q.a[i]) for i in range(4)]
    nb = len(per_comp[0])
    if nb != 4 or any(len(c) != nb for c in per_comp):
        raise TraceError(f"expected 4 branches, found {[len(c) for c in per_comp]}")
    out = []
    for k in range(nb):
        conds = per_comp[0][k][0]
        if any(per_comp[i][k][0] != conds for i in range(4)):
            raise TraceError("components branch on different conditions")
        nums, arg, pivot, sq_txt = [], None, None, None
        for i in range(4):
            e = per_comp[i][k][1]
            if e.op == "div":
                num, den = e.args
                if den.op != "ite" or den.args[0].op != "cmp" or den.args[0].args[0] != "lt" or not den.args[2].same(den.args[0].args[1]):
                    raise TraceError("denominator is not clamp(sq, min=tiny)")
                sq = den.args[2]
                nums.append(num)
            else:
                # pivot: 0.25 * (sqrt(arg) * 2)
                if not (e.op == "mul" and e.args[0].is_const() and e.args[0].value() == Fraction(1, 4)):
                    raise TraceError(f"unexpected pivot component {e}")
                sq = e.args[1]
                if pivot is not None:
                    raise TraceError("two pivot components in one branch")
                pivot = i
                nums.append(None)
            if not (sq.op == "mul" and sq.args[0].op == "fn" and sq.args[0].args[0] == "sqrt" and sq.args[1].is_const() and sq.args[1].value() == 2):
                raise TraceError(f"sq is not sqrt(arg) * 2: {sq}")
            if sq_txt is None:
                sq_txt, arg = st.to_text(sq), sq.args[0].args[1]
            elif st.to_text(sq) != sq_txt:
                raise TraceError("components of one branch divide by different square roots")
        if pivot is None:
            raise TraceError("branch without pivot component")
        nums[pivot] = arg     # 0.25 * sq = arg / sq
        body = "[" + "; ".join(st.to_coq(x) for x in nums) + "]"
        ctext = " and ".join(("" if v else "not ") + c for c, v in conds)
        out.append(f"(* branch {k}: {ctext} *)")
        out.append(trlib.emit_raw_match(f"gen_m2q_num_{k}", "m", m, "list K", body, "[]").replace(
            f"Definition gen_m2q_num_{k} (m :", f"Definition gen_m2q_num_{k} (eps : K) (m :"))
        out.append(trlib.emit_raw_match(f"gen_m2q_arg_{k}", "m", m, "K", st.to_coq(arg), "0").replace(
            f"Definition gen_m2q_arg_{k} (m :", f"Definition gen_m2q_arg_{k} (eps : K) (m :"))
        out.append(f"Definition gen_m2q_pivot_{k} : nat := {pivot}%nat.\n")
    return out
