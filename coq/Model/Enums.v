(* Enumerations shared by hand-written and generated model files. *)
From Coq Require Import List Bool.
Import ListNotations.

Inductive axis := AX | AY | AZ.
Definition axis_eqb (a b : axis) : bool :=
  match a, b with AX, AX | AY, AY | AZ, AZ => true | _, _ => false end.
Definition all_axis := [AX; AY; AZ].
Definition order := (axis * axis * axis)%type.
Definition all_orders : list order :=
  flat_map (fun a => flat_map (fun b => map (fun c => (a, b, c)) all_axis) all_axis) all_axis.

(* operand forms of homogeneous transformations: translation (D x 1), affine (D x D),
   homogeneous (D x (D+1)) *)
Inductive form := FT | FA | FH.
Definition all_forms := [FT; FA; FH].

(* coordinate axes of a sampling grid *)
Inductive axes := GRID | CUBE | CUBE_CORNERS | WORLD.
Definition all_axes := [GRID; CUBE; CUBE_CORNERS; WORLD].
Definition axes_eqb (a b : axes) : bool :=
  match a, b with
  | GRID, GRID | CUBE, CUBE | CUBE_CORNERS, CUBE_CORNERS | WORLD, WORLD => true
  | _, _ => false
  end.
