(* Specification side of sampling-grid coordinate systems (hand-written).
   A grid is (n, s, c, d): per-axis sizes (as field elements), spacings, center, direction cosines
   (columns = unit steps).  Every coordinate system is defined by its map to and from continuous
   grid indices; the map between two systems (of the same or of two grids) goes through indices
   and world space.  These are the documented anchors: index 0 is the origin, index (n-1)/2 the
   center, cube-corner coordinates -1/+1 the first/last sample, cube coordinates -1/+1 half a sample
   beyond them. *)
From Coq Require Import ZArith List.
From DV Require Import Base.Field Base.LinAlg Model.Enums Model.Homog.
Import ListNotations.
Local Open Scope fld_scope.

Section Grid.
Context {K : fld}.
Notation vec := (list K).
Notation mat := (list (list K)).

Definition half : K := 1 / (1 + 1).
Definition vones (D : nat) : vec := repeat 1 D.

(* world position of index 0:  c - R diag(s) (n-1)/2 *)
Definition origin_spec (D : nat) (n s c : vec) (d : mat) : vec :=
  vsub c (mv d (vmul s (vscale half (vsub n (vones D))))).

(* coordinates w.r.t. axes A  ->  continuous grid index *)
Definition to_index (D : nat) (A : axes) (n s c : vec) (d : mat) (x : vec) : vec :=
  match A with
  | GRID => x
  | CUBE => vsub (vscale half (vmul (vadd x (vones D)) n)) (vscale half (vones D))
  | CUBE_CORNERS => vscale half (vmul (vadd x (vones D)) (vsub n (vones D)))
  | WORLD => vdiv (mv (mT D d) (vsub x (origin_spec D n s c d))) s
  end.

(* continuous grid index  ->  coordinates w.r.t. axes B *)
Definition from_index (D : nat) (B : axes) (n s c : vec) (d : mat) (i : vec) : vec :=
  match B with
  | GRID => i
  | CUBE => vsub (vdiv (vadd (vscale (1 + 1) i) (vones D)) n) (vones D)
  | CUBE_CORNERS => vsub (vdiv (vscale (1 + 1) i) (vsub n (vones D))) (vones D)
  | WORLD => vadd (mv d (vmul s i)) (origin_spec D n s c d)
  end.

(* linear parts (what displacement vectors transform by) *)
Definition to_index_vec (D : nat) (A : axes) (n s : vec) (d : mat) (v : vec) : vec :=
  match A with
  | GRID => v
  | CUBE => vscale half (vmul v n)
  | CUBE_CORNERS => vscale half (vmul v (vsub n (vones D)))
  | WORLD => vdiv (mv (mT D d) v) s
  end.
Definition from_index_vec (D : nat) (B : axes) (n s : vec) (d : mat) (v : vec) : vec :=
  match B with
  | GRID => v
  | CUBE => vdiv (vscale (1 + 1) v) n
  | CUBE_CORNERS => vdiv (vscale (1 + 1) v) (vsub n (vones D))
  | WORLD => mv d (vmul s v)
  end.

(* the map from axes A to axes B of one grid: through its continuous indices *)
Definition T_map (D : nat) (A B : axes) (n s c : vec) (d : mat) (x : vec) : vec :=
  from_index D B n s c d (to_index D A n s c d x).
Definition Tv_map (D : nat) (A B : axes) (n s : vec) (d : mat) (v : vec) : vec :=
  from_index_vec D B n s d (to_index_vec D A n s d v).

(* between two grids: through world space (world coordinates are shared, so WORLD needs no conversion) *)
Definition to_world (D : nat) (A : axes) (n s c : vec) (d : mat) (x : vec) : vec :=
  match A with WORLD => x | _ => from_index D WORLD n s c d (to_index D A n s c d x) end.
Definition from_world (D : nat) (B : axes) (n s c : vec) (d : mat) (w : vec) : vec :=
  match B with WORLD => w | _ => from_index D B n s c d (to_index D WORLD n s c d w) end.
Definition T2_map (D : nat) (A B : axes) (n s c : vec) (d : mat) (n' s' c' : vec) (d' : mat) (x : vec) : vec :=
  from_world D B n' s' c' d' (to_world D A n s c d x).
Definition to_world_vec (D : nat) (A : axes) (n s : vec) (d : mat) (v : vec) : vec :=
  match A with WORLD => v | _ => from_index_vec D WORLD n s d (to_index_vec D A n s d v) end.
Definition from_world_vec (D : nat) (B : axes) (n s : vec) (d : mat) (w : vec) : vec :=
  match B with WORLD => w | _ => from_index_vec D B n s d (to_index_vec D WORLD n s d w) end.
Definition T2v_map (D : nat) (A B : axes) (n s : vec) (d : mat) (n' s' : vec) (d' : mat) (v : vec) : vec :=
  from_world_vec D B n' s' d' (to_world_vec D A n s d v).

(* apply a generated transform of whatever form *)
Definition tapply (D : nat) (f : form) (m : mat) (x : vec) : vec := form_apply D f m x.

(* well-formed grid given by component functions *)
Definition orthonormal (D : nat) (d : mat) : Prop :=
  mm D (mT D d) d = eye D /\ mm D d (mT D d) = eye D.
Definition wf (D : nat) (n s : nat -> K) (d : nat -> nat -> K) : Prop :=
  (forall i, (i < D)%nat -> s i <> 0) /\
  (forall i, (i < D)%nat -> n i <> 0) /\
  (forall i, (i < D)%nat -> n i - 1 <> 0) /\
  orthonormal D (tab D D d).
End Grid.
