(* C06 -- A spatial transform means one world-space map, however it is evaluated.
   Statements only; every proof is `exact <lemma>`.  K ranges over all fields of characteristic 0 (instances:
   R for meaning, Qc for running the model); grids are arbitrary well-formed grids (oriented, anisotropic,
   either align_corners flag), D in {2, 3}.  Gen/Transform.v is traced from the real constructors and methods of
   spatial/*.py on every run. *)
From Coq Require Import ZArith QArith Qcanon List Bool.
From DV Require Import Base.Field Base.LinAlg Base.QcInst Model.Enums Model.Homog Model.Rotation Model.Grid
  Model.Sampler Model.SamplerQc Model.Transform Model.TransformQc Gen.Hmm Gen.GridT Gen.LinInv Gen.Transform
  Model.TransformGeneric
  Proofs.C06Fresh Proofs.C06Views Proofs.C06Composite Proofs.C06Warp Proofs.C06Pullback Proofs.C06Refuted
  Proofs.C06Strided Proofs.C06Sequence Proofs.C06Generic Proofs.C06Zero Proofs.C06DispOther.
Import ListNotations.
Local Open Scope fld_scope.

(* ================================================================ 1. fresh transforms are the identity *)
(* every linear class found in spatial/linear.py (12 classes: elementary and sequential composites), every dimension
   the class admits: tensor() right after construction maps every point to itself *)
Theorem C06_fresh_is_identity :
  forall (K : fld), is_field K ->
  forall (c : lclass) (D : nat), In D (gen_fresh_dims c) ->
  forall x : nat -> K, form_apply D (gen_fresh_form c) (gen_fresh c D) (vtab D x) = vtab D x.
Proof. exact fresh_is_identity. Qed.
Print Assumptions C06_fresh_is_identity.

Theorem C06_fresh_classes_cover : forall c : lclass, In c all_lclass /\ In 3%nat (gen_fresh_dims c).
Proof. exact fresh_dims_cover. Qed.
Print Assumptions C06_fresh_classes_cover.

(* the fresh tensors are the parameter -> matrix maps (Gen/LinInv.v, traced tensor() bodies) at the default
   literals, re-parameterisations evaluated *)
Theorem C06_fresh_tensor_of_defaults :
  forall (K : fld), is_field K ->
  gen_fresh (K:=K) LTranslation 2 = gen_translation2_fwd 0 0 /\
  gen_fresh (K:=K) LTranslation 3 = gen_translation3_fwd 0 0 0 /\
  gen_fresh (K:=K) LEulerRotation 2 = gen_euler2_fwd 1 0 /\
  gen_fresh (K:=K) LEulerRotation 3 = gen_euler3_fwd gen_euler3_default_order 1 1 1 0 0 0 /\
  gen_fresh (K:=K) LIsotropicScaling 2 = gen_isoscale2_fwd 1 /\
  gen_fresh (K:=K) LIsotropicScaling 3 = gen_isoscale3_fwd 1 /\
  gen_fresh (K:=K) LAnisotropicScaling 2 = gen_anisoscale2_fwd 1 1 /\
  gen_fresh (K:=K) LAnisotropicScaling 3 = gen_anisoscale3_fwd 1 1 1 /\
  gen_fresh (K:=K) LShearing 2 = gen_shear2_fwd 0 /\
  gen_fresh (K:=K) LShearing 3 = gen_shear3_fwd 0 0 0 /\
  gen_fresh (K:=K) LHomogeneousTransform 2 = gen_homogeneous2_fwd 1 0 0 0 1 0 /\
  gen_fresh (K:=K) LHomogeneousTransform 3 = gen_homogeneous3_fwd 1 0 0 0 0 1 0 0 0 0 1 0 /\
  gen_fresh (K:=K) LQuaternionRotation 3 = gen_quaternion_fwd 1 1 0 0 0.
Proof. exact fresh_is_tensor_of_defaults. Qed.
Print Assumptions C06_fresh_tensor_of_defaults.

(* the default quaternion is (w, x, y, z) = (1, 0, 0, 0) = the identity; (0, 0, 0, 1) would be the half turn about z;
   every non-rigid class resets its parameters to 0 *)
Theorem C06_quaternion_default_is_identity_wxyz :
  forall (K : fld), is_field K ->
  (gen_default (K:=K) LQuaternionRotation 3 = [1; 0; 0; 0] /\
   gen_quaternion_fwd (K:=K) 1 1 0 0 0 = eye 3 /\
   gen_fresh (K:=K) LQuaternionRotation 3 = eye 3 /\
   gen_quaternion_fwd (K:=K) 1 0 0 0 1 = rot AZ (- (1)) 0) /\ gen_nonrigid_defaults_zero = true.
Proof. intros K Kf. exact (conj (quaternion_default_is_identity K Kf) eq_refl). Qed.
Print Assumptions C06_quaternion_default_is_identity_wxyz.

(* a zero displacement field (fresh non-rigid models, T := x + interpolated field) is the identity, any size *)
Theorem C06_fresh_field_is_identity :
  forall (K : fld), is_field K -> forall (floorK : K -> Z) (ac : bool) (nx ny mx my : nat) (x y : K),
  warp_points2 floorK ac (repeat (repeat (0 : K) nx) ny) (repeat (repeat (0 : K) mx) my) [x; y] = [x; y].
Proof. exact fresh_field_is_identity2. Qed.
Print Assumptions C06_fresh_field_is_identity.

(* ================================================================ 2. the views of a linear model agree *)
(* transform(points) [forward pre-hook + forward -> transform_points / transform_grid], matrix(), and the dense
   field value at a cube point x: all are the affine map M denotes; x + disp(x) = transform(x) *)
Theorem C06_views_agree_cube :
  forall (K : fld), is_field K ->
  forall D : nat, D = 2%nat \/ D = 3%nat ->
  forall (f : form) (a : nat -> nat -> K) (x : nat -> K),
  let M := tab D (fcols D f) a in let X := vtab D x in
  view_forward D f M X = form_apply D f M X /\
  happly D (view_matrix D f M) X = form_apply D f M X /\
  view_disp D f M X = vsub (form_apply D f M X) X /\
  vadd X (view_disp D f M X) = view_forward D f M X.
Proof.
  intros K Kf D HD f a x. exact (conj (forward_is_map K Kf D HD f a x) (conj (proj1 (matrix_is_map K Kf D HD f a x))
    (disp_is_displacement K Kf D HD f a x))).
Qed.
Print Assumptions C06_views_agree_cube.

(* the point API for points given w.r.t. any (grid, axes) and returned w.r.t. any (to_grid, to_axes) -- also what
   PointSetTransformer computes -- is ONE world-space map, re-expressed; in particular axes=WORLD gives that map *)
Theorem C06_views_agree_points :
  forall (K : fld), is_field K -> char0 K ->
  forall D : nat, D = 2%nat \/ D = 3%nat ->
  forall (f : form) (a : nat -> nat -> K) (ac : bool) (g g1 g2 : gridf) (A B : axes) (X : list K),
  gwf D g -> gwf D g1 -> gwf D g2 -> length X = D ->
  let M := tab D (fcols D f) a in
  view_points2 D f M ac g A g1 B g2 X = g_from_world D B g2 (world_map D f M ac g (g_to_world D A g1 X)) /\
  view_points D f M ac g A B X = g_from_world D B g (world_map D f M ac g (g_to_world D A g X)).
Proof.
  intros K Kf Kc D HD f a ac g g1 g2 A B X Hg Hg1 Hg2 HX.
  exact (conj (points2_is_world_map K Kf Kc D HD f a ac g g1 g2 A B X Hg Hg1 Hg2 HX)
              (points_is_world_map K Kf Kc D HD f a ac g A B X Hg HX)).
Qed.
Print Assumptions C06_views_agree_points.

Theorem C06_views_agree_world_axes :
  forall (K : fld), is_field K -> char0 K ->
  forall D : nat, D = 2%nat \/ D = 3%nat ->
  forall (f : form) (a : nat -> nat -> K) (ac : bool) (g : gridf) (x : nat -> K), gwf D g ->
  gen_points_world D f ac (gN D g) (gS D g) (gC D g) (gD D g) (tab D (fcols D f) a) (vtab D x)
  = world_map D f (tab D (fcols D f) a) ac g (vtab D x).
Proof. exact points_world. Qed.
Print Assumptions C06_views_agree_world_axes.

(* the dense field disp(h) / flow(h) on ANY grid h (any domain, size, orientation, either flag) describes that world map:
   on the own grid (and any grid with the same cube frame) the matrix is applied as it is; on every other grid it is
   re-expressed in h's cube.  The traced 2-D field at a point of another grid's cube is that re-expressed field (3-D: the
   translator checks the re-expression plumbing structurally, the correspondence compares with field_of_world_map). *)
Theorem C06_views_agree_dense_field :
  forall (K : fld), is_field K -> char0 K ->
  forall D : nat, D = 2%nat \/ D = 3%nat ->
  forall (f : form) (a : nat -> nat -> K) (ac ac' : bool) (g h : gridf) (X : list K),
  gwf D g -> gwf D h -> length X = D ->
  disp_reexpressed D f (tab D (fcols D f) a) ac g ac' h X
  = field_of_world_map D (world_map D f (tab D (fcols D f) a) ac g) ac' h X.
Proof. exact disp_reexpressed_describes_world_map. Qed.
Print Assumptions C06_views_agree_dense_field.

Theorem C06_views_agree_dense_field_own_frame :
  forall (K : fld), is_field K -> char0 K ->
  forall D : nat, D = 2%nat \/ D = 3%nat ->
  forall (f : form) (a : nat -> nat -> K) (ac ac' : bool) (g h : gridf) (x : nat -> K),
  gwf D g -> gwf D h ->
  (forall X, length X = D -> g_to_world D (cubeax ac') h X = g_to_world D (cubeax ac) g X) ->
  view_disp D f (tab D (fcols D f) a) (vtab D x)
  = field_of_world_map D (world_map D f (tab D (fcols D f) a) ac g) ac' h (vtab D x).
Proof. exact disp_same_frame_describes_world_map. Qed.
Print Assumptions C06_views_agree_dense_field_own_frame.

Theorem C06_dense_field_other_grid_traced :
  forall (K : fld), is_field K -> char0 K ->
  forall (f : form) (a : nat -> nat -> K) (ac ac' : bool) (g h : gridf) (x : nat -> K),
  gwf 2 g -> gwf 2 h ->
  gen_disp_other2 f ac ac' (gN 2 g) (gS 2 g) (gC 2 g) (gD 2 g) (gN 2 h) (gS 2 h) (gC 2 h) (gD 2 h) (tab 2 (fcols 2 f) a) (vtab 2 x)
  = disp_reexpressed 2 f (tab 2 (fcols 2 f) a) ac g ac' h (vtab 2 x).
Proof. exact gen_disp_other2_is_reexpressed. Qed.
Print Assumptions C06_dense_field_other_grid_traced.

(* non-rigid models, T := the interpolated field: exact on fields that are affine in the index (any size, any
   cell whose corners carry the ramp); resizing the field (transform_grid) = interpolating it (transform_points)
   at the lattice of every same-domain grid of any size m *)
Theorem C06_views_agree_nonrigid_affine2 :
  forall (K : fld), is_field K -> forall (floorK : K -> Z) (ac : bool) (ux uy : list (list K)) (x y : K)
    (ax0 ay0 b0 ax1 ay1 b1 : K),
  let px := unnorm ac (zlen (hd [] ux)) x in let py := unnorm ac (zlen ux) y in
  let qx := unnorm ac (zlen (hd [] uy)) x in let qy := unnorm ac (zlen uy) y in
  (forall dx dy : Z, (dx = 0 \/ dx = 1)%Z -> (dy = 0 \/ dy = 1)%Z ->
     getp PBorder 0 (getp PBorder [] ux (floorK py + dy)) (floorK px + dx)
     = ax0 * (of_Z (floorK px) + of_Z dx) + ay0 * (of_Z (floorK py) + of_Z dy) + b0) ->
  (forall dx dy : Z, (dx = 0 \/ dx = 1)%Z -> (dy = 0 \/ dy = 1)%Z ->
     getp PBorder 0 (getp PBorder [] uy (floorK qy + dy)) (floorK qx + dx)
     = ax1 * (of_Z (floorK qx) + of_Z dx) + ay1 * (of_Z (floorK qy) + of_Z dy) + b1) ->
  warp_points2 floorK ac ux uy [x; y] = [x + (ax0 * px + ay0 * py + b0); y + (ax1 * qx + ay1 * qy + b1)].
Proof. exact warp_points2_affine_field. Qed.
Print Assumptions C06_views_agree_nonrigid_affine2.

Theorem C06_views_agree_nonrigid_affine3 :
  forall (K : fld), is_field K -> forall (floorK : K -> Z) (ac : bool) (ux uy uz : list (list (list K))) (x y z : K)
    (a0 a1 a2 : K * K * K * K),
  let P (u : list (list (list K))) := (unnorm ac (zlen (hd [] (hd [] u))) x, unnorm ac (zlen (hd [] u)) y, unnorm ac (zlen u) z) in
  let ramp (u : list (list (list K))) (a : K * K * K * K) :=
    let '(px, py, pz) := P u in let '(ax, ay, az, b) := a in
    forall dx dy dz : Z, (dx = 0 \/ dx = 1)%Z -> (dy = 0 \/ dy = 1)%Z -> (dz = 0 \/ dz = 1)%Z ->
     getp PBorder 0 (getp PBorder [] (getp PBorder [] u (floorK pz + dz)) (floorK py + dy)) (floorK px + dx)
     = ax * (of_Z (floorK px) + of_Z dx) + ay * (of_Z (floorK py) + of_Z dy) + az * (of_Z (floorK pz) + of_Z dz) + b in
  let val (u : list (list (list K))) (a : K * K * K * K) :=
    let '(px, py, pz) := P u in let '(ax, ay, az, b) := a in ax * px + ay * py + az * pz + b in
  ramp ux a0 -> ramp uy a1 -> ramp uz a2 ->
  warp_points3 floorK ac ux uy uz [x; y; z] = [x + val ux a0; y + val uy a1; z + val uz a2].
Proof. exact warp_points3_affine_field. Qed.
Print Assumptions C06_views_agree_nonrigid_affine3.

Theorem C06_resize_is_interpolation_on_lattice :
  forall (K : fld), is_field K -> char0 K -> forall (floorK : K -> Z) (ac : bool) (u : list K) (m : Z),
  of_Z (K:=K) m <> 0 -> of_Z (K:=K) m - 1 <> 0 -> (m =? 1)%Z = false ->
  resize1 floorK ac m u = map (fun j => grid_sample1 floorK PBorder ac u (lattice_coord ac m j)) (zseq m).
Proof. exact warp_grid_is_warp_points_on_lattice. Qed.
Print Assumptions C06_resize_is_interpolation_on_lattice.

(* ================================================================ 3. composites *)
(* SequentialTransform of ANY number of linear members (any operand forms): tensor() denotes the members applied
   in the listed order; seq_tensor is the fold of the traced two-member step, which is homogeneous_matmul(next, acc) *)
Theorem C06_sequential_order :
  forall (K : fld), is_field K ->
  forall D : nat, D = 2%nat \/ D = 3%nat ->
  forall (ms : list (member (K:=K))) (X : list K),
  Forall (m_ok D) ms -> length X = D ->
  m_apply D (seq_tensor D ms) X = fold_left (fun y m => form_apply D (fst m) (snd m) y) ms X.
Proof. exact sequential_order. Qed.
Print Assumptions C06_sequential_order.

Theorem C06_sequential_step_is_matmul :
  forall (K : fld), is_field K ->
  forall D : nat, D = 2%nat \/ D = 3%nat ->
  forall (fa fb : form) (a b : nat -> nat -> K),
  gen_seq2 D fa fb (tab D (fcols D fa) a) (tab D (fcols D fb) b)
  = gen_hmm D fb fa (tab D (fcols D fb) b) (tab D (fcols D fa) a) /\ gen_seq_form fa fb = gen_hmm_form fb fa.
Proof. intros K _. exact (seq2_is_hmm K). Qed.
Print Assumptions C06_sequential_step_is_matmul.

(* generic branch of forward() (a non-rigid member is present): first member first *)
Theorem C06_sequential_generic_order :
  forall (K : fld), is_field K -> forall (a b : nat -> nat -> K) (x : nat -> K),
  gen_seq_fwd2_2 (tab 2 3 a) (tab 2 3 b) (vtab 2 x) = happly 2 (tab 2 3 b) (happly 2 (tab 2 3 a) (vtab 2 x)) /\
  gen_seq_fwd2_3 (tab 3 4 a) (tab 3 4 b) (vtab 3 x) = happly 3 (tab 3 4 b) (happly 3 (tab 3 4 a) (vtab 3 x)).
Proof. exact seq_forward2_order. Qed.
Print Assumptions C06_sequential_generic_order.

(* MultiLevelTransform: for EVERY member list the composite maps x to x + sum_i (T_i(x) - x):
   generic branch (a non-rigid member is present): the accumulation loop, any number of members;
   linear branch: tensor() = sum of the members' homogeneous matrices - (k - 1) I, any number of members of any forms *)
Theorem C06_multilevel_sum :
  forall (K : fld), is_field K ->
  (forall (x : list K) (ys : list (list K)), Forall (fun y => length y = length x) ys ->
     ml_forward x ys = vadd x (vsum_list (length x) (map (fun y => vsub y x) ys))) /\
  (forall D : nat, D = 2%nat \/ D = 3%nat -> forall (ms : list (member (K:=K))) (X : list K),
     Forall (m_ok D) ms -> length X = D ->
     happly D (ml_tensor D ms) X
     = vadd X (vsum_list (length X) (map (fun y => vsub y X) (map (fun m => form_apply D (fst m) (snd m) X) ms)))).
Proof. intros K Kf. exact (conj (multilevel_sum_generic K Kf) (multilevel_sum_linear K Kf)). Qed.
Print Assumptions C06_multilevel_sum.

Theorem C06_multilevel_generic_loop_is_traced :
  forall (K : fld), is_field K -> forall x y0 y1 y2 : nat -> K,
  gen_ml_fwd1_2 (vtab 2 x) (vtab 2 y0) = ml_forward (vtab 2 x) [vtab 2 y0] /\
  gen_ml_fwd2_2 (vtab 2 x) (vtab 2 y0) (vtab 2 y1) = ml_forward (vtab 2 x) [vtab 2 y0; vtab 2 y1] /\
  gen_ml_fwd3_2 (vtab 2 x) (vtab 2 y0) (vtab 2 y1) (vtab 2 y2) = ml_forward (vtab 2 x) [vtab 2 y0; vtab 2 y1; vtab 2 y2] /\
  gen_ml_fwd1_3 (vtab 3 x) (vtab 3 y0) = ml_forward (vtab 3 x) [vtab 3 y0] /\
  gen_ml_fwd2_3 (vtab 3 x) (vtab 3 y0) (vtab 3 y1) = ml_forward (vtab 3 x) [vtab 3 y0; vtab 3 y1] /\
  gen_ml_fwd3_3 (vtab 3 x) (vtab 3 y0) (vtab 3 y1) (vtab 3 y2) = ml_forward (vtab 3 x) [vtab 3 y0; vtab 3 y1; vtab 3 y2].
Proof. exact ml_forward_traced. Qed.
Print Assumptions C06_multilevel_generic_loop_is_traced.

(* the traced tensor() of two members (all 9 form pairs) and of three homogeneous members is the model ml_tensor *)
Theorem C06_multilevel_linear_is_traced :
  forall (K : fld), is_field K ->
  (forall D : nat, D = 2%nat \/ D = 3%nat -> forall (fa fb : form) (a b : nat -> nat -> K),
     gen_ml2 D fa fb (tab D (fcols D fa) a) (tab D (fcols D fb) b)
     = ml_tensor D [(fa, tab D (fcols D fa) a); (fb, tab D (fcols D fb) b)]) /\
  (forall a b c : nat -> nat -> K,
     gen_ml3_HHH_2 (tab 2 3 a) (tab 2 3 b) (tab 2 3 c) = ml_tensor 2 [(FH, tab 2 3 a); (FH, tab 2 3 b); (FH, tab 2 3 c)] /\
     gen_ml3_HHH_3 (tab 3 4 a) (tab 3 4 b) (tab 3 4 c) = ml_tensor 3 [(FH, tab 3 4 a); (FH, tab 3 4 b); (FH, tab 3 4 c)]).
Proof. intros K Kf. exact (conj (ml2_is_model K Kf) (ml3_is_model K Kf)). Qed.
Print Assumptions C06_multilevel_linear_is_traced.

(* evaluating the composite does not write into any member's tensor (observed on the trace for every form of the
   first member; later members are checked by the translator unit) *)
Theorem C06_multilevel_members_unchanged : forall fa : form, gen_ml_overwrites_first fa = false.
Proof. exact ml_members_unchanged. Qed.
Print Assumptions C06_multilevel_members_unchanged.

(* ================================================================ 4. warping is the pull-back *)
(* ImageTransformer(transform, target, source)(image) at target sample j, for a linear transform on ANY transform
   grid g, ANY target grid tg, ANY source grid src: the image evaluated at the continuous source index of
   T(world position of sample j) -- exact whenever the image is affine in the index on the sampled cell *)
Theorem C06_warp_is_pullback_2d :
  forall (K : fld), is_field K -> char0 K -> forall (floorK : K -> Z)
    (pad : padmode) (f : form) (a : nat -> nat -> K) (ac : bool) (tg g src : gridf)
    (img : list (list K)) (j : nat -> K) (px py ax ay b : K),
  gwf 2 tg -> gwf 2 g -> gwf 2 src ->
  gN 2 src = [of_Z (zlen (hd [] img)); of_Z (zlen img)] ->
  pullback_index 2 f ac (tab 2 (fcols 2 f) a) tg g src (vtab 2 j) = [px; py] ->
  (forall dx dy : Z, (dx = 0 \/ dx = 1)%Z -> (dy = 0 \/ dy = 1)%Z ->
     getp pad 0 (getp pad [] img (floorK py + dy)) (floorK px + dx)
     = ax * (of_Z (floorK px) + of_Z dx) + ay * (of_Z (floorK py) + of_Z dy) + b) ->
  warp_out2 floorK pad f ac (tab 2 (fcols 2 f) a) tg g src img (vtab 2 j) = ax * px + ay * py + b.
Proof. exact warp_is_pullback2. Qed.
Print Assumptions C06_warp_is_pullback_2d.

Theorem C06_warp_is_pullback_3d :
  forall (K : fld), is_field K -> char0 K -> forall (floorK : K -> Z)
    (pad : padmode) (f : form) (a : nat -> nat -> K) (ac : bool) (tg g src : gridf)
    (img : list (list (list K))) (j : nat -> K) (px py pz ax ay az b : K),
  gwf 3 tg -> gwf 3 g -> gwf 3 src ->
  gN 3 src = [of_Z (zlen (hd [] (hd [] img))); of_Z (zlen (hd [] img)); of_Z (zlen img)] ->
  pullback_index 3 f ac (tab 3 (fcols 3 f) a) tg g src (vtab 3 j) = [px; py; pz] ->
  (forall dx dy dz : Z, (dx = 0 \/ dx = 1)%Z -> (dy = 0 \/ dy = 1)%Z -> (dz = 0 \/ dz = 1)%Z ->
     getp pad 0 (getp pad [] (getp pad [] img (floorK pz + dz)) (floorK py + dy)) (floorK px + dx)
     = ax * (of_Z (floorK px) + of_Z dx) + ay * (of_Z (floorK py) + of_Z dy) + az * (of_Z (floorK pz) + of_Z dz) + b) ->
  warp_out3 floorK pad f ac (tab 3 (fcols 3 f) a) tg g src img (vtab 3 j) = ax * px + ay * py + az * pz + b.
Proof. exact warp_is_pullback3. Qed.
Print Assumptions C06_warp_is_pullback_3d.

(* the traced 2-D sampling coordinates of ImageTransformer are the model's composition *)
Theorem C06_warp_coords_traced :
  forall (K : fld) (f : form) (ac : bool) (a : nat -> nat -> K) (tg g src : gridf) (x : nat -> K),
  gen_warp_coords2 f ac (gN 2 tg) (gS 2 tg) (gC 2 tg) (gD 2 tg) (gN 2 g) (gS 2 g) (gC 2 g) (gD 2 g)
     (gN 2 src) (gS 2 src) (gC 2 src) (gD 2 src) (tab 2 (fcols 2 f) a) (vtab 2 x)
  = warp_coords 2 f ac (tab 2 (fcols 2 f) a) tg g src (vtab 2 x).
Proof. exact gen_warp_coords2_is_model. Qed.
Print Assumptions C06_warp_coords_traced.

(* ImageTransformer with ANY composite / non-rigid member list (generic loop) and a target that is not a lattice of the
   transform's domain: the transform is called with grid = false (traced), so the output is the pull-back by the composition of
   the member point maps for any three grids; resizing would differ there (last statement) *)
Theorem C06_warp_sequence_any_target :
  forall (K : fld) (floorK : K -> Z) (pad : padmode) (ac : bool) (ms : list (fmember (K:=K))) (tg g src : gridf)
    (img : list (list K)) (j : list K),
  warp_seq_out2 floorK pad ac ms false tg g src img j
  = match gen_pts2 2 (cubeax ac) (cubeax ac) (gN 2 g) (gS 2 g) (gC 2 g) (gD 2 g) (gN 2 src) (gS 2 src) (gC 2 src) (gD 2 src)
            (seq_point_map ms (gen_pts2 2 (cubeax ac) (cubeax ac) (gN 2 tg) (gS 2 tg) (gC 2 tg) (gD 2 tg) (gN 2 g) (gS 2 g) (gC 2 g) (gD 2 g)
                                 (target_coord 2 ac tg j))) with
    | [x; y] => grid_sample2 floorK pad ac img x y
    | _ => 0
    end.
Proof. exact warp_sequence_any_target. Qed.
Print Assumptions C06_warp_sequence_any_target.

Theorem C06_image_transformer_flag_traced :
  forallb (fun e => Bool.eqb (fst e) (snd e)) gen_image_transformer_flag_table = true /\
  (existsb fst gen_image_transformer_flag_table = true /\ existsb (fun e => negb (fst e)) gen_image_transformer_flag_table = true).
Proof. exact image_transformer_flag_traced. Qed.
Print Assumptions C06_image_transformer_flag_traced.

Theorem C06_resize_differs_off_lattice :
  warp_grid1 (K:=QcF) floorQ true u_w xs_w <> map (warp_points1 (K:=QcF) floorQ true u_w) xs_w.
Proof. exact resize_differs_off_lattice. Qed.
Print Assumptions C06_resize_differs_off_lattice.

(* ================================================================ 5. round 2: generic loops, strided buffers, generic configs *)
(* SequentialTransform.forward, generic branch, ANY member list: the first member receives the composite's grid flag, every
   later member is applied as a point map (flag false), in listed order; with flag false it is the composition of point maps *)
Theorem C06_sequence_forward_any :
  forall (K : fld) (m : fmember (K:=K)) (r : list fmember) (grid : bool) (x : list K),
  seq_forward (m :: r) grid x = fold_left (fun y m' => m' false y) r (m grid x).
Proof. exact seq_forward_any. Qed.
Print Assumptions C06_sequence_forward_any.

Theorem C06_sequence_point_map_is_composition :
  forall (K : fld) (ms : list (fmember (K:=K))) (x : list K),
  seq_forward ms false x = fold_left (fun y m => m false y) ms x.
Proof. exact seq_forward_is_composition. Qed.
Print Assumptions C06_sequence_point_map_is_composition.

(* MultiLevelTransform.forward, generic branch with the flag, ANY member list *)
Theorem C06_multilevel_point_map_any :
  forall (K : fld), is_field K -> forall (ms : list (fmember (K:=K))) (x : list K),
  Forall (fun m => length (m false x) = length x) ms ->
  ml_forward_flag ms false x = vadd x (vsum_list (length x) (map (fun y => vsub y x) (map (fun m => m false x) ms))).
Proof. exact ml_forward_flag_false. Qed.
Print Assumptions C06_multilevel_point_map_any.

(* the flags the TRACED composites hand to their members (Sequential and MultiLevel; linear-then-nonrigid, nonrigid-then-linear,
   longer mixed lists; flag true and false) are those of the loop model: only member 0 can be told that the points are the
   undeformed lattice.  Generated table, so a change of the flag logic breaks this theorem. *)
Theorem C06_composite_grid_flag_traced :
  forallb (fun e => flags_ok (snd e)) gen_composite_flag_table = true /\ (10 <= length gen_composite_flag_table)%nat.
Proof. exact composite_flags_traced. Qed.
Print Assumptions C06_composite_grid_flag_traced.

(* every resize / sampling kernel on the dense-field paths (evaluate, disp on a coarse or resized buffer, forward(points),
   forward(lattice, grid=True); DisplacementField and SVF, stride 2, resize in {False, True}, both flags, 2-D and 3-D) is reached
   with the expected target shape and is handed the align_corners flag of the transform's grid *)
Theorem C06_dense_path_flags_traced :
  forallb (fun e => let '(_, ac, kernel_ok, flag) := e in
                    kernel_ok && match flag with Some b => Bool.eqb b ac | None => false end) gen_dense_path_table = true /\
  (24 <= length gen_dense_path_table)%nat.
Proof. exact dense_paths_traced. Qed.
Print Assumptions C06_dense_path_flags_traced.

(* own-grid dense field of a buffer kept on ANY other lattice of the domain (stride > 1, resize = False): disp() = the buffer
   resized with the grid's flag, and x_j + disp()[j] = transform(x_j) at every lattice point, 2-D and 3-D, all sizes *)
Theorem C06_strided_disp_is_point_map_2d :
  forall (K : fld), is_field K -> char0 K -> forall (floorK : K -> Z) (ac : bool) (nx ny : Z) (ux uy : list (list K)) (jx jy : nat),
  size_ok K nx -> size_ok K ny -> (Z.of_nat jx < nx)%Z -> (Z.of_nat jy < ny)%Z ->
  vadd (lattice2 K ac nx ny jx jy) (disp_own2 K floorK ac nx ny ux uy jx jy)
  = warp_points2 floorK ac ux uy (lattice2 K ac nx ny jx jy).
Proof. exact disp_strided_is_point_map2. Qed.
Print Assumptions C06_strided_disp_is_point_map_2d.

Theorem C06_strided_disp_is_point_map_3d :
  forall (K : fld), is_field K -> char0 K -> forall (floorK : K -> Z) (ac : bool) (nx ny nz : Z) (ux uy uz : list (list (list K)))
    (jx jy jz : nat),
  size_ok K nx -> size_ok K ny -> size_ok K nz -> (Z.of_nat jx < nx)%Z -> (Z.of_nat jy < ny)%Z -> (Z.of_nat jz < nz)%Z ->
  vadd (lattice3 K ac nx ny nz jx jy jz) (disp_own3 K floorK ac nx ny nz ux uy uz jx jy jz)
  = warp_points3 floorK ac ux uy uz (lattice3 K ac nx ny nz jx jy jz).
Proof. exact disp_strided_is_point_map3. Qed.
Print Assumptions C06_strided_disp_is_point_map_3d.

(* ImageTransformer with a composite running the generic loop, first member a dense field, target = a lattice of the
   transform's domain of ANY size: the output is the image sampled at the composition of the member POINT maps *)
Theorem C06_warp_sequence_same_domain :
  forall (K : fld), is_field K -> char0 K -> forall (floorK : K -> Z)
    (pad : padmode) (ac : bool) (ux uy : list (list K)) (r : list (fmember (K:=K)))
    (tg g src : gridf) (img : list (list K)) (nx ny : Z) (jx jy : nat),
  gwf 2 tg -> gwf 2 g -> gN 2 tg = [of_Z nx; of_Z ny] ->
  (forall Y, length Y = 2%nat -> g_to_world 2 (cubeax ac) tg Y = g_to_world 2 (cubeax ac) g Y) ->
  size_ok K nx -> size_ok K ny -> (Z.of_nat jx < nx)%Z -> (Z.of_nat jy < ny)%Z ->
  let ms := ddf_member2 floorK ac ux uy nx ny jx jy :: r in
  let j := [of_Z (Z.of_nat jx); of_Z (Z.of_nat jy)] in
  warp_seq_out2 floorK pad ac ms true tg g src img j
  = match gen_pts2 2 (cubeax ac) (cubeax ac) (gN 2 g) (gS 2 g) (gC 2 g) (gD 2 g) (gN 2 src) (gS 2 src) (gC 2 src) (gD 2 src)
            (seq_point_map ms (lattice2 K ac nx ny jx jy)) with
    | [x; y] => grid_sample2 floorK pad ac img x y
    | _ => 0
    end.
Proof. exact warp_sequence_same_domain. Qed.
Print Assumptions C06_warp_sequence_same_domain.

(* ... and with a first member that ignores the flag (every linear transform), for ANY target grid *)
Theorem C06_warp_sequence_linear_first :
  forall (K : fld) (floorK : K -> Z) (pad : padmode) (ac : bool) (m : fmember (K:=K)) (r : list fmember)
    (tg g src : gridf) (img : list (list K)) (j : list K),
  (forall p, m true p = m false p) ->
  warp_seq_out2 floorK pad ac (m :: r) true tg g src img j = warp_seq_out2 floorK pad ac (m :: r) false tg g src img j.
Proof. exact warp_sequence_linear_first. Qed.
Print Assumptions C06_warp_sequence_linear_first.

(* the point API of ANY transform acting as a map T of its own cube coordinates (non-rigid models, composites) is the
   world map of T re-expressed (the base-class points()/PointSetTransformer plumbing is traced for a non-linear transform too) *)
Theorem C06_views_agree_points_any_transform :
  forall (K : fld), is_field K -> char0 K ->
  forall D : nat, D = 2%nat \/ D = 3%nat ->
  forall (T : list K -> list K) (ac : bool) (g g1 g2 : gridf) (A B : axes) (X : list K),
  (forall Y, length Y = D -> length (T Y) = D) ->
  gwf D g -> gwf D g1 -> gwf D g2 -> length X = D ->
  view_points2_gen D T ac g A g1 B g2 X = g_from_world D B g2 (world_map_gen D T ac g (g_to_world D A g1 X)).
Proof. exact points2_gen_is_world_map. Qed.
Print Assumptions C06_views_agree_points_any_transform.

(* fresh non-rigid models: zero parameters; a zero buffer of any size resized to any lattice is the zero field; a zero field is
   the identity (3-D; 2-D above) *)
Theorem C06_fresh_nonrigid_identity_3d :
  forall (K : fld), is_field K -> forall (floorK : K -> Z) (ac : bool),
  (forall (nx ny : nat) (mx my : Z), resize2 floorK ac mx my (zero2 K nx ny) = zero2 K (Z.to_nat mx) (Z.to_nat my)) /\
  (forall (nx ny nz : nat) (mx my mz : Z),
     resize3 floorK ac mx my mz (zero3 K nx ny nz) = zero3 K (Z.to_nat mx) (Z.to_nat my) (Z.to_nat mz)) /\
  (forall (a b c d e f g h i : nat) (x y z : K),
     warp_points3 floorK ac (zero3 K a b c) (zero3 K d e f) (zero3 K g h i) [x; y; z] = [x; y; z]).
Proof.
  intros K Kf floorK ac. exact (conj (resize2_zero K Kf floorK ac) (conj (resize3_zero K Kf floorK ac) (fresh_field_is_identity3 K Kf floorK ac))).
Qed.
Print Assumptions C06_fresh_nonrigid_identity_3d.

(* generic configurable transform (spatial/generic.py, constructor traced): every traced configuration applies its members in
   the order its notation denotes ("A o B": B first; affine_model letters: right-most first) with the documented classes, and
   every traced linear configuration is the identity when fresh.  (It IS a SequentialTransform, so C06_sequential_order and
   C06_sequence_forward_any describe how the members are applied.) *)
Theorem C06_generic_order_traced :
  forallb (generic_row_ok gen_generic_affine_names gen_generic_affine_classes gen_generic_nonrigid_classes) gen_generic_table = true /\
  stable_eqb gen_generic_affine_classes documented_affine_classes = true /\
  stable_eqb gen_generic_nonrigid_classes documented_nonrigid_classes = true /\
  (12 <= List.length gen_generic_table)%nat.
Proof. exact generic_order_traced. Qed.
Print Assumptions C06_generic_order_traced.

Theorem C06_generic_fresh_identity :
  forall (K : fld), is_field K ->
  Forall (fun e : form * list (list K) => forall x : nat -> K, form_apply 2 (fst e) (snd e) (vtab 2 x) = vtab 2 x) gen_generic_fresh_2 /\
  Forall (fun e : form * list (list K) => forall x : nat -> K, form_apply 3 (fst e) (snd e) (vtab 3 x) = vtab 3 x) gen_generic_fresh_3 /\
  (6 <= List.length (gen_generic_fresh_2 (K:=K)))%nat /\ (7 <= List.length (gen_generic_fresh_3 (K:=K)))%nat.
Proof. exact generic_fresh_identity. Qed.
Print Assumptions C06_generic_fresh_identity.

(* flip_coords = True (the transform acts on (z, y, x) coordinates): the traced sampling coordinates are pre-map in (x, y) order,
   flip, transform, flip back, source map; for a transform that ignores the component order (identity / fresh transforms) they
   coincide with the unflipped ones for any three grids *)
Theorem C06_warp_coords_flip_traced :
  forall (K : fld) (f : form) (ac : bool) (a : nat -> nat -> K) (tg g src : gridf) (x : nat -> K),
  gen_warp_coords_flip2 f ac (gN 2 tg) (gS 2 tg) (gC 2 tg) (gD 2 tg) (gN 2 g) (gS 2 g) (gC 2 g) (gD 2 g)
     (gN 2 src) (gS 2 src) (gC 2 src) (gD 2 src) (tab 2 (fcols 2 f) a) (vtab 2 x)
  = warp_coords_flip 2 f ac (tab 2 (fcols 2 f) a) tg g src (vtab 2 x).
Proof. exact gen_warp_coords_flip2_is_model. Qed.
Print Assumptions C06_warp_coords_flip_traced.

Theorem C06_warp_coords_flip_identity :
  forall (K : fld) (D : nat) (f : form) (ac : bool) (M : list (list K)) (tg g src : gridf) (xc : list K),
  (forall y, gen_forward D f M y = y) ->
  warp_coords_flip D f ac M tg g src xc = warp_coords D f ac M tg g src xc.
Proof. exact warp_coords_flip_identity. Qed.
Print Assumptions C06_warp_coords_flip_identity.

(* non-vacuity: a rotated anisotropic grid satisfies gwf, a non-trivial member list satisfies m_ok, and the world
   map of a non-trivial transform moves points *)
Definition ex_grid : gridf (K:=QcF) :=
  qgrid [q 8 1; q 6 1] [q 1 2; q 2 1] [q 3 1; q (-1) 1] [[q 3 5; q (-4) 5]; [q 4 5; q 3 5]].
Definition ex_members : list (member (K:=QcF)) :=
  [(FT, [[q 1 2]; [q 0 1]]); (FA, [[q 2 1; q 0 1]; [q 0 1; q 1 1]]); (FT, [[q 1 1]; [q 1 1]])].
Example C06_nonvacuous :
  meqb (mm (K:=QcF) 2 (mT 2 (gD 2 ex_grid)) (gD 2 ex_grid)) (eye (K:=QcF) 2) = true /\
  meqb (mm (K:=QcF) 2 (gD 2 ex_grid) (mT 2 (gD 2 ex_grid))) (eye (K:=QcF) 2) = true /\
  veqb (world_map (K:=QcF) 2 FH [[q 3 5; q (-4) 5; q 1 4]; [q 4 5; q 3 5; q 0 1]] false ex_grid [q 1 1; q 2 1]) [q 1 1; q 2 1] = false /\
  veqb (m_apply (K:=QcF) 2 (seq_tensor 2 ex_members) [q 1 1; q 1 1]) [q 4 1; q 2 1] = true /\
  veqb (happly (K:=QcF) 2 (ml_tensor 2 ex_members) [q 1 1; q 1 1]) [q 7 2; q 2 1] = true.
Proof. vm_compute. repeat split. Qed.

(* non-vacuity of the round-2 hypotheses: sizes >= 2 satisfy size_ok over Qc; a coarse 2 x 2 buffer resized to a 3 x 3 lattice *)
Example C06_nonvacuous_round2 :
  qeqb (of_Z (K:=QcF) 3) (q 0 1) = false /\ qeqb (@fsub QcF (of_Z 3) (@f1 QcF)) (q 0 1) = false /\
  veqb (disp_own2 QcF floorQ false 3 3 [[q 0 1; q 1 4]; [q 1 2; q 1 1]] [[q 0 1; q 0 1]; [q 1 8; q 1 8]] 1 1) [q 7 16; q 1 16] = true /\
  veqb (seq_forward (K:=QcF) [(fun _ p => vadd (K:=QcF) p [q 1 2; q 0 1]); (fun _ p => vscale (K:=QcF) (q 2 1) p)] true [q 1 1; q 1 1])
       [q 3 1; q 2 1] = true.
Proof. vm_compute. repeat split. Qed.
