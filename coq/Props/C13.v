(* C13 -- Composition of flows and velocity fields obeys its algebra.  Statements only.
   compose{2,3} = model of compose_flows (Model/Flow.v, on the F.grid_sample model of Model/Sampler.v); gen_compose_* /
   gen_bch_terms / gen_logv_* are regenerated from core/flow.py on every run (Gen/FlowAlg.v, Gen/FlowBCH.v), gen_lie2/3 by the C12 unit
   (Gen/FlowDeriv.v). *)
From Coq Require Import ZArith QArith Qcanon List Lia.
From DV Require Import Base.Field Base.FieldFacts Base.LinAlg Base.QcInst Model.Sampler Model.SamplerQc Model.Flow Model.FlowQc
  Model.BCH Model.Lie Gen.FlowAlg Gen.FlowBCH Gen.FlowDeriv Proofs.C11Interp Proofs.C11Compose Proofs.C11Compose3 Proofs.C11Expv Proofs.C11Gen
  Proofs.C13Compose Proofs.C13Lie Proofs.C13BCH Proofs.C13Spacing Model.Lattice.
Import ListNotations.

Section Statements.
Local Open Scope fld_scope.
Variable K : fld.
Hypothesis Kf : is_field K.
Hypothesis Kc : char0 K.
Variable floorK : K -> Z.

(* 1. exact on affine fields that stay inside the domain: u = displacement of A, v = displacement of B, every sample
      position A c + a (c a lattice point) selects a cell inside the sample hull  ==>  compose_flows(u, v) is the
      displacement field of B o A at every lattice point; every lattice size >= 2, both conventions *)
Theorem C13_compose_affine_exact_2d :
  forall (ac : bool) (nx ny : Z) (a00 a01 t0 a10 a11 t1 b00 b01 s0 b10 b11 s1 : K), (2 <= nx)%Z -> (2 <= ny)%Z ->
  cells_ok2 floorK ac nx ny (H2 a00 a01 t0 a10 a11 t1) ->
  compose2 floorK ac (aff_field2 ac nx ny (H2 a00 a01 t0 a10 a11 t1)) (aff_field2 ac nx ny (H2 b00 b01 s0 b10 b11 s1))
  = aff_field2 ac nx ny (hcomp 2 (H2 b00 b01 s0 b10 b11 s1) (H2 a00 a01 t0 a10 a11 t1)).
Proof. exact (compose2_affine K Kf Kc floorK). Qed.
Theorem C13_compose_affine_exact_3d :
  forall (ac : bool) (nx ny nz : Z)
    (a00 a01 a02 t0 a10 a11 a12 t1 a20 a21 a22 t2 b00 b01 b02 s0 b10 b11 b12 s1 b20 b21 b22 s2 : K),
  (2 <= nx)%Z -> (2 <= ny)%Z -> (2 <= nz)%Z ->
  cells_ok3 floorK ac nx ny nz (H3 a00 a01 a02 t0 a10 a11 a12 t1 a20 a21 a22 t2) ->
  compose3 floorK ac (aff_field3 ac nx ny nz (H3 a00 a01 a02 t0 a10 a11 a12 t1 a20 a21 a22 t2))
                     (aff_field3 ac nx ny nz (H3 b00 b01 b02 s0 b10 b11 b12 s1 b20 b21 b22 s2))
  = aff_field3 ac nx ny nz (hcomp 3 (H3 b00 b01 b02 s0 b10 b11 b12 s1 b20 b21 b22 s2)
                                    (H3 a00 a01 a02 t0 a10 a11 a12 t1 a20 a21 a22 t2)).
Proof. exact (compose3_affine K Kf Kc floorK). Qed.

(* 2. the zero field is a two-sided identity, for ARBITRARY fields on any lattice (left identity needs the sampler's floor
      to be a floor on integers: sampling at the lattice's own coordinates, un-normalised with the same convention,
      returns the stored samples) *)
Theorem C13_zero_right_identity :
  forall ac nx ny nz f0 f1 g0 g1 g2, (1 <= nx)%Z -> (1 <= ny)%Z -> (1 <= nz)%Z ->
  compose2 floorK ac (field2 K nx ny f0 f1) (zero2 K nx ny) = field2 K nx ny f0 f1 /\
  compose3 floorK ac (field3 K nx ny nz g0 g1 g2) (zero3 K nx ny nz) = field3 K nx ny nz g0 g1 g2.
Proof.
  intros. split; [now apply (compose2_zero_r K Kf) | now apply (compose3_zero_r K Kf)].
Qed.
Theorem C13_zero_left_identity :
  (forall i : Z, floorK (of_Z i) = i) ->
  forall ac nx ny nz f0 f1 g0 g1 g2, (2 <= nx)%Z -> (2 <= ny)%Z -> (2 <= nz)%Z ->
  compose2 floorK ac (zero2 K nx ny) (field2 K nx ny f0 f1) = field2 K nx ny f0 f1 /\
  compose3 floorK ac (zero3 K nx ny nz) (field3 K nx ny nz g0 g1 g2) = field3 K nx ny nz g0 g1 g2.
Proof.
  intros Hf **. split; [now apply (compose2_zero_l K Kf Kc floorK Hf) | now apply (compose3_zero_l K Kf Kc floorK Hf)].
Qed.

(* 3. compose_flows honours the convention it is given: the flag reaches BOTH Grid.coords and F.grid_sample (generated
      from the source), i.e. the traced function is the model `compose ac`, for which 1. and 2. hold in that convention *)
Theorem C13_compose_honours_align_corners :
  forall ac,
  gen_compose_gac ac = ac /\ gen_compose_sac ac = ac /\ gen_compose_pad ac = PBorder /\
  (forall u v, gen_compose_flows (compose2g floorK) ac u v = compose2 floorK ac u v) /\
  (forall u v, gen_compose_flows (compose3g floorK) ac u v = compose3 floorK ac u v).
Proof.
  intro ac. repeat split; try (destruct ac; reflexivity).
Qed.

(* 4. the Lie bracket (generated formula over Jacobians, any LINEAR derivative operator dx, any set of sample points) is
      bilinear and antisymmetric *)
Theorem C13_lie_bracket_bilinear_2d :
  forall (P : Type) (dx : nat -> (P -> K) -> P -> K), linear_op P dx ->
  forall (c : K) (v v' u u' : vf2 P),
  veq2 P (lie2 P dx (vadd2 P v v') u) (vadd2 P (lie2 P dx v u) (lie2 P dx v' u)) /\
  veq2 P (lie2 P dx v (vadd2 P u u')) (vadd2 P (lie2 P dx v u) (lie2 P dx v u')) /\
  veq2 P (lie2 P dx (vscale2 P c v) u) (vscale2 P c (lie2 P dx v u)) /\
  veq2 P (lie2 P dx v (vscale2 P c u)) (vscale2 P c (lie2 P dx v u)).
Proof.
  intros P dx Hl c v v' u u'. split; [|split; [|split]];
    [apply (lie2_add_l K Kf P dx Hl) | apply (lie2_add_r K Kf P dx Hl) | apply (lie2_scale_l K Kf P dx Hl) | apply (lie2_scale_r K Kf P dx Hl)].
Qed.
Theorem C13_lie_bracket_bilinear_3d :
  forall (P : Type) (dx : nat -> (P -> K) -> P -> K), linear_op P dx ->
  forall (c : K) (v v' u u' : vf3 P),
  veq3 P (lie3 P dx (vadd3 P v v') u) (vadd3 P (lie3 P dx v u) (lie3 P dx v' u)) /\
  veq3 P (lie3 P dx v (vadd3 P u u')) (vadd3 P (lie3 P dx v u) (lie3 P dx v u')) /\
  veq3 P (lie3 P dx (vscale3 P c v) u) (vscale3 P c (lie3 P dx v u)) /\
  veq3 P (lie3 P dx v (vscale3 P c u)) (vscale3 P c (lie3 P dx v u)).
Proof.
  intros P dx Hl c v v' u u'. split; [|split; [|split]];
    [apply (lie3_add_l K Kf P dx Hl) | apply (lie3_add_r K Kf P dx Hl) | apply (lie3_scale_l K Kf P dx Hl) | apply (lie3_scale_r K Kf P dx Hl)].
Qed.
Theorem C13_lie_bracket_antisymmetric :
  forall (P : Type) (dx : nat -> (P -> K) -> P -> K), linear_op P dx ->
  (forall v u : vf2 P, veq2 P (lie2 P dx v u) (vscale2 P (- (1)) (lie2 P dx u v))) /\
  (forall v u : vf3 P, veq3 P (lie3 P dx v u) (vscale3 P (- (1)) (lie3 P dx u v))) /\
  (forall v : vf2 P, veq2 P (lie2 P dx v v) (fun _ => 0, fun _ => 0)) /\
  (forall v : vf3 P, veq3 P (lie3 P dx v v) (fun _ => 0, fun _ => 0, fun _ => 0)).
Proof.
  intros P dx Hl. split; [|split; [|split]];
    [apply (lie2_antisym K Kf P dx Hl) | apply (lie3_antisym K Kf P dx Hl) | apply (lie2_self K Kf P dx) | apply (lie3_self K Kf P dx)].
Qed.

(* 4b. lie_bracket AS CODED: both Jacobians are computed with ALL of the caller's derivative options (mode, sigma, spacing,
       stride -- generated from the source by recording the flow_derivatives calls), i.e. by one and the same operator; hence, for
       any family dxo of linear operators indexed by the forwarded options (finite differences, Gaussian smoothing, ...), the
       coded bracket is bilinear, antisymmetric and [v, v] = 0 *)
Theorem C13_lie_bracket_forwards_all_options :
  gen_lie_opts_first_arg = (true, true, true, true) /\ gen_lie_opts_second_arg = (true, true, true, true).
Proof. exact gen_lie_opts_all. Qed.
Theorem C13_lie_bracket_code_2d :
  forall (P : Type) (dxo : lopts -> nat -> (P -> K) -> P -> K), (forall o, linear_opg P (dxo o)) ->
  forall (c : K) (v v' u u' : vf2 P),
  veq2 P (lie2_code P dxo v u) (vscale2 P (- (1)) (lie2_code P dxo u v)) /\
  veq2 P (lie2_code P dxo v v) (fun _ => 0, fun _ => 0) /\
  veq2 P (lie2_code P dxo (vadd2 P v v') u) (vadd2 P (lie2_code P dxo v u) (lie2_code P dxo v' u)) /\
  veq2 P (lie2_code P dxo v (vadd2 P u u')) (vadd2 P (lie2_code P dxo v u) (lie2_code P dxo v u')) /\
  veq2 P (lie2_code P dxo (vscale2 P c v) u) (vscale2 P c (lie2_code P dxo v u)) /\
  veq2 P (lie2_code P dxo v (vscale2 P c u)) (vscale2 P c (lie2_code P dxo v u)).
Proof.
  intros P dxo Hl c v v' u u'. split; [apply (lie2_code_antisym K Kf P dxo Hl)|].
  split; [apply (lie2_code_self K Kf P dxo)|]. apply (lie2_code_bilinear K Kf P dxo Hl).
Qed.
Theorem C13_lie_bracket_code_3d :
  forall (P : Type) (dxo : lopts -> nat -> (P -> K) -> P -> K), (forall o, linear_opg P (dxo o)) ->
  forall (c : K) (v v' u u' : vf3 P),
  veq3 P (lie3_code P dxo v u) (vscale3 P (- (1)) (lie3_code P dxo u v)) /\
  veq3 P (lie3_code P dxo v v) (fun _ => 0, fun _ => 0, fun _ => 0) /\
  veq3 P (lie3_code P dxo (vadd3 P v v') u) (vadd3 P (lie3_code P dxo v u) (lie3_code P dxo v' u)) /\
  veq3 P (lie3_code P dxo v (vadd3 P u u')) (vadd3 P (lie3_code P dxo v u) (lie3_code P dxo v u')) /\
  veq3 P (lie3_code P dxo (vscale3 P c v) u) (vscale3 P c (lie3_code P dxo v u)) /\
  veq3 P (lie3_code P dxo v (vscale3 P c u)) (vscale3 P c (lie3_code P dxo v u)).
Proof.
  intros P dxo Hl c v v' u u'. split; [apply (lie3_code_antisym K Kf P dxo Hl)|].
  split; [apply (lie3_code_self K Kf P dxo)|]. apply (lie3_code_bilinear K Kf P dxo Hl).
Qed.

(* 5. BCH: the generated coefficients and nesting are the documented table, and for commuting fields every truncation
      order in [0, 5] is v + u -- in any vector space F with a bracket that is linear in its second argument *)
Theorem C13_bch_table : forall terms, (terms <= 5)%nat -> gen_bch_terms terms = bch_table terms.
Proof. exact gen_bch_is_table. Qed.
Theorem C13_bch_commuting :
  forall (F : Type) (zero : F) (add : F -> F -> F) (smul : K -> F -> F) (lb : F -> F -> F),
  (forall x, add zero x = x) -> (forall x, add x zero = x) -> (forall x, smul 1 x = x) -> (forall c, smul c zero = zero) ->
  (forall a, lb a zero = zero) ->
  forall (terms : nat) (u v : F), (terms <= 5)%nat -> lb v u = zero ->
  bch_eval F zero add smul lb u v (gen_bch_terms terms) = add v u.
Proof. exact (bch_commuting K Kf). Qed.

(* 6. logv: every flag reaching Grid.coords / F.grid_sample inside logv -- in its expv step and in its compose_flows
      step -- is the caller's align_corners, with border padding (generated from the source); compose_flows accepts batches *)
Theorem C13_logv_forwards_align_corners :
  forall ac, gen_logv_expv_gac ac = ac /\ gen_logv_expv_sac ac = ac /\ gen_logv_compose_gac ac = ac /\ gen_logv_compose_sac ac = ac /\
             gen_logv_expv_pad ac = PBorder /\ gen_logv_compose_pad ac = PBorder.
Proof. intro ac. repeat split; destruct ac; reflexivity. Qed.
Theorem C13_compose_flows_batched : gen_compose_flows_batched = true.
Proof. reflexivity. Qed.
Theorem C13_compose_coordinates_in_field_dtype : gen_compose_coords_in_field_dtype = true.
Proof. reflexivity. Qed.
End Statements.

(* 7. logv(spacing=None) differentiates its BCH brackets with the distance of neighbouring grid points of the convention it is
      given (generated by recording the compose_svfs call for sizes 2..9 and both flags; None = flow_derivatives' default, verified
      to be 2/(n-1)): 2/(n-1) for align_corners=True, 2/n for False = coordinate of sample 1 minus coordinate of sample 0;
      an explicit spacing, sigma and bch_terms are forwarded unchanged (checked on the trace) *)
Theorem C13_logv_bracket_spacing_is_grid_distance :
  (forall ac n, In n [2; 3; 4; 5; 6; 7; 8; 9]%Z ->
     (gen_logv_bch_spacing ac n == (if ac then 2 / (inject_Z n - 1) else 2 / inject_Z n))%Q) /\
  forallb (fun n => spacing_ok true n && spacing_ok false n) [2; 3; 4; 5; 6; 7; 8; 9]%Z = true.
Proof. split; [exact logv_spacing_closed_form | exact logv_spacing_is_grid_distance]. Qed.
Print Assumptions C13_logv_bracket_spacing_is_grid_distance.

Print Assumptions C13_compose_affine_exact_2d.
Print Assumptions C13_compose_affine_exact_3d.
Print Assumptions C13_zero_right_identity.
Print Assumptions C13_zero_left_identity.
Print Assumptions C13_compose_honours_align_corners.
Print Assumptions C13_lie_bracket_bilinear_2d.
Print Assumptions C13_lie_bracket_bilinear_3d.
Print Assumptions C13_lie_bracket_antisymmetric.
Print Assumptions C13_lie_bracket_forwards_all_options.
Print Assumptions C13_lie_bracket_code_2d.
Print Assumptions C13_lie_bracket_code_3d.
Print Assumptions C13_bch_table.
Print Assumptions C13_bch_commuting.
Print Assumptions C13_logv_forwards_align_corners.
Print Assumptions C13_compose_flows_batched.
Print Assumptions C13_compose_coordinates_in_field_dtype.

(* PARTIAL clauses, not proved (quantitative statements about discretised smooth fields; explored numerically on the
   implementation by tools/props/c13.py:search): BCH error for non-commuting fields does not grow with the truncation
   order; logv(expv(v)) returns v within a bound, independent of align_corners. *)

(* non-vacuity: (a) the two conventions really differ: coordinates of one, sampling of the other does not return the
   stored samples; (b) the hypotheses of the commuting-BCH theorem are satisfiable by a non-trivial bracket: 2 x 2
   matrices with the commutator (diagonal matrices commute, and the commutator is not identically zero) *)
Definition mcomm (a b : list (list Qc)) : list (list Qc) :=
  madd (K:=QcF) (mm (K:=QcF) 2 a b) (mscale (K:=QcF) (q (-1) 1) (mm (K:=QcF) 2 b a)).
Example C13_nonvacuous :
  let v := [[[q 1 2; q 1 4; q 0 1]; [q (-1) 4; q 1 8; q 3 8]]; [[q 0 1; q 1 8; q 1 4]; [q 1 2; q (-1) 8; q 0 1]]] in
  let z := [[[q 0 1; q 0 1; q 0 1]; [q 0 1; q 0 1; q 0 1]]; [[q 0 1; q 0 1; q 0 1]; [q 0 1; q 0 1; q 0 1]]] in
  feqb2 (compose2g (K:=QcF) floorQ true true PBorder z v) v = true /\
  feqb2 (compose2g (K:=QcF) floorQ false false PBorder z v) v = true /\
  feqb2 (compose2g (K:=QcF) floorQ false true PBorder z v) v = false /\
  (let a := [[q 2 1; q 0 1]; [q 0 1; q 3 1]] in let b := [[q 5 1; q 0 1]; [q 0 1; q (-1) 1]] in
   let c := [[q 0 1; q 1 1]; [q 1 1; q 0 1]] in
   meqb (mcomm a b) [[q 0 1; q 0 1]; [q 0 1; q 0 1]] = true /\ meqb (mcomm a c) [[q 0 1; q 0 1]; [q 0 1; q 0 1]] = false).
Proof. vm_compute. repeat split; reflexivity. Qed.
