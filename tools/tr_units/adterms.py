"""Gen/ADTerms.v -- differentiable deepali functions as terms of the AD expression language (Model/AD.v).

Each family of tools/adfam.py is executed from the source text on symbolic leaf tensors; the traced outputs
(expression trees over + - * / neg and sqrt exp log tanh sin cos) are emitted verbatim as `expr` terms, variables
numbered in leaf order.  Anything outside that vocabulary aborts the unit (fail-closed)."""
import types

import numpy as np

import adfam
import symtorch as st
from symtorch import E, TraceError

UF = {"sqrt": "Usqrt", "exp": "Uexp", "log": "Uln", "tanh": "Utanh", "sin": "Usin", "cos": "Ucos"}
BIN = {"add": "EAdd", "sub": "ESub", "mul": "EMul", "div": "EDiv"}


def to_ad(e, index, memo):
    k = id(e)
    if k in memo:
        return memo[k]
    if e.op == "const":
        v = e.args[0]
        r = f"(EC ({v.numerator} # {v.denominator}))"
    elif e.op == "var":
        if e.args[0] not in index:
            raise TraceError(f"free symbol {e.args[0]} is not an input of the family")
        r = f"(EV {index[e.args[0]]})"
    elif e.op == "neg":
        r = f"(ENeg {to_ad(e.args[0], index, memo)})"
    elif e.op in BIN:
        r = f"({BIN[e.op]} {to_ad(e.args[0], index, memo)} {to_ad(e.args[1], index, memo)})"
    elif e.op == "fn":
        name = e.args[0]
        if name == "tan":
            a = to_ad(e.args[1], index, memo)
            r = f"(EDiv (EU Usin {a}) (EU Ucos {a}))"
        elif name in UF:
            r = f"(EU {UF[name]} {to_ad(e.args[1], index, memo)})"
        else:
            raise TraceError(f"function {name} is outside the AD language")
    else:
        raise TraceError(f"node {e.op} is outside the AD language")
    memo[k] = r
    return r


def modules(loader):
    m = types.SimpleNamespace()
    m.torch = st
    m.affine = loader.load("deepali.core.affine")
    m.linalg = loader.load("deepali.core.linalg")
    m.kornia = loader.load("deepali.core._kornia")
    m.losses = loader.load("deepali.losses.functional")
    m.flow = loader.load("deepali.core.flow")
    return m


def leaves(fam):
    ts, index, k = [], {}, 0
    for j, shape in enumerate(fam.shapes):
        a = np.empty(shape, dtype=object)
        for idx in np.ndindex(*shape):
            name = f"v{j}_" + "_".join(str(i) for i in idx)
            a[idx] = E.var(name)
            index[name] = k
            k += 1
        ts.append(st.Tensor(a))
    return ts, index


def trace(fam, m):
    ts, index = leaves(fam)
    out = fam.call(m, *ts)
    a = out.a if isinstance(out, st.Tensor) else np.array(out, dtype=object)
    st._check_init(a)
    flat = [E.const(x) for x in a.reshape(-1)]
    return flat, list(a.shape), index


def generate(loader):
    m = modules(loader)
    out = ["From Coq Require Import QArith String.", "From DV Require Import Model.AD.", "Local Open Scope string_scope.", ""]
    names = []
    for fam in adfam.FAMILIES:
        flat, shape, index = trace(fam, m)
        memo = {}
        terms = [to_ad(e, index, memo) for e in flat]
        out.append(f"(* {fam.name}: {fam.note or 'traced'}; {fam.nvars()} variables, output shape {shape} *)")
        out.append(f"Definition gen_ad_{fam.name} : list expr :=\n  [" + ";\n   ".join(terms) + "].\n")
        names.append(f"(\"{fam.name}\", ({fam.nvars()}%nat, gen_ad_{fam.name}))")
    out.append("Definition gen_ad_families : list (string * (nat * list expr)) :=\n  [" + ";\n   ".join(names) + "].\n")
    return "\n".join(out)
