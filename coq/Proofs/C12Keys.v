(* C12: key handling -- the table-building loop of spatial_derivatives gives every requested key the value that
   key stands for, whatever else is requested (subset = all restricted), and mixed keys are symmetric. *)
From Coq Require Import ZArith List Lia Bool Permutation.
From DV Require Import Model.FiniteDiff.
Import ListNotations.

Section Proofs.
Variable V : Type.
Variable data : V.
Variable step : nat -> V -> V.
Notation lookup := (lookup V).
Notation dcode := (dcode V data step).
Notation visit := (visit V data step).
Notation round := (round V data step).
Notation build := (build V data step).

Lemma code_eqb_eq a b : code_eqb a b = true <-> a = b.
Proof.
  revert b. induction a as [|x a IH]; intros [|y b]; cbn; split; intro H; try congruence; try reflexivity.
  - apply andb_true_iff in H. destruct H as [H1 H2]. apply Nat.eqb_eq in H1. apply IH in H2. congruence.
  - injection H as -> ->. apply andb_true_iff. split; [apply Nat.eqb_refl|apply IH; reflexivity].
Qed.

Lemma code_eqb_refl a : code_eqb a a = true.
Proof. apply code_eqb_eq. reflexivity. Qed.

(* table invariant: every entry holds the value its key stands for *)
Definition sound (t : list (list nat * V)) : Prop := forall k v, lookup t k = Some v -> v = dcode k.

Lemma dcode_snoc (k : list nat) (a : nat) : dcode (k ++ [a]) = step a (dcode k).
Proof. unfold dcode, FiniteDiff.dcode. rewrite rev_app_distr. reflexivity. Qed.

Lemma firstn_S_snoc (c : list nat) (i : nat) : (i < length c)%nat -> firstn (S i) c = firstn i c ++ [nth i c 0%nat].
Proof.
  revert i. induction c as [|x c IH]; intros i H; [cbn in H; lia|].
  destruct i as [|i]; [reflexivity|]. cbn [firstn nth app]. rewrite <- IH by (cbn in H; lia). reflexivity.
Qed.

Lemma lookup_cons_other t k k' (v : V) : k' <> k -> lookup ((k', v) :: t) k = lookup t k.
Proof.
  intro H. cbn. destruct (code_eqb k' k) eqn:E; [apply code_eqb_eq in E; congruence|reflexivity].
Qed.

Lemma visit_sound i t c : sound t -> sound (visit i t c).
Proof.
  intro Snd. unfold FiniteDiff.visit.
  destruct (i <? length c)%nat eqn:L; [apply Nat.ltb_lt in L|exact Snd].
  destruct (lookup t (firstn (S i) c)) eqn:E; [exact Snd|].
  assert (X : forall v, (match i with O => Some data | S _ => lookup t (firstn i c) end) = Some v -> v = dcode (firstn i c)).
  { intros v H. destruct i as [|i]; [cbn in H; inversion H; reflexivity|apply Snd; exact H]. }
  destruct (match i with O => Some data | S _ => lookup t (firstn i c) end) as [v|] eqn:Es; [|exact Snd].
  intros k w. cbn [FiniteDiff.lookup]. destruct (code_eqb (firstn (S i) c) k) eqn:Ek; intro H.
  - apply code_eqb_eq in Ek. injection H as <-. subst k. rewrite (X v eq_refl).
    rewrite firstn_S_snoc by exact L. symmetry. apply dcode_snoc.
  - apply Snd. exact H.
Qed.

(* entries are never removed or changed *)
Lemma visit_mono i t c k v : lookup t k = Some v -> lookup (visit i t c) k = Some v.
Proof.
  intro H. unfold FiniteDiff.visit.
  destruct (i <? length c)%nat; [|exact H].
  destruct (lookup t (firstn (S i) c)) eqn:E; [exact H|].
  destruct (match i with O => Some data | S _ => lookup t (firstn i c) end); [|exact H].
  cbn [FiniteDiff.lookup]. destruct (code_eqb (firstn (S i) c) k) eqn:Ek; [apply code_eqb_eq in Ek; subst; congruence|exact H].
Qed.

Definition has (t : list (list nat * V)) (k : list nat) : Prop := exists v, lookup t k = Some v.

Lemma visit_has_mono i t c k : has t k -> has (visit i t c) k.
Proof. intros [v H]. exists v. apply visit_mono. exact H. Qed.

Lemma fold_visit_mono i codes : forall t k, has t k -> has (fold_left (visit i) codes t) k.
Proof. induction codes as [|c r IH]; intros t k H; [exact H|]. cbn. apply IH. apply visit_has_mono. exact H. Qed.

Lemma fold_visit_sound i codes : forall t, sound t -> sound (fold_left (visit i) codes t).
Proof. induction codes as [|c r IH]; intros t Snd; [exact Snd|]. cbn. apply IH. apply visit_sound. exact Snd. Qed.

(* visiting c at level i puts its prefix of length i+1 into the table, provided the shorter prefix is there *)
Lemma visit_adds i t c : (i < length c)%nat -> (i = 0%nat \/ has t (firstn i c)) -> has (visit i t c) (firstn (S i) c).
Proof.
  intros L P. unfold FiniteDiff.visit. replace (i <? length c)%nat with true by (symmetry; apply Nat.ltb_lt; exact L).
  destruct (lookup t (firstn (S i) c)) eqn:E; [exists v; exact E|].
  destruct i as [|i].
  - eexists. cbn [FiniteDiff.lookup]. rewrite code_eqb_refl. reflexivity.
  - destruct P as [P|[v P]]; [lia|]. rewrite P. eexists. cbn [FiniteDiff.lookup]. rewrite code_eqb_refl. reflexivity.
Qed.

Lemma fold_visit_adds i codes : forall t c, In c codes -> (i < length c)%nat ->
  (i = 0%nat \/ has t (firstn i c)) -> has (fold_left (visit i) codes t) (firstn (S i) c).
Proof.
  induction codes as [|c0 r IH]; intros t c Hin L P; [destruct Hin|].
  cbn. destruct Hin as [->|Hin].
  - apply fold_visit_mono. apply visit_adds; assumption.
  - apply IH; try assumption. destruct P as [P|P]; [left; exact P|right; apply visit_has_mono; exact P].
Qed.

(* after rounds 0 .. n-1 every prefix of length <= n of every code is in the table *)
Lemma rounds_complete codes : forall n t0, sound t0 ->
  let t := fold_left (round codes) (seq 0 n) t0 in
  sound t /\ (forall c j, In c codes -> (j < n)%nat -> (j < length c)%nat -> has t (firstn (S j) c)) /\
  (forall k, has t0 k -> has t k).
Proof.
  induction n as [|n IH]; intros t0 S0.
  - cbn. repeat split; auto. intros; lia.
  - rewrite seq_S, fold_left_app. cbn [fold_left plus]. destruct (IH t0 S0) as [Snd [C M]].
    set (t := fold_left (round codes) (seq 0 n) t0) in *. unfold FiniteDiff.round.
    split; [apply fold_visit_sound; exact Snd|]. split.
    + intros c j Hin Hj L. destruct (Nat.eq_dec j n) as [->|Hne].
      * apply fold_visit_adds; try assumption. destruct n as [|n']; [left; reflexivity|right].
        apply C; try assumption; lia.
      * apply fold_visit_mono. apply C; try assumption. lia.
    + intros k H. apply fold_visit_mono. apply M. exact H.
Qed.

Lemma max_order_ge codes c : In c codes -> (length c <= max_order codes)%nat.
Proof.
  induction codes as [|c0 r IH]; intro H; [destruct H|].
  change (max_order (c0 :: r)) with (Nat.max (length c0) (max_order r)).
  destruct H as [->|H]; [lia|]. specialize (IH H). lia.
Qed.

(* every non-empty requested code gets the value it stands for *)
Theorem build_correct codes maxo c : In c codes -> c <> [] -> (length c <= maxo)%nat ->
  lookup (build codes maxo) c = Some (dcode c).
Proof.
  intros Hin Hne Hm. unfold FiniteDiff.build.
  assert (S0 : sound []) by (intros k v H; discriminate H).
  destruct (rounds_complete codes maxo [] S0) as [Snd [C _]].
  assert (L : (length c - 1 < length c)%nat) by (destruct c; [congruence|cbn; lia]).
  destruct (C c (length c - 1)%nat Hin ltac:(lia) L) as [v H].
  replace (S (length c - 1)) with (length c) in H by lia. rewrite firstn_all in H.
  rewrite H. f_equal. apply Snd. exact H.
Qed.

Lemma length_insert_sorted a l : length (insert_sorted a l) = S (length l).
Proof. induction l as [|b r IH]; cbn; [reflexivity|]. destruct (a <=? b)%nat; cbn; [reflexivity|rewrite IH; reflexivity]. Qed.

Lemma length_sort_code c : length (sort_code c) = length c.
Proof.
  induction c as [|a r IH]; [reflexivity|]. change (sort_code (a :: r)) with (insert_sorted a (sort_code r)).
  rewrite length_insert_sorted, IH. reflexivity.
Qed.

Lemma max_order_map_sort which : max_order (map sort_code which) = max_order which.
Proof.
  induction which as [|c r IH]; [reflexivity|].
  change (max_order (map sort_code (c :: r))) with (Nat.max (length (sort_code c)) (max_order (map sort_code r))).
  rewrite length_sort_code, IH. reflexivity.
Qed.

(* spatial_derivatives: each requested key maps to the derivative along its sorted letters -- a function of
   the key alone, so requesting a subset returns the same values as requesting all *)
Theorem sderivs_value which k : In k which -> k <> [] ->
  In (k, Some (dcode (sort_code k))) (sderivs V data step which).
Proof.
  intros Hin Hne. unfold sderivs. apply in_map_iff. exists k. split; [|exact Hin]. f_equal.
  apply build_correct.
  - apply in_map. exact Hin.
  - intro E. apply (f_equal (@length nat)) in E. rewrite length_sort_code in E. destruct k; [congruence|discriminate E].
  - rewrite length_sort_code. apply max_order_ge. exact Hin.
Qed.

Theorem subset_equals_all (all sub : list (list nat)) k : incl sub all -> In k sub -> k <> [] ->
  exists v, In (k, Some v) (sderivs V data step sub) /\ In (k, Some v) (sderivs V data step all).
Proof.
  intros Hi Hk Hne. exists (dcode (sort_code k)). split; apply sderivs_value; auto.
Qed.

(* mixed derivatives: keys that are permutations of each other have the same sorted form, hence the same value *)
Lemma insert_sorted_perm a l : Permutation (insert_sorted a l) (a :: l).
Proof.
  induction l as [|b r IH]; cbn; [apply Permutation_refl|]. destruct (a <=? b)%nat; [apply Permutation_refl|].
  eapply Permutation_trans; [apply perm_skip; exact IH|apply perm_swap].
Qed.

Inductive sorted_nat : list nat -> Prop :=
| sn_nil : sorted_nat []
| sn_one a : sorted_nat [a]
| sn_cons a b l : (a <= b)%nat -> sorted_nat (b :: l) -> sorted_nat (a :: b :: l).

Lemma insert_sorted_sorted a l : sorted_nat l -> sorted_nat (insert_sorted a l).
Proof.
  induction 1 as [|b|b c l Hbc Hs IH]; cbn.
  - constructor.
  - destruct (Nat.leb_spec a b); constructor; try lia; constructor.
  - destruct (Nat.leb_spec a b); [constructor; [lia|constructor; assumption]|].
    cbn in IH. destruct (Nat.leb_spec a c); constructor; try lia; assumption.
Qed.

Lemma sort_code_sorted c : sorted_nat (sort_code c).
Proof.
  induction c as [|a r IH]; [constructor|]. change (sort_code (a :: r)) with (insert_sorted a (sort_code r)).
  apply insert_sorted_sorted; assumption.
Qed.

Lemma sort_code_perm c : Permutation (sort_code c) c.
Proof.
  induction c as [|a r IH]; [constructor|]. change (sort_code (a :: r)) with (insert_sorted a (sort_code r)).
  eapply Permutation_trans; [apply insert_sorted_perm|].
  apply perm_skip. exact IH.
Qed.

Lemma sorted_head_min a l : sorted_nat (a :: l) -> forall x, In x l -> (a <= x)%nat.
Proof.
  revert a. induction l as [|b r IH]; intros a H x Hx; [destruct Hx|].
  inversion H; subst. destruct Hx as [<-|Hx]; [assumption|]. specialize (IH b H4 x Hx). lia.
Qed.

Lemma sorted_perm_eq l1 : forall l2, sorted_nat l1 -> sorted_nat l2 -> Permutation l1 l2 -> l1 = l2.
Proof.
  induction l1 as [|a r IH]; intros l2 S1 S2 P.
  - apply Permutation_nil in P. congruence.
  - destruct l2 as [|b r2]; [apply Permutation_sym, Permutation_nil in P; discriminate|].
    assert (a = b).
    { assert (In a (b :: r2)) by (eapply Permutation_in; [exact P|left; reflexivity]).
      assert (In b (a :: r)) by (eapply Permutation_in; [apply Permutation_sym; exact P|left; reflexivity]).
      destruct H as [->|Ha]; [reflexivity|]. destruct H0 as [->|Hb]; [reflexivity|].
      pose proof (sorted_head_min b r2 S2 a Ha). pose proof (sorted_head_min a r S1 b Hb). lia. }
    subst b. f_equal. apply IH.
    + inversion S1; subst; [constructor|assumption].
    + inversion S2; subst; [constructor|assumption].
    + eapply Permutation_cons_inv. exact P.
Qed.

Theorem mixed_keys_symmetric (k1 k2 : list nat) : Permutation k1 k2 -> sort_code k1 = sort_code k2.
Proof.
  intro P. apply sorted_perm_eq; try apply sort_code_sorted.
  eapply Permutation_trans; [apply sort_code_perm|]. eapply Permutation_trans; [exact P|].
  apply Permutation_sym, sort_code_perm.
Qed.
End Proofs.
