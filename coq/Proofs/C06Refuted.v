(* C06: concrete witnesses (over the executable instance Qc) for the clauses the faithful model refutes. *)
From Coq Require Import ZArith QArith Qcanon List Bool Lia.
From DV Require Import Base.Field Base.LinAlg Base.QcInst Model.Enums Model.Homog Model.Grid Model.Sampler Model.SamplerQc
  Model.Transform Model.TransformQc Gen.Hmm Gen.GridT Gen.Transform.
Import ListNotations.

Lemma qeqb_refl (a : Qc) : qeqb a a = true.
Proof. unfold qeqb. apply Qeq_eq_bool. reflexivity. Qed.
Lemma veqb_refl (a : list Qc) : veqb a a = true.
Proof. induction a as [|x a IH]; [reflexivity|]. cbn. now rewrite qeqb_refl, IH. Qed.
Lemma veqb_neq (a b : list Qc) : veqb a b = false -> a <> b.
Proof. intros H E. subst. rewrite veqb_refl in H. discriminate. Qed.


Definition I2 : list (list Qc) := [[q 1 1; q 0 1]; [q 0 1; q 1 1]].

(* dense field of a linear transform on a grid with ANOTHER domain: affine_flow applies the matrix, which is
   defined in the own grid's cube coordinates, to the other grid's cube coordinates.  Translation by 1/2 cube
   units of an 8 x 6 grid = 2 world units; on the 16 x 6 grid of the same spacing the field should be 1/4. *)
Definition g_own := qgrid [q 8 1; q 6 1] [q 1 1; q 2 1] [q 3 1; q (-1) 1] I2.
Definition g_other := qgrid [q 16 1; q 6 1] [q 1 1; q 2 1] [q 3 1; q (-1) 1] I2.
Definition tr_half : list (list Qc) := [[q 1 2]; [q 0 1]].
Lemma disp_other_grid_refuted :
  exists (M : list (list Qc)) (g h : gridf (K:=QcF)) (x : list Qc),
    view_disp (K:=QcF) 2 FT M x <> field_of_world_map (K:=QcF) 2 (world_map (K:=QcF) 2 FT M false g) false h x /\
    view_disp (K:=QcF) 2 FT M x = [q 1 2; q 0 1] /\
    field_of_world_map (K:=QcF) 2 (world_map (K:=QcF) 2 FT M false g) false h x = [q 1 4; q 0 1].
Proof.
  exists tr_half, g_own, g_other, [q 0 1; q 0 1]. split; [|split].
  - apply veqb_neq. vm_compute. reflexivity.
  - apply veqb_eq. vm_compute. reflexivity.
  - apply veqb_eq. vm_compute. reflexivity.
Qed.
(* the same grid with the other align_corners flag is enough *)
Lemma disp_other_flag_refuted :
  view_disp (K:=QcF) 2 FT tr_half [q 0 1; q 0 1]
  <> field_of_world_map (K:=QcF) 2 (world_map (K:=QcF) 2 FT tr_half false g_own) true g_own [q 0 1; q 0 1].
Proof. apply veqb_neq. vm_compute. reflexivity. Qed.

(* ImageTransformer hands the pre-mapped target points to transform(..., grid=True): for a non-rigid
   transform the field is then RESIZED to the target's size instead of being interpolated at those points.
   Field u = (0, 1, 2, 3) / 8 on a 4-sample grid; a 2-sample target covering only part of the domain, whose
   points have transform-cube coordinates 0 and 1/3 *)
Definition u_w : list Qc := [q 0 1; q 1 8; q 2 8; q 3 8].
Definition xs_w : list Qc := [q 0 1; q 1 3].
Lemma warp_other_domain_refuted :
  warp_grid1 (K:=QcF) floorQ true u_w xs_w <> map (warp_points1 (K:=QcF) floorQ true u_w) xs_w.
Proof. apply veqb_neq. vm_compute. reflexivity. Qed.
