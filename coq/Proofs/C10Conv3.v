(* D = 3 versions of C10Conv.v / C10Repr.v: compose_flows / expv on cube vectors of either convention are the same
   index-space operation; exp as specified is representation independent. *)
From Coq Require Import ZArith List Field Ring Lia Bool.
From DV Require Import Base.Field Base.FieldFacts Base.LinAlg Base.Tactics Model.Enums Model.Homog Model.Grid Model.Sampler
  Model.Flow Model.FlowRepr Gen.GridT Proofs.SamplerFacts Proofs.C11Interp Proofs.C11Compose Proofs.C11Expv Proofs.C13Compose
  Proofs.C10Axes Proofs.C10Conv.
Import ListNotations.
Local Open Scope fld_scope.

Section Conv3.
Variable K : fld.
Hypothesis Kf : is_field K.
Hypothesis Kc : char0 K.
Add Field KFV3 : Kf.
Variable floorK : K -> Z.

Notation f3 := (Z -> Z -> Z -> K).
Lemma getp_scale_slice pad (s : K) (vol : list (list (list K))) i :
  getp pad [] (map (map (map (fmul s))) vol) i = map (map (fmul s)) (getp pad [] vol i).
Proof.
  unfold getp. destruct pad; unfold zlen; rewrite map_length.
  - destruct (inb i _); [|reflexivity]. change (@nil (list K)) with (map (map (fmul s)) []) at 1. apply map_nth.
  - change (@nil (list K)) with (map (map (fmul s)) []) at 1. apply map_nth.
Qed.
Lemma sample3_scale pad (s : K) vol p q r :
  sample3 floorK pad (map (map (map (fmul s))) vol) p q r = s * sample3 floorK pad vol p q r.
Proof.
  unfold sample3. destruct (cell floorK p) as [ix tx]. destruct (cell floorK q) as [iy ty]. destruct (cell floorK r) as [iz tz].
  unfold interp3, interp2, interp1. rewrite !getp_scale_slice, !(getp_scale_row K), !(getp_scale K Kf). unfold lerp. ring.
Qed.
Lemma gs3_scale pad ac (s : K) vol p q r :
  grid_sample3 floorK pad ac (map (map (map (fmul s))) vol) p q r = s * grid_sample3 floorK pad ac vol p q r.
Proof.
  unfold grid_sample3.
  replace (zlen (map (map (map (fmul s))) vol)) with (zlen vol) by (unfold zlen; now rewrite map_length).
  replace (zlen (hd [] (map (map (map (fmul s))) vol))) with (zlen (hd [] vol))
    by (destruct vol as [|a vol]; [reflexivity|]; cbn [map hd]; unfold zlen; now rewrite map_length).
  replace (zlen (hd [] (hd [] (map (map (map (fmul s))) vol)))) with (zlen (hd [] (hd [] vol)))
    by (destruct vol as [|[|b a] vol]; try reflexivity; cbn [map hd]; unfold zlen; now rewrite map_length).
  apply sample3_scale.
Qed.
Lemma tab3_scale (s : K) nx ny nz (g : f3) :
  tab3 nx ny nz (fun x y z => s * g x y z) = map (map (map (fmul s))) (tab3 nx ny nz g).
Proof. symmetry. apply (fscale3_tab K). Qed.

Definition to_cube3 (ac : bool) (nx ny nz : Z) (f : f3 * f3 * f3) : list (list (list (list K))) :=
  [tab3 nx ny nz (fun x y z => nscale ac nx * fst (fst f) x y z); tab3 nx ny nz (fun x y z => nscale ac ny * snd (fst f) x y z);
   tab3 nx ny nz (fun x y z => nscale ac nz * snd f x y z)].
Definition idx_comp3 (pad : padmode) (nx ny nz : Z) (f g : f3 * f3 * f3) : f3 * f3 * f3 :=
  let pos := fun x y z => (of_Z x + fst (fst f) x y z, of_Z y + snd (fst f) x y z, of_Z z + snd f x y z) in
  let smp := fun (h : f3) x y z => let '(p, q, r) := pos x y z in sample3 floorK pad (tab3 nx ny nz h) p q r in
  (fun x y z => fst (fst f) x y z + smp (fst (fst g)) x y z, fun x y z => snd (fst f) x y z + smp (snd (fst g)) x y z,
   fun x y z => snd f x y z + smp (snd g) x y z).

Theorem compose3_is_index_space ac pad nx ny nz f g : (2 <= nx)%Z -> (2 <= ny)%Z -> (2 <= nz)%Z ->
  compose3g floorK ac ac pad (to_cube3 ac nx ny nz f) (to_cube3 ac nx ny nz g) = to_cube3 ac nx ny nz (idx_comp3 pad nx ny nz f g).
Proof.
  intros Hx Hy Hz. destruct f as [[f0 f1] f2], g as [[g0 g1] g2]. unfold to_cube3, compose3g, idx_comp3. cbn [fst snd seq map nth].
  rewrite zlen_tab3, zlen_hd_tab3, zlen_hd_hd_tab3 by lia.
  f_equal; [|f_equal; [|f_equal]]; apply tab3_ext; intros x y z Hxr Hyr Hzr; rewrite !get3_tab3 by lia;
    rewrite tab3_scale, gs3_scale; unfold grid_sample3; rewrite zlen_tab3, zlen_hd_tab3, zlen_hd_hd_tab3 by lia;
    rewrite !(unnorm_shift K Kf Kc) by lia; ring.
Qed.

Fixpoint idx_iter3 (pad : padmode) (nx ny nz : Z) (k : nat) (f : f3 * f3 * f3) :=
  match k with O => f | S k' => idx_iter3 pad nx ny nz k' (idx_comp3 pad nx ny nz f f) end.
Lemma sq_iter3_is_index_space ac pad nx ny nz k : (2 <= nx)%Z -> (2 <= ny)%Z -> (2 <= nz)%Z -> forall f,
  sq_iter (fun d => compose3g floorK ac ac pad d d) k (to_cube3 ac nx ny nz f) = to_cube3 ac nx ny nz (idx_iter3 pad nx ny nz k f).
Proof.
  intros Hx Hy Hz. induction k as [|k IH]; intro f; [reflexivity|].
  cbn [sq_iter idx_iter3]. rewrite compose3_is_index_space by lia. apply IH.
Qed.
Definition fscale_idx3 (c : K) (f : f3 * f3 * f3) : f3 * f3 * f3 :=
  (fun x y z => c * fst (fst f) x y z, fun x y z => c * snd (fst f) x y z, fun x y z => c * snd f x y z).
Lemma fscale3_cube3 ac nx ny nz (c : K) f : fscale3 c (to_cube3 ac nx ny nz f) = to_cube3 ac nx ny nz (fscale_idx3 c f).
Proof.
  destruct f as [[f0 f1] f2]. unfold fscale3, to_cube3, fscale_idx3. cbn [fst snd map]. rewrite !(fscale3_tab K).
  f_equal; [|f_equal; [|f_equal]]; apply tab3_ext; intros; ring.
Qed.
Definition idx_expv3 (nx ny nz : Z) (c : K) (k : nat) (f : f3 * f3 * f3) := idx_iter3 PBorder nx ny nz k (fscale_idx3 c f).
Theorem expv3_is_index_space ac nx ny nz scale inverse k f : (2 <= nx)%Z -> (2 <= ny)%Z -> (2 <= nz)%Z ->
  expv3 floorK ac scale inverse k (to_cube3 ac nx ny nz f)
  = to_cube3 ac nx ny nz (idx_expv3 nx ny nz (expv_pre k (expv_scale scale inverse)) k f).
Proof.
  intros Hx Hy Hz. unfold expv3, idx_expv3. rewrite fscale3_cube3. unfold compose3. now apply sq_iter3_is_index_space.
Qed.

(* ---- representations ---- *)
Variables nx ny nz : Z.
Hypothesis Hx : (2 <= nx)%Z.
Hypothesis Hy : (2 <= ny)%Z.
Hypothesis Hz : (2 <= nz)%Z.
Variable g : @gridf K.
Hypothesis Hw : gwf 3 g.
Hypothesis Hn0 : fst (fst (fst g)) 0%nat = of_Z nx.
Hypothesis Hn1 : fst (fst (fst g)) 1%nat = of_Z ny.
Hypothesis Hn2 : fst (fst (fst g)) 2%nat = of_Z nz.

Definition repr3 (A : axes) (f : f3 * f3 * f3) : list (list (list (list K))) :=
  field_map3 (gvecs 3 GRID A g) (field3 K nx ny nz (fst (fst f)) (snd (fst f)) (snd f)).
Lemma list3_eta (v : list K) : length v = 3%nat -> v = [nth 0 v 0; nth 1 v 0; nth 2 v 0].
Proof. destruct v as [|a [|b [|c [|? ?]]]]; try discriminate. reflexivity. Qed.
Lemma field_map3_field3 F (f0 f1 f2 : f3) :
  field_map3 F (field3 K nx ny nz f0 f1 f2)
  = field3 K nx ny nz (fun x y z => nth 0 (F [f0 x y z; f1 x y z; f2 x y z]) 0) (fun x y z => nth 1 (F [f0 x y z; f1 x y z; f2 x y z]) 0)
           (fun x y z => nth 2 (F [f0 x y z; f1 x y z; f2 x y z]) 0).
Proof.
  unfold field_map3, field3. cbn [nth seq map]. rewrite zlen_tab3, zlen_hd_tab3, zlen_hd_hd_tab3 by lia.
  f_equal; [|f_equal; [|f_equal]]; apply tab3_ext; intros x y z Hxr Hyr Hzr; now rewrite !get3_tab3 by lia.
Qed.
Lemma gvecs_grid_cube3 ac (a b c : K) :
  gvecs 3 GRID (cube_of ac) g [a; b; c] = [nscale ac nx * a; nscale ac ny * b; nscale ac nz * c].
Proof.
  destruct g as [[[n s] c0] d]. cbn [fst] in Hn0, Hn1, Hn2.
  pose proof (nm1_nz K Kf Kc nx Hx). pose proof (n_nz K Kf Kc nx Hx). pose proof (nm1_nz K Kf Kc ny Hy). pose proof (n_nz K Kf Kc ny Hy).
  pose proof (nm1_nz K Kf Kc nz Hz). pose proof (n_nz K Kf Kc nz Hz). pose proof (two_nz K Kf Kc).
  destruct ac; cbn [cube_of gvecs]; unfold gen_vecs, gen_vecs_GK_3, gen_vecs_GC_3, vtab, tab, nscale; cbn [map seq];
    rewrite Hn0, Hn1, Hn2; cbn [of_Z of_pos]; f_equal; [|f_equal; [|f_equal]| |f_equal; [|f_equal]]; field; auto.
Qed.
Theorem repr3_convert A B f : field_map3 (gvecs 3 A B g) (repr3 A f) = repr3 B f.
Proof.
  unfold repr3. rewrite !field_map3_field3. unfold field3.
  f_equal; [|f_equal; [|f_equal]]; apply tab3_ext; intros x y z Hxr Hyr Hzr;
    rewrite <- (list3_eta (gvecs 3 GRID A g [fst (fst f) x y z; snd (fst f) x y z; snd f x y z]))
      by (apply (gvecs_len K Kf Kc 3); auto);
    rewrite (gvecs_path_independent K Kf Kc 3) by auto; reflexivity.
Qed.
Lemma repr3_cube ac f : repr3 (cube_of ac) f = to_cube3 ac nx ny nz f.
Proof.
  unfold repr3, to_cube3. rewrite field_map3_field3. unfold field3.
  f_equal; [|f_equal; [|f_equal]]; apply tab3_ext; intros x y z Hxr Hyr Hzr; now rewrite gvecs_grid_cube3.
Qed.
Theorem exp_spec3_is_index_space A scale k f :
  exp_spec3 floorK A g scale k (repr3 A f) = repr3 A (idx_expv3 nx ny nz (expv_pre k scale) k f).
Proof.
  unfold exp_spec3. rewrite repr3_convert, repr3_cube. rewrite expv3_is_index_space by lia.
  rewrite <- repr3_cube. cbn [expv_scale]. apply repr3_convert.
Qed.
Theorem exp_spec3_repr_independent A B scale k f :
  field_map3 (gvecs 3 A B g) (exp_spec3 floorK A g scale k (repr3 A f)) = exp_spec3 floorK B g scale k (repr3 B f).
Proof. rewrite !exp_spec3_is_index_space. apply repr3_convert. Qed.
Theorem exp_code3_is_spec A scale k u : exp_code3 floorK A g scale k u = exp_spec3 floorK A g scale k u.
Proof. reflexivity. Qed.
Theorem exp_code3_repr_independent A B scale k f :
  field_map3 (gvecs 3 A B g) (exp_code3 floorK A g scale k (repr3 A f)) = exp_code3 floorK B g scale k (repr3 B f).
Proof. rewrite !exp_code3_is_spec. apply exp_spec3_repr_independent. Qed.
Theorem exp_unconverted3_cube ac scale k f :
  exp_unconverted3 floorK (cube_of ac) g scale k (repr3 (cube_of ac) f) = exp_spec3 floorK (cube_of ac) g scale k (repr3 (cube_of ac) f).
Proof.
  unfold exp_unconverted3, exp_spec3. replace (axes_ac (cube_of ac)) with ac by (destruct ac; reflexivity).
  f_equal. f_equal. symmetry. apply repr3_convert.
Qed.
(* warp_image in three dimensions: in every representation, sample the image at index + displacement in samples *)
Theorem warp3_is_index_space pad A img f : zlen img = nz -> zlen (hd [] img) = ny -> zlen (hd [] (hd [] img)) = nx ->
  warp3 floorK pad A g img (repr3 A f)
  = tab3 nx ny nz (fun x y z => sample3 floorK pad img (of_Z x + fst (fst f) x y z) (of_Z y + snd (fst f) x y z) (of_Z z + snd f x y z)).
Proof.
  intros Hiz Hiy Hix. unfold warp3. rewrite repr3_convert, repr3_cube. unfold to_cube3. cbn [nth].
  rewrite zlen_tab3, zlen_hd_tab3, zlen_hd_hd_tab3 by lia. apply tab3_ext. intros x y z Hxr Hyr Hzr. rewrite !get3_tab3 by lia.
  unfold grid_sample3. rewrite Hiz, Hiy, Hix. now rewrite !(unnorm_shift K Kf Kc) by lia.
Qed.
Theorem warp3_repr_independent pad A B img f : zlen img = nz -> zlen (hd [] img) = ny -> zlen (hd [] (hd [] img)) = nx ->
  warp3 floorK pad A g img (repr3 A f) = warp3 floorK pad B g img (repr3 B f).
Proof. intros H1 H2 H3. now rewrite !warp3_is_index_space. Qed.
End Conv3.
