(* C04 over the executable field: the ceiling used for grid sizes satisfies what the abstract shape lemmas assume;
   witnesses of the two places where the unchanged code does NOT keep data and grid in lock-step. *)
From Coq Require Import ZArith QArith Qround Qabs Qcanon List Lia Lqa Bool.
From DV Require Import Base.Field Base.FieldFacts Base.LinAlg Base.QcInst Model.Enums Model.Homog Model.Grid Model.Sampler Model.SamplerQc
  Gen.GridT Model.GridDerive Model.GridDeriveQc Model.ImageOps Model.ImageOpsQc Proofs.QcFacts Proofs.C01Lattice.
Import ListNotations.

Lemma ceilQc_int (z : Z) : ceilQc (of_Z (K:=QcF) z) = z.
Proof. unfold ceilQc. rewrite this_of_Z. apply Qceiling_Z. Qed.

Lemma ceilQc_shift (x : Qc) (z : Z) : ceilQc (fsub (K:=QcF) x (of_Z z)) = (ceilQc x - z)%Z.
Proof.
  unfold ceilQc. rewrite this_sub, this_of_Z.
  pose proof (Qle_ceiling (this x)) as A. pose proof (Qceiling_lt (this x)) as B.
  apply Qceiling_unique.
  - unfold Z.sub in *. rewrite !inject_Z_plus, !inject_Z_opp in *. change (inject_Z 1) with 1%Q in B. lra.
  - unfold Z.sub. rewrite inject_Z_plus, inject_Z_opp. lra.
Qed.

(* a ramp image 2 x + 3 y + 1 on a 4 x 3 unit grid centred at the origin *)
Definition ex_grid : dgrid (K:=QcF) := mkG (K:=QcF) [q 4 1; q 3 1] [q 1 1; q 1 1] [q 0 1; q 0 1] [[q 1 1; q 0 1]; [q 0 1; q 1 1]] true.
Definition ex_ramp (g : dgrid (K:=QcF)) (J : list Z) : Qc :=
  fadd (K:=QcF) (dot (K:=QcF) [q 2 1; q 3 1] (d_itw (K:=QcF) ceilQc 2 g (map (of_Z (K:=QcF)) J))) (q 1 1).
Definition ex_img : qimg := mkI (K:=QcF) [4; 3]%Z (ex_ramp ex_grid).

(* resample to spacing (6/5, 1): the rounded new shape equals the old one and the spacing changes.  On the repaired code
   (core.image.grid_resample returns its input only when the resampled GRID equals the input grid) the data is resampled:
   the returned values are the ramp on the returned grid at every index inside the original field of view, and they are
   NOT the input values (before the repair this case returned the input unchanged: -5 instead of -28/5 at index (0,0)) *)
Definition in_hull (g g' : dgrid (K:=QcF)) (J : list Z) : bool :=
  forallb (fun p => Qle_bool 0 (this (fst p)) && Qle_bool (this (fst p)) (inject_Z (snd p - 1)))
          (combine (gen_pts (K:=QcF) 2 WORLD GRID (nK (K:=QcF) ceilQc g) (sp g) (ce g) (di g) (d_itw (K:=QcF) ceilQc 2 g' (map (of_Z (K:=QcF)) J)))
                   (nZ (K:=QcF) ceilQc g)).
Lemma resample_same_shape_lockstep :
  let op := OResample (K:=QcF) [q 6 5; q 1 1] 1 in
  let g' := apply_op (K:=QcF) ceilQc floorQc leQc 2 op ex_grid in
  let out := apply_data 2 (IGrid op (q 0 1) []) ex_grid g' ex_img in
  ishape out = nZ (K:=QcF) ceilQc g' /\ ishape out = ishape ex_img /\
  forallb (fun J => negb (in_hull ex_grid g' J) || qeqb (ival out J) (ex_ramp g' J)) (indices (ishape out)) = true /\
  existsb (fun J => in_hull ex_grid g' J && negb (qeqb (ival out J) (ival ex_img J))) (indices (ishape out)) = true.
Proof. intros op g' out. repeat split; vm_compute; reflexivity. Qed.

(* downsample a 5 x 4 image once: the grid keeps the fractional size 5/2 (3 samples), the data has 3 samples; upsample: the grid
   returns to 5 samples.  On the repaired code the data is resized to the grid's size (before: the tensor shape was doubled to 6
   and the shapes disagreed): shapes agree and the ramp on the 3 x 2 grid is the ramp on the upsampled grid inside the hull *)
Definition ex_frac_grid : dgrid (K:=QcF) := mkG (K:=QcF) [q 5 2; q 2 1] [q 2 1; q 2 1] [q 0 1; q 0 1] [[q 1 1; q 0 1]; [q 0 1; q 1 1]] true.
Definition ex_frac_img : qimg := mkI (K:=QcF) [3; 2]%Z (ex_ramp ex_frac_grid).
Definition in_hull_of (g g' : dgrid (K:=QcF)) (J : list Z) : bool :=
  forallb (fun p => Qle_bool 0 (this (fst p)) && Qle_bool (this (fst p)) (inject_Z (snd p - 1)))
          (combine (gen_pts (K:=QcF) 2 WORLD GRID (nK (K:=QcF) ceilQc g) (sp g) (ce g) (di g) (d_itw (K:=QcF) ceilQc 2 g' (map (of_Z (K:=QcF)) J)))
                   (nZ (K:=QcF) ceilQc g)).
Lemma upsample_fractional_size_lockstep :
  let op := OUp (K:=QcF) 1 None None in
  let g' := apply_op (K:=QcF) ceilQc floorQc leQc 2 op ex_frac_grid in
  let out := apply_data 2 (IGrid op (q 0 1) []) ex_frac_grid g' ex_frac_img in
  nZ (K:=QcF) ceilQc ex_frac_grid = [3; 2]%Z /\ up_size 1 None [3; 2]%Z = [6; 4]%Z /\
  nZ (K:=QcF) ceilQc g' = [5; 4]%Z /\ ishape out = nZ (K:=QcF) ceilQc g' /\
  forallb (fun J => negb (in_hull_of ex_frac_grid g' J) || qeqb (ival out J) (ex_ramp g' J)) (indices (ishape out)) = true /\
  existsb (fun J => in_hull_of ex_frac_grid g' J) (indices (ishape out)) = true.
Proof. intros. repeat split; vm_compute; reflexivity. Qed.

(* ---------- floor / ceiling facts used by the shape lemmas, for the executable instance ---------- *)
Local Open Scope Q_scope.
Lemma this_div (a b : Qc) : this (fdiv (K:=QcF) a b) == this a / this b.
Proof.
  change (this (Q2Qc (this a * this (Qcinv b))) == this a / this b).
  change (Qred (this a * Qred (/ this b)) == this a / this b). rewrite !Qred_correct. reflexivity.
Qed.

Lemma inject_div_make (n k : Z) : (0 < k)%Z -> inject_Z n / inject_Z k == n # Z.to_pos k.
Proof.
  intro Hk. destruct k as [|p|p]; try lia. unfold Qdiv, Qinv, inject_Z, Qmult, Qeq. cbn. lia.
Qed.

Lemma floorQc_div (n k : Z) : (0 < k)%Z -> floorQc (fdiv (K:=QcF) (of_Z n) (of_Z k)) = (n / k)%Z.
Proof.
  intro Hk. unfold floorQc. rewrite this_div, !this_of_Z, (inject_div_make n k Hk).
  destruct k as [|p|p]; try lia. reflexivity.
Qed.

(* ceil (ceil f / p) = ceil (f / p): halving the ROUNDED size (data path) or the FLOAT size (grid path) gives the same shape *)
Lemma ceil_nested_div (f : Q) (p : Z) : (0 < p)%Z -> Qceiling (inject_Z (Qceiling f) / inject_Z p) = Qceiling (f / inject_Z p).
Proof.
  intro Hp. set (P := inject_Z p). assert (HP : 0 < P) by (unfold P; change 0 with (inject_Z 0); rewrite <- Zlt_Qlt; exact Hp).
  set (qq := Qceiling (f / P)).
  pose proof (Qle_ceiling (f / P)) as A. pose proof (Qceiling_lt (f / P)) as B. fold qq in A, B.
  apply Qceiling_unique.
  - (* qq - 1 < f / P <= ceil f / P *)
    apply Qlt_le_trans with (f / P).
    + unfold Z.sub in B. rewrite inject_Z_plus in B. change (inject_Z (- (1))) with (- (1)) in B. lra.
    + unfold Qdiv. apply Qmult_le_compat_r; [apply Qle_ceiling | apply Qlt_le_weak, Qinv_lt_0_compat, HP].
  - (* ceil f <= p * qq since f <= p * qq *)
    assert (F : f <= inject_Z (qq * p)).
    { rewrite inject_Z_mult. fold P.
      assert (E : f == f / P * P) by (field; intro H; rewrite H in HP; apply (Qlt_irrefl 0 HP)).
      rewrite E. apply Qmult_le_compat_r; [exact A | apply Qlt_le_weak, HP]. }
    assert (Cz : (Qceiling f <= qq * p)%Z) by (rewrite <- (Qceiling_Z (qq * p)); apply Qceiling_resp_le; exact F).
    apply Qle_shift_div_r; [exact HP|]. unfold P. rewrite <- inject_Z_mult, <- Zle_Qle. exact Cz.
Qed.

Lemma ceil_int_div (c p : Z) : (0 < p)%Z -> Qceiling (inject_Z c / inject_Z p) = ((c + p - 1) / p)%Z.
Proof.
  intro Hp. unfold Qceiling.
  assert (E : - (inject_Z c / inject_Z p) == inject_Z (- c) / inject_Z p) by (rewrite inject_Z_opp; field; intro H; change 0 with (inject_Z 0) in H; rewrite inject_Z_injective in H; lia).
  rewrite E, (inject_div_make (- c) p Hp). destruct p as [|pp|pp]; try lia.
  change (Qfloor (- c # Z.to_pos (Z.pos pp))) with ((- c) / Z.pos pp)%Z.
  pose proof (Z.div_mod (- c) (Z.pos pp) ltac:(lia)). pose proof (Z.mod_pos_bound (- c) (Z.pos pp) ltac:(lia)).
  pose proof (Z.div_mod (c + Z.pos pp - 1) (Z.pos pp) ltac:(lia)). pose proof (Z.mod_pos_bound (c + Z.pos pp - 1) (Z.pos pp) ltac:(lia)).
  nia.
Qed.

(* the shape the data path computes from the rounded size is the rounded halved float size of the grid path *)
Lemma down_shape_Qc (f : Qc) (L : nat) :
  ceilQc (fdiv (K:=QcF) f (pow2 (K:=QcF) L)) = ((ceilQc f + 2 ^ Z.of_nat L - 1) / 2 ^ Z.of_nat L)%Z.
Proof.
  assert (Hp : (0 < 2 ^ Z.of_nat L)%Z) by (apply Z.pow_pos_nonneg; lia).
  unfold ceilQc, pow2. rewrite this_div, this_of_Z.
  rewrite <- (ceil_nested_div (this f) (2 ^ Z.of_nat L) Hp). apply ceil_int_div. exact Hp.
Qed.

(* ---------- shape_agrees for downsample (all axes, no minimum size), any number of axes, executable instance ---------- *)
From DV Require Import Proofs.C03Ops.
Lemma leQc_refl (x : Qc) : leQc x x = true.
Proof. unfold leQc. apply Qle_bool_iff. apply Qle_refl. Qed.
Lemma leQc_antisym (x y : Qc) : leQc x y = true -> leQc y x = true -> x = y.
Proof. unfold leQc. rewrite !Qle_bool_iff. intros A B. apply Qc_is_canon. apply Qle_antisym; assumption. Qed.

Lemma nZ_d_resize (D : nat) (m : list Qc) (a : bool) (g : dgrid (K:=QcF)) :
  nZ (K:=QcF) ceilQc (d_resize (K:=QcF) ceilQc leQc D m a g) = map ceilQc m.
Proof.
  unfold d_resize. destruct (veqK (K:=QcF) leQc m (fs g)) eqn:E; [|reflexivity].
  apply (veqK_true_iff QcF leQc leQc_refl leQc_antisym) in E. subst m. reflexivity.
Qed.

Lemma mapi_from_all {A} (F : nat -> A -> A) (G : A -> A) (l : list A) : (forall i x, F i x = G x) ->
  forall k, mapi_from F k l = map G l.
Proof. intro H. induction l as [|x l IH]; intro k; cbn; [reflexivity | now rewrite H, IH]. Qed.
Lemma mapi_z_all {B} (F : nat -> Z -> B) (G : Z -> B) (l : list Z) : (forall i x, F i x = G x) ->
  forall k, mapi_z F k l = map G l.
Proof. intro H. induction l as [|x l IH]; intro k; cbn; [reflexivity | now rewrite H, IH]. Qed.

Lemma pow2_pos (L : nat) : (0 < this (pow2 (K:=QcF) L))%Q.
Proof. unfold pow2. rewrite this_of_Z. change 0%Q with (inject_Z 0). rewrite <- Zlt_Qlt. apply Z.pow_pos_nonneg; lia. Qed.

Lemma down_axis_Qc (L : nat) (f : Qc) : (0 <= this f)%Q ->
  ceilQc (if leQc (zK (K:=QcF) 0) (fdiv (K:=QcF) f (pow2 (K:=QcF) L)) then fdiv (K:=QcF) f (pow2 (K:=QcF) L) else f)
  = (if (0 * 2 ^ Z.of_nat L <=? ceilQc f)%Z then (ceilQc f + 2 ^ Z.of_nat L - 1) / 2 ^ Z.of_nat L else ceilQc f)%Z.
Proof.
  intro Hf.
  assert (Hc : (0 <= ceilQc f)%Z).
  { unfold ceilQc. rewrite <- (Qceiling_Z 0). apply Qceiling_resp_le. exact Hf. }
  rewrite Z.mul_0_l. rewrite (proj2 (Z.leb_le 0 (ceilQc f)) Hc).
  assert (Hle : leQc (zK (K:=QcF) 0) (fdiv (K:=QcF) f (pow2 (K:=QcF) L)) = true).
  { unfold leQc. apply Qle_bool_iff. rewrite this_div. change (this (zK (K:=QcF) 0)) with 0%Q.
    unfold Qdiv. apply Qmult_le_0_compat; [exact Hf | apply Qlt_le_weak, Qinv_lt_0_compat, pow2_pos]. }
  rewrite Hle. apply down_shape_Qc.
Qed.

Lemma shape_agrees_downsample_Qc (D : nat) (L : nat) (a : option bool) (g : dgrid (K:=QcF)) :
  Forall (fun f => (0 <= this f)%Q) (fs g) ->
  nZ (K:=QcF) ceilQc (g_downsample (K:=QcF) ceilQc leQc D L None 0 a g) = down_size L None 0 (nZ (K:=QcF) ceilQc g).
Proof.
  intro Hpos. unfold g_downsample. rewrite nZ_d_resize. unfold down_size, nZ. cbn [in_dims in_dimsb].
  generalize 0%nat at 2. generalize 0%nat. induction Hpos as [|f l Hf Hl IH]; intros k k'; cbn [mapi_from combine map mapi_z fst snd]; [reflexivity|].
  f_equal; [apply down_axis_Qc; exact Hf | apply IH].
Qed.

(* upsample: the data path doubles the ROUNDED size, the grid path the FLOAT size: they agree when the float size is integral
   (the fractional case: C04_upsample_fractional_size_lockstep) *)
Lemma shape_agrees_upsample_int_Qc (D : nat) (L : nat) (a : option bool) (g : dgrid (K:=QcF)) (sizes : list Z) :
  fs g = map (of_Z (K:=QcF)) sizes ->
  nZ (K:=QcF) ceilQc (g_upsample (K:=QcF) ceilQc leQc D L None a g) = up_size L None (nZ (K:=QcF) ceilQc g).
Proof.
  intro Hf. unfold g_upsample. rewrite nZ_d_resize. unfold up_size, nZ. rewrite Hf. clear Hf. cbn [in_dims in_dimsb].
  generalize 0%nat at 2. generalize 0%nat. induction sizes as [|z l IH]; intros k k'; cbn [mapi_from map mapi_z]; [reflexivity|].
  f_equal; [|apply IH].
  unfold pow2. change (fmul (K:=QcF) (of_Z z) (of_Z (2 ^ Z.of_nat L))) with (fmul (K:=QcF) (of_Z z) (of_Z (2 ^ Z.of_nat L))).
  rewrite <- (of_Z_mul QcF QcF_field z (2 ^ Z.of_nat L)). rewrite !ceilQc_int. reflexivity.
Qed.
