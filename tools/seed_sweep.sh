#!/bin/bash
# usage: tools/seed_sweep.sh [seed-id ...]      (default: every directory of /verif/seeded)
# Runs the quick check of the seed's property against a scratch worktree of /repo with the seeded change
# applied (tools/mutcheck.sh) and appends one line per seed to /verif/seeded/SWEEP.md:
#   seed | exit | violations with a failing input | violations ending no-failing-input-found | obligations
set -u
cd /verif
OUT=/verif/seeded/SWEEP.md
[ -f "$OUT" ] || printf '# Seed sweep (tools/seed_sweep.sh): quick check of each seeded change on a scratch worktree\n\n| seed | /repo HEAD | exit | violations with input | no-failing-input-found | summary |\n|---|---|---|---|---|---|\n' > "$OUT"
SEEDS=("$@")
if [ ${#SEEDS[@]} -eq 0 ]; then SEEDS=($(ls seeded | grep -E '^C[0-9]+-[0-9]+$' | sort)); fi
HEAD=$(git -C /repo log --format=%h -1)
for s in "${SEEDS[@]}"; do
  p=${s%%-*}
  log=$(tools/mutcheck.sh "$p" "seeded/$s/patch.diff" quick 2>&1)
  rc=$(echo "$log" | grep -o 'exit=[0-9]*' | tail -1 | cut -d= -f2)
  if echo "$log" | grep -q "PATCH DOES NOT APPLY"; then echo "| $s | $HEAD | - | - | - | patch no longer applies to this HEAD |" >> "$OUT"; continue; fi
  nv=$(echo "$log" | grep -o 'violations_with_input=[0-9]*' | cut -d= -f2)
  nn=$(echo "$log" | grep -o 'violations_without_input=[0-9]*' | cut -d= -f2)
  sm=$(echo "$log" | grep -E '^C[0-9]+: obligations' | cut -c1-120)
  echo "| $s | $HEAD | $rc | $nv | $nn | $sm |" >> "$OUT"
  echo "$s exit=$rc with_input=$nv no_input=$nn"
done
