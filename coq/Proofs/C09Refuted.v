(* C09 -- concrete witnesses: where the code as it is does NOT reflect the new state (linear transforms
   with callable parameters), and non-vacuity of the positive theorems (evaluation of the executable instance). *)
From Coq Require Import List Bool.
From DV Require Import Base.QcInst Model.TransformState Model.TransformStateRun Model.TransformStateEx
  Gen.TState Model.TransformCfg.
Import ListNotations.

(* a linear transform whose parameters come from a callable keeps returning the buffered p:
   tensor()/disp() right after condition_() (or reset_parameters()) is stale until update() *)
Lemma linear_callable_stale_after_condition :
  stale_after gen_cfg h_lin_fun x_cond x_obs 0 = true.
Proof. vm_compute. reflexivity. Qed.
Lemma linear_callable_stale_after_reset :
  stale_after gen_cfg h_lin_fun (Reset PV nat CV 0) x_obs 0 = true.
Proof. vm_compute. reflexivity. Qed.

(* non-vacuity *)
Lemma nonrigid_callable_fresh_after_condition :
  fresh_after gen_cfg h_svf_fun x_cond x_obs 0 = true.
Proof. vm_compute. reflexivity. Qed.
Lemma dense_fresh_after_data :
  fresh_after gen_cfg h_disp_ten x_data (Disp PV nat CV 0) 0 = true.
Proof. vm_compute. reflexivity. Qed.
Lemma dense_grid_other_lattice_keeps_world :
  world_kept gen_cfg h_disp_ten 0 2 = true.
Proof. vm_compute. reflexivity. Qed.
(* repaired: a grid that differs only in align_corners is installed, the world displacement is kept *)
Lemma dense_grid_align_only_keeps_world :
  world_kept gen_cfg h_disp_ten 0 1 = true.
Proof. vm_compute. reflexivity. Qed.
(* repaired: BSplineTransform.grid_ with callable parameters clears the buffered field *)
Lemma spline_callable_fresh_after_grid :
  fresh_after gen_cfg h_ffd_fun (GridSet PV nat CV 0 2) x_obs 0 = true.
Proof. vm_compute. reflexivity. Qed.

(* a composite with a callable-parameter member used twice and a tensor member, after an in-place edit
   and re-conditioning: the call returns what the three members hold *)
Lemma composite_call_fresh_witness : seq_fresh_after gen_cfg h_seq 2 = true.
Proof. vm_compute. reflexivity. Qed.

(* direct access to a composite after an in-place edit of a member: fresh after clear_buffers() on the
   composite, stale without it (the stale case is documented behaviour, shown to make the witness non-trivial) *)
Lemma composite_direct_witness :
  seq_direct_fresh_after gen_cfg h_seq_direct 2 = true /\ seq_direct_fresh_after gen_cfg h_seq_direct_noclear 2 = false.
Proof. vm_compute. split; reflexivity. Qed.
