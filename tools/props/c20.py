"""C20 -- gradients reaching parameters and inputs are the true derivatives."""
import json
import math
import os
from concurrent.futures import ThreadPoolExecutor
from fractions import Fraction

import numpy as np

import adfam
import vlib
from vlib import Violation, coq_list

ID = "C20"
GEN_UNITS = ["ADTerms", "Euler", "GradFlow"]
PROPS_FILE = "Props/C20.v"
PROPS_MOD = "Props.C20"
COQ_TARGETS = ["Props/C20.vo", "Model/ADCheck.vo"]
SOURCES = ["deepali/core/flow.py", "deepali/core/image.py", "deepali/core/bspline.py", "deepali/core/affine.py", "deepali/core/_kornia.py",
           "deepali/core/linalg.py", "deepali/core/grid.py", "deepali/losses/functional.py", "deepali/spatial/linear.py",
           "deepali/spatial/nonrigid.py", "deepali/spatial/bspline.py", "deepali/spatial/transformer.py", "deepali/modules/sample.py",
           "deepali/spatial/base.py"]
TRUSTED = [
    "Coq 8.16.1 kernel + vm_compute; Coquelicot 3.x (is_derive and its derivative rules)",
    "the torch autograd engine (modelled, not verified): tied by comparing torch.autograd.grad with the formal derivative D "
    "evaluated exactly (correspondence) and with central finite differences (always-run search)",
    "translator: tools/symtorch.py semantics of the traced torch subset and tools/tr_units/adterms.py (validated by this run's "
    "correspondence: forward values of every traced family against the real functions)",
    "transcendental functions in the executable model: oracle table of the platform's float64 sqrt/exp/log/tanh/sin/cos values "
    "(converted exactly); their real-number meaning is used only in the R-theorems",
    "IEEE rounding of the implementation (comparisons to 1e-9 relative in float64, 2e-4 where an operation casts to float32)",
]
ASSUMPTIONS = [
    "the exact derivative theorem is tied to the traced families of tools/adfam.py on small tensors; for the other listed public operations "
    "(transform classes, sampling/warping, expv/compose, B-spline evaluation, spatial derivatives, all losses) the logic part is the "
    "gradient-flow skeleton (no cut on any leaf-to-output path, traced on the real autograd graph at one generic input per operation x D) "
    "and the numbers are checked by the autograd-vs-central-difference exploration",
    "gradient-flow skeleton: value dependence is followed through torch-level calls; Python numbers obtained by .item()/float() and integer/"
    "boolean tensors leave the trace (piecewise-constant dependence); writes through views taken before the write are not propagated to those views",
    "generic inputs: away from interpolation kinks, clamping boundaries, zero denominators; piecewise operations are not modelled at kinks",
    "SpatialTransform.disp() is evaluated after update() (documented protocol; staleness without update() is C09's subject)",
]
UF = {"sqrt": ("Usqrt", math.sqrt), "exp": ("Uexp", math.exp), "log": ("Uln", math.log), "tanh": ("Utanh", math.tanh),
      "sin": ("Usin", math.sin), "cos": ("Ucos", math.cos)}
_CACHE = {}


# ------------------------------------------------------------------------------------------------
# exact mirror evaluation (only to build the oracle table: which transcendental values the Coq evaluator will ask for)
# ------------------------------------------------------------------------------------------------
def traced_families():
    if "fam" not in _CACHE:
        import symload
        from tr_units import adterms
        loader = symload.SymLoader()
        m = adterms.modules(loader)
        fams = {}
        for fam in adfam.FAMILIES:
            flat, shape, index = adterms.trace(fam, m)
            fams[fam.name] = (flat, index)
        _CACHE["fam"] = fams
    return _CACHE["fam"]


def fr(x):
    return Fraction(*float(x).as_integer_ratio())


def mirror_eval(e, env, table, memo):
    k = id(e)
    if k in memo:
        return memo[k]
    op = e.op
    if op == "const":
        r = e.args[0]
    elif op == "var":
        r = env[e.args[0]]
    elif op == "neg":
        r = -mirror_eval(e.args[0], env, table, memo)
    elif op in ("add", "sub", "mul", "div"):
        a = mirror_eval(e.args[0], env, table, memo)
        b = mirror_eval(e.args[1], env, table, memo)
        r = a + b if op == "add" else a - b if op == "sub" else a * b if op == "mul" else a / b
    elif op == "fn":
        name = e.args[0]
        a = mirror_eval(e.args[1], env, table, memo)
        if name == "detach":
            memo[k] = a
            return a

        def orc(nm):
            key = (UF[nm][0], a)
            if key not in table:
                table[key] = fr(UF[nm][1](float(a)))
            return table[key]
        if name == "tan":
            r = orc("sin") / orc("cos")
        else:
            r = orc(name)
            if name == "sin":
                orc("cos")
            elif name == "cos":
                orc("sin")
    else:
        raise ValueError(op)
    memo[k] = r
    return r


def qstr(x):
    x = Fraction(x)
    return f"(q ({x.numerator}) {x.denominator})"


def gen_inputs(rng, fam):
    x = []
    for shape, (lo, hi) in zip(fam.shapes, fam.ranges):
        n = int(np.prod(shape))
        for _ in range(n):
            a, b = int(math.ceil(lo * 16)), int(math.floor(hi * 16))
            v = rng.randint(a, b)
            if v == 0:
                v = 1
            x.append(v / 16)
    if fam.name in ("mse_loss", "ssd_loss", "ncc_loss", "lcc_loss", "dice_loss"):
        pass
    return x


def correspondence(ctx):
    rng = ctx.rng
    reps = ctx.n(2, 8)
    cases = []
    for fam in adfam.FAMILIES:
        for _ in range(reps):
            cases.append({"family": fam.name, "x": gen_inputs(rng, fam)})
    res = vlib.run_impl("c20_impl", {"fn": "ad_cases", "cases": cases}, timeout=900)
    fams = traced_families()
    failures, items, dist = [], [], {}
    n_grad = 0
    for i, (c, r) in enumerate(zip(cases, res)):
        dist[c["family"]] = dist.get(c["family"], 0) + 1
        if "error" in r:
            failures.append({"case": c, "impl": r, "why": "implementation raised at a generic input where the model is defined"})
            continue
        if not r["requires_grad"]:
            failures.append({"case": c, "why": "implementation output does not require grad"})
            continue
        flat, index = fams[c["family"]]
        env = {name: fr(c["x"][k]) for name, k in index.items()}
        table, memo = {}, {}
        try:
            for e in flat:
                mirror_eval(e, env, table, memo)
        except ZeroDivisionError:
            failures.append({"case": c, "why": "generated input hits a zero denominator of the model (generator bug)"})
            continue
        fam = adfam.BY_NAME[c["family"]]
        tol = "1 # 1000000000" if r["dtype"] == "torch.float64" else "1 # 5000"
        orc = coq_list([f"({f}, {qstr(a)}, {qstr(v)})" for (f, a), v in table.items()])
        envl = coq_list([qstr(fr(v)) for v in c["x"]])
        vals = coq_list([qstr(fr(v)) for v in r["values"]])
        jac = coq_list([coq_list([qstr(fr(v)) for v in row]) for row in r["jac"]])
        n_grad += len(r["jac"]) * fam.nvars()
        items.append((i, "forward", f"ad_forward_ok ({tol}) {orc} {envl} gen_ad_{fam.name} {vals}"))
        items.append((i, "gradient", f"ad_grad_ok ({tol}) {orc} {envl} gen_ad_{fam.name} {fam.nvars()} {jac}"))
    shard = 24
    groups = [items[k:k + shard] for k in range(0, len(items), shard)]

    def run_shard(gk):
        k, grp = gk
        lines = ["From Coq Require Import QArith Qcanon List Bool.", "From DV Require Import Model.AD Model.ADCheck Gen.ADTerms.",
                 "Import ListNotations."]
        for j, (i, name, term) in enumerate(grp):
            lines.append(f"Definition c{j} : bool := {term}.")
        lines.append("Definition results : list bool := " + coq_list([f"c{j}" for j in range(len(grp))]) + ".")
        lines.append('Eval vm_compute in ("FAIL"%string, failing results).')
        lines.insert(0, "From Coq Require Import String.")
        rc, out = vlib.coqc_text("\n".join(lines) + "\n", ctx.scratch, f"cases_c20_{k}", timeout=900)
        return k, rc, out

    with ThreadPoolExecutor(max_workers=6) as ex:
        outs = list(ex.map(run_shard, list(enumerate(groups))))
    for k, rc, out in outs:
        bad = vlib.parse_nat_list(out, "FAIL")
        if rc != 0 or bad is None:
            failures.append({"why": "case file did not evaluate (generated definitions missing or ill-typed)", "shard": k, "coq": out[-500:]})
            continue
        for j in bad:
            i, name, term = groups[k][j]
            failures.append({"case": cases[i], "check": name,
                             "why": ("forward values" if name == "forward" else "torch.autograd gradients") +
                                    " of the implementation differ from the model's exact evaluation (eval / formal derivative D)",
                             "impl": {"values": res[i]["values"][:6], "jac_row0": res[i]["jac"][0][:6]}})
    # the gradient-flow skeleton (Gen/GradFlow.v): name the cut sites, so that a broken C20_gradient_flow_skeleton is concrete
    try:
        import re
        txt = open(os.path.join(vlib.COQ, "Gen", "GradFlow.v")).read()
        nrows = 0
        for m in re.finditer(r'\("([^"]+)"%string, (\d+)%nat, (true|false), \[(.*)\]\)', txt):
            nrows += 1
            opname, D, attached, leaves = m.group(1), m.group(2), m.group(3), m.group(4)
            sites = sorted(set(re.findall(r'"([^"]+)"%string', leaves)))
            nodep = re.findall(r'\((\d+)%nat, false,', leaves)
            if attached == "false" or sites or nodep:
                failures.append({"why": "gradient-flow skeleton of the traced autograd graph: " +
                                 ("output not attached to the graph; " if attached == "false" else "") +
                                 (f"cut (detach/.data/no_grad) on a leaf-to-output path in {sites}; " if sites else "") +
                                 (f"output value does not depend on leaves {nodep}" if nodep else ""),
                                 "case": {"operation": opname, "D": int(D)}})
        dist["gradflow_rows"] = nrows
    except OSError as exc:
        failures.append({"why": f"gradient-flow skeleton missing: {exc}"})
    ctx.notes.append(f"correspondence: {len(items)} Coq checks; {n_grad} individual partial derivatives compared with torch.autograd")
    samples = [{"case": cases[i], "impl": {"values": res[i].get("values", [])[:4], "jac_row0": (res[i].get("jac") or [[]])[0][:4]}}
               for i in (0, len(cases) // 2, len(cases) - 1)]
    return {"evaluations": len(items), "distinct_nontrivial": len({json.dumps(c, sort_keys=True) for c in cases}),
            "rule": "every traced family x seeded dyadic inputs (multiples of 1/16 in the family's range, never 0); forward values and the full "
                    "Jacobian from torch.autograd.grad (float64) against evalQ / evalQ o D inside Coq; non-trivial = every case (all inputs non-zero, "
                    "all outputs depend on the inputs); distinct by (family, inputs)",
            "samples": samples, "failures": failures, "distribution": dist,
            "tolerances": {"float64 families": "1e-9 * (1 + |x|)", "families that cast to float32 (ncc, lcc, dice)": "2e-4 * (1 + |x|)"},
            "exploration": {"partial_derivatives_compared": n_grad}}


# ------------------------------------------------------------------------------------------------
# the property itself: autograd vs central finite differences on the public operations
# ------------------------------------------------------------------------------------------------
def search(ctx, broken, corr_failures):
    reps = ctx.n(1, 4)
    res = vlib.run_impl("c20_impl", {"fn": "fd", "seed": ctx.seed, "repeats": reps, "max_coords": ctx.n(16, 40)}, timeout=1500)
    found, seen = [], set()
    n_ops, n_checked, coarse = 0, 0, 0
    notes32 = set()
    for r in res:
        n_ops += 1
        if "raised" in r:
            key = f"C20:{r['op']}:D{r['D']}:raises-{r['raised']['error']}"
            if key not in seen:
                seen.add(key)
                found.append(Violation(key=key, what=f"{r['op']} (D={r['D']}) raises {r['raised']['error']}: {r['raised']['msg'][:120]}",
                                       replay={"op": r["op"], "D": r["D"], "seed": r["seed"], "key": key}))
            continue
        n_checked += r["info"].get("checked", 0)
        coarse += r["info"].get("coarse_step_used", 0)
        if r["info"].get("note"):
            notes32.add(r["op"])
        for pr in r["problems"]:
            key = f"C20:{r['op']}:D{r['D']}:{pr['kind']}"
            if key in seen:
                continue
            seen.add(key)
            found.append(Violation(key=key, what=f"{r['op']} (D={r['D']}): {pr['what']}",
                                   replay={"op": r["op"], "D": r["D"], "seed": r["seed"], "key": key, "problem": pr}))
    ctx.notes.append(f"autograd vs central differences: {n_ops} (operation, D, draw) triples, {n_checked} partial derivatives compared "
                     f"(step 1e-6, tolerance 2e-5 relative in float64; {coarse} re-checked with the float32 step 2e-3 because float32 grid "
                     f"coordinates sit inside the float64 operation); operations whose output is float32 for float64 inputs (step 4e-3): "
                     f"{sorted(notes32)}")
    return found


def explains(broken_item, found):
    known, _ = vlib.load_findings()
    fresh = [v for v in found if v.key not in known]
    return bool(fresh)


def replay(ctx, data):
    res = vlib.run_impl("c20_impl", {"fn": "fd", "seed": 0, "repeats": 1, "only": [data["op"]], "max_coords": 40,
                                     "force": {"D": data["D"], "seed": data["seed"]}})
    for r in res:
        if r["D"] != data["D"]:
            continue
        if "raised" in r and data["key"].endswith("raises-" + r["raised"]["error"]):
            return f"{r['op']} raises {r['raised']['error']}: {r['raised']['msg'][:120]}"
        for pr in r.get("problems", []):
            if data["key"].endswith(pr["kind"]):
                return f"{r['op']} (D={r['D']}): {pr['what']}"
    return None


MANIFEST_ENTRY = {
    "text": "Theorem D_sound (Coq + Coquelicot): for every expression of the AD language (constants, variables, + - * /, neg, sqrt exp ln "
            "tanh sin cos) and every environment in its domain, the formal partial derivative evaluates to THE derivative (is_derive) of the "
            "expression's real meaning -- by induction over expressions; Jacobians, definedness of the derivative (finite gradients), "
            "soundness of the executable Qc evaluator (unconditional on the rational fragment). Representative differentiable deepali "
            "functions (Euler / quaternion rotation matrices, homogeneous transforms and products, mse/ssd/ncc/lcc/dice, divergence / bending / "
            "curvature losses, Jacobian determinant, divergence, curl, affine flow) are traced from the source into that language on every "
            "run (coq/Gen/ADTerms.v) and inherit the theorem; the Euler terms are proved equal to the C08 model. Reverse-mode model G (nothing flows "
            "through ECut = detach()/.data/no_grad, emitted by the translator wherever the source cuts the graph): G is the derivative iff no "
            "variable-to-output path crosses a cut (theorem + refutation), every traced family is cut-free, and the gradient-flow skeleton of all "
            "347 registry operations traced on the real autograd graph (coq/Gen/GradFlow.v) has no cut on any leaf-to-output path. Tie: forward values and "
            "torch.autograd Jacobians of the real functions against eval / D evaluated exactly in Qc inside Coq.",
    "note": "Partial: the autograd engine is trusted (compared, not verified); proof-level coverage is the traced families on small tensors; "
            "the remaining listed operations (all transform classes and inverses w.r.t. parameters and points, ImageTransformer, sample_image / "
            "grid_sample / warp_image w.r.t. image and coordinates, expv, compose_flows, compose_svfs, cubic B-spline evaluation / derivative / "
            "subdivision, spatial derivatives in six modes, flow functions, every similarity and regularisation loss; inverse(update_buffers in {False, True}) "
            "of every invertible transform with the loss taken through inv(points), inv.tensor() and inv.disp(); every loss class exported by "
            "deepali.losses w.r.t. every tensor argument incl. all target point sets of the point-set distances) are covered by the "
            "always-run autograd-vs-central-difference exploration at generic inputs only; kinks and clamping boundaries are excluded.",
}
