(* C09 / C07 -- state machine of deepali's spatial transforms (spatial/base.py, parametric.py,
   nonrigid.py, bspline.py, composite.py).  Definitions only.

   What is modelled (faithfully, quirks included):
   - where the attribute `params` of a transform lives (instance __dict__, the _parameters dict that
     shallow copies SHARE, the object's own _buffers / _modules dicts), Python's lookup order and the
     routing rules of torch.nn.Module.__setattr__ (a Module or plain tensor may not be assigned to a
     registered parameter name, ...);
   - tensors as mutable cells (in-place edits are seen by everyone holding the reference);
   - the buffers p (last parameters of a callable / linked transform), u, v with what they were
     computed from: a buffer is either an alias of a tensor cell (a view: DenseVectorFieldTransform
     .evaluate) or a snapshot of (content, grid, sign);
   - update(), the forward pre-hook, tensor() (recomputes only when u is missing), disp(), data_(),
     reset_parameters(), grid_() of each class, condition_(), inverse(link, update_buffers), link_(),
     unlink_(), clear_buffers(), copy.copy, and SequentialTransform over member objects.
   Numeric evaluation is abstract: an observation is the tag (content, grid, sign) a result was
   computed from.  Which statements of the source clear / register / cascade is read from the
   generated skeleton (Gen/TState.v) through the configuration record below. *)
From Coq Require Import List Bool Arith.
Import ListNotations.

Inductive kind := KDisp | KSvf | KFfd | KSvffd | KLin | KSeq.
Definition kind_eqb (a b : kind) : bool :=
  match a, b with
  | KDisp, KDisp | KSvf, KSvf | KFfd, KFfd | KSvffd, KSvffd | KLin, KLin | KSeq, KSeq => true
  | _, _ => false
  end.
Definition is_dense (k : kind) := match k with KDisp | KSvf => true | _ => false end.
Definition is_spline (k : kind) := match k with KFfd | KSvffd => true | _ => false end.
Definition is_nonrigid (k : kind) := is_dense k || is_spline k.
Definition has_exp (k : kind) := match k with KSvf | KSvffd => true | _ => false end.
Definition invertible (k : kind) := match k with KSvf | KSvffd | KLin => true | _ => false end.

Inductive err := TypeErr | ValueErr | AssertErr | AttrErr | ReadOnly | NotImpl | IndexErr | OtherErr.
Definition err_eqb (a b : err) : bool :=
  match a, b with
  | TypeErr, TypeErr | ValueErr, ValueErr | AssertErr, AssertErr | AttrErr, AttrErr
  | ReadOnly, ReadOnly | NotImpl, NotImpl | IndexErr, IndexErr | OtherErr, OtherErr => true
  | _, _ => false
  end.

(* which state-affecting statements the source contains (derived from Gen/TState.v) *)
Record cfg := mkCfg {
  c_data_clears : bool;      (* ParametricTransform.data_ calls self.clear_buffers() *)
  c_reset_clears : bool;     (* ParametricTransform.reset_parameters calls self.clear_buffers() *)
  c_cond_clears : bool;      (* SpatialTransform.condition_ calls self.clear_buffers() *)
  c_grid_clears : bool;      (* SpatialTransform.grid_ calls self.clear_buffers() *)
  c_clear_u : bool;          (* NonRigidTransform.clear_buffers deletes u *)
  c_clear_v : bool;          (* ... and v *)
  c_tensor_updates : bool;   (* NonRigidTransform.tensor calls self.update() when u is missing *)
  c_update_p : bool;         (* ParametricTransform.update re-registers p from self._data() *)
  c_hook : bool;             (* __init__ registers the forward pre-hook that calls update() *)
  c_upd_u : bool;            (* the update() of every non-rigid class registers u (and v) *)
  c_inv_flip : bool;         (* inverse() flips invert / negates the exp scale *)
  c_inv_link : bool;         (* inverse(link=True) calls inv.link_(self) *)
  c_seq_update : bool;       (* CompositeTransform.update cascades to members *)
  c_seq_clear : bool;        (* CompositeTransform.clear_buffers cascades *)
  c_seq_cond : bool;         (* CompositeTransform.condition_ cascades *)
  c_dense_grid_data : bool;  (* DenseVectorFieldTransform.grid_ re-expresses tensor parameters via data_ *)
  c_spline_grid_clears : bool; (* BSplineTransform.grid_ calls self.clear_buffers() before it assigns self._grid *)
  c_inv_exp_first : bool;     (* SVF / SVFFD.inverse assign the negated ExpFlow BEFORE the update_buffers block uses it *)
  c_link_unshares : bool      (* ParametricTransform.link_ copies the _parameters dict and drops 'params' from the copy
                                 when it holds a Parameter, before assigning the link *)
}.
Definition cfg_all (c : cfg) : bool :=
  c_data_clears c && c_reset_clears c && c_cond_clears c && c_grid_clears c && c_clear_u c && c_clear_v c
  && c_tensor_updates c && c_update_p c && c_hook c && c_upd_u c && c_inv_flip c && c_inv_link c
  && c_seq_update c && c_seq_clear c && c_seq_cond c && c_dense_grid_data c && c_spline_grid_clears c && c_inv_exp_first c && c_link_unshares c.
Definition cfg_on : cfg :=
  mkCfg true true true true true true true true true true true true true true true true true true true.

Section TS.
Variables P G C : Type.
Variable p0 : P.                                   (* content read through a dangling reference *)
Variable emptyP : kind -> G -> P.                   (* torch.empty(data_shape) *)
Variable zeroP : P -> P.                            (* init.constant_(t, 0) *)
Variable fillP : P -> P -> P.                       (* in-place overwrite, keeps the shape of the first *)
Variable regrid : kind -> P -> G -> G -> P.         (* parameters re-expressed on another grid *)
Variable callP : nat -> option C -> P.              (* what callable no. f returns on the condition *)
Variable fits : kind -> P -> G -> bool.             (* shape == (N,) + data_shape *)
Variable geq : G -> G -> bool.                      (* the test with which SpatialTransform.grid_ decides that nothing
                                                       changes: Grid.__eq__ and equal align_corners *)
Variable same_dom : G -> G -> bool.                 (* Grid.same_domain_as *)
Variable spline_ok : G -> bool.                     (* grid.align_corners() (B-spline classes) *)
Variable ffd_sub : G -> G -> option bool.           (* BSplineTransform.grid_ checks: None = ValueError,
                                                       Some true = control grid is subdivided *)

Inductive aval := ANone | ATen (r : nat) | AFun (f : nat).
Inductive mval := MFun (f : nat) | MLink (o : nat).
Inductive usrc := Alias (r : nat) | Snap (p : P).
Record ubuf := mkU { u_src : usrc; u_grid : G; u_sign : bool }.

Record obj := mkObj {
  o_kind : kind;
  o_grid : G;
  o_cond : option C;
  o_adict : option aval;            (* `params` in the instance __dict__ *)
  o_pd : nat;                       (* id of the _parameters dict (shared by shallow copies) *)
  o_bpar : option (option nat);     (* `params` in the object's own _buffers *)
  o_mpar : option (option mval);    (* `params` in the object's own _modules *)
  o_p : option nat;                 (* buffer p *)
  o_u : option ubuf;
  o_v : option ubuf;
  o_inv : bool;                     (* invert flag / sign of the ExpFlow scale *)
  o_members : list nat }.

Record state := mkSt {
  tens : list P;
  pds : nat -> option (option nat);  (* per _parameters dict: None = no key `params` *)
  npd : nat;                         (* next unused dict id *)
  objs : list obj }.
Definition empty_state : state := mkSt [] (fun _ => None) 0 [].

Definition tag := (P * G * bool)%type.
Inductive outcome :=
| Done                                      (* returned normally, nothing observed *)
| Out (l : list tag) (g : option G)         (* observed: what the result was computed from; sampling grid *)
| Raised (e : err).

Inductive res (A : Type) := Ok (a : A) (s : state) | Er (e : err) (s : state).
Arguments Ok {A}. Arguments Er {A}.
Definition bind {A B} (m : res A) (f : A -> state -> res B) : res B :=
  match m with Ok a s => f a s | Er e s => Er e s end.
Notation "x <- m ;; f" := (bind m (fun x _s => f _s)) (at level 61, m at next level, right associativity, only parsing).

(* ---------- heap primitives ---------- *)
Fixpoint replace {A} (n : nat) (x : A) (l : list A) : list A :=
  match l, n with
  | [], _ => []
  | _ :: r, O => x :: r
  | y :: r, S m => y :: replace m x r
  end.
Definition tval (s : state) (r : nat) : P := nth r (tens s) p0.
Definition new_ten (s : state) (p : P) : nat * state :=
  (length (tens s), mkSt (tens s ++ [p]) (pds s) (npd s) (objs s)).
Definition set_ten (s : state) (r : nat) (p : P) : state := mkSt (replace r p (tens s)) (pds s) (npd s) (objs s).
Definition get_obj (s : state) (o : nat) : option obj := nth_error (objs s) o.
Definition set_obj (s : state) (o : nat) (ob : obj) : state := mkSt (tens s) (pds s) (npd s) (replace o ob (objs s)).
Definition push_obj (s : state) (ob : obj) : nat * state :=
  (length (objs s), mkSt (tens s) (pds s) (npd s) (objs s ++ [ob])).
Definition get_pd (s : state) (d : nat) : option (option nat) := pds s d.
Definition set_pd (s : state) (d : nat) (v : option (option nat)) : state :=
  mkSt (tens s) (fun d' => if Nat.eqb d' d then v else pds s d') (npd s) (objs s).
(* a dict id no object refers to (and not below the allocation counter) *)
Definition next_pd (s : state) : nat := fold_left (fun m ob => Nat.max m (S (o_pd ob))) (objs s) (npd s).
Definition new_pd (s : state) (v : option (option nat)) : nat * state :=
  (next_pd s, mkSt (tens s) (fun d' => if Nat.eqb d' (next_pd s) then v else pds s d') (S (next_pd s)) (objs s)).

Definition with_obj {A} (s : state) (o : nat) (f : obj -> res A) : res A :=
  match get_obj s o with Some ob => f ob | None => Er IndexErr s end.

(* record updates *)
Definition set_grid (ob : obj) g := mkObj (o_kind ob) g (o_cond ob) (o_adict ob) (o_pd ob) (o_bpar ob) (o_mpar ob) (o_p ob) (o_u ob) (o_v ob) (o_inv ob) (o_members ob).
Definition set_cond (ob : obj) c := mkObj (o_kind ob) (o_grid ob) c (o_adict ob) (o_pd ob) (o_bpar ob) (o_mpar ob) (o_p ob) (o_u ob) (o_v ob) (o_inv ob) (o_members ob).
Definition set_slots (ob : obj) a b m := mkObj (o_kind ob) (o_grid ob) (o_cond ob) a (o_pd ob) b m (o_p ob) (o_u ob) (o_v ob) (o_inv ob) (o_members ob).
Definition set_p (ob : obj) p := mkObj (o_kind ob) (o_grid ob) (o_cond ob) (o_adict ob) (o_pd ob) (o_bpar ob) (o_mpar ob) p (o_u ob) (o_v ob) (o_inv ob) (o_members ob).
Definition set_uv (ob : obj) u v := mkObj (o_kind ob) (o_grid ob) (o_cond ob) (o_adict ob) (o_pd ob) (o_bpar ob) (o_mpar ob) (o_p ob) u v (o_inv ob) (o_members ob).
Definition set_inv (ob : obj) i := mkObj (o_kind ob) (o_grid ob) (o_cond ob) (o_adict ob) (o_pd ob) (o_bpar ob) (o_mpar ob) (o_p ob) (o_u ob) (o_v ob) i (o_members ob).
Definition set_pdid (ob : obj) d := mkObj (o_kind ob) (o_grid ob) (o_cond ob) (o_adict ob) d (o_bpar ob) (o_mpar ob) (o_p ob) (o_u ob) (o_v ob) (o_inv ob) (o_members ob).
Definition set_members (ob : obj) l := mkObj (o_kind ob) (o_grid ob) (o_cond ob) (o_adict ob) (o_pd ob) (o_bpar ob) (o_mpar ob) (o_p ob) (o_u ob) (o_v ob) (o_inv ob) l.

(* ---------- the attribute `params` ---------- *)
Inductive pval := VNone | VTen (r : nat) (isparam : bool) | VFun (f : nat) | VLink (o : nat).
(* Python attribute lookup: instance __dict__, then Module.__getattr__: _parameters, _buffers, _modules *)
Definition get_params (s : state) (ob : obj) : option pval :=
  match o_adict ob with
  | Some ANone => Some VNone
  | Some (ATen r) => Some (VTen r false)
  | Some (AFun f) => Some (VFun f)
  | None =>
    match get_pd s (o_pd ob) with
    | Some (Some r) => Some (VTen r true)
    | Some None => Some VNone
    | None =>
      match o_bpar ob with
      | Some (Some r) => Some (VTen r false)
      | Some None => Some VNone
      | None =>
        match o_mpar ob with
        | Some (Some (MFun f)) => Some (VFun f)
        | Some (Some (MLink o')) => Some (VLink o')
        | Some None => Some VNone
        | None => None
        end
      end
    end
  end.
Definition is_callable (v : pval) : bool := match v with VFun _ | VLink _ => true | _ => false end.

Inductive setv := SetNone | SetTen (r : nat) (isparam : bool) | SetLink (o : nat).
(* torch.nn.Module.__setattr__("params", value) *)
Definition set_params (s : state) (o : nat) (v : setv) : res unit :=
  with_obj s o (fun ob =>
    match v with
    | SetTen r true =>
        Ok tt (set_pd (set_obj s o (set_slots ob None None None)) (o_pd ob) (Some (Some r)))
    | _ =>
      match get_pd s (o_pd ob) with
      | Some _ =>
          match v with
          | SetNone => Ok tt (set_pd s (o_pd ob) (Some None))
          | _ => Er TypeErr s
          end
      | None =>
        match v with
        | SetLink o' => Ok tt (set_obj s o (set_slots ob None None (Some (Some (MLink o')))))
        | _ =>
          match o_mpar ob with
          | Some _ =>
              match v with
              | SetNone => Ok tt (set_obj s o (set_slots ob (o_adict ob) (o_bpar ob) (Some None)))
              | _ => Er TypeErr s
              end
          | None =>
            match o_bpar ob with
            | Some _ =>
                Ok tt (set_obj s o (set_slots ob (o_adict ob)
                        (Some match v with SetTen r _ => Some r | _ => None end) None))
            | None =>
                Ok tt (set_obj s o (set_slots ob
                        (Some match v with SetTen r _ => ATen r | _ => ANone end) None None))
            end
          end
        end
      end
    end).

(* ---------- clear_buffers ---------- *)
Section WithCfg.
Variable cf : cfg.

Definition clear_obj (ob : obj) : obj :=
  if is_nonrigid (o_kind ob)
  then set_uv ob (if c_clear_u cf then None else o_u ob) (if c_clear_v cf then None else o_v ob)
  else ob.
Definition clear1 (s : state) (o : nat) : state :=
  match get_obj s o with Some ob => set_obj s o (clear_obj ob) | None => s end.
Definition clear_buffers (s : state) (o : nat) : state :=
  match get_obj s o with
  | Some ob =>
      match o_kind ob with
      | KSeq => if c_seq_clear cf then fold_left clear1 (o_members ob) s else s
      | _ => clear1 s o
      end
  | None => s
  end.

(* ---------- data(), _data(), update() ---------- *)
Definition data_ref (s : state) (ob : obj) : res nat :=
  match get_params s ob with
  | None => Er AttrErr s
  | Some VNone => Er AssertErr s
  | Some (VTen r _) => Ok r s
  | Some _ => match o_p ob with Some r => Ok r s | None => Er AttrErr s end
  end.

Definition fresh_data (s : state) (ob : obj) : res nat :=      (* ParametricTransform._data *)
  match get_params s ob with
  | None => Er AttrErr s
  | Some VNone => Er AssertErr s
  | Some (VLink o') => with_obj s o' (fun ob' => data_ref s ob')
  | Some (VFun f) =>
      let p := callP f (o_cond ob) in
      if fits (o_kind ob) p (o_grid ob) then let (r, s') := new_ten s p in Ok r s' else Er ValueErr s
  | Some (VTen r _) => Ok r s
  end.

Definition mk_view (s : state) (k : kind) (r : nat) (g : G) (sg : bool) : ubuf :=
  (* u = data().view(...), resized only when the shapes differ *)
  if fits k (tval s r) g then mkU (Alias r) g sg else mkU (Snap (tval s r)) g sg.

Definition update1 (s : state) (o : nat) : res unit :=          (* update() of a non-composite transform *)
  with_obj s o (fun ob =>
    bind (match o_p ob with
          | Some _ => if c_update_p cf
                      then bind (fresh_data s ob) (fun r s1 => Ok (set_p ob (Some r)) (set_obj s1 o (set_p ob (Some r))))
                      else Ok ob s
          | None => Ok ob s
          end)
    (fun ob1 s1 =>
      match o_kind ob1 with
      | KLin | KSeq => Ok tt s1
      | k =>
        bind (data_ref s1 ob1) (fun r s2 =>
          let g := o_grid ob1 in
          if is_spline k && negb (spline_ok g) then Er AssertErr s2 else
          if is_spline k && negb (fits k (tval s2 r) g) then Er OtherErr s2 else
          let snap sg := mkU (Snap (tval s2 r)) g sg in
          let ob2 :=
            match k with
            | KDisp => set_uv ob1 (Some (mk_view s2 k r g false)) (o_v ob1)
            | KSvf => set_uv ob1 (Some (snap (o_inv ob1))) (Some (mk_view s2 k r g false))
            | KFfd => set_uv ob1 (Some (snap false)) (o_v ob1)
            | _ => set_uv ob1 (Some (snap (o_inv ob1))) (Some (snap false))
            end in
          Ok tt (if c_upd_u cf then set_obj s2 o ob2 else s2))
      end)).

Fixpoint update_all (s : state) (l : list nat) : res unit :=
  match l with
  | [] => Ok tt s
  | o :: r => bind (update1 s o) (fun _ s1 => update_all s1 r)
  end.
Definition update (s : state) (o : nat) : res unit :=
  with_obj s o (fun ob =>
    match o_kind ob with
    | KSeq => if c_seq_update cf then update_all s (o_members ob) else Ok tt s
    | _ => update1 s o
    end).

(* ---------- tensor(), forward, disp ---------- *)
Definition tag_of (s : state) (u : ubuf) : tag :=
  (match u_src u with Alias r => tval s r | Snap p => p end, u_grid u, u_sign u).

Definition tensor1 (s : state) (o : nat) : res tag :=
  with_obj s o (fun ob =>
    match o_kind ob with
    | KSeq => Er OtherErr s
    | KLin => bind (data_ref s ob) (fun r s1 => Ok (tval s1 r, o_grid ob, o_inv ob) s1)
    | _ =>
      match o_u ob with
      | Some u => Ok (tag_of s u) s
      | None =>
        if c_tensor_updates cf then
          bind (update1 s o) (fun _ s1 =>
            with_obj s1 o (fun ob1 =>
              match o_u ob1 with Some u => Ok (tag_of s1 u) s1 | None => Er AssertErr s1 end))
        else Er AssertErr s
      end
    end).

Fixpoint tensor_all (s : state) (l : list nat) : res (list tag) :=
  match l with
  | [] => Ok [] s
  | o :: r => bind (tensor1 s o) (fun t s1 => bind (tensor_all s1 r) (fun ts s2 => Ok (t :: ts) s2))
  end.
Definition forward (s : state) (o : nat) : res (list tag) :=
  with_obj s o (fun ob =>
    match o_kind ob with
    | KSeq => tensor_all s (o_members ob)
    | _ => bind (tensor1 s o) (fun t s1 => Ok [t] s1)
    end).

Definition call (s : state) (o : nat) : res (list tag) :=          (* __call__: pre-hook, then forward *)
  bind (if c_hook cf then update s o else Ok tt s) (fun _ s1 => forward s1 o).

(* ---------- replacing operations ---------- *)
Definition data_set (s : state) (o : nat) (p : P) (isparam : bool) : res unit :=
  with_obj s o (fun ob =>
    match o_kind ob with
    | KSeq => Er AttrErr s
    | k =>
      match get_params s ob with
      | None => Er AttrErr s
      | Some pv =>
        if is_callable pv then Er ReadOnly s else
        if negb (fits k p (o_grid ob)) then Er ValueErr s else
        let (r, s1) := new_ten s p in
        let keep := match pv with VTen _ true => true | _ => false end in
        bind (set_params s1 o (SetTen r (keep || isparam))) (fun _ s2 =>
          Ok tt (if c_data_clears cf then clear_buffers s2 o else s2))
      end
    end).

Definition reset (s : state) (o : nat) : res unit :=
  with_obj s o (fun ob =>
    match o_kind ob with
    | KSeq => Er AttrErr s
    | _ =>
      match get_params s ob with
      | None => Er AttrErr s
      | Some VNone => Ok tt s
      | Some pv =>
        bind (if is_callable pv then match o_p ob with Some r => Ok r s | None => Er AttrErr s end
              else match pv with VTen r _ => Ok r s | _ => Er OtherErr s end)
        (fun r s1 =>
          let s2 := set_ten s1 r (zeroP (tval s1 r)) in
          Ok tt (if c_reset_clears cf then clear_buffers s2 o else s2))
      end
    end).

Definition edit (s : state) (o : nat) (p : P) : res unit :=          (* t.data() modified in place *)
  with_obj s o (fun ob =>
    match o_kind ob with
    | KSeq => Er AttrErr s
    | _ => bind (data_ref s ob) (fun r s1 => Ok tt (set_ten s1 r (fillP (tval s1 r) p)))
    end).

Definition cond1 (c : C) (s : state) (o : nat) : state :=
  let s1 := if c_cond_clears cf then clear_buffers s o else s in
  match get_obj s1 o with Some ob => set_obj s1 o (set_cond ob (Some c)) | None => s1 end.
Definition cond_set (s : state) (o : nat) (c : C) : res unit :=
  with_obj s o (fun ob =>
    let s1 := cond1 c s o in
    match o_kind ob with
    | KSeq => Ok tt (if c_seq_cond cf then fold_left (cond1 c) (o_members ob) s1 else s1)
    | _ => Ok tt s1
    end).

Definition base_grid_set (s : state) (o : nat) (g : G) : state :=     (* SpatialTransform.grid_ *)
  match get_obj s o with
  | Some ob =>
      if geq (o_grid ob) g then s else
      let s1 := if c_grid_clears cf then clear_buffers s o else s in
      match get_obj s1 o with Some ob1 => set_obj s1 o (set_grid ob1 g) | None => s1 end
  | None => s
  end.

(* BSplineTransform.grid_ after its checks: self.clear_buffers(); self._grid = grid *)
Definition spline_install (s : state) (o : nat) (g : G) : state :=
  let s0 := if c_spline_grid_clears cf then clear_buffers s o else s in
  match get_obj s0 o with Some ob0 => set_obj s0 o (set_grid ob0 g) | None => s0 end.

Definition grid_set (s : state) (o : nat) (g : G) : res unit :=
  with_obj s o (fun ob =>
    let k := o_kind ob in
    if is_dense k then
      match get_params s ob with
      | None => Er AttrErr s
      | Some (VTen r _) =>
          if c_dense_grid_data cf then
            let p' := regrid k (tval s r) (o_grid ob) g in
            let s1 := base_grid_set s o g in
            match data_set s1 o p' false with
            | Ok _ s2 => Ok tt s2
            | Er e s2 => Er e (match get_obj s2 o with Some ob2 => set_obj s2 o (set_grid ob2 (o_grid ob)) | None => s2 end)
            end
          else Ok tt (base_grid_set s o g)
      | Some _ => Ok tt (base_grid_set s o g)
      end
    else if is_spline k then
      match get_params s ob with
      | None => Er AttrErr s
      | Some (VTen r _) =>
          if negb (spline_ok g) then Er ValueErr s else
          match ffd_sub (o_grid ob) g with
          | None => Er ValueErr s
          | Some sub =>
              let s1 := spline_install s o g in
              if sub then data_set s1 o (regrid k (tval s r) (o_grid ob) g) false else Ok tt s1
          end
      | Some _ => Ok tt (spline_install s o g)
      end
    else Ok tt (base_grid_set s o g)).

(* ---------- link_, unlink_, copy, inverse ---------- *)
(* link_: a transform whose (shared) _parameters dict holds a Parameter gets a private copy of the dict
   without `params` *)
Definition unshare_params (s : state) (o : nat) (ob : obj) : state :=
  match get_pd s (o_pd ob) with
  | Some (Some _) =>
      if c_link_unshares cf then let (d, s') := new_pd s None in set_obj s' o (set_pdid ob d) else s
  | _ => s
  end.

Definition link_set (s : state) (o o' : nat) : res unit :=
  with_obj s o (fun ob => with_obj s o' (fun ob' =>
    if Nat.eqb o o' then Er ValueErr s else
    if negb (kind_eqb (o_kind ob) (o_kind ob')) then Er TypeErr s else
    match o_kind ob with
    | KSeq => Er AttrErr s
    | k =>
      bind (set_params (unshare_params s o ob) o (SetLink o')) (fun _ s1 =>
        with_obj s1 o (fun ob1 =>
          match o_p ob1 with
          | Some _ => Ok tt s1
          | None =>
            match get_params s1 ob' with
            | None => Er AttrErr s1
            | Some VNone =>
                (* p = torch.empty(self.data_shape) has no batch dimension: every later use of it
                   fails or returns an ill-shaped tensor; not modelled (reported as a quirk) *)
                Er OtherErr s1
            | Some _ =>
                bind (with_obj s1 o' (fun ob'' => data_ref s1 ob'')) (fun r s2 =>
                  Ok tt (set_obj s2 o (set_p ob1 (Some r))))
            end
          end))
    end)).

Definition unlink (s : state) (o : nat) : res unit :=
  with_obj s o (fun ob =>
    match o_kind ob with
    | KSeq => Er AttrErr s
    | _ =>
      bind (set_params s o SetNone) (fun _ s1 =>
        with_obj s1 o (fun ob1 => Ok tt (set_obj s1 o (set_p ob1 None))))
    end).

Definition copy_obj (s : state) (o : nat) : res nat :=
  with_obj s o (fun ob => let (n, s1) := push_obj s ob in Ok n s1).

(* accessor copies (since ac06f87 / 91d1617): data(arg), grid(arg), unlink(), matrix(arg) work on a shallow copy whose
   _parameters dict is a private copy; condition(...) / grid(arg) of a composite also copy the members one level *)
Definition private_copy (s : state) (o : nat) : res nat :=
  with_obj s o (fun ob =>
    let (d, s1) := new_pd s (get_pd s (o_pd ob)) in
    let (n, s2) := push_obj s1 (set_pdid ob d) in Ok n s2).
Fixpoint copy_all (s : state) (l : list nat) : res (list nat) :=
  match l with
  | [] => Ok [] s
  | o :: r => bind (copy_obj s o) (fun n s1 => bind (copy_all s1 r) (fun ns s2 => Ok (n :: ns) s2))
  end.
Definition copy_with_transforms (s : state) (o : nat) : res nat :=
  with_obj s o (fun ob =>
    match copy_all s (o_members ob) with
    | Er e _ => Er e s
    | Ok ns s1 => let (n, s2) := push_obj s1 (set_members ob ns) in Ok n s2
    end).
Definition accessor_copy (s : state) (o : nat) (private : bool) : res nat :=
  with_obj s o (fun ob =>
    match o_kind ob with
    | KSeq => copy_with_transforms s o
    | _ => if private then private_copy s o else copy_obj s o
    end).

(* t.data(arg): conditioned on nothing, a private copy holding arg *)
Definition data_new (s : state) (o : nat) (p : P) (isparam : bool) : res nat :=
  with_obj s o (fun ob =>
    match o_kind ob with
    | KSeq => Er AttrErr s
    | k =>
      match get_params s ob with
      | None => Er AttrErr s
      | Some pv =>
        if negb (fits k p (o_grid ob)) then Er ValueErr s else
        match private_copy s o with
        | Er e _ => Er e s
        | Ok n s1 =>
          match (if is_callable pv
                 then with_obj s1 n (fun obn => match o_p obn with
                                               | Some _ => Ok tt (set_obj s1 n (set_p obn None))
                                               | None => Er AttrErr s1 end)
                 else Ok tt s1) with
          | Er e _ => Er e s
          | Ok _ s2 =>
            let (r, s3) := new_ten s2 p in
            let keep := match pv with VTen _ true => true | _ => false end in
            match set_params s3 n (SetTen r (keep || isparam)) with
            | Er e _ => Er e s
            | Ok _ s4 => Ok n (clear_buffers s4 n)
            end
          end
        end
      end
    end).

Definition u_content (s : state) (u : ubuf) : P := match u_src u with Alias r => tval s r | Snap p => p end.

Definition inverse1 (s : state) (o : nat) (link upd : bool) : res nat :=
  with_obj s o (fun ob =>
    let k := o_kind ob in
    if negb (invertible k) then Er NotImpl s else
    let (n, s1) := push_obj s ob in
    match (if link && c_inv_link cf then link_set s1 n o else Ok tt s1) with
    | Er e _ => Er e s
    | Ok _ s2 =>
      with_obj s2 n (fun ob2 =>
        let sg := if c_inv_flip cf then negb (o_inv ob) else o_inv ob in
        let ob3 := set_inv ob2 sg in
        let ob4 :=
          if has_exp k && upd then
            match o_v ob3 with
            | Some v => set_uv ob3 (Some (mkU (Snap (u_content s2 v)) (u_grid v)
                                               (if c_inv_exp_first cf then sg else o_inv ob))) (o_v ob3)
            | None => ob3
            end
          else ob3 in
        Ok n (set_obj s2 n ob4))
    end).

Fixpoint inverse_all (s : state) (l : list nat) (link upd : bool) : res (list nat) :=
  match l with
  | [] => Ok [] s
  | o :: r => bind (inverse1 s o link upd) (fun n s1 =>
                bind (inverse_all s1 r link upd) (fun ns s2 => Ok (n :: ns) s2))
  end.

Definition inverse (s : state) (o : nat) (link upd : bool) : res nat :=
  with_obj s o (fun ob =>
    match o_kind ob with
    | KSeq =>
        match inverse_all s (rev (o_members ob)) link upd with
        | Er e _ => Er e s
        | Ok ns s1 => let (n, s2) := push_obj s1 (set_members ob ns) in Ok n s2
        end
    | _ => inverse1 s o link upd
    end).

(* ---------- constructors ---------- *)
Inductive pkind := PkBool (b : bool) | PkTen (p : P) (isparam : bool) | PkFun (f : nat) (ismod : bool) | PkNone.

Definition new_obj (s : state) (k : kind) (g : G) (pk : pkind) : res nat :=
  match k with
  | KSeq => Er OtherErr s
  | _ =>
    if is_spline k && negb (spline_ok g) then Er ValueErr s else
    let blank a d b m p := mkObj k g None a d b m p None None false [] in
    match pk with
    | PkNone => let (d, s1) := new_pd s None in let (n, s2) := push_obj s1 (blank (Some ANone) d None None None) in Ok n s2
    | PkBool b =>
        let (r, s1) := new_ten s (zeroP (emptyP k g)) in
        if b then let (d, s2) := new_pd s1 (Some (Some r)) in let (n, s3) := push_obj s2 (blank None d None None None) in Ok n s3
        else let (d, s2) := new_pd s1 None in let (n, s3) := push_obj s2 (blank None d (Some (Some r)) None None) in Ok n s3
    | PkTen p isparam =>
        if negb (fits k p g) then Er ValueErr s else
        let (r, s1) := new_ten s p in
        if isparam then let (d, s2) := new_pd s1 (Some (Some r)) in let (n, s3) := push_obj s2 (blank None d None None None) in Ok n s3
        else let (d, s2) := new_pd s1 None in let (n, s3) := push_obj s2 (blank None d (Some (Some r)) None None) in Ok n s3
    | PkFun f ismod =>
        let (r, s1) := new_ten s (zeroP (emptyP k g)) in
        let (d, s2) := new_pd s1 None in
        let (n, s3) := push_obj s2 (if ismod then blank None d None (Some (Some (MFun f))) (Some r)
                                    else blank (Some (AFun f)) d None None (Some r)) in
        Ok n s3
    end
  end.

Definition new_seq (s : state) (ms : list nat) : res nat :=
  match ms with
  | [] => Er IndexErr s
  | m0 :: _ =>
    with_obj s m0 (fun ob0 =>
      let g := o_grid ob0 in
      if forallb (fun m => match get_obj s m with Some ob => same_dom (o_grid ob) g | None => false end) ms then
        let (d, s1) := new_pd s None in
        let (n, s2) := push_obj s1 (mkObj KSeq g None None d None None None None None false ms) in Ok n s2
      else Er ValueErr s)
  end.

(* ---------- operations and histories ---------- *)
Inductive op :=
| New (k : kind) (g : G) (pk : pkind)
| NewSeq (ms : list nat)
| DataSet (o : nat) (p : P) (isparam : bool)
| Edit (o : nat) (p : P)
| GridSet (o : nat) (g : G)
| CondSet (o : nat) (c : C)
| CondNew (o : nat) (c : C)          (* t.condition(c) / t.condition(c=...): conditioned shallow copy *)
| GridNew (o : nat) (g : G)          (* t.grid(g): copy with a private _parameters dict, then grid_ *)
| DataNew (o : nat) (p : P) (isparam : bool)   (* t.data(arg) *)
| Reset (o : nat)
| Update (o : nat)
| Call (o : nat)
| Disp (o : nat)
| TensorOf (o : nat)
| Inverse (o : nat) (link upd : bool)
| LinkTo (o o' : nat)
| Unlink (o : nat)
| Clear (o : nat)
| Copy (o : nat).

Definition fin {A} (m : res A) (f : A -> outcome) : state * outcome :=
  match m with Ok a s => (s, f a) | Er e s => (s, Raised e) end.

Definition step (s : state) (x : op) : state * outcome :=
  match x with
  | New k g pk => fin (new_obj s k g pk) (fun _ => Done)
  | NewSeq ms => fin (new_seq s ms) (fun _ => Done)
  | DataSet o p ip => fin (data_set s o p ip) (fun _ => Done)
  | Edit o p => fin (edit s o p) (fun _ => Done)
  | GridSet o g => fin (grid_set s o g) (fun _ => Done)
  | CondSet o c => fin (cond_set s o c) (fun _ => Done)
  | CondNew o c => fin (match bind (accessor_copy s o false) (fun n s1 => cond_set s1 n c) with
                        | Er e _ => Er e s | r => r end) (fun _ => Done)
  | GridNew o g => fin (match bind (accessor_copy s o true) (fun n s1 => grid_set s1 n g) with
                        | Er e _ => Er e s | r => r end) (fun _ => Done)
  | DataNew o p ip => fin (data_new s o p ip) (fun _ => Done)
  | Reset o => fin (reset s o) (fun _ => Done)
  | Update o => fin (update s o) (fun _ => Done)
  | Call o => fin (call s o) (fun l => Out l None)
  | Disp o => match get_obj s o with
              | Some ob => fin (forward s o) (fun l => Out l (Some (o_grid ob)))
              | None => (s, Raised IndexErr)
              end
  | TensorOf o => fin (forward s o) (fun l => Out l None)
  | Inverse o l u => fin (inverse s o l u) (fun _ => Done)
  | LinkTo o o' => fin (link_set s o o') (fun _ => Done)
  | Unlink o => fin (unlink s o) (fun _ => Done)
  | Clear o => match get_obj s o with Some _ => (clear_buffers s o, Done) | None => (s, Raised IndexErr) end
  | Copy o => fin (copy_obj s o) (fun _ => Done)
  end.

Fixpoint run (s : state) (h : list op) : state :=
  match h with
  | [] => s
  | x :: r => run (fst (step s x)) r
  end.
Fixpoint trace (s : state) (h : list op) : list outcome :=
  match h with
  | [] => []
  | x :: r => snd (step s x) :: trace (fst (step s x)) r
  end.

(* ---------- specification: what a transform holds at this moment (no buffers involved) ---------- *)
Definition sign_of (ob : obj) : bool := if invertible (o_kind ob) then o_inv ob else false.
Definition held (s : state) (o : nat) : option tag :=
  match get_obj s o with
  | None => None
  | Some ob =>
    match get_params s ob with
    | Some (VTen r _) => Some (tval s r, o_grid ob, sign_of ob)
    | Some (VFun f) => Some (callP f (o_cond ob), o_grid ob, sign_of ob)
    | Some (VLink o') =>
        match get_obj s o' with
        | Some ob' => match data_ref s ob' with
                      | Ok r _ => Some (tval s r, o_grid ob, sign_of ob)
                      | Er _ _ => None
                      end
        | None => None
        end
    | _ => None
    end
  end.
End WithCfg.
End TS.

Arguments Ok {P G C A}. Arguments Er {P G C A}.
