(* C15 -- effect skeletons of tensor-level functions and their (may-alias) semantics (definitions only).

   A skeleton is what the translator unit MutSkeleton extracts from a function body: which variables may
   refer to which other variables' tensors (assignments, views, "returns its argument when nothing is to be
   done" calls -- each such uncertain edge guarded by a branch bit) and where tensors are written in place
   (trailing-underscore methods / functions, augmented assignment, subscript assignment, out=).
   The function's parameters are the first variables; sk_targs lists those that can hold tensors.  The semantics computes, for a branch vector,
   the set of parameters whose tensor may be written: a certified may-alias effect analysis. *)
From Coq Require Import List Bool Arith String.
Import ListNotations.

Inductive asrc := SFresh | SVar (v : nat) | SMaybe (v : nat) (bit : nat)
| SRet (g p v : nat).      (* result of a call of package function g: refers to what v (bound to g's parameter p) refers to
                              iff g's summary says its result may refer to parameter p *)
Inductive instr :=
| IAssign (strong : bool) (v : nat) (srcs : list asrc)     (* v = expr; expr may refer to the tensors of srcs *)
| IInplace (v : nat)                                          (* the tensor(s) v may refer to are written in place *)
| ILoop (body : list instr)                                   (* for / while: the body runs any number of times *)
| IIf (a b : list instr)                                      (* if / else: one of the two branches runs *)
| ICallW (g p v : nat).                                       (* call of package function g with v bound to its parameter p:
                                                                 v is written iff g's summary says g may write parameter p *)
Record skel := mkSkel { sk_name : string; sk_targs : list nat; sk_nvars : nat; sk_nbits : nat; sk_retvar : nat; sk_code : list instr }.
(* summary of a function: parameters its result may refer to, parameters it may write in place *)
Definition summary := (list nat * list nat)%type.
(* sk_targs: the parameters that can hold a tensor / mutable container (by their annotation); int / float / bool / str /
   enum parameters are immutable values, `n += 1` rebinds them *)

Definition pstate := list (list nat).          (* per variable: parameters whose tensor it may refer to *)
Definition get (p : pstate) (v : nat) : list nat := nth v p [].
Fixpoint set_nth (p : pstate) (v : nat) (x : list nat) : pstate :=
  match p, v with
  | [], _ => []
  | _ :: r, 0 => x :: r
  | y :: r, S k => y :: set_nth r k x
  end.
Fixpoint union (a b : list nat) : list nat :=
  match a with
  | [] => b
  | x :: r => if existsb (Nat.eqb x) b then union r b else x :: union r b
  end.
Section WithSummaries.
Variable summ : list summary.       (* claimed summaries of all skeletons, by index *)
Definition src_pts (bv : list bool) (p : pstate) (s : asrc) : list nat :=
  match s with
  | SFresh => []
  | SVar v => get p v
  | SMaybe v bit => if nth bit bv true then get p v else []
  | SRet g prm v => if existsb (Nat.eqb prm) (fst (nth g summ ([], []))) then get p v else []
  end.
Definition init_state (sk : skel) : pstate :=
  map (fun k => if existsb (Nat.eqb k) (sk_targs sk) then [k] else []) (seq 0 (sk_nvars sk)).
Fixpoint list_eqb {A} (eqb : A -> A -> bool) (a b : list A) : bool :=
  match a, b with
  | [], [] => true
  | x :: a', y :: b' => eqb x y && list_eqb eqb a' b'
  | _, _ => false
  end.
Definition state_eqb (a b : pstate * list nat) : bool :=
  list_eqb (list_eqb Nat.eqb) (fst a) (fst b) && list_eqb Nat.eqb (snd a) (snd b).
(* iterate a loop body until nothing changes (points-to sets only grow), at most n times *)
Fixpoint iter (n : nat) (f : pstate * list nat -> pstate * list nat) (x : pstate * list nat) : pstate * list nat :=
  match n with
  | 0 => x
  | S k => let y := f x in if state_eqb y x then x else iter k f y
  end.
(* k: bound on the number of iterations of a loop body; (number of variables + 1) * (number of parameters + 1) changes suffice *)
Fixpoint join_p (a b : pstate) : pstate :=
  match a, b with
  | x :: a', y :: b' => union x y :: join_p a' b'
  | [], r | r, [] => r
  end.
Definition join (a b : pstate * list nat) : pstate * list nat := (join_p (fst a) (fst b), union (snd a) (snd b)).
(* k: bound on the number of iterations of a loop body; (number of variables + 1) * (number of parameters + 1) changes suffice.
   Branches run from the same state and are joined; a loop joins the state at its head with the state after its body
   until nothing changes: strong updates inside a branch or a loop body are therefore sound. *)
Fixpoint step (k : nat) (bv : list bool) (st : pstate * list nat) (i : instr) : pstate * list nat :=
  match i with
  | IAssign strong v srcs =>
      let '(p, w) := st in
      let new := fold_left (fun acc s => union (src_pts bv p s) acc) srcs [] in
      (set_nth p v (if strong then new else union new (get p v)), w)
  | IInplace v => let '(p, w) := st in (p, union (get p v) w)
  | ILoop body => iter k (fun s => join s (fold_left (step k bv) body s)) st
  | IIf a b => join (fold_left (step k bv) a st) (fold_left (step k bv) b st)
  | ICallW g prm v => let '(p, w) := st in
                      if existsb (Nat.eqb prm) (snd (nth g summ ([], []))) then (p, union (get p v) w) else st
  end.
Definition final_state (sk : skel) (bv : list bool) : pstate * list nat :=
  fold_left (step (S (sk_nvars sk) * S (List.length (sk_targs sk))) bv) (sk_code sk) (init_state sk, []).
Definition written (sk : skel) (bv : list bool) : list nat := snd (final_state sk bv).
Definition returned (sk : skel) (bv : list bool) : list nat := get (fst (final_state sk bv)) (sk_retvar sk).

Fixpoint all_vectors (n : nat) : list (list bool) :=
  match n with
  | 0 => [[]]
  | S k => flat_map (fun v => [true :: v; false :: v]) (all_vectors k)
  end.
Definition subset (a b : list nat) : bool := forallb (fun x => existsb (Nat.eqb x) b) a.
(* the claimed summary of a skeleton covers what its body can do, for every branch vector, given the claimed summaries
   of the functions it calls (assume / guarantee: sound for all terminating calls by induction on the call depth) *)
Definition summary_ok (sk : skel) (claimed : summary) : bool :=
  forallb (fun bv => subset (returned sk bv) (fst claimed) && subset (written sk bv) (snd claimed)) (all_vectors (sk_nbits sk)).
End WithSummaries.

Definition all_summaries_ok (sks : list skel) (summ : list summary) : bool :=
  (List.length sks =? List.length summ) && forallb (fun p => summary_ok summ (fst p) (snd p)) (combine sks summ).
(* a function whose (checked) summary has no written parameter leaves the tensors of all its arguments alone *)
Definition no_arg_mutation (claimed : summary) : bool := match snd claimed with [] => true | _ => false end.
