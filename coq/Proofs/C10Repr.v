(* warp_image and exp are independent of the vector representation: in every representation they are the SAME index-space
   operation on the underlying displacement (in samples), conjugated by the representation change.  D = 2. *)
From Coq Require Import ZArith List Field Ring Lia Bool.
From DV Require Import Base.Field Base.FieldFacts Base.LinAlg Base.Tactics Model.Enums Model.Homog Model.Grid Model.Sampler
  Model.Flow Model.FlowRepr Gen.GridT Proofs.SamplerFacts Proofs.C11Interp Proofs.C11Compose Proofs.C11Expv Proofs.C13Compose
  Proofs.C10Axes Proofs.C10Conv.
Import ListNotations.
Local Open Scope fld_scope.

Section Repr.
Variable K : fld.
Hypothesis Kf : is_field K.
Hypothesis Kc : char0 K.
Add Field KFR : Kf.
Variable floorK : K -> Z.

Variables nx ny : Z.
Hypothesis Hx : (2 <= nx)%Z.
Hypothesis Hy : (2 <= ny)%Z.
Variable g : @gridf K.
Hypothesis Hw : gwf 2 g.
Hypothesis Hn0 : fst (fst (fst g)) 0%nat = of_Z nx.
Hypothesis Hn1 : fst (fst (fst g)) 1%nat = of_Z ny.

(* the field with index-space displacement f, expressed with respect to axes A *)
Definition repr (A : axes) (f : (Z -> Z -> K) * (Z -> Z -> K)) : list (list (list K)) :=
  field_map2 (gvecs 2 GRID A g) (field2 K nx ny (fst f) (snd f)).

Lemma list2_eta (v : list K) : length v = 2%nat -> v = [nth 0 v 0; nth 1 v 0].
Proof. destruct v as [|a [|b [|? ?]]]; try discriminate. reflexivity. Qed.

Lemma field_map2_field2 F (f0 f1 : Z -> Z -> K) :
  field_map2 F (field2 K nx ny f0 f1)
  = field2 K nx ny (fun x y => nth 0 (F [f0 x y; f1 x y]) 0) (fun x y => nth 1 (F [f0 x y; f1 x y]) 0).
Proof.
  unfold field_map2, field2. cbn [nth seq map]. rewrite zlen_tab2, zlen_hd_tab2 by lia.
  f_equal; [|f_equal]; apply tab2_ext; intros x y Hxr Hyr; now rewrite !get2_tab2 by lia.
Qed.

Lemma gvecs_grid_cube ac (a b : K) : gvecs 2 GRID (cube_of ac) g [a; b] = [nscale ac nx * a; nscale ac ny * b].
Proof.
  destruct g as [[[n s] c] d]. cbn [fst] in Hn0, Hn1.
  pose proof (nm1_nz K Kf Kc nx Hx). pose proof (n_nz K Kf Kc nx Hx). pose proof (nm1_nz K Kf Kc ny Hy). pose proof (n_nz K Kf Kc ny Hy).
  pose proof (two_nz K Kf Kc).
  destruct ac; cbn [cube_of gvecs]; unfold gen_vecs, gen_vecs_GK_2, gen_vecs_GC_2, vtab, tab, nscale; cbn [map seq];
    rewrite Hn0, Hn1; cbn [of_Z of_pos]; f_equal; [|f_equal| |f_equal]; field; auto.
Qed.

(* converting the representation of repr A f gives repr B f *)
Theorem repr_convert A B f : field_map2 (gvecs 2 A B g) (repr A f) = repr B f.
Proof.
  unfold repr. rewrite !field_map2_field2. unfold field2.
  f_equal; [|f_equal]; apply tab2_ext; intros x y Hxr Hyr;
    rewrite <- (list2_eta (gvecs 2 GRID A g [fst f x y; snd f x y]))
      by (apply (gvecs_len K Kf Kc 2); auto);
    rewrite (gvecs_path_independent K Kf Kc 2) by auto; reflexivity.
Qed.
Lemma repr_cube ac f : repr (cube_of ac) f = cube2 K ac nx ny f.
Proof.
  unfold repr, cube2, to_cube2. rewrite field_map2_field2. unfold field2.
  f_equal; [|f_equal]; apply tab2_ext; intros x y Hxr Hyr; now rewrite gvecs_grid_cube.
Qed.

(* warp_image: in every representation, sample the image at  index + displacement in samples *)
Theorem warp2_is_index_space pad A img f : zlen img = ny -> zlen (hd [] img) = nx ->
  warp2 floorK pad A g img (repr A f)
  = tab2 nx ny (fun x y => sample2 floorK pad img (of_Z x + fst f x y) (of_Z y + snd f x y)).
Proof.
  intros Hiy Hix. unfold warp2. rewrite repr_convert, repr_cube. unfold cube2, to_cube2. cbn [nth].
  rewrite zlen_tab2, zlen_hd_tab2 by lia. apply tab2_ext. intros x y Hxr Hyr. rewrite !get2_tab2 by lia.
  unfold grid_sample2. rewrite Hiy, Hix. now rewrite !(unnorm_shift K Kf Kc) by lia.
Qed.
Theorem warp2_repr_independent pad A B img f : zlen img = ny -> zlen (hd [] img) = nx ->
  warp2 floorK pad A g img (repr A f) = warp2 floorK pad B g img (repr B f).
Proof. intros H1 H2. now rewrite !warp2_is_index_space. Qed.

(* exp as specified: in every representation, the index-space scaling and squaring of the underlying displacement *)
Theorem exp_spec2_is_index_space A scale k f :
  exp_spec2 floorK A g scale k (repr A f) = repr A (idx_expv K floorK nx ny (expv_pre k scale) k f).
Proof.
  unfold exp_spec2. rewrite repr_convert, repr_cube. rewrite (expv2_is_index_space K Kf Kc) by lia.
  rewrite <- repr_cube. cbn [expv_scale]. apply repr_convert.
Qed.
Theorem exp_spec2_repr_independent A B scale k f :
  field_map2 (gvecs 2 A B g) (exp_spec2 floorK A g scale k (repr A f)) = exp_spec2 floorK B g scale k (repr B f).
Proof. rewrite !exp_spec2_is_index_space. apply repr_convert. Qed.

(* what the code computes is the specification, for EVERY axes and every field (not only repr fields) *)
Theorem exp_code2_is_spec A scale k u : exp_code2 floorK A g scale k u = exp_spec2 floorK A g scale k u.
Proof. reflexivity. Qed.
Theorem exp_code2_repr_independent A B scale k f :
  field_map2 (gvecs 2 A B g) (exp_code2 floorK A g scale k (repr A f)) = exp_code2 floorK B g scale k (repr B f).
Proof. rewrite !exp_code2_is_spec. apply exp_spec2_repr_independent. Qed.
(* exponentiating the unconverted tensor is right only when the vectors already are cube vectors *)
Theorem exp_unconverted2_cube ac scale k f :
  exp_unconverted2 floorK (cube_of ac) g scale k (repr (cube_of ac) f) = exp_spec2 floorK (cube_of ac) g scale k (repr (cube_of ac) f).
Proof.
  unfold exp_unconverted2, exp_spec2. f_equal. f_equal.
  replace (axes_ac (cube_of ac)) with ac by (destruct ac; reflexivity).
  symmetry. rewrite repr_convert. reflexivity.
Qed.
End Repr.
