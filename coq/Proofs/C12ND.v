(* C12: the composed 2-D operator (smooth the other axis for prewitt / sobel, difference along the axis, divide by the
   spacing) is exact on affine fields at the points each scheme supports -- all shapes, all spacings. *)
From Coq Require Import ZArith List Field Ring Lia Bool.
From DV Require Import Base.Field Base.FieldFacts Base.LinAlg Base.Tactics Model.BSplineBase Gen.BSpline Model.BSpline
  Gen.FlowDeriv Model.FiniteDiff Proofs.C14Tac Proofs.C14Eval Proofs.C12FD.
Import ListNotations.
Local Open Scope fld_scope.

Section Field2.
Context {K : fld}.
(* f(y, x) = a + bx (x hx) + by (y hy) sampled on an ny x nx grid (tensor order [y][x]) *)
Definition field2 (a bx by_ hx hy : K) (nx ny : nat) : list (list K) :=
  map (fun y => map (fun x => a + bx * (zn x * hx) + by_ * (zn y * hy)) (seq 0 nx)) (seq 0 ny).
(* points at which prewitt / sobel smooth without touching the zero padding of the other axis *)
Definition smooth_ok (m : fdmode) (n i : nat) : Prop :=
  match m with Prewitt | Sobel => (1 <= i)%nat /\ (i + 1 < n)%nat | _ => (i < n)%nat end.
End Field2.

Section Proofs.
Variable K : fld.
Hypothesis Kf : is_field K.
Hypothesis Kc : char0 K.
Add Field KF : Kf.

Lemma length_smooth1 m (l : list K) : length (smooth1 m l) = length l.
Proof. destruct m; try reflexivity; unfold smooth1, avg1; rewrite map_length, seq_length; reflexivity. Qed.

Definition colx (x : nat) (c : list (list K)) : list K := map (fun r => nth x r 0) c.

Lemma nth_along_y2 (f : list K -> list K) (c : list (list K)) (nx x y : nat) :
  (forall l, length (f l) = length l) -> length (nth 0 c []) = nx -> (x < nx)%nat -> (y < length c)%nat ->
  nth x (nth y (along_y2 f c) []) 0 = nth y (f (colx x c)) 0.
Proof.
  intros Hf Hnx Hx Hy. unfold along_y2. rewrite Hnx.
  set (cols := map (fun i => f (map (fun r => nth i r 0) c)) (seq 0 nx)).
  assert (L0 : length (nth 0 cols []) = length c).
  { unfold cols. rewrite (nth_map_seq (fun i => f (map (fun r => nth i r 0) c))) by lia. rewrite Hf, map_length. reflexivity. }
  rewrite L0.
  rewrite (nth_map_seq (fun j => map (fun cl => nth j cl 0) cols)) by exact Hy.
  rewrite (nth_indep _ 0 (nth y [] 0)) by (rewrite map_length; unfold cols; rewrite map_length, seq_length; exact Hx).
  rewrite (map_nth (fun cl => nth y cl 0)). unfold cols.
  rewrite (nth_map_seq (fun i => f (map (fun r => nth i r 0) c))) by exact Hx. reflexivity.
Qed.

Lemma length_along_y2_row (f : list K -> list K) (c : list (list K)) (nx y : nat) :
  (forall l, length (f l) = length l) -> length (nth 0 c []) = nx -> (1 <= nx)%nat -> (y < length c)%nat ->
  length (nth y (along_y2 f c) []) = nx.
Proof.
  intros Hf Hnx H1 Hy. unfold along_y2. rewrite Hnx.
  set (cols := map (fun i => f (map (fun r => nth i r 0) c)) (seq 0 nx)).
  assert (L0 : length (nth 0 cols []) = length c).
  { unfold cols. rewrite (nth_map_seq (fun i => f (map (fun r => nth i r 0) c))) by lia. rewrite Hf, map_length. reflexivity. }
  rewrite L0. rewrite (nth_map_seq (fun j => map (fun cl => nth j cl 0) cols)) by exact Hy.
  rewrite map_length. unfold cols. rewrite map_length, seq_length. reflexivity.
Qed.

Lemma field2_row (a bx by_ hx hy : K) nx ny y : (y < ny)%nat ->
  nth y (field2 a bx by_ hx hy nx ny) [] = aff_seq bx (a + by_ * (zn y * hy)) hx nx.
Proof.
  intro H. unfold field2. rewrite (nth_map_seq (fun y => map (fun x => a + bx * (zn x * hx) + by_ * (zn y * hy)) (seq 0 nx))) by exact H.
  unfold aff_seq. apply map_ext. intro x. ring.
Qed.

Lemma field2_col (a bx by_ hx hy : K) nx ny x : (x < nx)%nat ->
  colx x (field2 a bx by_ hx hy nx ny) = aff_seq by_ (a + bx * (zn x * hx)) hy ny.
Proof.
  intro H. unfold colx, field2, aff_seq. rewrite map_map. apply map_ext. intro y.
  rewrite (nth_map_seq (fun x => a + bx * (zn x * hx) + by_ * (zn y * hy))) by exact H. ring.
Qed.

Lemma length_field2 (a bx by_ hx hy : K) nx ny : length (field2 a bx by_ hx hy nx ny) = ny.
Proof. unfold field2. rewrite map_length, seq_length. reflexivity. Qed.

Lemma field2_row0_len (a bx by_ hx hy : K) nx ny : (1 <= ny)%nat -> length (nth 0 (field2 a bx by_ hx hy nx ny) []) = nx.
Proof. intro H. rewrite field2_row by lia. apply length_aff. Qed.

(* d/dx: smooth along y (prewitt / sobel), difference along x *)
Theorem dstep2_affine_x (m : fdmode) (a bx by_ hx hy : K) (nx ny x y : nat) : hx <> 0 ->
  exact1 m nx x -> smooth_ok m ny y ->
  nth x (nth y (dstep2 m 0 hx (field2 a bx by_ hx hy nx ny)) []) 0 = bx.
Proof.
  intros Hh Hx Hy.
  assert (Hxn : (x < nx)%nat) by (destruct m; cbn in Hx; lia).
  assert (Hyn : (y < ny)%nat) by (destruct m; cbn in Hy; lia).
  unfold dstep2, along_x2. set (c := field2 a bx by_ hx hy nx ny).
  assert (Lc : length c = ny) by apply length_field2.
  assert (R0c : length (nth 0 c []) = nx) by (apply field2_row0_len; lia).
  set (c' := along_y2 (smooth1 m) c).
  assert (Lc' : length c' = ny).
  { unfold c', along_y2. rewrite map_length, seq_length. rewrite R0c.
    rewrite (nth_map_seq (fun i => smooth1 m (map (fun r => nth i r 0) c))) by lia.
    rewrite length_smooth1, map_length. exact Lc. }
  rewrite (nth_indep _ [] (fd1 m hx [])) by (rewrite map_length; lia).
  rewrite (map_nth (fd1 m hx)).
  assert (Row : nth y c' [] = aff_seq bx (a + by_ * (zn y * hy)) hx nx).
  { apply (nth_ext _ _ 0 0).
    - rewrite length_aff. apply length_along_y2_row; try exact R0c; try lia. apply length_smooth1.
    - intros x' Hx'. unfold c' in Hx'. rewrite (length_along_y2_row (smooth1 m) c nx y) in Hx'
        by (try apply length_smooth1; try exact R0c; lia).
      unfold c'. rewrite (nth_along_y2 (smooth1 m) c nx x' y)
        by (try apply length_smooth1; try exact R0c; lia).
      unfold c. rewrite field2_col by exact Hx'. rewrite nth_aff by exact Hx'.
      destruct m; cbn in Hy; try (cbn [smooth1]; rewrite nth_aff by lia; ring);
      rewrite (smooth_affine_interior K Kf Kc) by lia; rewrite nth_aff by lia; ring. }
  rewrite Row. apply fd1_affine_exact; assumption.
Qed.

(* d/dy: smooth along x (prewitt / sobel), difference along y *)
Theorem dstep2_affine_y (m : fdmode) (a bx by_ hx hy : K) (nx ny x y : nat) : hy <> 0 ->
  exact1 m ny y -> smooth_ok m nx x ->
  nth x (nth y (dstep2 m 1 hy (field2 a bx by_ hx hy nx ny)) []) 0 = by_.
Proof.
  intros Hh Hy Hx.
  assert (Hxn : (x < nx)%nat) by (destruct m; cbn in Hx; lia).
  assert (Hyn : (y < ny)%nat) by (destruct m; cbn in Hy; lia).
  unfold dstep2, along_x2. set (c := field2 a bx by_ hx hy nx ny).
  assert (Lc : length c = ny) by apply length_field2.
  assert (R0c : length (nth 0 c []) = nx) by (apply field2_row0_len; lia).
  set (c' := map (smooth1 m) c).
  assert (Lc' : length c' = ny) by (unfold c'; rewrite map_length; exact Lc).
  assert (R0 : length (nth 0 c' []) = nx).
  { unfold c'. rewrite (nth_indep _ [] (smooth1 m [])) by (rewrite map_length, Lc; lia).
    rewrite (map_nth (smooth1 m)), length_smooth1. exact R0c. }
  rewrite (nth_along_y2 (fd1 m hy) c' nx x y) by (try apply length_fd1; try exact R0; try lia).
  assert (Col : colx x c' = aff_seq by_ (a + bx * (zn x * hx)) hy ny).
  { apply (nth_ext _ _ 0 0).
    - unfold colx. rewrite map_length, Lc', length_aff. reflexivity.
    - intros y' Hy'. unfold colx in *. rewrite map_length, Lc' in Hy'.
      rewrite (nth_indep _ 0 (nth x [] 0)) by (rewrite map_length, Lc'; exact Hy').
      rewrite (map_nth (fun r => nth x r 0)). unfold c'.
      rewrite (nth_indep _ [] (smooth1 m [])) by (rewrite map_length, Lc; exact Hy').
      rewrite (map_nth (smooth1 m)). unfold c. rewrite field2_row by exact Hy'. rewrite nth_aff by exact Hy'.
      destruct m; cbn in Hx; try (cbn [smooth1]; rewrite nth_aff by lia; ring);
      rewrite (smooth_affine_interior K Kf Kc) by lia; rewrite nth_aff by lia; ring. }
  unfold colx in Col. unfold colx. rewrite Col. apply fd1_affine_exact; assumption.
Qed.

(* the restriction for prewitt / sobel is necessary: on the boundary row y = 0 a constant-in-y field with slope bx in x
   gets the derivative 3/4 bx (sobel): the property as stated (every grid point) fails for the zero-padded smoothing *)
Theorem sobel_boundary_refuted :
  nth 1 (nth 0 (dstep2 Sobel 0 1 (field2 (K:=K) 0 1 0 1 1 3 3)) []) 0 = of_Q 3 4.
Proof. fcbv. field. refold K. repeat split; nz Kc. Qed.
End Proofs.
