(* Executable instance of the sampler model over canonical rationals. *)
From Coq Require Import ZArith QArith Qround Qcanon List Bool.
From DV Require Import Base.Field Base.QcInst Model.Sampler Model.Lattice.
Import ListNotations.

Definition floorQ (x : Qc) : Z := Qfloor (this x).
Definition nearQ (x : Qc) : Z := round_half_even (this x).
Definition qsample1 := sample1 (K:=QcF) floorQ.
Definition qsample2 := sample2 (K:=QcF) floorQ.
Definition qsample3 := sample3 (K:=QcF) floorQ.
Definition qnearest1 := nearest1 (K:=QcF) nearQ.
Definition qnearest2 := nearest2 (K:=QcF) nearQ.
Definition qnearest3 := nearest3 (K:=QcF) nearQ.
Definition qgrid_sample1 := grid_sample1 (K:=QcF) floorQ.
Definition qgrid_sample2 := grid_sample2 (K:=QcF) floorQ.
Definition qgrid_sample3 := grid_sample3 (K:=QcF) floorQ.
Definition qresize1 := resize1 (K:=QcF) floorQ.
Definition qresize2 := resize2 (K:=QcF) floorQ.
Definition qresize3 := resize3 (K:=QcF) floorQ.

Lemma floorQ_of_Z (i : Z) : floorQ (of_Z (K:=QcF) i) = i.
Proof.
  unfold floorQ. assert (E : this (of_Z (K:=QcF) i) == inject_Z i).
  { destruct i as [|p|p]; cbn [of_Z].
    - reflexivity.
    - rewrite Qc_of_pos. cbn -[Qred]. rewrite Qred_correct. reflexivity.
    - rewrite Qc_of_pos. cbn -[Qred Qopp]. rewrite !Qred_correct. reflexivity. }
  rewrite E. apply Qfloor_Z.
Qed.
