(* C20 -- facts about the generated AD terms (coq/Gen/ADTerms.v, traced from deepali's source):
   the Euler-matrix terms evaluate to the C08 model's closed forms (so the C08 theorems speak about them), and the
   terms without non-constant denominators / sqrt / ln are defined at every input (their gradients are the
   derivative everywhere). *)
From Coq Require Import Reals QArith Qreals List Lra Bool.
From Coquelicot Require Import Coquelicot.
From DV Require Import Base.Field Base.LinAlg Base.RInst Model.Enums Model.AD Model.GradFlowSpec Gen.ADTerms Gen.Euler Gen.GradFlow Proofs.C20AD.
Import ListNotations.
Local Open Scope R_scope.

Lemma ad_euler_2d_agrees (env : nat -> R) :
  map (evalR env) gen_ad_euler_2d = List.concat (gen_euler2d (K:=RF) (cos (env 0%nat)) (sin (env 0%nat))).
Proof. reflexivity. Qed.

Lemma ad_euler_ZXZ_agrees (env : nat -> R) :
  map (evalR env) gen_ad_euler_ZXZ =
  List.concat (gen_euler (K:=RF) (AZ, AX, AZ) (cos (env 0%nat)) (cos (env 1%nat)) (cos (env 2%nat))
                         (sin (env 0%nat)) (sin (env 1%nat)) (sin (env 2%nat))).
Proof. reflexivity. Qed.

Lemma ad_euler_XYZ_agrees (env : nat -> R) :
  map (evalR env) gen_ad_euler_XYZ =
  List.concat (gen_euler (K:=RF) (AX, AY, AZ) (cos (env 0%nat)) (cos (env 1%nat)) (cos (env 2%nat))
                         (sin (env 0%nat)) (sin (env 1%nat)) (sin (env 2%nat))).
Proof. reflexivity. Qed.

(* terms that are defined everywhere: divisions only by non-zero constants, no sqrt / ln *)
Fixpoint total (e : expr) : bool :=
  match e with
  | EC _ | EV _ => true
  | EAdd a b | ESub a b | EMul a b => total a && total b
  | EDiv a (EC q) => total a && negb (Qeq_bool q 0)
  | EDiv _ _ => false
  | ENeg a | ECut a => total a
  | EU Usqrt _ | EU Uln _ => false
  | EU _ a => total a
  end.

Lemma total_defined (e : expr) : total e = true -> forall env, defined env e.
Proof.
  induction e as [q | j | a IHa b IHb | a IHa b IHb | a IHa b IHb | a IHa b IHb | a IHa | f a IHa | a IHa]; simpl; intros H env; auto.
  - apply andb_prop in H as [H1 H2]. split; auto.
  - apply andb_prop in H as [H1 H2]. split; auto.
  - apply andb_prop in H as [H1 H2]. split; auto.
  - destruct b; try discriminate. apply andb_prop in H as [H1 H2]. repeat split; auto.
    simpl. intro E. apply negb_true_iff in H2. apply Qeq_bool_neq in H2. apply H2.
    apply eqR_Qeq. rewrite E. unfold Q2R; simpl; lra.
  - destruct f; try discriminate; auto.
Qed.

Definition total_families : list (list expr) :=
  [gen_ad_euler_XYZ; gen_ad_euler_ZXZ; gen_ad_euler_XYX; gen_ad_euler_2d; gen_ad_homogeneous_transform_2d;
   gen_ad_homogeneous_transform_3d; gen_ad_hmm_affine_translation; gen_ad_hmm_3d; gen_ad_hmm_affine_homogeneous;
   gen_ad_hmm_homogeneous_affine; gen_ad_hmm_translation_homogeneous; gen_ad_hmm_homogeneous_translation; gen_ad_hmm_affine_affine; gen_ad_mse_loss; gen_ad_ssd_loss;
   gen_ad_divergence_loss; gen_ad_bending_loss_fcb; gen_ad_curvature_loss_fcb; gen_ad_jacobian_det_2d; gen_ad_divergence_2d;
   gen_ad_curl_2d; gen_ad_affine_flow].

Lemma total_families_total : forallb (forallb total) total_families = true.
Proof. vm_compute. reflexivity. Qed.

Lemma total_families_gradients (outs : list expr) (e : expr) (env : nat -> R) (i : nat) :
  In outs total_families -> In e outs ->
  is_derive (fun t => evalR (upd env i t) e) (env i) (evalR env (D i e)).
Proof.
  intros Ho He. apply D_sound. apply total_defined.
  pose proof total_families_total as H. rewrite forallb_forall in H.
  specialize (H outs Ho). rewrite forallb_forall in H. apply H, He.
Qed.

(* no traced deepali function detaches, reads .data or computes under no_grad anything on a path from an input to
   an output: reverse-mode differentiation of every traced family returns the true derivative *)
Definition families_cutfree : bool := forallb (fun f => forallb cutfree (snd (snd f))) gen_ad_families.
Lemma families_cutfree_hold : families_cutfree = true.
Proof. vm_compute. reflexivity. Qed.

Lemma families_autograd_sound (name : String.string) (nv : nat) (outs : list expr) (e : expr) (env : nat -> R) (i : nat) :
  In (name, (nv, outs)) gen_ad_families -> In e outs -> defined env e ->
  is_derive (fun t => evalR (upd env i t) e) (env i) (evalR env (G i e)).
Proof.
  intros Hf He Hd. apply G_sound; [| exact Hd].
  pose proof families_cutfree_hold as H. unfold families_cutfree in H. rewrite forallb_forall in H.
  specialize (H _ Hf). cbn [snd] in H. rewrite forallb_forall in H. apply H, He.
Qed.

(* the gradient-flow skeleton of every operation of the registry (traced on the real autograd graph): attached, depending
   on every leaf, no cut between a leaf and the output *)
Lemma gradflow_holds : gradflow_ok gen_gradflow = true /\ Nat.leb 300 (List.length gen_gradflow) = true.
Proof. split; vm_compute; reflexivity. Qed.
