(* relative-tolerance comparisons for the correspondence checks *)
From Coq Require Import ZArith QArith Qabs Qcanon List.
From DV Require Import Base.Field Base.QcInst.
Import ListNotations.

Definition qcloser (tol : Q) (m i : Qc) : bool :=
  Qle_bool (Qabs (this m - this i)) (tol * (1 + Qabs (this m))).
Fixpoint vcloser (tol : Q) (a b : list Qc) : bool :=
  match a, b with
  | [], [] => true
  | x :: a', y :: b' => qcloser tol x y && vcloser tol a' b'
  | _, _ => false
  end.
Fixpoint mcloser (tol : Q) (a b : list (list Qc)) : bool :=
  match a, b with
  | [], [] => true
  | x :: a', y :: b' => vcloser tol x y && mcloser tol a' b'
  | _, _ => false
  end.
Definition qclose_q (tol : Q) (a b : Q) : bool := Qle_bool (Qabs (a - b)) tol.
Fixpoint vclose_q (tol : Q) (a b : list Q) : bool :=
  match a, b with
  | [], [] => true
  | x :: a', y :: b' => qclose_q tol x y && vclose_q tol a' b'
  | _, _ => false
  end.
