(* Statement-level definitions tying the traced ImageBatch methods (Gen/ImageOpsT.v) to the model (definitions only). *)
From Coq Require Import ZArith List Bool.
From DV Require Import Base.Field Base.LinAlg Model.Enums Model.Homog Model.Grid Model.Sampler Gen.GridT Gen.ImageOpsT Model.ImageOps.
Import ListNotations.
Local Open Scope fld_scope.

Section Check.
Context {K : fld}.
(* nested lists in tensor order <-> images of the model *)
Definition of_nested2 (img : list (list K)) : nimg (K:=K) :=
  mkI [zlen (hd [] img); zlen img] (fun J => nth (Z.to_nat (zget J 0)) (nth (Z.to_nat (zget J 1)) img []) 0).
Definition of_nested3 (img : list (list (list K))) : nimg (K:=K) :=
  mkI [zlen (hd [] (hd [] img)); zlen (hd [] img); zlen img]
      (fun J => nth (Z.to_nat (zget J 0)) (nth (Z.to_nat (zget J 1)) (nth (Z.to_nat (zget J 2)) img []) []) 0).
Definition to_nested2 (im : nimg (K:=K)) : list (list K) :=
  map (fun jy => map (fun jx => ival im [jx; jy]) (zseq (zget (ishape im) 0))) (zseq (zget (ishape im) 1)).
Definition to_nested3 (im : nimg (K:=K)) : list (list (list K)) :=
  map (fun jz => map (fun jy => map (fun jx => ival im [jx; jy; jz]) (zseq (zget (ishape im) 0))) (zseq (zget (ishape im) 1)))
      (zseq (zget (ishape im) 2)).

(* the returned grid (n', s', c', same direction) puts every output index at the world position of its source index *)
Definition src_ok (D : nat) (n0 n' s' c' S C : list K) (Dm : list (list K)) (srcs : list (list Z * list Z)) : Prop :=
  Forall (fun p => gen_pts D GRID WORLD n' s' c' Dm (map of_Z (fst p)) = gen_pts D GRID WORLD n0 S C Dm (map of_Z (snd p))) srcs.
(* interpolating operations: F.interpolate received (size m, flag ac) for an image of size n; the returned grid (m, s', c')
   puts every output index J at the world position of F.interpolate's source index of J *)
(* rsz with the integer subtractions done in Z (same function: of_Z (n - 1) = of_Z n - 1) *)
Definition rszZ (ac : bool) (n m : Z) (x : K) : K :=
  if ac then x * of_Z (n - 1) / of_Z (m - 1) else (x + 1 / (1 + 1)) * of_Z n / of_Z m - 1 / (1 + 1).
Definition interp_ok (D : nat) (rec : list Z * list Z * bool * bool) (s' c' S C : list K) (Dm : list (list K)) : Prop :=
  let '(n, m, ac, _) := rec in
  Forall (fun J => gen_pts D GRID WORLD (map of_Z m) s' c' Dm (map of_Z J)
                   = gen_pts D GRID WORLD (map of_Z n) S C Dm
                       (map (fun t => rszZ ac (fst (fst t)) (snd (fst t)) (of_Z (snd t))) (combine (combine n m) J)))
         (indices m).
End Check.

(* one statement per traced call of Gen/ImageOpsT.v: the returned data is the model's data operation on the traced
   arguments, the returned grid has the data's shape and puts every output index at the world position of its source *)
Definition ok_crop_num (K : fld) : Prop :=
  (forall v00 v01 v02 v03 v10 v11 v12 v13 v20 v21 v22 v23 : K, gen_io_data_crop_num [[v00; v01; v02; v03]; [v10; v11; v12; v13]; [v20; v21; v22; v23]] = to_nested2 (d_crop 2 0 [1; 0; 0; 1]%Z (of_nested2 [[v00; v01; v02; v03]; [v10; v11; v12; v13]; [v20; v21; v22; v23]]))) /\
  gen_io_n_crop_num (K:=K) = map of_Z gen_io_shape_crop_num /\
  (forall (s c : nat -> K) (d : nat -> nat -> K),
     src_ok 2 [of_Z 4; of_Z 3] gen_io_n_crop_num (gen_io_s_crop_num (vtab 2 s) (vtab 2 c) (tab 2 2 d)) (gen_io_c_crop_num (vtab 2 s) (vtab 2 c) (tab 2 2 d)) (vtab 2 s) (vtab 2 c) (tab 2 2 d) gen_io_src_crop_num).
Definition ok_crop_margin (K : fld) : Prop :=
  (forall v00 v01 v02 v03 v10 v11 v12 v13 v20 v21 v22 v23 : K, gen_io_data_crop_margin [[v00; v01; v02; v03]; [v10; v11; v12; v13]; [v20; v21; v22; v23]] = to_nested2 (d_crop 2 0 [1; 1; 0; 0]%Z (of_nested2 [[v00; v01; v02; v03]; [v10; v11; v12; v13]; [v20; v21; v22; v23]]))) /\
  gen_io_n_crop_margin (K:=K) = map of_Z gen_io_shape_crop_margin /\
  (forall (s c : nat -> K) (d : nat -> nat -> K),
     src_ok 2 [of_Z 4; of_Z 3] gen_io_n_crop_margin (gen_io_s_crop_margin (vtab 2 s) (vtab 2 c) (tab 2 2 d)) (gen_io_c_crop_margin (vtab 2 s) (vtab 2 c) (tab 2 2 d)) (vtab 2 s) (vtab 2 c) (tab 2 2 d) gen_io_src_crop_margin).
Definition ok_crop_mixed (K : fld) : Prop :=
  (forall v00 v01 v02 v03 v10 v11 v12 v13 v20 v21 v22 v23 : K, gen_io_data_crop_mixed [[v00; v01; v02; v03]; [v10; v11; v12; v13]; [v20; v21; v22; v23]] = to_nested2 (d_crop 2 0 [1; -1; 0; 0]%Z (of_nested2 [[v00; v01; v02; v03]; [v10; v11; v12; v13]; [v20; v21; v22; v23]]))) /\
  gen_io_n_crop_mixed (K:=K) = map of_Z gen_io_shape_crop_mixed /\
  (forall (s c : nat -> K) (d : nat -> nat -> K),
     src_ok 2 [of_Z 4; of_Z 3] gen_io_n_crop_mixed (gen_io_s_crop_mixed (vtab 2 s) (vtab 2 c) (tab 2 2 d)) (gen_io_c_crop_mixed (vtab 2 s) (vtab 2 c) (tab 2 2 d)) (vtab 2 s) (vtab 2 c) (tab 2 2 d) gen_io_src_crop_mixed).
Definition ok_pad_num (K : fld) : Prop :=
  (forall v00 v01 v02 v03 v10 v11 v12 v13 v20 v21 v22 v23 : K, gen_io_data_pad_num [[v00; v01; v02; v03]; [v10; v11; v12; v13]; [v20; v21; v22; v23]] = to_nested2 (d_pad 2 (of_Q 5 2) [1; 0; 2; 0]%Z (of_nested2 [[v00; v01; v02; v03]; [v10; v11; v12; v13]; [v20; v21; v22; v23]]))) /\
  gen_io_n_pad_num (K:=K) = map of_Z gen_io_shape_pad_num /\
  (forall (s c : nat -> K) (d : nat -> nat -> K),
     src_ok 2 [of_Z 4; of_Z 3] gen_io_n_pad_num (gen_io_s_pad_num (vtab 2 s) (vtab 2 c) (tab 2 2 d)) (gen_io_c_pad_num (vtab 2 s) (vtab 2 c) (tab 2 2 d)) (vtab 2 s) (vtab 2 c) (tab 2 2 d) gen_io_src_pad_num).
Definition ok_pad_margin (K : fld) : Prop :=
  (forall v00 v01 v02 v10 v11 v12 : K, gen_io_data_pad_margin [[v00; v01; v02]; [v10; v11; v12]] = to_nested2 (d_pad 2 0 [0; 0; 1; 1]%Z (of_nested2 [[v00; v01; v02]; [v10; v11; v12]]))) /\
  gen_io_n_pad_margin (K:=K) = map of_Z gen_io_shape_pad_margin /\
  (forall (s c : nat -> K) (d : nat -> nat -> K),
     src_ok 2 [of_Z 3; of_Z 2] gen_io_n_pad_margin (gen_io_s_pad_margin (vtab 2 s) (vtab 2 c) (tab 2 2 d)) (gen_io_c_pad_margin (vtab 2 s) (vtab 2 c) (tab 2 2 d)) (vtab 2 s) (vtab 2 c) (tab 2 2 d) gen_io_src_pad_margin).
Definition ok_center_crop (K : fld) : Prop :=
  (forall v00 v01 v02 v03 v10 v11 v12 v13 v20 v21 v22 v23 : K, gen_io_data_center_crop [[v00; v01; v02; v03]; [v10; v11; v12; v13]; [v20; v21; v22; v23]] = to_nested2 (d_center_crop 2 [2; 1]%Z (of_nested2 [[v00; v01; v02; v03]; [v10; v11; v12; v13]; [v20; v21; v22; v23]]))) /\
  gen_io_n_center_crop (K:=K) = map of_Z gen_io_shape_center_crop /\
  (forall (s c : nat -> K) (d : nat -> nat -> K),
     src_ok 2 [of_Z 4; of_Z 3] gen_io_n_center_crop (gen_io_s_center_crop (vtab 2 s) (vtab 2 c) (tab 2 2 d)) (gen_io_c_center_crop (vtab 2 s) (vtab 2 c) (tab 2 2 d)) (vtab 2 s) (vtab 2 c) (tab 2 2 d) gen_io_src_center_crop).
Definition ok_center_crop_odd (K : fld) : Prop :=
  (forall v00 v01 v02 v03 v04 v10 v11 v12 v13 v14 v20 v21 v22 v23 v24 : K, gen_io_data_center_crop_odd [[v00; v01; v02; v03; v04]; [v10; v11; v12; v13; v14]; [v20; v21; v22; v23; v24]] = to_nested2 (d_center_crop 2 [2; 5]%Z (of_nested2 [[v00; v01; v02; v03; v04]; [v10; v11; v12; v13; v14]; [v20; v21; v22; v23; v24]]))) /\
  gen_io_n_center_crop_odd (K:=K) = map of_Z gen_io_shape_center_crop_odd /\
  (forall (s c : nat -> K) (d : nat -> nat -> K),
     src_ok 2 [of_Z 5; of_Z 3] gen_io_n_center_crop_odd (gen_io_s_center_crop_odd (vtab 2 s) (vtab 2 c) (tab 2 2 d)) (gen_io_c_center_crop_odd (vtab 2 s) (vtab 2 c) (tab 2 2 d)) (vtab 2 s) (vtab 2 c) (tab 2 2 d) gen_io_src_center_crop_odd).
Definition ok_center_pad (K : fld) : Prop :=
  (forall v00 v01 v02 v03 v10 v11 v12 v13 v20 v21 v22 v23 : K, gen_io_data_center_pad [[v00; v01; v02; v03]; [v10; v11; v12; v13]; [v20; v21; v22; v23]] = to_nested2 (d_center_pad 2 (of_Q 5 2) [5; 4]%Z (of_nested2 [[v00; v01; v02; v03]; [v10; v11; v12; v13]; [v20; v21; v22; v23]]))) /\
  gen_io_n_center_pad (K:=K) = map of_Z gen_io_shape_center_pad /\
  (forall (s c : nat -> K) (d : nat -> nat -> K),
     src_ok 2 [of_Z 4; of_Z 3] gen_io_n_center_pad (gen_io_s_center_pad (vtab 2 s) (vtab 2 c) (tab 2 2 d)) (gen_io_c_center_pad (vtab 2 s) (vtab 2 c) (tab 2 2 d)) (vtab 2 s) (vtab 2 c) (tab 2 2 d) gen_io_src_center_pad).
Definition ok_center_pad_odd (K : fld) : Prop :=
  (forall v00 v01 v02 v03 v10 v11 v12 v13 : K, gen_io_data_center_pad_odd [[v00; v01; v02; v03]; [v10; v11; v12; v13]] = to_nested2 (d_center_pad 2 0 [7; 2]%Z (of_nested2 [[v00; v01; v02; v03]; [v10; v11; v12; v13]]))) /\
  gen_io_n_center_pad_odd (K:=K) = map of_Z gen_io_shape_center_pad_odd /\
  (forall (s c : nat -> K) (d : nat -> nat -> K),
     src_ok 2 [of_Z 4; of_Z 2] gen_io_n_center_pad_odd (gen_io_s_center_pad_odd (vtab 2 s) (vtab 2 c) (tab 2 2 d)) (gen_io_c_center_pad_odd (vtab 2 s) (vtab 2 c) (tab 2 2 d)) (vtab 2 s) (vtab 2 c) (tab 2 2 d) gen_io_src_center_pad_odd).
Definition ok_narrow_x (K : fld) : Prop :=
  (forall v00 v01 v02 v03 v10 v11 v12 v13 v20 v21 v22 v23 : K, gen_io_data_narrow_x [[v00; v01; v02; v03]; [v10; v11; v12; v13]; [v20; v21; v22; v23]] = to_nested2 (d_narrow 0 1 2 (of_nested2 [[v00; v01; v02; v03]; [v10; v11; v12; v13]; [v20; v21; v22; v23]]))) /\
  gen_io_n_narrow_x (K:=K) = map of_Z gen_io_shape_narrow_x /\
  (forall (s c : nat -> K) (d : nat -> nat -> K),
     src_ok 2 [of_Z 4; of_Z 3] gen_io_n_narrow_x (gen_io_s_narrow_x (vtab 2 s) (vtab 2 c) (tab 2 2 d)) (gen_io_c_narrow_x (vtab 2 s) (vtab 2 c) (tab 2 2 d)) (vtab 2 s) (vtab 2 c) (tab 2 2 d) gen_io_src_narrow_x).
Definition ok_narrow_y (K : fld) : Prop :=
  (forall v00 v01 v02 v03 v10 v11 v12 v13 v20 v21 v22 v23 : K, gen_io_data_narrow_y [[v00; v01; v02; v03]; [v10; v11; v12; v13]; [v20; v21; v22; v23]] = to_nested2 (d_narrow 1 1 2 (of_nested2 [[v00; v01; v02; v03]; [v10; v11; v12; v13]; [v20; v21; v22; v23]]))) /\
  gen_io_n_narrow_y (K:=K) = map of_Z gen_io_shape_narrow_y /\
  (forall (s c : nat -> K) (d : nat -> nat -> K),
     src_ok 2 [of_Z 4; of_Z 3] gen_io_n_narrow_y (gen_io_s_narrow_y (vtab 2 s) (vtab 2 c) (tab 2 2 d)) (gen_io_c_narrow_y (vtab 2 s) (vtab 2 c) (tab 2 2 d)) (vtab 2 s) (vtab 2 c) (tab 2 2 d) gen_io_src_narrow_y).
Definition ok_crop3 (K : fld) : Prop :=
  (forall v000 v001 v002 v010 v011 v012 v100 v101 v102 v110 v111 v112 : K, gen_io_data_crop3 [[[v000; v001; v002]; [v010; v011; v012]]; [[v100; v101; v102]; [v110; v111; v112]]] = to_nested3 (d_crop 3 0 [1; 0; 0; 1; 0; 1]%Z (of_nested3 [[[v000; v001; v002]; [v010; v011; v012]]; [[v100; v101; v102]; [v110; v111; v112]]]))) /\
  gen_io_n_crop3 (K:=K) = map of_Z gen_io_shape_crop3 /\
  (forall (s c : nat -> K) (d : nat -> nat -> K),
     src_ok 3 [of_Z 3; of_Z 2; of_Z 2] gen_io_n_crop3 (gen_io_s_crop3 (vtab 3 s) (vtab 3 c) (tab 3 3 d)) (gen_io_c_crop3 (vtab 3 s) (vtab 3 c) (tab 3 3 d)) (vtab 3 s) (vtab 3 c) (tab 3 3 d) gen_io_src_crop3).
Definition ok_roi3 (K : fld) : Prop :=
  (forall v000 v001 v002 v010 v011 v012 v100 v101 v102 v110 v111 v112 : K, gen_io_data_roi3 [[[v000; v001; v002]; [v010; v011; v012]]; [[v100; v101; v102]; [v110; v111; v112]]] = to_nested3 (d_roi 3 0 [1; 0; 1]%Z [2; 2; 1]%Z (of_nested3 [[[v000; v001; v002]; [v010; v011; v012]]; [[v100; v101; v102]; [v110; v111; v112]]]))) /\
  gen_io_n_roi3 (K:=K) = map of_Z gen_io_shape_roi3 /\
  (forall (s c : nat -> K) (d : nat -> nat -> K),
     src_ok 3 [of_Z 3; of_Z 2; of_Z 2] gen_io_n_roi3 (gen_io_s_roi3 (vtab 3 s) (vtab 3 c) (tab 3 3 d)) (gen_io_c_roi3 (vtab 3 s) (vtab 3 c) (tab 3 3 d)) (vtab 3 s) (vtab 3 c) (tab 3 3 d) gen_io_src_roi3).
Definition ok_narrow_z (K : fld) : Prop :=
  (forall v000 v001 v002 v010 v011 v012 v100 v101 v102 v110 v111 v112 : K, gen_io_data_narrow_z [[[v000; v001; v002]; [v010; v011; v012]]; [[v100; v101; v102]; [v110; v111; v112]]] = to_nested3 (d_narrow 2 1 1 (of_nested3 [[[v000; v001; v002]; [v010; v011; v012]]; [[v100; v101; v102]; [v110; v111; v112]]]))) /\
  gen_io_n_narrow_z (K:=K) = map of_Z gen_io_shape_narrow_z /\
  (forall (s c : nat -> K) (d : nat -> nat -> K),
     src_ok 3 [of_Z 3; of_Z 2; of_Z 2] gen_io_n_narrow_z (gen_io_s_narrow_z (vtab 3 s) (vtab 3 c) (tab 3 3 d)) (gen_io_c_narrow_z (vtab 3 s) (vtab 3 c) (tab 3 3 d)) (vtab 3 s) (vtab 3 c) (tab 3 3 d) gen_io_src_narrow_z).
Definition ok_pool2 (K : fld) : Prop :=
  (forall v00 v01 v02 v03 v10 v11 v12 v13 : K, gen_io_data_pool2 [[v00; v01; v02; v03]; [v10; v11; v12; v13]] = to_nested2 (d_pool 2 [2; 2]%Z false (of_nested2 [[v00; v01; v02; v03]; [v10; v11; v12; v13]]))) /\
  gen_io_n_pool2 (K:=K) = map of_Z gen_io_shape_pool2.
(* a tuple kernel_size is in grid order (X, Y, ..) for both the data and the grid path: kernel_size = (2, 3) on a 6 x 4 image pools
   by 2 along x and 3 along y; data shape = grid size = 3 x 1 *)
Definition ok_pool_aniso (K : fld) : Prop :=
  (forall v00 v01 v02 v03 v04 v05 v10 v11 v12 v13 v14 v15 v20 v21 v22 v23 v24 v25 v30 v31 v32 v33 v34 v35 : K, gen_io_data_pool_aniso [[v00; v01; v02; v03; v04; v05]; [v10; v11; v12; v13; v14; v15]; [v20; v21; v22; v23; v24; v25]; [v30; v31; v32; v33; v34; v35]] = to_nested2 (d_pool 2 [2; 3]%Z false (of_nested2 [[v00; v01; v02; v03; v04; v05]; [v10; v11; v12; v13; v14; v15]; [v20; v21; v22; v23; v24; v25]; [v30; v31; v32; v33; v34; v35]]))) /\
  gen_io_n_pool_aniso (K:=K) = map of_Z gen_io_shape_pool_aniso /\ gen_io_shape_pool_aniso = [3; 1]%Z.
Definition ok_resize_default (K : fld) : Prop :=
  forall (s c : nat -> K) (d : nat -> nat -> K),
  interp_ok 2 gen_io_interp_resize_default (gen_io_s_resize_default (vtab 2 s) (vtab 2 c) (tab 2 2 d)) (gen_io_c_resize_default (vtab 2 s) (vtab 2 c) (tab 2 2 d)) (vtab 2 s) (vtab 2 c) (tab 2 2 d).
Definition ok_resize_default_nac (K : fld) : Prop :=
  forall (s c : nat -> K) (d : nat -> nat -> K),
  interp_ok 2 gen_io_interp_resize_default_nac (gen_io_s_resize_default_nac (vtab 2 s) (vtab 2 c) (tab 2 2 d)) (gen_io_c_resize_default_nac (vtab 2 s) (vtab 2 c) (tab 2 2 d)) (vtab 2 s) (vtab 2 c) (tab 2 2 d).
Definition ok_resize_flag (K : fld) : Prop :=
  forall (s c : nat -> K) (d : nat -> nat -> K),
  interp_ok 2 gen_io_interp_resize_flag (gen_io_s_resize_flag (vtab 2 s) (vtab 2 c) (tab 2 2 d)) (gen_io_c_resize_flag (vtab 2 s) (vtab 2 c) (tab 2 2 d)) (vtab 2 s) (vtab 2 c) (tab 2 2 d).
Definition ok_down_default (K : fld) : Prop :=
  forall (s c : nat -> K) (d : nat -> nat -> K),
  interp_ok 2 gen_io_interp_down_default (gen_io_s_down_default (vtab 2 s) (vtab 2 c) (tab 2 2 d)) (gen_io_c_down_default (vtab 2 s) (vtab 2 c) (tab 2 2 d)) (vtab 2 s) (vtab 2 c) (tab 2 2 d).
Definition ok_down_default_nac (K : fld) : Prop :=
  forall (s c : nat -> K) (d : nat -> nat -> K),
  interp_ok 2 gen_io_interp_down_default_nac (gen_io_s_down_default_nac (vtab 2 s) (vtab 2 c) (tab 2 2 d)) (gen_io_c_down_default_nac (vtab 2 s) (vtab 2 c) (tab 2 2 d)) (vtab 2 s) (vtab 2 c) (tab 2 2 d).
Definition ok_down_flag (K : fld) : Prop :=
  forall (s c : nat -> K) (d : nat -> nat -> K),
  interp_ok 2 gen_io_interp_down_flag (gen_io_s_down_flag (vtab 2 s) (vtab 2 c) (tab 2 2 d)) (gen_io_c_down_flag (vtab 2 s) (vtab 2 c) (tab 2 2 d)) (vtab 2 s) (vtab 2 c) (tab 2 2 d).
Definition ok_down_dims (K : fld) : Prop :=
  forall (s c : nat -> K) (d : nat -> nat -> K),
  interp_ok 2 gen_io_interp_down_dims (gen_io_s_down_dims (vtab 2 s) (vtab 2 c) (tab 2 2 d)) (gen_io_c_down_dims (vtab 2 s) (vtab 2 c) (tab 2 2 d)) (vtab 2 s) (vtab 2 c) (tab 2 2 d).
Definition ok_up_default (K : fld) : Prop :=
  forall (s c : nat -> K) (d : nat -> nat -> K),
  interp_ok 2 gen_io_interp_up_default (gen_io_s_up_default (vtab 2 s) (vtab 2 c) (tab 2 2 d)) (gen_io_c_up_default (vtab 2 s) (vtab 2 c) (tab 2 2 d)) (vtab 2 s) (vtab 2 c) (tab 2 2 d).
Definition ok_up_default_nac (K : fld) : Prop :=
  forall (s c : nat -> K) (d : nat -> nat -> K),
  interp_ok 2 gen_io_interp_up_default_nac (gen_io_s_up_default_nac (vtab 2 s) (vtab 2 c) (tab 2 2 d)) (gen_io_c_up_default_nac (vtab 2 s) (vtab 2 c) (tab 2 2 d)) (vtab 2 s) (vtab 2 c) (tab 2 2 d).
Definition ok_up_flag (K : fld) : Prop :=
  forall (s c : nat -> K) (d : nat -> nat -> K),
  interp_ok 2 gen_io_interp_up_flag (gen_io_s_up_flag (vtab 2 s) (vtab 2 c) (tab 2 2 d)) (gen_io_c_up_flag (vtab 2 s) (vtab 2 c) (tab 2 2 d)) (vtab 2 s) (vtab 2 c) (tab 2 2 d).
Definition ok_resize3 (K : fld) : Prop :=
  forall (s c : nat -> K) (d : nat -> nat -> K),
  interp_ok 3 gen_io_interp_resize3 (gen_io_s_resize3 (vtab 3 s) (vtab 3 c) (tab 3 3 d)) (gen_io_c_resize3 (vtab 3 s) (vtab 3 c) (tab 3 3 d)) (vtab 3 s) (vtab 3 c) (tab 3 3 d).
Definition ok_roi2 (K : fld) : Prop :=
  (forall v00 v01 v02 v03 v10 v11 v12 v13 v20 v21 v22 v23 : K, gen_io_data_roi2 [[v00; v01; v02; v03]; [v10; v11; v12; v13]; [v20; v21; v22; v23]] = to_nested2 (d_roi 2 0 [1; 0]%Z [2; 2]%Z (of_nested2 [[v00; v01; v02; v03]; [v10; v11; v12; v13]; [v20; v21; v22; v23]]))) /\
  gen_io_n_roi2 (K:=K) = map of_Z gen_io_shape_roi2 /\
  (forall (s c : nat -> K) (d : nat -> nat -> K),
     src_ok 2 [of_Z 4; of_Z 3] gen_io_n_roi2 (gen_io_s_roi2 (vtab 2 s) (vtab 2 c) (tab 2 2 d)) (gen_io_c_roi2 (vtab 2 s) (vtab 2 c) (tab 2 2 d)) (vtab 2 s) (vtab 2 c) (tab 2 2 d) gen_io_src_roi2).
Definition ok_roi2_pad (K : fld) : Prop :=
  (forall v00 v01 v02 v03 v10 v11 v12 v13 v20 v21 v22 v23 : K, gen_io_data_roi2_pad [[v00; v01; v02; v03]; [v10; v11; v12; v13]; [v20; v21; v22; v23]] = to_nested2 (d_roi 2 (of_Q 5 2) [-1; 1]%Z [3; 2]%Z (of_nested2 [[v00; v01; v02; v03]; [v10; v11; v12; v13]; [v20; v21; v22; v23]]))) /\
  gen_io_n_roi2_pad (K:=K) = map of_Z gen_io_shape_roi2_pad /\
  (forall (s c : nat -> K) (d : nat -> nat -> K),
     src_ok 2 [of_Z 4; of_Z 3] gen_io_n_roi2_pad (gen_io_s_roi2_pad (vtab 2 s) (vtab 2 c) (tab 2 2 d)) (gen_io_c_roi2_pad (vtab 2 s) (vtab 2 c) (tab 2 2 d)) (vtab 2 s) (vtab 2 c) (tab 2 2 d) gen_io_src_roi2_pad).
(* conv with a 2-D kernel tensor: correlation with zero "same" padding, kernel in tensor order *)
Definition ok_conv2 (K : fld) : Prop :=
  forall v00 v01 v02 v03 v10 v11 v12 v13 v20 v21 v22 v23 k00 k01 k02 k10 k11 k12 k20 k21 k22 : K,
  gen_io_data_conv2 [[v00; v01; v02; v03]; [v10; v11; v12; v13]; [v20; v21; v22; v23]] [[k00; k01; k02]; [k10; k11; k12]; [k20; k21; k22]] = to_nested2 (d_conv2 [[k00; k01; k02]; [k10; k11; k12]; [k20; k21; k22]] (of_nested2 [[v00; v01; v02; v03]; [v10; v11; v12; v13]; [v20; v21; v22; v23]])).
(* downsample with NEGATIVE levels (= upsampling through core.image.downsample's redirect), effective flag False *)
Definition ok_down_neg_nac (K : fld) : Prop :=
  forall (s c : nat -> K) (d : nat -> nat -> K),
  interp_ok 2 gen_io_interp_down_neg_nac (gen_io_s_down_neg_nac (vtab 2 s) (vtab 2 c) (tab 2 2 d)) (gen_io_c_down_neg_nac (vtab 2 s) (vtab 2 c) (tab 2 2 d)) (vtab 2 s) (vtab 2 c) (tab 2 2 d).
Definition ok_down_neg_flag (K : fld) : Prop :=
  forall (s c : nat -> K) (d : nat -> nat -> K),
  interp_ok 2 gen_io_interp_down_neg_flag (gen_io_s_down_neg_flag (vtab 2 s) (vtab 2 c) (tab 2 2 d)) (gen_io_c_down_neg_flag (vtab 2 s) (vtab 2 c) (tab 2 2 d)) (vtab 2 s) (vtab 2 c) (tab 2 2 d).
(* upsample of an image whose grid has a fractional size attribute (2.5 -> 5 samples): F.interpolate gets the GRID's new size *)
Definition ok_up_fractional (K : fld) : Prop :=
  forall (s c : nat -> K) (d : nat -> nat -> K),
  interp_ok 2 gen_io_interp_up_fractional (gen_io_s_up_fractional (vtab 2 s) (vtab 2 c) (tab 2 2 d)) (gen_io_c_up_fractional (vtab 2 s) (vtab 2 c) (tab 2 2 d)) (vtab 2 s) (vtab 2 c) (tab 2 2 d).
Definition ok_up_fractional_nac (K : fld) : Prop :=
  forall (s c : nat -> K) (d : nat -> nat -> K),
  interp_ok 2 gen_io_interp_up_fractional_nac (gen_io_s_up_fractional_nac (vtab 2 s) (vtab 2 c) (tab 2 2 d)) (gen_io_c_up_fractional_nac (vtab 2 s) (vtab 2 c) (tab 2 2 d)) (vtab 2 s) (vtab 2 c) (tab 2 2 d).
Definition traced_index_ops_ok (K : fld) : Prop :=
  ok_up_fractional K /\ ok_up_fractional_nac K /\ ok_down_neg_nac K /\ ok_down_neg_flag K /\ ok_roi2 K /\ ok_roi2_pad K /\ ok_conv2 K /\
  ok_crop_num K /\
  ok_crop_margin K /\
  ok_crop_mixed K /\
  ok_pad_num K /\
  ok_pad_margin K /\
  ok_center_crop K /\
  ok_center_crop_odd K /\
  ok_center_pad K /\
  ok_center_pad_odd K /\
  ok_narrow_x K /\
  ok_narrow_y K /\
  ok_crop3 K /\
  ok_roi3 K /\
  ok_narrow_z K /\
  ok_pool2 K /\
  ok_pool_aniso K /\
  ok_resize_default K /\
  ok_resize_default_nac K /\
  ok_resize_flag K /\
  ok_down_default K /\
  ok_down_default_nac K /\
  ok_down_flag K /\
  ok_down_dims K /\
  ok_up_default K /\
  ok_up_default_nac K /\
  ok_up_flag K /\
  ok_resize3 K.
