"""Implementation-side runner for C07 (runs against /repo's working tree).

fn = "tensors" : tensor() of every linear class with invert False/True on given parameters (plus the
                 already-evaluated transcendental quantities the generated model takes as arguments)
fn = "oracle"  : the property itself: inverse() / .inv composed with the transform, both orders, every
                 class x parameter kind x link x update_buffers, before and after parameter changes;
                 composites; velocity-field models numerically (second order in the amplitude)
"""
import json
import math
import random
import sys
import warnings

warnings.filterwarnings("ignore")

import torch
from torch.nn import Parameter

from vlib import emit_json

from deepali.core.grid import Grid
import deepali.spatial as S

torch.set_default_dtype(torch.float64)

LINEAR = {
    "Translation": S.Translation, "EulerRotation": S.EulerRotation, "QuaternionRotation": S.QuaternionRotation,
    "IsotropicScaling": S.IsotropicScaling, "AnisotropicScaling": S.AnisotropicScaling, "Shearing": S.Shearing,
    "HomogeneousTransform": S.HomogeneousTransform,
}
COMPOSITE = {
    "RigidTransform": S.RigidTransform, "RigidQuaternionTransform": S.RigidQuaternionTransform,
    "SimilarityTransform": S.SimilarityTransform, "AffineTransform": S.AffineTransform, "FullAffineTransform": S.FullAffineTransform,
}


def grid_of(D):
    return Grid(size=(9, 7, 5)[:D], spacing=(1.0, 1.5, 2.0)[:D])


def nparams(name, D):
    if name == "Translation" or name == "AnisotropicScaling":
        return (D,)
    if name in ("EulerRotation", "Shearing"):
        return (1 if D == 2 else 3,)
    if name == "QuaternionRotation":
        return (4,)
    if name == "IsotropicScaling":
        return (1,)
    return (D, D + 1)


def build(name, D, params, order=None):
    cls = LINEAR[name]
    g = grid_of(D)
    if name == "EulerRotation":
        return cls(g, params=params, order=order)
    return cls(g, params=params)


def tensors(p):
    out = []
    for c in p["cases"]:
        try:
            name, D = c["cls"], c["D"]
            data = torch.tensor([c["params"]], dtype=torch.float64)
            if c.get("as_parameter"):
                data = Parameter(data)
            t = build(name, D, data, c.get("order"))
            ti = t.inverse(link=bool(c.get("link")))
            with torch.no_grad():
                r = {"fwd": t.tensor()[0].tolist(), "inv": ti.tensor()[0].tolist()}
                if name in ("EulerRotation",):
                    a = t.angles()[0]
                    r["cos"], r["sin"] = torch.cos(a).tolist(), torch.sin(a).tolist()
                if name == "Shearing":
                    r["tan"] = torch.tan(t.angles()[0]).tolist()
                if name in ("IsotropicScaling", "AnisotropicScaling"):
                    r["scales"] = t.scales()[0].tolist()
                if name == "QuaternionRotation":
                    q = t.data()[0]
                    r["norm"] = float(q.norm())
                    r["q"] = q.tolist()
            out.append(r)
        except Exception as e:  # noqa
            out.append({"error": type(e).__name__, "msg": str(e)[:200]})
    return out


# ------------------------------------------------------------------------------------------------
def rnd_params(rng, name, D):
    shape = nparams(name, D)
    if name == "Translation":
        return [rng.uniform(-0.5, 0.5) for _ in range(D)]
    if name == "EulerRotation":
        return [rng.uniform(-1.2, 1.2) for _ in range(shape[0])]
    if name == "Shearing":
        return [rng.uniform(-0.6, 0.6) for _ in range(shape[0])]
    if name == "QuaternionRotation":
        return [rng.uniform(-1, 1) or 0.3 for _ in range(4)]
    if name == "IsotropicScaling":
        return [rng.uniform(0.6, 1.6)]
    if name == "AnisotropicScaling":
        return [rng.uniform(0.6, 1.6) for _ in range(D)]
    m = [[(1.0 if i == j else 0.0) + rng.uniform(-0.3, 0.3) for j in range(D + 1)] for i in range(D)]
    return m


def maxerr(a, b):
    return float((a - b).abs().max())


def check_pair(t, ti, x, tol):
    with torch.no_grad():
        e1 = maxerr(ti(t(x)), x)
        e2 = maxerr(t(ti(x)), x)
    return max(e1, e2)


def smooth_field(rng, D, shape, amp):
    axes = [torch.linspace(-1, 1, n) for n in shape]
    mesh = torch.meshgrid(*axes, indexing="ij")
    out = torch.zeros((1, D) + tuple(shape))
    for c in range(D):
        f = torch.zeros(tuple(shape))
        for m in mesh:
            f += rng.uniform(-1, 1) * torch.sin(math.pi * m * rng.uniform(0.5, 1.0) + rng.uniform(0, 3))
        # vanish towards the boundary so that the flow stays inside the domain
        w = torch.ones(tuple(shape))
        for m in mesh:
            w = w * (1 - m ** 2)
        out[0, c] = amp * f * w / D
    return out


def oracle(p):
    rng = random.Random(p["seed"])
    n = p["n"]
    fails = []
    counts = {"linear": 0, "composite": 0, "velocity": 0, "raised": 0, "after_update": 0}

    def report(key, what, case):
        fails.append({"key": key, "what": what, "case": case})

    def make_params(kind, data, store):
        if kind == "Parameter":
            return Parameter(data.clone())
        if kind == "tensor":
            return data.clone()
        store["v"] = data.clone()
        return lambda *a, **k: store["v"]

    def inverse_of(t, mode, link, upd):
        return t.inv if mode == "inv" else t.inverse(link=link, update_buffers=upd)

    for it in range(n):
        # ---- linear classes
        name = rng.choice(list(LINEAR))
        D = 3 if name == "QuaternionRotation" else rng.choice([2, 3])
        kind = rng.choice(["Parameter", "tensor", "callable"])
        link, upd = rng.random() < 0.5, rng.random() < 0.5
        mode = "inv" if rng.random() < 0.2 else "inverse"
        order = rng.choice([None, "ZXZ", "XYZ", "ZYX", "XZX", "YXY", "zyz"]) if name == "EulerRotation" and D == 3 else None
        data = torch.tensor([rnd_params(rng, name, D)], dtype=torch.float64)
        case = {"cls": name, "D": D, "params": data[0].tolist(), "kind": kind, "link": link, "upd": upd, "mode": mode, "order": order}
        x = (torch.rand((1, 6, D), generator=torch.Generator().manual_seed(it)) * 1.6 - 0.8).double()
        store = {}
        counts["linear"] += 1
        try:
            t = build(name, D, make_params(kind, data, store), order)
            ti = inverse_of(t, mode, link, upd)
            e = check_pair(t, ti, x, 1e-9)
            if e > 1e-9:
                report(f"C07:{name}.inverse:not-inverse", f"inverse composed with the transform moves points by {e:.3g}", case)
            if not (kind == "Parameter" and (link or mode == "inv")):
                with torch.no_grad():
                    e = maxerr(inverse_of(ti, mode, link, upd)(x), t(x))
                if e > 1e-9:
                    report(f"C07:{name}.inverse:inverse-of-inverse", f"the inverse of the inverse differs from the transform by {e:.3g}", case)
            # the inverse shares the forward parameters: change them, it must stay the inverse
            data2 = torch.tensor([rnd_params(rng, name, D)], dtype=torch.float64)
            with torch.no_grad():
                if kind == "callable":
                    store["v"] = data2
                else:
                    t.data().copy_(data2)
            counts["after_update"] += 1
            e = check_pair(t, ti, x, 1e-9)
            if e > 1e-9:
                report(f"C07:{name}.inverse:{kind}:{'link' if link or mode == 'inv' else 'nolink'}:stale-after-update",
                       f"after an in-place parameter change the inverse no longer inverts (error {e:.3g})", case)
        except Exception as e:  # noqa
            counts["raised"] += 1
            if isinstance(e, TypeError) and (link or mode == "inv") and kind == "Parameter":
                report("C07:ParametricTransform.link_:Parameter:TypeError",
                       f"inverse(link=True) / .inv raise {type(e).__name__}: {str(e)[:120]}", case)
            else:
                report(f"C07:{name}.inverse:{kind}:raises", f"{type(e).__name__}: {str(e)[:120]}", case)
        # ---- composites of linear classes
        if it % 2 == 0:
            cname = rng.choice(list(COMPOSITE))
            D = 3 if cname == "RigidQuaternionTransform" else rng.choice([2, 3])
            kind = rng.choice(["Parameter", "tensor"])
            link, upd = rng.random() < 0.5, rng.random() < 0.5
            case = {"cls": cname, "D": D, "kind": kind, "link": link, "upd": upd}
            counts["composite"] += 1
            try:
                g = grid_of(D)
                t = COMPOSITE[cname](g)
                subs = list(t.named_transforms())
                args = {}
                for nm, sub in subs:
                    base = type(sub).__name__
                    d = torch.tensor([rnd_params(rng, base, D)], dtype=torch.float64)
                    args[nm] = Parameter(d) if kind == "Parameter" else d
                t = COMPOSITE[cname](g, **args)
                ti = t.inverse(link=link, update_buffers=upd)
                x = (torch.rand((1, 6, D), generator=torch.Generator().manual_seed(1000 + it)) * 1.6 - 0.8).double()
                e = check_pair(t, ti, x, 1e-9)
                if e > 1e-9:
                    report(f"C07:{cname}.inverse:not-inverse", f"composite inverse moves points by {e:.3g}", case)
                with torch.no_grad():
                    for nm, sub in t.named_transforms():
                        sub.data().copy_(torch.tensor([rnd_params(rng, type(sub).__name__, D)], dtype=torch.float64))
                e = check_pair(t, ti, x, 1e-9)
                if e > 1e-9:
                    report(f"C07:{cname}.inverse:{kind}:stale-after-update", f"after parameter changes the composite inverse is off by {e:.3g}", case)
                # generic composite of mixed members built by hand, any length
                L = rng.randint(1, 5)
                members = []
                for _ in range(L):
                    nm = rng.choice([k for k in LINEAR if D == 3 or k != "QuaternionRotation"])
                    members.append(build(nm, D, torch.tensor([rnd_params(rng, nm, D)], dtype=torch.float64)))
                seq = S.SequentialTransform(*members)
                e = check_pair(seq, seq.inverse(), x, 1e-9)
                if e > 1e-8:
                    report("C07:SequentialTransform.inverse:not-inverse", f"composite of {L} members: error {e:.3g}", {"D": D, "members": [type(m).__name__ for m in members]})
            except Exception as e:  # noqa
                counts["raised"] += 1
                if isinstance(e, TypeError) and link and kind == "Parameter":
                    report("C07:ParametricTransform.link_:Parameter:TypeError",
                           f"inverse(link=True) / .inv raise {type(e).__name__}: {str(e)[:120]}", case)
                else:
                    report(f"C07:{cname}.inverse:{kind}:raises", f"{type(e).__name__}: {str(e)[:120]}", case)
        # ---- velocity-field models (numeric exploration: small fraction of a sample, second order in the amplitude)
        if it % 3 == 0:
            vname = rng.choice(["StationaryVelocityFieldTransform", "StationaryVelocityFreeFormDeformation"])
            D = 2
            g = Grid(size=(33, 29), align_corners=True)
            kind = rng.choice(["Parameter", "tensor"])
            link, upd = (rng.random() < 0.5 and kind != "Parameter"), rng.random() < 0.5
            case = {"cls": vname, "kind": kind, "link": link, "upd": upd}
            counts["velocity"] += 1
            try:
                torch.set_default_dtype(torch.float32)
                errs = []
                for amp in (0.16, 0.08):
                    if vname == "StationaryVelocityFieldTransform":
                        t0 = S.StationaryVelocityFieldTransform(g, params=None)
                        v = smooth_field(random.Random(it), D, g.shape, amp).float()
                        t = S.StationaryVelocityFieldTransform(g, params=Parameter(v) if kind == "Parameter" else v)
                    else:
                        t0 = S.StationaryVelocityFreeFormDeformation(g, params=None, stride=4)
                        v = smooth_field(random.Random(it), D, tuple(t0.data_shape[1:]), amp).float()
                        t = S.StationaryVelocityFreeFormDeformation(g, params=Parameter(v) if kind == "Parameter" else v, stride=4)
                    t.update()
                    ti = t.inverse(link=link, update_buffers=upd)
                    x = (torch.rand((1, 50, D), generator=torch.Generator().manual_seed(it)) * 1.0 - 0.5).float()
                    with torch.no_grad():
                        e = max(maxerr(ti(t(x)), x), maxerr(t(ti(x)), x))
                    # error in samples: cube units -> voxels (the cube side of 2 spans n-1 samples)
                    errs.append(e * (min(g.shape) - 1) / 2)
                case["errors_in_samples"] = errs
                if errs[0] > 0.1:
                    report(f"C07:{vname}.inverse:error-too-large", f"inverse composed with the transform is off by {errs[0]:.3g} samples at amplitude 0.16", case)
                if errs[0] > 2e-3 and errs[1] > 0.62 * errs[0]:
                    report(f"C07:{vname}.inverse:not-second-order", f"halving the amplitude reduces the error only from {errs[0]:.3g} to {errs[1]:.3g} samples", case)
            except Exception as e:  # noqa
                counts["raised"] += 1
                report(f"C07:{vname}.inverse:{kind}:raises", f"{type(e).__name__}: {str(e)[:120]}", case)
            finally:
                torch.set_default_dtype(torch.float64)
    velocity_direct_checks(rng, max(24, n // 5), report, counts)
    steps0_checks(rng, report, counts)
    generic_checks(rng, max(24, n // 5), report, counts)
    linked_replacement_checks(rng, max(24, n // 5), report, counts)
    groups_checks(rng, max(40, n // 3), report, counts)
    best = {}
    for f in fails:
        best.setdefault(f["key"], f)
    return {"fails": list(best.values()), "counts": counts}


def generic_checks(rng, n, report, counts):
    """GenericSpatialTransform (spatial/generic.py): parameters from a callable (a network returning a dict), from the
    member modules (params=True) -- inverse(link in {False, True}, update_buffers) must invert, and keep inverting after
    the callable's output changed (weights updated in place) or both transforms were re-conditioned"""
    from deepali.spatial.generic import GenericSpatialTransform, TransformConfig
    counts["generic"] = 0
    torch.set_default_dtype(torch.float32)
    try:
        for it in range(n):
            D = rng.choice([2, 3])
            g = grid_of(D)
            model = rng.choice(["Affine", "Affine", "Affine o SVF", "SVF", "SVF o Affine"])
            aff = rng.choice(["TRS", "TR", "T", "RS", "TS", "A", "TQ"] if D == 3 else ["TRS", "TR", "T", "A", "TS"])
            kind = rng.choice(["callable", "callable", "callable", "members"])
            link, upd = rng.random() < 0.5, rng.random() < 0.5
            change = rng.choice(["weights", "condition", "weights"])
            case = {"cls": "GenericSpatialTransform", "D": D, "transform": model, "affine_model": aff, "kind": kind,
                    "link": link, "upd": upd, "change": change}
            try:
                cfg = TransformConfig(transform=model, affine_model=aff, scaling_and_squaring_steps=5)
                state = {"w": 1.0}
                base = {}
                r2 = random.Random(8000 + it)
                if "T" in aff:
                    base["translation"] = torch.tensor([rnd_params(r2, "Translation", D)], dtype=torch.float32)
                if "R" in aff:
                    base["rotation"] = torch.tensor([rnd_params(r2, "EulerRotation", D)], dtype=torch.float32)
                if "S" in aff:
                    base["scaling"] = torch.tensor([rnd_params(r2, "AnisotropicScaling", D)], dtype=torch.float32)
                if "Q" in aff:
                    base["quaternion"] = torch.tensor([rnd_params(r2, "QuaternionRotation", 3)], dtype=torch.float32)
                if "A" in aff:
                    base["affine"] = torch.tensor([rnd_params(r2, "HomogeneousTransform", D)], dtype=torch.float32)
                if "SVF" in model:
                    base["nonrigid"] = smooth_field(r2, D, tuple(g.shape), 0.05).float()

                def net(c=None, base=base, state=state):
                    k = state["w"] * (1.0 if c is None else float(c))
                    out = {}
                    for name, v in base.items():
                        if name == "scaling":
                            out[name] = 1 + (v - 1) * k
                        elif name == "quaternion":
                            out[name] = v * 1.0
                        elif name == "affine":
                            eye = torch.eye(D, D + 1).unsqueeze(0)
                            out[name] = eye + (v - eye) * k
                        else:
                            out[name] = v * k
                    return out
                if kind == "callable":
                    t = GenericSpatialTransform(g, params=net, config=cfg)
                else:
                    t = GenericSpatialTransform(g, params=True, config=cfg)
                    with torch.no_grad():
                        for name, m in t.named_transforms():
                            m.data().copy_(net()[name])
                x = (torch.rand((1, 8, D), generator=torch.Generator().manual_seed(it)) * 1.0 - 0.5).float()
                tol = 2e-2 if "SVF" in model else 2e-5
                with torch.no_grad():
                    y = t(x)
                    if kind == "members" and link:
                        inv = None     # Parameter-held members: covered by the per-class cases
                    else:
                        inv = t.inverse(link=link, update_buffers=upd)
                    if inv is None:
                        continue
                    counts["generic"] += 1
                    e = maxerr(inv(y), x)
                    if e > tol:
                        report(f"C07:GenericSpatialTransform.inverse:{kind}:{'link' if link else 'nolink'}:not-inverse",
                               f"inverse of the generic transform is off by {e:.3g} (cube units)", case)
                        continue
                    # later change of what the callable predicts / of the member parameters
                    if kind == "callable":
                        if change == "weights":
                            state["w"] = 0.4
                        else:
                            t.condition_(0.5)
                            inv.condition_(0.5)
                    else:
                        for name, m in t.named_transforms():
                            m.data().mul_(0.5) if name not in ("scaling", "quaternion", "affine") else None
                    y2 = t(x)
                    moved = maxerr(y2, y)
                    e = maxerr(inv(y2), x)
                    case["forward_moved_by"] = moved
                    if e > tol:
                        report(f"C07:GenericSpatialTransform.inverse:{kind}:{'link' if link else 'nolink'}:stale-after-{change}",
                               f"after the change (forward map moved by {moved:.3g}) the inverse no longer inverts: error {e:.3g}", case)
            except Exception as e:  # noqa
                counts["raised"] += 1
                report(f"C07:GenericSpatialTransform.inverse:{kind}:raises", f"{type(e).__name__}: {str(e)[:140]}", case)
    finally:
        torch.set_default_dtype(torch.float64)


def groups_checks(rng, n, report, counts):
    """groups > 1: one transform per image of the batch.  For every linear class (and the named composites) with N
    different parameter sets, tensor() of the inverse is, item by item, the tensor() of the inverse of a single-item
    transform with that item's parameters, and inverse(t(x)) = x = t(inverse(x)) for N point sets"""
    counts["groups"] = 0
    for it in range(n):
        name = rng.choice(list(LINEAR) + ["HomogeneousTransform"] * 3)
        D = 3 if name == "QuaternionRotation" else rng.choice([2, 3])
        N = rng.choice([2, 3])
        held = rng.choice(["tensor", "Parameter"])
        link = rng.random() < 0.4
        case = {"cls": name, "D": D, "groups": N, "held": held, "link": link}
        try:
            rows = [rnd_params(rng, name, D) for _ in range(N)]
            data = torch.tensor(rows, dtype=torch.float64)
            t = build(name, D, Parameter(data.clone()) if held == "Parameter" else data.clone())
            ti = t.inverse(link=link)
            x = (torch.rand((N, 5, D), generator=torch.Generator().manual_seed(it)) * 1.6 - 0.8).double()
            with torch.no_grad():
                e = max(maxerr(ti(t(x)), x), maxerr(t(ti(x)), x))
                counts["groups"] += 1
                if e > 1e-9:
                    report(f"C07:{name}.inverse:groups>1:not-inverse",
                           f"with {N} transforms in the batch the inverse composed with the transform moves points by {e:.3g}", dict(case, params=rows))
                    continue
                full = ti.tensor()
                for i in range(N):
                    one = build(name, D, (Parameter(data[i:i + 1].clone()) if held == "Parameter" else data[i:i + 1].clone())).inverse()
                    d = maxerr(full[i:i + 1], one.tensor())
                    if d > 1e-9:
                        report(f"C07:{name}.tensor:groups>1:item-differs-from-single",
                               f"item {i} of the inverted tensor() of a batch of {N} differs from the single transform by {d:.3g}", dict(case, params=rows))
                        break
            # named composites with groups > 1
            if it % 3 == 0:
                cname = rng.choice(list(COMPOSITE))
                Dc = 3 if cname == "RigidQuaternionTransform" else rng.choice([2, 3])
                g = grid_of(Dc)
                t0 = COMPOSITE[cname](g, groups=N)
                args = {}
                for nm, sub in t0.named_transforms():
                    args[nm] = torch.tensor([rnd_params(rng, type(sub).__name__, Dc) for _ in range(N)], dtype=torch.float64)
                tc = COMPOSITE[cname](g, groups=N, **args)
                xc = (torch.rand((N, 5, Dc), generator=torch.Generator().manual_seed(77 + it)) * 1.6 - 0.8).double()
                with torch.no_grad():
                    e = max(maxerr(tc.inverse()(tc(xc)), xc), maxerr(tc(tc.inverse()(xc)), xc))
                counts["groups"] += 1
                if e > 1e-9:
                    report(f"C07:{cname}.inverse:groups>1:not-inverse", f"composite with {N} groups: error {e:.3g}", {"cls": cname, "D": Dc, "groups": N})
        except Exception as e:  # noqa
            counts["raised"] += 1
            report(f"C07:{name}.inverse:groups>1:raises", f"{type(e).__name__}: {str(e)[:120]}", case)


def linked_replacement_checks(rng, n, report, counts):
    """inverse(link=True) / .inv stays the inverse after the forward parameters are REPLACED with data_() (or updated in
    place), whether they are held as a fixed tensor or as an nn.Parameter -- linear and velocity-field models"""
    counts["linked_replacement"] = 0
    torch.set_default_dtype(torch.float32)
    try:
        for it in range(n):
            name = rng.choice(["Translation", "EulerRotation", "AnisotropicScaling", "StationaryVelocityFieldTransform",
                               "StationaryVelocityFieldTransform", "StationaryVelocityFreeFormDeformation"])
            held = rng.choice(["tensor", "tensor", "Parameter"])
            via = rng.choice(["inverse", "inverse", "inv"])
            upd = rng.random() < 0.5
            change = rng.choice(["data_", "data_", "inplace"])
            case = {"cls": name, "held": held, "via": via, "link": True, "upd": upd, "change": change}
            try:
                velocity = name.startswith("Stationary")
                if velocity:
                    D = 2
                    g = Grid(size=(17, 15), align_corners=True)
                    cls = getattr(S, name)
                    kw = {} if name == "StationaryVelocityFieldTransform" else {"stride": 4}
                    shape = tuple(g.shape) if not kw else tuple(cls(g, params=None, **kw).data_shape[1:])

                    def draw(seed):
                        return smooth_field(random.Random(seed), D, shape, 0.1).float()
                    d0, d1 = draw(100 + it), draw(900 + it)
                    t = cls(g, params=Parameter(d0) if held == "Parameter" else d0, **kw)
                    tol = 0.1 * 2 / (min(g.shape) - 1)
                else:
                    D = 3
                    d0 = torch.tensor([rnd_params(rng, name, D)], dtype=torch.float32)
                    d1 = torch.tensor([rnd_params(rng, name, D)], dtype=torch.float32)
                    t = build(name, D, Parameter(d0) if held == "Parameter" else d0)
                    tol = 1e-5
                x = (torch.rand((1, 10, D), generator=torch.Generator().manual_seed(it)) * 1.0 - 0.5).float()
                with torch.no_grad():
                    t(x)
                    ti = t.inv if via == "inv" else t.inverse(link=True, update_buffers=upd)
                    e0 = maxerr(ti(t(x)), x)
                    if change == "data_":
                        t.data_(d1)
                    else:
                        t.data().copy_(d1)
                    e1 = max(maxerr(ti(t(x)), x), maxerr(t(ti(x)), x))
                counts["linked_replacement"] += 1
                if e0 > tol:
                    report(f"C07:{name}.inverse:link:{held}:not-inverse", f"linked inverse is off by {e0:.3g}", case)
                elif e1 > tol:
                    report(f"C07:{name}.inverse:link:{held}:stale-after-{change}",
                           f"after {change} on the forward transform the linked inverse no longer inverts: error {e1:.3g} (tolerance {tol:.3g})", case)
            except Exception as e:  # noqa
                counts["raised"] += 1
                report(f"C07:{name}.inverse:link:{held}:raises", f"{type(e).__name__}: {str(e)[:120]}", case)
    finally:
        torch.set_default_dtype(torch.float64)


def steps0_checks(rng, report, counts):
    """regression (be342f9): a velocity-field model with steps=0 (exp = scaling only, u is v itself) can be evaluated
    and inverted"""
    counts["steps0"] = 0
    torch.set_default_dtype(torch.float32)
    try:
        for vname, kw in (("StationaryVelocityFieldTransform", {}), ("StationaryVelocityFreeFormDeformation", {"stride": 4})):
            for scale in (None, 0.5):
                g = Grid(size=(17, 15), align_corners=True)
                cls = getattr(S, vname)
                case = {"cls": vname, "steps": 0, "scale": scale}
                try:
                    shape = tuple(g.shape) if not kw else tuple(cls(g, params=None, **kw).data_shape[1:])
                    v = smooth_field(random.Random(11), 2, shape, 0.1).float()
                    t = cls(g, params=v, steps=0, scale=scale, **kw)
                    x = (torch.rand((1, 20, 2), generator=torch.Generator().manual_seed(3)) - 0.5).float()
                    with torch.no_grad():
                        y = t(x)
                        u, vv = t.tensor(), t.v
                        z = t.inverse(update_buffers=True).forward(y)
                    counts["steps0"] += 1
                    d = maxerr(u, vv * (1.0 if scale is None else scale))
                    e = maxerr(z, x) * (min(g.shape) - 1) / 2
                    if d > 1e-6 or e > 0.1:
                        report(f"C07:{vname}:steps=0:wrong", f"u differs from scale * v by {d:.3g}; round trip error {e:.3g} samples", case)
                except Exception as e:  # noqa
                    report(f"C07:{vname}:steps=0:raises", f"{type(e).__name__}: {str(e)[:120]}", case)
    finally:
        torch.set_default_dtype(torch.float64)


def velocity_direct_checks(rng, n, report, counts):
    """inverse of a velocity-field model used WITHOUT the forward pre-hook: after the transform has been evaluated
    (v buffered), inverse(update_buffers=True) / .inv must hand back buffers of the INVERSE map, so forward / tensor /
    disp / flow of the inverse (or of an inverted composite containing it) are usable at once; with
    update_buffers=False the documented explicit update() comes first."""
    counts["velocity_direct"] = 0
    torch.set_default_dtype(torch.float32)
    try:
        for it in range(n):
            vname = rng.choice(["StationaryVelocityFieldTransform", "StationaryVelocityFreeFormDeformation"])
            g = Grid(size=(17, 15), align_corners=True)
            kind = rng.choice(["Parameter", "tensor", "callable"])
            upd = rng.random() < 0.7
            mode = rng.choice(["inverse", "inverse", "inv", "composite"])
            link = rng.random() < 0.5 and kind != "Parameter"
            if mode == "inv" and kind == "Parameter":
                mode = "inverse"
            access = rng.choice(["forward", "tensor", "disp", "flow", "call"])
            case = {"cls": vname, "kind": kind, "link": link, "update_buffers": upd, "mode": mode, "access": access}
            try:
                if vname == "StationaryVelocityFieldTransform":
                    shape, kw = tuple(g.shape), {}
                else:
                    kw = {"stride": 4}
                    shape = tuple(S.StationaryVelocityFreeFormDeformation(g, params=None, **kw).data_shape[1:])
                v = smooth_field(random.Random(5000 + it), 2, shape, 0.12).float()
                cls = getattr(S, vname)
                store = {"v": v}
                params = Parameter(v.clone()) if kind == "Parameter" else (v.clone() if kind == "tensor" else (lambda *a, **k: store["v"]))
                t = cls(g, params=params, **kw)
                x = (torch.rand((1, 40, 2), generator=torch.Generator().manual_seed(it)) * 1.0 - 0.5).float()
                with torch.no_grad():
                    # the transform has been used before: v and u are buffered
                    y = t(x) if rng.random() < 0.5 else (t.update(), t.forward(x))[1]
                    lin = None
                    if mode == "composite":
                        lin = S.Translation(g, params=torch.tensor([[0.05, -0.03]]))
                        comp = S.SequentialTransform(lin, t)
                        y = comp.forward(x)
                        inv = comp.inverse(link=link, update_buffers=upd)
                        svf_inv = list(inv.transforms())[0]
                    else:
                        inv = t.inv if mode == "inv" else t.inverse(link=link, update_buffers=upd)
                        svf_inv = inv
                    if mode == "inv":
                        case["update_buffers"] = True
                    elif not upd:
                        inv.update()         # documented: required before use when update_buffers=False
                    # reference: a freshly built transform with the negated exponential
                    tw = cls(g, params=v.clone(), **kw)
                    tw.exp.scale = -float(t.exp.scale)
                    tw.exp.steps = int(t.exp.steps)
                    tw.update()
                    if access == "tensor":
                        got, want = svf_inv.tensor(), tw.tensor()
                    elif access == "disp":
                        got, want = svf_inv.disp(), tw.disp()
                    elif access == "flow":
                        got, want = svf_inv.flow().tensor(), tw.flow().tensor()
                    elif access == "forward":
                        got, want = inv.forward(y), (tw.forward(y) if lin is None else lin.inverse().forward(tw.forward(y)))
                    else:
                        got, want = inv(y), (tw(y) if lin is None else lin.inverse()(tw(y)))
                    back = inv.forward(y) if access != "call" else got
                counts["velocity_direct"] += 1
                d = maxerr(got, want)
                e = maxerr(back, x) * (min(g.shape) - 1) / 2
                case["difference_from_fresh_inverse"] = d
                case["round_trip_error_in_samples"] = e
                if d > 1e-5 or e > 0.1:
                    ub = "update_buffers" if case["update_buffers"] else "after-update"
                    report(f"C07:{vname}.inverse:{ub}:{access}:not-the-inverse-field",
                           f"{access} of the inverse obtained by {mode}(update_buffers={case['update_buffers']}) without the pre-hook differs from the "
                           f"inverse field by {d:.3g}; inverse(forward(x)) is off by {e:.3g} samples", case)
            except Exception as e:  # noqa
                counts["raised"] += 1
                if isinstance(e, TypeError) and kind == "Parameter" and link:
                    report("C07:ParametricTransform.link_:Parameter:TypeError", f"inverse(link=True) raises {type(e).__name__}: {str(e)[:120]}", case)
                else:
                    report(f"C07:{vname}.inverse:{access}:direct-access-raises", f"{type(e).__name__}: {str(e)[:120]}", case)
    finally:
        torch.set_default_dtype(torch.float64)


def affine_velocity(p):
    """SVF with the diagonal affine generator v(x) = (h_1 x_1, h_2 x_2): forward and inverse-after-forward images of points"""
    out = []
    for c in p["cases"]:
        try:
            g = Grid(size=tuple(c["size"]), align_corners=bool(c["align"]))
            co = g.coords().double()
            v = torch.stack([c["h"][d] * co[..., d] for d in range(2)], 0).unsqueeze(0)
            params = Parameter(v) if c.get("as_parameter") else v
            t = S.StationaryVelocityFieldTransform(g, params=params, steps=int(c["steps"]))
            if c.get("pre_update"):
                t.update()
            ti = t.inv if c.get("inv_property") else t.inverse(link=bool(c.get("link")), update_buffers=bool(c.get("upd")))
            x = torch.tensor([c["x"]], dtype=torch.float64)
            with torch.no_grad():
                y = t(x)
                z = ti(y)
            out.append({"y": y[0].tolist(), "z": z[0].tolist()})
        except Exception as e:  # noqa
            out.append({"error": type(e).__name__, "msg": str(e)[:200]})
    return out


def main():
    p = json.loads(sys.stdin.read())
    if p["fn"] == "affine_velocity":
        emit_json(affine_velocity(p))
    elif p["fn"] == "tensors":
        emit_json(tensors(p))
    elif p["fn"] == "oracle":
        emit_json(oracle(p))
    else:
        raise SystemExit("unknown fn")


if __name__ == "__main__":
    main()
