(* C04: per-axis facts about the data-side operations -- for images of ANY number of axes and any sizes:
   index-only operations return the original values at shifted indices; linear interpolation, window means
   and normalised zero-first-moment stencils along an axis reproduce functions that are affine in the index. *)
From Coq Require Import ZArith List Field Ring Lia Bool.
From DV Require Import Base.Field Base.FieldFacts Base.LinAlg Base.Tactics Model.Enums Model.Sampler Model.ImageOps.
Import ListNotations.
Local Open Scope fld_scope.

Section C04Axis.
Variable K : fld.
Hypothesis Kf : is_field K.
Hypothesis Kc : char0 K.
Add Field KF_C04Axis : Kf.
Variable floorK : K -> Z.

(* ---------- lists ---------- *)
Lemma upd_length {A} k (v : A) l : length (upd k v l) = length l.
Proof. revert k; induction l as [|x l IH]; intros [|k]; cbn; auto. Qed.
Lemma nth_upd_same {A} k (v d : A) l : (k < length l)%nat -> nth k (upd k v l) d = v.
Proof. revert k; induction l as [|x l IH]; intros [|k] H; cbn in *; try lia; auto. apply IH. lia. Qed.
Lemma nth_upd_other {A} k k' (v d : A) l : k <> k' -> nth k' (upd k v l) d = nth k' l d.
Proof. revert k k'; induction l as [|x l IH]; intros [|k] [|k'] H; cbn; auto; try congruence. Qed.
Lemma upd_upd {A} k (v w : A) l : upd k v (upd k w l) = upd k v l.
Proof. revert k; induction l as [|x l IH]; intros [|k]; cbn; auto. now rewrite IH. Qed.
Lemma upd_same {A} k (d : A) l : (k < length l)%nat -> upd k (nth k l d) l = l.
Proof. revert k; induction l as [|x l IH]; intros [|k] H; cbn in *; try lia; auto. rewrite IH; auto. lia. Qed.
Lemma zget_upd_same k v J : (k < length J)%nat -> zget (upd k v J) k = v.
Proof. apply nth_upd_same. Qed.
Lemma zget_upd_other k k' v J : k <> k' -> zget (upd k v J) k' = zget J k'.
Proof. apply nth_upd_other. Qed.

(* ---------- affine functions of the index ---------- *)
Lemma aff_upd (a : list K) (b : K) (J : list Z) (k : nat) (v : Z) :
  length a = length J -> (k < length J)%nat ->
  aff a b (upd k v J) = aff a b J + nth k a 0 * (of_Z v - of_Z (zget J k)).
Proof.
  unfold aff, dot, zget. revert a k. induction J as [|j J IH]; intros [|x a] [|k] HL Hk; cbn in *; try lia.
  - unfold vmul. cbn. ring.
  - injection HL as HL. specialize (IH a k HL ltac:(lia)).
    unfold vmul in *. cbn [vmap2 vsum].
    transitivity (x * of_Z j + (vsum (vmap2 fmul a (map of_Z (upd k v J))) + b)); [ring|].
    rewrite IH. ring.
Qed.

(* ---------- index-only operations ---------- *)
Lemma crop_ax_exact (c : K) (ax : nat) (lo hi : Z) (im : nimg (K:=K)) (J : list Z) :
  ival (crop_ax c ax lo hi im) J
  = if inb (zget J ax + lo) (zget (ishape im) ax) then ival im (upd ax (zget J ax + lo)%Z J) else c.
Proof. reflexivity. Qed.
Lemma crop_ax_shape (c : K) (ax : nat) (lo hi : Z) (im : nimg (K:=K)) :
  ishape (crop_ax c ax lo hi im) = upd ax (zget (ishape im) ax - lo - hi)%Z (ishape im).
Proof. reflexivity. Qed.

(* ---------- linear interpolation along an axis ---------- *)
Lemma lerp0 (x y : K) : lerp x y 0 = x.
Proof. unfold lerp. ring. Qed.

Lemma inb_true i n : inb i n = true <-> (0 <= i < n)%Z.
Proof. unfold inb. rewrite andb_true_iff, Z.leb_le, Z.ltb_lt. tauto. Qed.

Lemma get_ax_in (pad : padmode) (ax : nat) (im : nimg (K:=K)) (J : list Z) (i : Z) :
  (0 <= i < zget (ishape im) ax)%Z -> get_ax pad ax im J i = ival im (upd ax i J).
Proof.
  intro H. unfold get_ax. destruct pad.
  - rewrite (proj2 (inb_true _ _) H). reflexivity.
  - unfold clampz. do 2 f_equal. lia.
Qed.

(* the image agrees with an affine function of the index on the line through J along axis ax; x is the
   continuous source index, whose cell lies inside the image (or x is the last sample) *)
Lemma interp_ax_affine (pad : padmode) (ax : nat) (src : Z -> K) (m : Z) (im : nimg (K:=K)) (a : list K) (b : K) (J : list Z) :
  length a = length J -> (ax < length J)%nat ->
  (forall i, (0 <= i < zget (ishape im) ax)%Z -> ival im (upd ax i J) = aff a b (upd ax i J)) ->
  let x := src (zget J ax) in
  (0 <= floorK x <= zget (ishape im) ax - 1)%Z ->
  ((floorK x <= zget (ishape im) ax - 2)%Z \/ x - of_Z (floorK x) = 0) ->
  ival (interp_ax floorK pad ax src m im) J = aff a b J + nth ax a 0 * (x - of_Z (zget J ax)).
Proof.
  intros HL Hax Him x Hi Ht. cbn [interp_ax ival]. unfold cell. fold x.
  rewrite (get_ax_in pad ax im J (floorK x)) by lia. rewrite Him by lia. rewrite aff_upd by auto.
  destruct Ht as [Ht | Ht].
  - rewrite (get_ax_in pad ax im J (floorK x + 1)) by lia. rewrite Him by lia. rewrite aff_upd by auto.
    unfold lerp. rewrite of_Z_add by auto. cbn [of_Z of_pos]. ring.
  - rewrite Ht, lerp0. replace x with (of_Z (floorK x) + (x - of_Z (floorK x))) at 2 by ring. rewrite Ht. ring.
Qed.

(* with an affine source map the result is again affine in the (new) index *)
Lemma aff_rescale (a : list K) (b : K) (J : list Z) (k : nat) (al be : K) :
  length a = length J -> (k < length J)%nat ->
  aff a b J + nth k a 0 * ((al * of_Z (zget J k) + be) - of_Z (zget J k))
  = aff (upd k (nth k a 0 * al) a) (b + nth k a 0 * be) J.
Proof.
  unfold aff, dot, zget. revert a k. induction J as [|j J IH]; intros [|x a] [|k] HL Hk; cbn in *; try lia.
  - unfold vmul. cbn. ring.
  - injection HL as HL. specialize (IH a k HL ltac:(lia)). unfold vmul in *. cbn [vmap2 vsum].
    transitivity (x * of_Z j + (vsum (vmap2 fmul a (map of_Z J)) + b
                                + nth k a 0 * (al * of_Z (nth k J 0%Z) + be - of_Z (nth k J 0%Z)))); [ring|].
    rewrite IH. ring.
Qed.

(* ---------- window mean along an axis ---------- *)
Lemma vsum_app (l1 l2 : list K) : vsum (l1 ++ l2) = vsum l1 + vsum l2.
Proof. induction l1 as [|x l IH]; cbn; [ring | rewrite IH; ring]. Qed.

Lemma zseq_succ (n : nat) : zseq (Z.of_nat (S n)) = zseq (Z.of_nat n) ++ [Z.of_nat n].
Proof. unfold zseq. rewrite !Nat2Z.id. rewrite seq_S, map_app. reflexivity. Qed.

(* sum_{d<k} (A + B d) = k A + B k (k-1) / 2, for every k *)
Lemma sum_arith (A B : K) (n : nat) :
  (1 + 1) * vsum (map (fun d => A + B * of_Z d) (zseq (Z.of_nat n)))
  = (1 + 1) * of_Z (Z.of_nat n) * A + B * of_Z (Z.of_nat n) * (of_Z (Z.of_nat n) - 1).
Proof.
  induction n as [|n IH].
  - cbn. ring.
  - rewrite zseq_succ, map_app, vsum_app. cbn [map vsum].
    rewrite Nat2Z.inj_succ. unfold Z.succ. rewrite of_Z_add by auto. cbn [of_Z of_pos].
    transitivity ((1 + 1) * vsum (map (fun d => A + B * of_Z d) (zseq (Z.of_nat n))) + (1 + 1) * (A + B * of_Z (Z.of_nat n))); [ring|].
    rewrite IH. ring.
Qed.

Lemma map_ext_in' {A B} (f g : A -> B) l : (forall x, In x l -> f x = g x) -> map f l = map g l.
Proof. apply map_ext_in. Qed.

Lemma in_zseq d k : In d (zseq k) -> (0 <= d < k)%Z.
Proof.
  unfold zseq. rewrite in_map_iff. intros (i & <- & Hi). apply in_seq in Hi. lia.
Qed.

Lemma pool_ax_affine (ax : nat) (k : Z) (im : nimg (K:=K)) (a : list K) (b : K) (J : list Z) :
  length a = length J -> (ax < length J)%nat -> (0 < k)%Z ->
  (forall i, (0 <= i < zget (ishape im) ax)%Z -> ival im (upd ax i J) = aff a b (upd ax i J)) ->
  (0 <= zget J ax)%Z -> ((zget J ax + 1) * k <= zget (ishape im) ax)%Z ->        (* window inside the image *)
  ival (pool_ax ax k false im) J = aff a b J + nth ax a 0 * (pool_src k (zget J ax) - of_Z (zget J ax)).
Proof.
  intros HL Hax Hk Him Hj Hw. cbn [pool_ax ival].
  replace (Z.min k (zget (ishape im) ax - zget J ax * k)) with k by lia.
  set (j := zget J ax) in *.
  assert (E : map (fun d => get_ax PZeros ax im J (j * k + d)) (zseq k)
              = map (fun d => (aff a b J + nth ax a 0 * (of_Z (j * k) - of_Z j)) + nth ax a 0 * of_Z d) (zseq k)).
  { apply map_ext_in. intros d Hd. apply in_zseq in Hd.
    rewrite get_ax_in by nia. rewrite Him by nia. rewrite aff_upd by auto. fold j.
    rewrite of_Z_add by auto. ring. }
  rewrite E.
  assert (Ek : k = Z.of_nat (Z.to_nat k)) by lia.
  assert (Hk0 : of_Z (K:=K) k <> 0) by (apply of_Z_nz; auto; lia).
  assert (H2 : (1 + 1 : K) <> 0) by (apply two_nz; auto).
  pose proof (sum_arith (aff a b J + nth ax a 0 * (of_Z (j * k) - of_Z j)) (nth ax a 0) (Z.to_nat k)) as S.
  rewrite <- Ek in S.
  unfold pool_src.
  rewrite of_Z_mul in S by auto.
  match type of S with (1 + 1) * ?V = _ =>
    assert (EV : V = of_Z k * (aff a b J + nth ax a 0 * (of_Z j * of_Z k - of_Z j)) + nth ax a 0 * of_Z k * (of_Z k - 1) / (1 + 1))
      by (transitivity ((1 + 1) * V / (1 + 1)); [field; auto | rewrite S; field; auto])
  end.
  rewrite of_Z_mul by auto.
  rewrite EV. field; auto.
Qed.

(* ---------- correlation with a stencil along an axis ---------- *)
Lemma stencil_sum (A B R : K) (l : list (K * Z)) :
  vsum (map (fun p => fst p * (A + B * (of_Z (snd p) - R))) l)
  = A * vsum (map fst l) + B * vsum (map (fun p => fst p * (of_Z (snd p) - R)) l).
Proof. induction l as [|p l IH]; cbn; [ring | rewrite IH; ring]. Qed.

Lemma in_combine_zseq (w : list K) x p : In (x, p) (combine w (zseq (zlen w))) -> (0 <= p < zlen w)%Z.
Proof. intro H. apply in_combine_r in H. now apply in_zseq. Qed.

(* a normalised stencil whose first moment about its centre vanishes (every symmetric one) reproduces affine
   functions wherever the whole stencil lies inside the image *)
Lemma corr_ax_affine (ax : nat) (w : list K) (im : nimg (K:=K)) (a : list K) (b : K) (J : list Z) :
  length a = length J -> (ax < length J)%nat ->
  (forall i, (0 <= i < zget (ishape im) ax)%Z -> ival im (upd ax i J) = aff a b (upd ax i J)) ->
  let r := (zlen w / 2)%Z in
  vsum w = 1 ->
  vsum (map (fun p => fst p * (of_Z (snd p) - of_Z r)) (combine w (zseq (zlen w)))) = 0 ->
  (0 <= zget J ax - r)%Z -> (zget J ax - r + zlen w <= zget (ishape im) ax)%Z ->
  ival (corr_ax ax w im) J = aff a b J.
Proof.
  intros HL Hax Him r Hs Hm Hlo Hhi. cbn [corr_ax ival]. fold r.
  set (j := zget J ax) in *.
  assert (E : map (fun p => fst p * get_ax PZeros ax im J (j + snd p - r)) (combine w (zseq (zlen w)))
              = map (fun p => fst p * (aff a b J + nth ax a 0 * (of_Z (snd p) - of_Z r))) (combine w (zseq (zlen w)))).
  { apply map_ext_in. intros [x p] Hp. apply in_combine_zseq in Hp. cbn [fst snd].
    rewrite get_ax_in by lia. rewrite Him by lia. rewrite aff_upd by auto. fold j.
    replace (j + p - r)%Z with (j + (p - r))%Z by lia. rewrite of_Z_add, of_Z_sub by auto. ring. }
  rewrite E, stencil_sum, Hm.
  assert (Ef : map fst (combine w (zseq (zlen w))) = w).
  { clear. unfold zlen, zseq. rewrite Nat2Z.id.
    assert (G : forall (l : list K) (s : list Z), length s = length l -> map fst (combine l s) = l).
    { induction l as [|x l IH]; intros [|y s] H; cbn in *; try discriminate; auto. f_equal. apply IH. lia. }
    apply G. rewrite map_length, seq_length. reflexivity. }
  rewrite Ef, Hs. ring.
Qed.
End C04Axis.
