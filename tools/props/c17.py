"""C17 -- deformation regularisers have the right null space, sign, scaling and units."""
import math
import os
import re

import vlib
from vlib import Violation, qc, coq_list

ID = "C17"
GEN_UNITS = ["Regs", "BSpline", "FlowDeriv"]
PROPS_FILE = "Props/C17.v"
PROPS_MOD = "Props.C17"
COQ_TARGETS = ["Props/C17.vo"]
SOURCES = ["deepali/losses/functional.py", "deepali/losses/flow.py", "deepali/losses/bspline.py", "deepali/core/flow.py",
           "deepali/core/image.py"]
TRUSTED = [
    "Coq 8.16.1 kernel + vm_compute",
    "translator: tools/symtorch.py and the path-condition scalar of tr_units/regs.py (lame_parameters guards taken on the "
    "'valid elastic constant' side); flow_derivatives / spatial_derivatives are replaced by symbols when the coefficient "
    "structure is traced",
    "hand-written stencil model coq/Model/RegStencil.v (forward_central_backward differences, replicate-padded [1,w,1] smoothing of "
    "'sobel'/'prewitt') -- tied by this run's correspondence only",
    "modelled not verified: float rounding; torch kernels conv1d / F.pad inside spatial_derivatives; math.sqrt (enters as r with r*r = radicand)",
]
ASSUMPTIONS = [
    "spacings are non-zero; elastic constants lie in the range where the source's sign / snap-to-zero guards are inactive",
    "Gaussian pre-smoothing (sigma), modes forward/backward/central/gaussian/bspline are evaluated on the implementation only",
]

RED = {"none": "RNone", "mean": "RMean", "sum": "RSum"}
MODE = {"fcb": "MFcb", "sobel": "MSobel", "prewitt": "MPrewitt"}
LOSS_FNS = ["bending", "curvature", "diffusion", "divergence", "tv", "elasticity"]
PAIR_ORDER = ["first", "second", "shear", "poisson", "young"]


def dy(rng, lo=-2, hi=2, bits=2):
    return rng.randint(lo * 2 ** bits, hi * 2 ** bits) / 2 ** bits


def zlist(l):
    return "[" + "; ".join(str(int(v)) for v in l) + "]%Z"


def make_cases(ctx, n):
    rng = ctx.rng
    cases = []
    for i in range(n):
        r = i % 10
        if r < 7:
            D = 2 if (i // 10) % 3 else 3
            fn = LOSS_FNS[i % 6]
            mode = ["fcb", "sobel", "prewitt"][(i // 6) % 3]
            second = fn in ("bending", "curvature")
            if D == 2:
                size = [rng.choice([2, 3, 4, 5]) for _ in range(2)]
            else:
                size = [rng.choice([2, 3] if (second and mode != "fcb") else [2, 3, 4]) for _ in range(3)]
            npts = 1
            for s in size:
                npts *= s
            spacing = [rng.choice([0.5, 1.0, 2.0, 0.25]) for _ in range(D)] if rng.random() < 0.85 else None
            c = {"kind": "loss", "fn": fn, "mode": mode, "reduction": ["none", "mean", "sum"][(i // 18) % 3],
                 "u": {"size": size, "data": [[dy(rng) for _ in range(npts)] for _ in range(D)]}, "spacing": spacing}
            if fn == "elasticity":
                c["lam"], c["mu"] = rng.choice([(1.0, 0.5), (0.0, 2.0), (3.0, 0.0), (0.25, 1.5)])
            cases.append(c)
        elif r < 9:
            lam, mu = rng.choice([0.5, 1.0, 2.0, 4.0]), rng.choice([0.25, 1.0, 2.0, 3.0])
            truth = {"first": lam, "second": mu, "shear": mu, "poisson": lam / (2 * (lam + mu)),
                     "young": mu * (3 * lam + 2 * mu) / (lam + mu)}
            a, b = rng.sample(PAIR_ORDER, 2)
            a, b = sorted([a, b], key=PAIR_ORDER.index)
            cases.append({"kind": "lame", "args": {a: truth[a], b: truth[b]}, "pair": f"{a}_{b}", "lam": lam, "mu": mu})
        elif r == 9 and (i // 10) % 2 == 0:
            # bending_loss(mode='bspline'): the field is read as cubic B-spline coefficients
            D = 2 if (i // 20) % 3 else 3
            size = [rng.choice([4, 5, 6] if D == 2 else [4, 5]) for _ in range(D)]
            npts = 1
            for s_ in size:
                npts *= s_
            cases.append({"kind": "bsloss", "fn": "bending", "mode": "bspline", "reduction": ["none", "mean", "sum"][(i // 20) % 3],
                          "stride": [rng.choice([1, 2]) if D == 2 else rng.choice([1, 1, 2]) for _ in range(D)],
                          "u": {"size": size, "data": [[dy(rng) for _ in range(npts)] for _ in range(D)]},
                          "spacing": [rng.choice([0.5, 1.0, 2.0]) for _ in range(D)]})
        else:
            D = rng.choice([2, 3])
            cases.append({"kind": "ic", "size": [rng.choice([5, 6, 9, 12]) for _ in range(D)],
                          "spacing": [rng.choice([0.5, 1.0, 2.0]) for _ in range(D)], "ac": bool(rng.random() < 0.5),
                          "t": [rng.choice([0.25, -0.125, 0.5, 0.0]) for _ in range(D)], "units": rng.choice(["cube", "voxel", "world"])})
    return cases


def field_term(c):
    u = c["u"]
    comps = coq_list([coq_list([qc(v) for v in comp]) for comp in u["data"]])
    return f"(field_of_flat (K:=QcF) {zlist(u['size'])} {comps})"


def model_term(c, r):
    k = c["kind"]
    if k == "loss":
        sh = zlist(c["u"]["size"])
        sp = c["spacing"]
        if sp is None:
            from fractions import Fraction
            sp_t = coq_list([qc(Fraction(2, n - 1)) if n > 1 else qc(0) for n in c["u"]["size"]])
        else:
            sp_t = coq_list([qc(v) for v in sp])
        m = MODE[c["mode"]]
        U = field_term(c)
        fn = c["fn"]
        pt = {"bending": f"bending_pt (K:=QcF) {m} {sh} {sp_t} {U} i", "curvature": f"curvature_pt (K:=QcF) {m} {sh} {sp_t} {U} i",
              "diffusion": f"diffusion_pt (K:=QcF) {m} {sh} {sp_t} {U} i", "divergence": f"div_pt (K:=QcF) {m} {sh} {sp_t} {U} i",
              "tv": f"tv_pt (K:=QcF) {m} {sh} {sp_t} {U} i Qcabs'",
              "elasticity": f"elasticity_pt (K:=QcF) {m} {sh} {sp_t} {U} i {qc(c.get('lam', 0))} {qc(c.get('mu', 0))}"}[fn]
        scale = 1 + max(abs(v) for v in r["val"])
        tol = vlib.qlit((1e-8 if sp is not None else 2e-6) * scale)
        return f"vclose {tol} (reg_loss (K:=QcF) {RED[c['reduction']]} {sh} (fun i => {pt})) {coq_list([qc(v) for v in r['val']])}"
    if k == "bsloss":
        sh, st_ = zlist(c["u"]["size"]), zlist(c["stride"])
        sp_t = coq_list([qc(v) for v in c["spacing"]])
        D = len(c["u"]["size"])
        scale = 1 + max(abs(v) for v in r["val"])
        tol = vlib.qlit(1e-8 * scale)
        return (f"vclose {tol} (reg_loss (K:=QcF) {RED[c['reduction']]} (bs_out_shape {sh} {st_}) "
                f"(fun p => bs_bending_pt (K:=QcF) (@gen_w QcF) {D} {st_} {sp_t} {field_term(c)} p)) {coq_list([qc(v) for v in r['val']])}")
    if k == "lame":
        a, b = list(c["args"])
        vals = " ".join(qc(c["args"][n]) for n in (a, b))
        if c["pair"] == "first_young":
            lam, ym = c["args"]["first"], c["args"]["young"]
            rr = math.sqrt(ym ** 2 + 9 * lam ** 2 + 2 * ym * lam)
            vals = qc(rr) + " " + vals
        return (f"(let p := gen_lame_{c['pair']} (K:=QcF) {vals} in "
                f"qclose t6 (fst p) {qc(r['val'][0])} && qclose t6 (snd p) {qc(r['val'][1])})")
    if k == "ic":
        un = {"cube": "UCube", "voxel": "UVoxel", "world": "UWorld"}[c["units"]]
        e = coq_list([qc(v) for v in c["t"]])
        s = coq_list([qc(v) for v in c["spacing"]])
        ac = "true" if c["ac"] else "false"
        v = r["val"][0]
        return (f"(qclose t6 (vsum (map (fun a : QcF => (a * a)%F) (ic_convert_spec (K:=QcF) {un} {ac} {zlist(c['size'])} {s} {e}))) "
                f"{qc(v * v)} && qclose t6 {qc(r['spread'])} (q 0 1))")
    raise KeyError(k)


HEADER = """From Coq Require Import ZArith QArith Qcanon List String Bool.
From DV Require Import Base.Field Base.LinAlg Base.QcInst Model.Losses Model.LossesR Model.RegStencil Model.Regularisers Gen.Regs Gen.BSpline.
Import ListNotations.
Definition t6 : Q := 1 # 100000000.
Definition t4 : Q := 1 # 10000.
"""


def brief(c):
    d = {k: v for k, v in c.items() if k != "u"}
    if "u" in c:
        d["size"] = c["u"]["size"]
        d["u"] = c["u"]
    return d


def run_shard(ctx, cases, res, name, lame_ok):
    lines = [HEADER]
    names = []
    failures = []
    for i, (c, r) in enumerate(zip(cases, res)):
        if "error" in r:
            if c["kind"] == "lame" and lame_ok.get(c["pair"]) not in ("Ok", None):
                continue        # the source cannot execute this pair at all: compared through the raise table
            failures.append({"why": f"implementation raised {r['error']}: {r.get('msg', '')[:100]}", "case": brief(c)})
            continue
        if c["kind"] == "lame" and lame_ok.get(c["pair"]) != "Ok":
            failures.append({"why": "implementation returns a value for a pair the translator could not execute", "case": c})
            continue
        lines.append(f"Definition c{i} : bool := {model_term(c, r)}.")
        names.append(i)
    lines.append("Definition results : list bool := " + coq_list([f"c{i}" for i in names]) + ".")
    lines.append('Eval vm_compute in ("FAIL"%string, failing results).')
    rc, out = vlib.coqc_text("\n".join(lines) + "\n", ctx.scratch, name, timeout=900)
    bad = vlib.parse_nat_list(out, "FAIL")
    if rc != 0 or bad is None:
        failures.append({"why": "case file did not evaluate (model or generated definitions missing or ill-typed)", "coq": out[-800:]})
    else:
        for j in bad:
            i = names[j]
            failures.append({"why": f"model value differs from implementation ({cases[i]['kind']})",
                             "impl": {"val": res[i]["val"][:6]}, "case": brief(cases[i])})
    return failures


def gen_table(name):
    src = open(os.path.join(vlib.COQ, "Gen", "Regs.v")).read()
    m = re.search(name + r"[^\[]*\[(.*?)\]\.", src, flags=re.S)
    return dict(re.findall(r'\("([^"]+)"%string, "([^"]+)"%string\)', m.group(1))) if m else None


def correspondence(ctx):
    n = ctx.n(120, 900)
    cases = make_cases(ctx, n)
    res = vlib.run_impl("c17_impl", {"fn": "model_cases", "cases": cases})
    tab = gen_table("gen_lame_table") or {}
    failures = []
    shard = 150
    for s in range(0, len(cases), shard):
        failures += run_shard(ctx, cases[s:s + shard], res[s:s + shard], f"cases_c17_{s // shard}", tab)
    real = vlib.run_impl("c17_impl", {"fn": "lame_table"})
    if not tab or tab != real:
        failures.append({"why": "symbolic execution of lame_parameters and the real code disagree on which keyword pairs raise",
                         "translator": tab, "impl": real})
    dist = {}
    for c, r in zip(cases, res):
        if c["kind"] == "bsloss":
            tag = f"bending:bspline:D{len(c['u']['size'])}:{c['reduction']}:stride{'x'.join(map(str, c['stride']))}"
        elif c["kind"] == "loss":
            tag = f"{c['fn']}:{c['mode']}:D{len(c['u']['size'])}:{c['reduction']}" + (":default-spacing" if c["spacing"] is None else "")
        elif c["kind"] == "lame":
            tag = "lame:" + c["pair"]
        else:
            tag = f"ic:{c['units']}:ac={c['ac']}"
        tag += ":impl-" + r["error"] if "error" in r else ""
        dist[tag] = dist.get(tag, 0) + 1
    samples = [{"case": {k: v for k, v in brief(cases[i]).items() if k != "u"}, "impl": {k: (v[:4] if isinstance(v, list) else v) for k, v in res[i].items()}}
               for i in (0, 1, 7, 9) if i < len(cases)]
    return {"evaluations": len(cases), "distinct_nontrivial": len({str(c) for c in cases}),
            "rule": "seeded dyadic random vector fields (non-affine), D in {2,3}, sizes 2..5, modes forward_central_backward / sobel / "
                    "prewitt x 6 losses x 3 reductions, explicit anisotropic dyadic spacing or the default cube spacing; elastic-constant "
                    "pairs derived from random (lambda, mu); translations through inverse_consistency_loss on grids with either "
                    "align_corners; non-trivial = every case; distinct by full input",
            "samples": samples, "failures": failures, "distribution": dist,
            "tolerances": {"explicit spacing": "1e-8 * (1 + max |value|) (float64)",
                           "default spacing 2/(n-1) (stored as float32 by the code)": "2e-6 * (1 + max |value|)"}}


def search(ctx, broken, corr_failures):
    n = ctx.n(8, 40)
    r = vlib.run_impl("c17_impl", {"fn": "oracle", "seed": ctx.seed, "n": n}, timeout=1500)
    ctx.notes.append(f"implementation-side property evaluation (checks per group): {r['counts']}; failing checks {r['total_fails']}")
    ctx.notes.append("B-spline bending energy: evaluated on coefficient fields sampled from quadratic polynomials against the closed-form "
                     "energy of their (constant) second derivatives, strides 1..3; not a theorem here")
    return [Violation(key=f["key"], what=f["what"], replay={"oracle": "c17", "seed": ctx.seed, "n": n, "failure": f}) for f in r["fails"]]


def explains(broken_item, found):
    """A NEW concrete failing input (never a recorded finding) explains a broken obligation when it is about the same
    source function; obligations that name no more specific cause (translator unit, correspondence, build items, lemmas
    that match no function below) are explained by any new concrete violation."""
    known, _ = vlib.load_findings()
    fresh = [v.key.lower() for v in found if v.key not in known]
    if not fresh:
        return False
    b = broken_item.lower()
    if b.startswith("translator unit") or "case file did not evaluate" in b or "disagree on which" in b \
            or "was not found in the current environment" in b or "translator could not execute" in b:
        return True     # names no specific function: any new concrete violation explains it
    table = [(("module_options", "gen_flow_module"), (".forward",)),
             (("lame",), ("lame_parameters",)),
             (("ic_units", "ic_zero", "denormalize", "(ic)", "inverse_consistency"), ("inverse_consistency",)),
             (("spacing_divisors", "gen_sd_"), ("spacing", "flow_derivatives")),
             (("gen2_ok", "gen3_ok", "gen_bending", "gen_curvature", "gen_diffusion", "gen_tv", "gen_divergence", "gen_elasticity"),
              ("_loss:",)),
             (("sobel", "fd_", "d1_", "d2_", "stencil", "smooth"), ("_loss:", "flow_derivatives"))]
    for bs, ks in table:
        if any(x in b for x in bs):
            return any(k_ in key for k_ in ks for key in fresh)
    return True


def replay(ctx, data):
    f = data.get("failure") or {}
    r = vlib.run_impl("c17_impl", {"fn": "oracle", "seed": data.get("seed", ctx.seed), "n": data.get("n", 8)}, timeout=1500)
    for g in r["fails"]:
        if g["key"] == f.get("key"):
            return g["what"]
    return None


MANIFEST_ENTRY = {
    "text": "Theorems (Coq) about a stencil model of spatial_derivatives (forward_central_backward differences; replicate-padded [1,w,1] "
            "cross smoothing of 'sobel'/'prewitt') on lattices of any dimension and shape, over every field of characteristic 0 (signs "
            "over R): every derivative mode is exact on affine functions at every lattice point; bending and curvature vanish on affine fields and "
            "are unchanged by adding one, everywhere, for every mode including the default sobel; diffusion / TV / divergence / elasticity vanish on translations and take their analytic values on affine "
            "fields; non-negativity; quadratic (TV: absolute) homogeneity; spacing powers k^-2 / k^-4; reductions; lame_parameters: "
            "each executable keyword pair returns (lambda, mu) satisfying the defining relations, except (lambda, E) which is refuted "
            "against the proved closed form; denormalize_flow factors per align_corners. Tie: lame table, loss coefficient structure "
            "and denormalize_flow are traced from the source (Gen/Regs.v); the stencil + loss model is run (vm_compute, Qc) against the "
            "implementation for 6 losses x 3 modes x D in {2,3}.",
    "note": "Partial: B-spline bending = energy of analytic spline derivatives, Gaussian smoothing, modes forward/backward/central/"
            "gaussian, margins/masks of inverse consistency and the module wrappers are evaluated on the implementation only. "
            "Trusted: Coq kernel, vm_compute, tools/symtorch.py, the hand-written stencil model (correspondence-tied), float rounding.",
}
