"""Gen/BSpline.v -- core/bspline.py and core/kernels.py, traced from the source text:

* gen_w d t            the four cubic B-spline interpolation weights of derivative order d as field terms in the
                       offset t (cubic_bspline_interpolation_weights; the offset vector torch.arange(0, 1, 1/s) is
                       replaced by symbols, one per row; every row must be the same expression in its own symbol)
* gen_B0/1/2/3 piece x cubic_bspline_value on each of its six pieces (0 beyond order 3); cubic_bspline1d of every order and the
                       2-D / 3-D kernels (per-axis and scalar strides) are checked to be its samples / outer products; (branches decided from the piece's interval;
                       an undecidable comparison aborts the translation)
* gen_sub_even/odd     the two subdivision stencils of subdivide_cubic_bspline (traced through core.image.conv1d /
                       F.conv1d for n = 2..6 coefficients; every output position must match the stencil with zeros
                       outside; 2-D subdivision must be the composition of the per-axis ones)
* gen_ctrl_size m s    the integer formula of cubic_bspline_control_point_grid_size (traced on symbolic positive
                       integers; sequence arguments must act per axis)
* structural check of evaluate_cubic_bspline(transpose=False): on symbolic coefficients and symbolic kernels, for
  D = 1, 2, 3, small sizes / strides, every output sample must be  sum_k W[o][k] c[q + k]  (tensor product), cropped
  at the front -- the closed form of Model/BSpline.v.
* the same for evaluate_cubic_bspline(transpose=True): traced through core.image.conv / conv1d / F.conv_transpose1d with
  symbolic kernels, every cropped sample must be the gather form  sum_j c[j] prod ker[x + s + p - j s]  (the evT* model)
* spatial_derivatives(mode='bspline') on symbolic spacing: every key (mixed keys of total order >= 3 included) is the spline
  derivative of that order divided by prod_a spacing[a]^order[a]
* spatial/bspline.py BSplineTransform.data_stride / data_shape / evaluate_spline / grid_ executed on recording stand-ins
  (stride order, control grid size, crop after subdivision: drop the first coefficient)
Float literals are read as the simplest rational with the same double (1/6 for 0.16666666666666666)."""
import itertools
import re
from fractions import Fraction

import numpy as np

import symtorch as st
import trlib
from symtorch import E, TraceError

INF = float("inf")


# ------------------------------------------------------------------------------------------------
# float literals: same double <-> simplest rational
# ------------------------------------------------------------------------------------------------
class simple_float_literals:
    def __enter__(self):
        self.orig = E.__dict__["const"]
        orig = E.const

        def const(x):
            if isinstance(x, (float, np.floating)) and not isinstance(x, bool):
                xf = float(x)
                if xf == xf and abs(xf) != INF:
                    fr = Fraction(xf).limit_denominator(1000)
                    if float(fr) == xf:
                        return E("const", fr)
            return orig(x)

        E.const = staticmethod(const)
        return self

    def __exit__(self, *a):
        E.const = self.orig
        return False


class TorchProxy:
    def __init__(self, base, **over):
        self._base = base
        self._over = over

    def __getattr__(self, n):
        if n in self._over:
            return self._over[n]
        return getattr(self._base, n)


class patched:
    """temporarily rebind a module global (e.g. ``torch``) of a loaded deepali module"""

    def __init__(self, mod, name, value):
        self.mod, self.name, self.value = mod, name, value

    def __enter__(self):
        self.old = self.mod.__dict__[self.name]
        self.mod.__dict__[self.name] = self.value

    def __exit__(self, *a):
        self.mod.__dict__[self.name] = self.old
        return False


def ren(e, mapping):
    return trlib.rename(e, mapping)


def fr_eval(e, env):
    return e.eval({k: Fraction(v) for k, v in env.items()})


# ------------------------------------------------------------------------------------------------
# 1. interpolation weights
# ------------------------------------------------------------------------------------------------
def trace_weights(bs, d, rows=2):
    seen = []

    def arange(*args, dtype=None, device=None):
        if len(args) != 3 or args[0] != 0 or args[1] != 1 or args[2] != 1 / rows:
            raise TraceError(f"offset vector is not arange(0, 1, 1/stride): {args}")
        seen.append(args)
        return st.Tensor(np.array([E.var(f"t{i}") for i in range(rows)], dtype=object))

    with patched(bs, "torch", TorchProxy(st, arange=arange)):
        w = bs.cubic_bspline_interpolation_weights(rows, derivative=d)
    if len(seen) != 1:
        raise TraceError("offset vector built more than once / not at all")
    if w.shape != (rows, 4):
        raise TraceError(f"weights shape {w.shape}")
    st._check_init(w.a)
    gen = [ren(e, {"t0": "t"}) for e in w.a[0]]
    for i in range(1, rows):
        for k in range(4):
            if not ren(w.a[i, k], {f"t{i}": "t"}).same(gen[k]):
                raise TraceError(f"derivative {d}: row {i} is not the generic row in its own offset")
    return gen


def weights_section(bs):
    out = []
    table = {}
    for d in range(0, 6):
        table[d] = trace_weights(bs, d)
    for d in (4, 5):
        if not all(e.is_const() and e.value() == 0 for e in table[d]):
            raise TraceError(f"derivative order {d} does not give zero weights")
    # other call forms must give the same kernels
    for d in range(4):
        k3 = trace_weights(bs, d, rows=3)
        if not all(a.same(b) for a, b in zip(k3, table[d])):
            raise TraceError("weights depend on the stride other than through the offset")
    for d in range(4):
        body = "[" + "; ".join(st.to_coq(e) for e in table[d]) + "]"
        out.append(f"(* cubic_bspline_interpolation_weights(stride, derivative={d}): row of offset t = o / stride *)\n"
                   f"Definition gen_w{d} (t : K) : list K :=\n  {body}.\n")
    out.append("Definition gen_w (d : nat) (t : K) : list K :=\n  match d with\n  | 0%nat => gen_w0 t | 1%nat => gen_w1 t"
               " | 2%nat => gen_w2 t | 3%nat => gen_w3 t\n  | _ => [0; 0; 0; 0]\n  end.\n")
    return out, table


def check_weight_call_forms(bs):
    """stride / derivative given as sequences: kernel i belongs to (stride[i], derivative[i])"""
    def arange_for(*args, dtype=None, device=None):
        s = round(1 / args[2])
        if args[0] != 0 or args[1] != 1 or args[2] != 1 / s:
            raise TraceError(f"offset vector is not arange(0, 1, 1/stride): {args}")
        return st.Tensor(np.array([E.var(f"t{i}") for i in range(s)], dtype=object))

    with patched(bs, "torch", TorchProxy(st, arange=arange_for)):
        single = {(s, d): bs.cubic_bspline_interpolation_weights(s, derivative=d) for s in (1, 2, 3) for d in range(4)}
        for strides, ders in (((2, 3), (1, 0)), ((3, 3, 1), (2, 2, 0)), (2, (0, 1, 3)), ((1, 2), 1)):
            ks = bs.cubic_bspline_interpolation_weights(strides, derivative=ders)
            n = len(strides) if not isinstance(strides, int) else len(ders)
            ss = [strides] * n if isinstance(strides, int) else list(strides)
            dd = [ders] * n if isinstance(ders, int) else list(ders)
            if len(ks) != n:
                raise TraceError("number of kernels returned for sequence arguments")
            for k, s, d in zip(ks, ss, dd):
                if not trlib.same_tensor(k.a, single[(s, d)].a):
                    raise TraceError(f"kernel for (stride {s}, derivative {d}) differs in the sequence call form")
        w = bs.bspline_interpolation_weights(3, 2)
        if not trlib.same_tensor(w.a, single[(2, 0)].a):
            raise TraceError("bspline_interpolation_weights(degree=3) is not the cubic kernel")


# ------------------------------------------------------------------------------------------------
# 2. cubic_bspline_value on its pieces
# ------------------------------------------------------------------------------------------------
class IV(E):
    """a symbol known to lie in an interval; comparisons against literals are decided from the interval or abort"""
    __slots__ = ("lo", "hi", "lc", "hc")

    def __init__(self, e, lo, hi, lc, hc):
        E.__init__(self, e.op, *e.args)
        self.lo, self.hi, self.lc, self.hc = lo, hi, lc, hc

    def __abs__(self):
        if self.lo >= 0:
            return self
        if self.hi <= 0:
            return IV(-E(self.op, *self.args), -self.hi, -self.lo, self.hc, self.lc)
        raise TraceError("abs() of a symbol whose sign is not fixed on the piece")

    def _cmp(self, o, what):
        if isinstance(o, E):
            if not o.is_const():
                raise TraceError("comparison of two symbolic values")
            o = o.value()
        c = Fraction(o) if not isinstance(o, float) else Fraction(o)
        # all values v of the interval satisfy v < c ?
        all_lt = self.hi < c or (self.hi == c and not self.hc)
        all_le = self.hi <= c
        all_gt = self.lo > c or (self.lo == c and not self.lc)
        all_ge = self.lo >= c
        dec = {"lt": (all_lt, all_ge), "le": (all_le, all_gt), "gt": (all_gt, all_le), "ge": (all_ge, all_lt)}
        if what in dec:
            yes, no = dec[what]
            if yes:
                return True
            if no:
                return False
        raise TraceError(f"comparison ({what} {c}) is not decided on the piece [{self.lo}, {self.hi}]")


PIECES = [  # name, lo, hi, lo closed, hi closed
    ("PLo", -INF, -2, False, True),
    ("PM2", -2, -1, False, True),
    ("PM1", -1, 0, False, False),
    ("PP0", 0, 1, True, False),
    ("PP1", 1, 2, True, False),
    ("PHi", 2, INF, True, False),
]


def bvalue_section(ker):
    out = []
    table = {}
    for d in (0, 1, 2, 3):
        arms = []
        for name, lo, hi, lc, hc in PIECES:
            x = IV(E.var("x"), lo, hi, lc, hc)
            v = ker.cubic_bspline_value(x, derivative=d)
            if v is None:
                raise TraceError(f"cubic_bspline_value(derivative={d}) returns None on piece {name}")
            v = E.const(v)
            if isinstance(v, IV):
                v = E(v.op, *v.args)
            table[(d, name)] = v
            arms.append(f"  | {name} => {st.to_coq(v)}")
        out.append(f"(* cubic_bspline_value(x, derivative={d}) on each piece of the real line *)\n"
                   f"Definition gen_B{d} (p : bpiece) (x : K) : K :=\n  match p with\n" + "\n".join(arms) + "\n  end.\n")
    # derivative orders beyond 3 vanish identically
    for d in (4, 5, 7):
        for name, lo, hi, lc, hc in PIECES:
            v = ker.cubic_bspline_value(IV(E.var("x"), lo, hi, lc, hc), derivative=d)
            if v is None or not E.const(v).is_const() or E.const(v).value() != 0:
                raise TraceError(f"cubic_bspline_value(derivative={d}) is not 0 on piece {name}")
    # 1-D kernels of every derivative order sample the corresponding piece at (i - radius) / stride
    for s in (1, 2, 3):
        for d in (1, 2, 3):
            with simple_float_literals():
                k = ker.cubic_bspline1d(s, derivative=d)
            r = (4 * s - 1) // 2
            if k.shape != (4 * s - 1,):
                raise TraceError("cubic_bspline1d(stride, derivative) does not have 4 * stride - 1 taps")
            for i in range(4 * s - 1):
                x = Fraction(i - r, s)
                want = fr_eval(table[(d, piece_of(x))], {"x": x})
                if not k.a[i].is_const() or abs(k.a[i].value() - want) > Fraction(1, 10 ** 12):
                    raise TraceError(f"cubic_bspline1d({s}, derivative={d})[{i}] is not cubic_bspline_value(({i} - {r}) / {s}, {d})")
    # 2-D / 3-D kernels (and the dispatcher cubic_bspline): outer products of the 1-D kernels, tensor order (.., y, x),
    # for per-axis and scalar strides
    with simple_float_literals(), int_tolist():
        k1 = {(s, d): ker.cubic_bspline1d(s, derivative=d) for s in (1, 2, 3) for d in (0, 1)}
        for d in (0, 1):
            for stride in ((2, 3), (3, 1), (1, 2, 3), (3, 2, 1), 2):
                ss = (stride, stride) if isinstance(stride, int) else stride
                forms = [("cubic_bspline", ker.cubic_bspline(stride if not isinstance(stride, int) else [stride, stride], derivative=d))]
                if not isinstance(stride, int):
                    forms.append(("cubic_bspline(*args)", ker.cubic_bspline(*stride, derivative=d)))
                if len(ss) == 2:
                    forms.append(("cubic_bspline2d", ker.cubic_bspline2d(stride, derivative=d)))
                    if not isinstance(stride, int):
                        forms.append(("cubic_bspline2d(*args)", ker.cubic_bspline2d(stride[0], stride[1], derivative=d)))
                else:
                    forms.append(("cubic_bspline3d", ker.cubic_bspline3d(stride, derivative=d)))
                if isinstance(stride, int):
                    forms.append(("cubic_bspline3d", ker.cubic_bspline3d(stride, derivative=d)))
                for nm, kk in forms:
                    dims = kk.a.ndim
                    sx = (stride,) * dims if isinstance(stride, int) else ss
                    if kk.shape != tuple(4 * s_ - 1 for s_ in reversed(sx)):
                        raise TraceError(f"{nm}(stride={stride}) has shape {kk.shape}")
                    for idx in np.ndindex(kk.a.shape):
                        want = Fraction(1)
                        for td in range(dims):
                            want *= k1[(sx[dims - 1 - td], d)].a[idx[td]].value()
                        if not kk.a[idx].is_const() or abs(kk.a[idx].value() - want) > Fraction(1, 10 ** 12):
                            raise TraceError(f"{nm}(stride={stride}, derivative={d})[{idx}] is not the outer product of the 1-D kernels")
    # the kernel of the transposed-convolution path samples it at (i - radius) / stride, radius = (4 s - 1) // 2
    for s in (1, 2, 3):
        with simple_float_literals():
            k = None
            try:
                k = ker.cubic_bspline1d(s)
            except TraceError:
                k = None
        # cubic_bspline1d assigns Python floats into a tensor; it runs concretely (no symbols involved)
        if k is None or k.shape != (4 * s - 1,):
            raise TraceError("cubic_bspline1d(stride) does not have 4 * stride - 1 taps")
        r = (4 * s - 1) // 2
        for i in range(4 * s - 1):
            x = Fraction(i - r, s)
            pn = piece_of(x)
            want = fr_eval(table[(0, pn)], {"x": x})
            got = k.a[i]
            if not got.is_const() or abs(got.value() - want) > Fraction(1, 10 ** 12):
                raise TraceError(f"cubic_bspline1d({s})[{i}] is not cubic_bspline_value(({i} - {r}) / {s})")
    return out, table


def piece_of(x):
    for name, lo, hi, lc, hc in PIECES:
        if (x > lo or (lc and x == lo)) and (x < hi or (hc and x == hi)):
            return name
    raise TraceError("pieces do not cover the real line")


# ------------------------------------------------------------------------------------------------
# 3. subdivision stencils
# ------------------------------------------------------------------------------------------------
def lin_coeffs(e, names):
    base = fr_eval(e, {n: 0 for n in names})
    if base != 0:
        raise TraceError("subdivision output has a constant term")
    cs = []
    for n in names:
        env = {m: 0 for m in names}
        env[n] = 1
        cs.append(fr_eval(e, env))
    # linearity (the trace only contains + and * by literals, but check on a generic point)
    env = {m: Fraction(3 + 2 * i, 7) for i, m in enumerate(names)}
    if fr_eval(e, env) != sum(c * env[m] for c, m in zip(cs, names)):
        raise TraceError("subdivision output is not linear in the coefficients")
    return cs


def subdivision_section(bs):
    out = []
    even = odd = None
    for n in range(2, 7):
        names = [f"c{i}" for i in range(n)]
        data = st.Tensor(np.array([E.var(v) for v in names], dtype=object).reshape(1, 1, 1, n))
        r = bs.subdivide_cubic_bspline(data, dims=[0])
        if r.shape != (1, 1, 1, 2 * n - 1):
            raise TraceError(f"subdivided size {r.shape} for {n} coefficients")
        st._check_init(r.a)
        rows = [lin_coeffs(r.a[0, 0, 0, j], names) for j in range(2 * n - 1)]
        if n == 5:
            even = ren(r.a[0, 0, 0, 4], {"c1": "a", "c2": "b", "c3": "c"})
            odd = ren(r.a[0, 0, 0, 5], {"c2": "a", "c3": "b"})
            if set(even.free_vars()) - {"a", "b", "c"} or set(odd.free_vars()) - {"a", "b"}:
                raise TraceError("interior subdivision stencil reaches beyond its neighbours")
            m_even = lin_coeffs(even, ["a", "b", "c"])
            m_odd = lin_coeffs(odd, ["a", "b"])
    if even is None:
        raise TraceError("no stencil")
    for n in range(2, 7):
        names = [f"c{i}" for i in range(n)]
        data = st.Tensor(np.array([E.var(v) for v in names], dtype=object).reshape(1, 1, 1, n))
        r = bs.subdivide_cubic_bspline(data, dims=[0])
        for j in range(2 * n - 1):
            want = [Fraction(0)] * n
            i = j // 2
            if j % 2 == 0:
                for k, m in zip((i - 1, i, i + 1), m_even):
                    if 0 <= k < n:
                        want[k] += m
            else:
                for k, m in zip((i, i + 1), m_odd):
                    if 0 <= k < n:
                        want[k] += m
            if lin_coeffs(r.a[0, 0, 0, j], names) != want:
                raise TraceError(f"subdivision of {n} coefficients, output {j}: not the stencil with zeros outside")
    # 1-D coefficient tensors (N, C, X) go through the same stencils
    for n in range(2, 6):
        names = [f"c{i}" for i in range(n)]
        d1 = st.Tensor(np.array([E.var(v) for v in names], dtype=object).reshape(1, 1, n))
        d2 = st.Tensor(np.array([E.var(v) for v in names], dtype=object).reshape(1, 1, 1, n))
        r1 = bs.subdivide_cubic_bspline(d1)
        r2 = bs.subdivide_cubic_bspline(d2, dims=[0])
        if r1.shape != (1, 1, 2 * n - 1):
            raise TraceError(f"1-D subdivision of {n} coefficients has shape {r1.shape}")
        for j in range(2 * n - 1):
            if lin_coeffs(r1.a[0, 0, j], names) != lin_coeffs(r2.a[0, 0, 0, j], names):
                raise TraceError("subdivision of a (N, C, X) tensor differs from subdivision along x of a (N, C, 1, X) tensor")
    # 2-D: per-axis composition, default dims = all spatial dims, order of dims irrelevant
    names = [[f"c{i}{j}" for j in range(3)] for i in range(2)]
    data = st.Tensor(np.array([[E.var(v) for v in row] for row in names], dtype=object).reshape(1, 1, 2, 3))
    both = bs.subdivide_cubic_bspline(data)
    seq = bs.subdivide_cubic_bspline(bs.subdivide_cubic_bspline(data, dims=[0]), dims=[1])
    seq2 = bs.subdivide_cubic_bspline(bs.subdivide_cubic_bspline(data, dims=["y"]), dims=["x"])
    flat = [v for row in names for v in row]
    if both.shape != (1, 1, 3, 5) or seq.shape != both.shape or seq2.shape != both.shape:
        raise TraceError("2-D subdivision shape")
    for idx in np.ndindex(both.a.shape):
        a, b, c = (lin_coeffs(t.a[idx], flat) for t in (both, seq, seq2))
        if a != b or a != c:
            raise TraceError("2-D subdivision is not the composition of the per-axis subdivisions")
    # axis: dims=[1] acts on the second-to-last tensor axis with the same stencil
    ry = bs.subdivide_cubic_bspline(data, dims=[1])
    col = st.Tensor(np.array([E.var(names[i][0]) for i in range(2)], dtype=object).reshape(1, 1, 1, 2))
    rx = bs.subdivide_cubic_bspline(col, dims=[0])
    for j in range(3):
        if lin_coeffs(ry.a[0, 0, j, 0], flat) != lin_coeffs(rx.a[0, 0, 0, j], flat):
            raise TraceError("subdivision along y differs from subdivision along x")
    out.append("(* subdivide_cubic_bspline: new coefficient at an old control point from (left, centre, right) *)\n"
               f"Definition gen_sub_even (a b c : K) : K :=\n  {st.to_coq(even)}.\n")
    out.append("(* subdivide_cubic_bspline: new coefficient between two old control points *)\n"
               f"Definition gen_sub_odd (a b : K) : K :=\n  {st.to_coq(odd)}.\n")
    return out


# ------------------------------------------------------------------------------------------------
# 4. control point grid size (integers)
# ------------------------------------------------------------------------------------------------
class ZE:
    """integer expression (Coq Z term as text); variables are known positive"""

    def __init__(self, txt, positive=False, const=None):
        self.txt, self.positive, self.const = txt, positive, const

    @staticmethod
    def lift(x):
        if isinstance(x, ZE):
            return x
        if isinstance(x, bool) or not isinstance(x, int):
            raise TraceError(f"non-integer {x!r} in integer formula")
        return ZE(f"({x})" if x < 0 else str(x), positive=x > 0, const=x)

    def bin(self, o, op, pos=False):
        o = ZE.lift(o)
        return ZE(f"({self.txt} {op} {o.txt})", positive=pos and self.positive and o.positive)


class ZCond:
    def __init__(self, txt):
        self.txt = txt


class ZT:
    """1-D integer tensor of ZE (or a 0-d one)"""

    def __init__(self, items, scalar=False):
        self.items, self.scalar = list(items), scalar

    @property
    def ndim(self):
        return 0 if self.scalar else 1

    @property
    def shape(self):
        return () if self.scalar else (len(self.items),)

    def le(self, k):
        if k != 0:
            raise TraceError("integer guard other than <= 0")
        if all(i.positive for i in self.items):
            return BT([False] * len(self.items))
        raise TraceError("guard on an integer of unknown sign")

    def expand(self, n):
        if len(self.items) == n:
            return self
        if len(self.items) == 1:
            return ZT(self.items * n)
        raise RuntimeError("expand")

    def div(self, o, rounding_mode=None):
        if rounding_mode != "floor":
            raise TraceError("integer division that is not floor division")
        return ZT([a.bin(b, "/") for a, b in zip(self.items, o.items)])

    def add(self, k):
        return ZT([a.bin(k, "+", pos=True) for a in self.items])

    def add_(self, k):
        self.items = self.add(k).items
        return self

    def __mod__(self, o):
        return ZT([a.bin(b, "mod") for a, b in zip(self.items, o.items)])

    def __eq__(self, k):
        return CT([ZCond(f"({a.txt} =? {ZE.lift(k).txt})") for a in self.items])

    __hash__ = None

    def where(self, cond, other):
        if not isinstance(cond, CT) or len(cond.items) != len(self.items):
            raise TraceError("where() with an unexpected condition")
        return ZT([ZE(f"(if {c.txt} then {a.txt} else {b.txt})") for c, a, b in zip(cond.items, self.items, other.items)])

    def __getitem__(self, i):
        return ZT([self.items[i]], scalar=True)

    def item(self):
        return self.items[0]

    def tolist(self):
        return list(self.items)


class BT:
    def __init__(self, v):
        self.v = v

    def any(self):
        return any(self.v)


class CT:
    def __init__(self, items):
        self.items = items


class IntTorch:
    int = "int"

    @staticmethod
    def device(*a):
        return "cpu"

    @staticmethod
    def tensor(x, dtype=None, device=None):
        if dtype != "int":
            raise TraceError("integer formula built with a non-integer dtype")
        if isinstance(x, (list, tuple)):
            return ZT([ZE.lift(v) for v in x])
        return ZT([ZE.lift(x)], scalar=True)

    @staticmethod
    def atleast_1d(t):
        return ZT(t.items) if t.scalar else t


def ctrl_size_section(bs):
    with patched(bs, "torch", IntTorch):
        m, s = ZE("m", positive=True), ZE("s", positive=True)
        r = bs.cubic_bspline_control_point_grid_size(m, s)
        if not isinstance(r, tuple) or len(r) != 1:
            raise TraceError("control grid size of scalar arguments")
        txt = r[0].txt
        # sequences act per axis; scalars broadcast
        m0, m1, s0, s1 = (ZE(n, positive=True) for n in ("m0", "m1", "s0", "s1"))
        for size, stride, want in (((m0, m1), (s0, s1), [("m0", "s0"), ("m1", "s1")]),
                                   ((m0, m1), s0, [("m0", "s0"), ("m1", "s0")]),
                                   (m0, (s0, s1), [("m0", "s0"), ("m0", "s1")])):
            rr = bs.cubic_bspline_control_point_grid_size(size, stride)
            if len(rr) != len(want):
                raise TraceError("control grid size: result length")
            for got, (a, b) in zip(rr, want):
                w = re.sub(r"\bs\b", b, re.sub(r"\bm\b", a, txt))
                if got.txt != w:
                    raise TraceError(f"control grid size is not per axis: {got.txt} vs {w}")
        # plain ints give an int
        r1 = bs.cubic_bspline_control_point_grid_size(10, 3)
        if not isinstance(r1, ZE):
            raise TraceError("control grid size of two ints is not a scalar")
    return [f"(* cubic_bspline_control_point_grid_size(size=m, stride=s), m, s > 0 *)\n"
            f"Definition gen_ctrl_size (m s : Z) : Z :=\n  {txt}%Z.\n"]


# ------------------------------------------------------------------------------------------------
# 4b. control point grid placement: origin and spacing handed to Grid(...)
# ------------------------------------------------------------------------------------------------
def ctrl_grid_section(bs):
    """cubic_bspline_control_point_grid(grid, stride) on an axis-aligned stand-in grid with symbolic origin o and
    spacing h per axis (index_to_world(x) = o + h x); the Grid constructor is replaced by a recorder"""
    out = []
    for D in (1, 2, 3):
        o, h = st.symvec("o", D), st.symvec("h", D)
        sv = [E.var(f"s{i}", integer=True, positive=True) for i in range(D)]
        marks = {"size": object(), "direction": object(), "device": "cpu"}
        calls = []

        class StubGrid:
            ndim = D
            device = "cpu"

            def size(self):
                return marks["size"]

            def spacing(self):
                return h

            def direction(self):
                return marks["direction"]

            def index_to_world(self, x):
                if not isinstance(x, st.Tensor) or x.shape != (D,):
                    raise TraceError("index_to_world called with an unexpected argument")
                return o + h * x

        class Recorder:
            def __init__(self, **kw):
                calls.append(kw)

        def size_stub(size, stride):
            if size is not marks["size"]:
                raise TraceError("control grid size is not computed from grid.size()")
            return ("SIZE", stride)

        with patched(bs, "Grid", Recorder), patched(bs, "cubic_bspline_control_point_grid_size", size_stub):
            stride = sv[0] if D == 1 else tuple(sv)
            bs.cubic_bspline_control_point_grid(StubGrid(), stride)
        if len(calls) != 1:
            raise TraceError("cubic_bspline_control_point_grid does not build exactly one Grid")
        kw = calls[0]
        if kw.get("size") != ("SIZE", stride) or kw.get("direction") is not marks["direction"] or kw.get("align_corners") is not True:
            raise TraceError("control grid size / direction / align_corners are not those of the image grid")
        org, spc = kw.get("origin"), kw.get("spacing")
        if not isinstance(org, st.Tensor) or not isinstance(spc, st.Tensor) or org.shape != (D,) or spc.shape != (D,):
            raise TraceError("control grid origin / spacing shapes")
        for i in range(D):
            ren_ = {f"o{i}": "o", f"h{i}": "h", f"s{i}": "s"}
            eo, es = ren(org.a[i], ren_), ren(spc.a[i], ren_)
            if set(eo.free_vars()) - {"o", "h", "s"} or set(es.free_vars()) - {"h", "s"}:
                raise TraceError("control grid origin / spacing along one axis depends on another axis")
            if D == 1:
                out.append("(* cubic_bspline_control_point_grid: origin and spacing along one axis of a grid with origin o, spacing h *)\n"
                           f"Definition gen_ctrl_origin (o h s : K) : K :=\n  {st.to_coq(eo)}.\n")
                out.append(f"Definition gen_ctrl_spacing (h s : K) : K :=\n  {st.to_coq(es)}.\n")
                first = (eo, es)
            elif not (eo.same(first[0]) and es.same(first[1])):
                raise TraceError(f"control grid placement for D = {D}, axis {i} differs from the 1-D form")
    return out


# ------------------------------------------------------------------------------------------------
# 5. evaluate_cubic_bspline(transpose=False): index glue, checked against the tensor-product closed form
# ------------------------------------------------------------------------------------------------
def check_evaluate(bs):
    cases = [((4,), (1,)), ((5,), (2,)), ((6,), (3,)), ((4, 5), (2, 1)), ((5, 4), (1, 3)), ((4, 4, 5), (2, 1, 2))]
    for shape, strides in cases:  # shape in tensor order (..., X); strides in (sx, ...) order
        D = len(shape)
        N, C = 2, 2
        data = np.empty((N, C) + shape, dtype=object)
        for idx in np.ndindex(data.shape):
            data[idx] = E.var("c_" + "_".join(map(str, idx)))
        kernels = []
        for ax, s in enumerate(strides):  # ax = spatial dim (0 = x)
            kernels.append(st.Tensor(np.array([[E.var(f"w{ax}_{o}_{k}") for k in range(4)] for o in range(s)], dtype=object)))
        full = tuple((n - 3) * s for n, s in zip(shape, reversed(strides)))
        for crop in (None, tuple(max(1, f - 1 - (i % 2)) for i, f in enumerate(full))):
            kw = {} if crop is None else {"shape": crop}
            r = bs.evaluate_cubic_bspline(st.Tensor(data), kernel=kernels, **kw)
            want_shape = (N, C) + (full if crop is None else crop)
            if r.shape != want_shape:
                raise TraceError(f"evaluate_cubic_bspline output shape {r.shape}, expected {want_shape}")
            env = {}
            rng = np.random.RandomState(7)
            for e in data.reshape(-1):
                env[e.args[0]] = Fraction(int(rng.randint(-9, 10)), 4)
            for kt in kernels:
                for e in kt.a.reshape(-1):
                    env[e.args[0]] = Fraction(int(rng.randint(-9, 10)), 3)
            for idx in np.ndindex(r.a.shape):
                n, c = idx[:2]
                pos = idx[2:]  # tensor order
                want = Fraction(0)
                qs, os_ = [], []
                for tdim in range(D):
                    s = strides[D - 1 - tdim]
                    qs.append(pos[tdim] // s)
                    os_.append(pos[tdim] % s)
                for ks in itertools.product(range(4), repeat=D):
                    term = env["c_" + "_".join(map(str, (n, c) + tuple(q + k for q, k in zip(qs, ks))))]
                    for tdim in range(D):
                        term *= env[f"w{D - 1 - tdim}_{os_[tdim]}_{ks[tdim]}"]
                    want += term
                if fr_eval(r.a[idx], env) != want:
                    raise TraceError(f"evaluate_cubic_bspline sample {idx} (shape {shape}, strides {strides}) is not the "
                                     "tensor-product closed form")
    # stride / derivative arguments select the kernels of cubic_bspline_interpolation_weights in (x, y, ..) order
    def arange_for(*args, dtype=None, device=None):
        s = round(1 / args[2])
        return st.Tensor(st._lift_array([Fraction(o, s) for o in range(s)]))

    with patched(bs, "torch", TorchProxy(st, arange=arange_for)), simple_float_literals():
        data = np.empty((1, 1, 4, 5), dtype=object)
        for idx in np.ndindex(data.shape):
            data[idx] = E.var("c_" + "_".join(map(str, idx)))
        a = bs.evaluate_cubic_bspline(st.Tensor(data), stride=(2, 3), derivative=(1, 0))
        kx = bs.cubic_bspline_interpolation_weights(2, derivative=1)
        ky = bs.cubic_bspline_interpolation_weights(3, derivative=0)
        b = bs.evaluate_cubic_bspline(st.Tensor(data), kernel=(kx, ky))
        if a.shape != b.shape or a.shape != (1, 1, 3, 4):
            raise TraceError("evaluate_cubic_bspline(stride, derivative) output shape")
        env = {e.args[0]: Fraction(3 * i % 11 - 5, 2) for i, e in enumerate(data.reshape(-1))}
        for idx in np.ndindex(a.a.shape):
            if fr_eval(a.a[idx], env) != fr_eval(b.a[idx], env):
                raise TraceError("stride / derivative sequences are not in (x, y) order")


class int_tolist:
    """Tensor.tolist() of an integer tensor gives Python ints (as torch does); needed by core/nnutils.same_padding"""

    def __enter__(self):
        self.orig = st.Tensor.tolist
        orig = self.orig

        def tolist(t):
            r = orig(t)
            if t.dtype.is_floating_point:
                return r

            def conv(x):
                if isinstance(x, list):
                    return [conv(v) for v in x]
                if isinstance(x, E) and x.is_const() and x.value().denominator == 1:
                    return int(x.value())
                return x
            return conv(r)

        self.orig_item = st.Tensor.item
        orig_item = self.orig_item

        def item(t):
            v = orig_item(t)
            if not t.dtype.is_floating_point and isinstance(v, E) and v.is_const() and v.value().denominator == 1:
                return int(v.value())
            return v

        st.Tensor.tolist = tolist
        st.Tensor.item = item
        return self

    def __exit__(self, *a):
        st.Tensor.tolist = self.orig
        st.Tensor.item = self.orig_item
        return False


def check_evaluate_transposed(bs, btable):
    """evaluate_cubic_bspline(transpose=True) through core.image.conv / conv1d / F.conv_transpose1d with symbolic kernels:
    every cropped output sample must be  sum_j c[j] prod_axes ker_axis[pos + s + p - j s]  (p = same_padding = 2 s - 1)"""
    cases = [((4,), (1,), (1,)), ((5,), (2,), (3,)), ((4, 5), (2, 1), (3, 2)), ((5, 4), (1, 3), (2, 4)), ((4, 4, 5), (2, 1, 3), (4, 1, 2))]
    with int_tolist():
        for shape, strides, crop_x in cases:  # shape tensor order; strides and crop size in (x, y, ..) order
            D = len(shape)
            data = np.empty((1, 2) + shape, dtype=object)
            for idx in np.ndindex(data.shape):
                data[idx] = E.var("c_" + "_".join(map(str, idx)))
            kernels = [st.Tensor(np.array([E.var(f"k{ax}_{i}") for i in range(4 * s - 1)], dtype=object)) for ax, s in enumerate(strides)]
            rng = np.random.RandomState(3)
            env = {e.args[0]: Fraction(int(rng.randint(-9, 10)), 4) for e in data.reshape(-1)}
            for kt in kernels:
                for e in kt.a:
                    env[e.args[0]] = Fraction(int(rng.randint(-9, 10)), 3)
            crop_t = tuple(reversed(crop_x))
            for kw in ({"shape": crop_t}, {"size": crop_x}):
                r = bs.evaluate_cubic_bspline(st.Tensor(data), stride=strides if D > 1 else strides[0], kernel=kernels, transpose=True, **kw)
                if r.shape != (1, 2) + crop_t:
                    raise TraceError(f"evaluate_cubic_bspline(transpose=True) output shape {r.shape}, expected {(1, 2) + crop_t}")
                for idx in np.ndindex(r.a.shape):
                    c_, pos = idx[1], idx[2:]
                    want = Fraction(0)
                    for js in itertools.product(*[range(n) for n in shape]):
                        term = env["c_" + "_".join(map(str, (0, c_) + js))]
                        for td in range(D):
                            ax = D - 1 - td
                            s_ = strides[ax]
                            ki = pos[td] + s_ + (2 * s_ - 1) - js[td] * s_
                            if not 0 <= ki < 4 * s_ - 1:
                                term = 0
                                break
                            term *= env[f"k{ax}_{ki}"]
                        want += term
                    if fr_eval(r.a[idx], env) != want:
                        raise TraceError(f"evaluate_cubic_bspline(transpose=True) sample {idx} (coefficients {shape}, strides {strides}, "
                                         f"crop {crop_x}) is not the transposed-convolution closed form")
        # kernel=None: the kernels are cubic_bspline1d(stride) in (x, y) order
        data = np.empty((1, 1, 4, 5), dtype=object)
        for idx in np.ndindex(data.shape):
            data[idx] = E.var("c_" + "_".join(map(str, idx)))
        with simple_float_literals():
            a = bs.evaluate_cubic_bspline(st.Tensor(data), stride=(2, 1), transpose=True, size=(3, 1))
            from_k = bs.evaluate_cubic_bspline(st.Tensor(data), stride=(2, 1), transpose=True, size=(3, 1),
                                               kernel=[bs.cubic_bspline1d(2), bs.cubic_bspline1d(1)])
        env = {e.args[0]: Fraction(3 * i % 11 - 5, 2) for i, e in enumerate(data.reshape(-1))}
        if a.shape != from_k.shape or any(abs(fr_eval(x, env) - fr_eval(y, env)) > Fraction(1, 10 ** 9)
                                           for x, y in zip(a.a.reshape(-1), from_k.a.reshape(-1))):
            raise TraceError("evaluate_cubic_bspline(transpose=True, kernel=None) does not use cubic_bspline1d(stride) per axis in (x, y) order")


def check_bspline_mode(loader, bs):
    """core.image.spatial_derivatives(mode='bspline') on symbolic coefficients and symbolic per-axis / per-batch spacing: for every
    key (orders up to 3 per axis, mixed keys of total order >= 3 included) the result times  prod_a spacing[a]^order[a]  must be
    evaluate_cubic_bspline(data, stride, derivative=order)"""
    img = loader.load("deepali.core.image")

    def arange_for(*args, dtype=None, device=None):
        s_ = round(1 / args[2])
        if args[0] != 0 or args[1] != 1 or args[2] != 1 / s_:
            raise TraceError(f"offset vector is not arange(0, 1, 1/stride): {args}")
        return st.Tensor(st._lift_array([Fraction(o, s_) for o in range(s_)]))

    with patched(bs, "torch", TorchProxy(st, arange=arange_for)), simple_float_literals():
        for shape, stride, keys in (((4, 5), (2, 1), ["x", "xy", "xyy", "xxy", "yyy", "yx"]), ((4, 4, 4), (1, 2, 1), ["z", "xzz", "xyz", "yyz"])):
            D = len(shape)
            for N, form in ((1, "axis"), (2, "batch")):
                data = np.empty((N, 1) + shape, dtype=object)
                for idx in np.ndindex(data.shape):
                    data[idx] = E.var("c_" + "_".join(map(str, idx)))
                hs = np.empty((N, D), dtype=object)
                for b_ in range(N):
                    for a_ in range(D):
                        hs[b_, a_] = E.var(f"h{b_}_{a_}")
                spacing = st.Tensor(hs[0]) if form == "axis" else st.Tensor(hs)
                r = img.spatial_derivatives(st.Tensor(data), which=keys, mode="bspline", spacing=spacing, stride=stride)
                if list(r.keys()) != keys:
                    raise TraceError(f"spatial_derivatives(mode='bspline') keys {list(r.keys())}, requested {keys}")
                rng = np.random.RandomState(5)
                env = {e.args[0]: Fraction(int(rng.randint(-9, 10)), 4) for e in data.reshape(-1)}
                for b_ in range(N):
                    for a_ in range(D):
                        env[f"h{b_}_{a_}"] = Fraction([2, 3, 5, 7, 11, 13][b_ * 3 + a_], [3, 2, 4][a_])
                for key in keys:
                    order = [key.count("xyz"[a_]) for a_ in range(D)]
                    ref = bs.evaluate_cubic_bspline(st.Tensor(data), stride=stride, derivative=order)
                    if ref.shape != r[key].shape:
                        raise TraceError(f"spatial_derivatives(mode='bspline')[{key}] has shape {r[key].shape}")
                    for idx in np.ndindex(ref.a.shape):
                        b_ = idx[0]
                        den = Fraction(1)
                        for a_ in range(D):
                            den *= env[f"h{b_ if form == 'batch' else 0}_{a_}"] ** order[a_]
                        if fr_eval(r[key].a[idx], env) * den != fr_eval(ref.a[idx], env):
                            raise TraceError(f"spatial_derivatives(mode='bspline', spacing form {form})[{key}] is not the order-{order} spline "
                                             "derivative divided by prod spacing[a]^order[a]")


def check_ffd_glue(loader):
    """spatial/bspline.py BSplineTransform: the methods that connect the transform to core/bspline.py are executed (function
    bodies taken from the source text, decorators dropped) on recording stand-ins:
      data_stride = stride reversed (tensor order); data_shape = (D,) + control grid size of (grid.shape, data_stride);
      evaluate_spline passes shape=grid.shape, stride=self.stride (x first), the kernels of self.stride and the transpose flag;
      grid_ subdivides exactly the axes whose size goes n -> 2 n - 1, then drops the FIRST coefficient and keeps data_shape many"""
    import ast
    import os
    import typing
    path = os.path.join(loader.root, "deepali", "spatial", "bspline.py")
    tree = ast.parse(open(path).read())
    cls = [n for n in tree.body if isinstance(n, ast.ClassDef) and n.name == "BSplineTransform"]
    if len(cls) != 1:
        raise TraceError("class BSplineTransform not found in spatial/bspline.py")
    fns = {n.name: n for n in cls[0].body if isinstance(n, ast.FunctionDef)}
    enum_mod = loader.load("deepali.core.enum")
    calls = []

    class StubTensor:
        def __init__(self, shape, tag="params", ops=()):
            self.shape, self.tag, self.ops = tuple(shape), tag, tuple(ops)
            self.ndim = len(self.shape)

        def narrow(self, dim, start, length):
            shp = list(self.shape)
            if start + length > shp[dim]:
                raise TraceError("narrow beyond the subdivided size")
            shp[dim] = length
            return StubTensor(shp, self.tag, self.ops + (("narrow", dim, start, length),))

        def contiguous(self):
            return self

    class UStub:
        @staticmethod
        def cubic_bspline_control_point_grid_size(size, stride):
            calls.append(("size", tuple(size), tuple(stride)))
            return tuple(m // s_ + 3 + (0 if m % s_ == 0 else 1) for m, s_ in zip(size, stride))

        @staticmethod
        def evaluate_cubic_bspline(data, **kw):
            calls.append(("eval", data, kw))
            return "U"

        @staticmethod
        def subdivide_cubic_bspline(params, dims=None):
            calls.append(("subdivide", params, tuple(int(d) for d in dims)))
            shp = list(params.shape)
            for d in dims:
                td = enum_mod.SpatialDim(d).tensor_dim(params.ndim)
                shp[td] = 2 * shp[td] - 1
            return StubTensor(shp, "subdivided")

    class SizeStub(tuple):
        pass

    ns = {"U": UStub, "Size": SizeStub, "Tuple": typing.Tuple, "List": typing.List, "Optional": typing.Optional, "Union": typing.Union,
          "Tensor": StubTensor, "SpatialDim": enum_mod.SpatialDim, "Grid": object, "TBSplineTransform": typing.TypeVar("T"),
          "ScalarOrTuple": typing.Union, "type": type}
    compiled = {}
    for name in ("data_stride", "data_shape", "evaluate_spline", "grid_"):
        if name not in fns:
            raise TraceError(f"BSplineTransform.{name} not found")
        node = fns[name]
        node.decorator_list = []
        node.returns = None
        for a_ in node.args.args:
            a_.annotation = None
        mod = ast.Module(body=[node], type_ignores=[])
        ast.fix_missing_locations(mod)
        exec(compile(mod, path, "exec"), ns)
        compiled[name] = ns[name]

    class GridStub:
        def __init__(self, size_x):
            self._size = tuple(size_x)
            self.ndim = len(size_x)
            self.shape = tuple(reversed(size_x))

        def size(self):
            return self._size

        def align_corners(self):
            return True

        def same_domain_as(self, other):
            return True

    class FFD:
        data_stride = property(compiled["data_stride"])
        data_shape = property(compiled["data_shape"])
        evaluate_spline = compiled["evaluate_spline"]
        grid_ = compiled["grid_"]

        def __init__(self, size_x, stride, transpose=False):
            self._grid = GridStub(size_x)
            self.stride = tuple(stride)
            self._transpose = transpose
            self.params = None
            self.set = None

        def grid(self):
            return self._grid

        def data(self):
            return "DATA"

        def kernel(self, stride):
            return ("KERNEL", tuple(stride))

        def data_(self, t):
            self.set = t
            return self

        def clear_buffers(self):
            return self

    def ctrl(m, s_):
        return m // s_ + 3 + (0 if m % s_ == 0 else 1)

    for size_x, stride in (((11, 7, 5), (2, 3, 4)), ((9, 6), (5, 2)), ((8, 8, 8), (1, 2, 3))):
        D = len(size_x)
        f = FFD(size_x, stride)
        if tuple(f.data_stride) != tuple(reversed(stride)):
            raise TraceError(f"BSplineTransform.data_stride {tuple(f.data_stride)} is not the stride in tensor order {tuple(reversed(stride))}")
        want = (D,) + tuple(ctrl(m, s_) for m, s_ in zip(reversed(size_x), reversed(stride)))
        if tuple(f.data_shape) != want:
            raise TraceError(f"BSplineTransform.data_shape {tuple(f.data_shape)} is not {want}")
        for tr in (False, True):
            calls.clear()
            f._transpose = tr
            f.evaluate_spline()
            ev = [c for c in calls if c[0] == "eval"]
            if len(ev) != 1 or ev[0][1] != "DATA":
                raise TraceError("evaluate_spline does not evaluate the transform's data once")
            kw = ev[0][2]
            if tuple(kw.get("shape", ())) != f._grid.shape or tuple(kw.get("stride", ())) != tuple(stride) or \
                    kw.get("kernel") != ("KERNEL", tuple(stride)) or kw.get("transpose") is not tr or "size" in kw or kw.get("derivative"):
                raise TraceError(f"evaluate_spline passes {kw}")
        # grid_: refine a subset of the axes
        for which in itertools.product((False, True), repeat=D):
            if not any(which):
                continue
            f = FFD(size_x, stride)
            old_shape = (1,) + tuple(f.data_shape)
            f.params = StubTensor(old_shape)
            new_size = tuple(2 * m - 1 if w else m for m, w in zip(size_x, which))
            calls.clear()
            try:
                f.grid_(GridStub(new_size))
            except TypeError as exc:
                raise TraceError(f"grid_ could not be executed on stand-ins: {exc}")
            sub = [c for c in calls if c[0] == "subdivide"]
            if len(sub) != 1 or sub[0][1] is not f.params or sorted(sub[0][2]) != [d for d in range(D) if which[d]]:
                raise TraceError(f"grid_({new_size}) subdivides dims {sub[0][2] if sub else None}")
            t = f.set
            if t is None or t.tag != "subdivided":
                raise TraceError("grid_ does not store the subdivided coefficients")
            want_shape = (1, D) + tuple(ctrl(m, s_) for m, s_ in zip(reversed(new_size), reversed(stride)))
            if t.shape != want_shape:
                raise TraceError(f"grid_({new_size}) stores coefficients of shape {t.shape}, expected {want_shape}")
            for op in t.ops:
                if op[0] != "narrow" or op[2] != 1:
                    raise TraceError(f"grid_ keeps coefficients starting at index {op[2]} of the subdivided grid (the first one must be dropped)")
            if sorted(op[1] for op in t.ops) != sorted(enum_mod.SpatialDim(d).tensor_dim(len(old_shape)) for d in range(D) if which[d]):
                raise TraceError("grid_ crops other axes than the subdivided ones")


def generate(loader):
    bs = loader.load("deepali.core.bspline")
    ker = loader.load("deepali.core.kernels")
    out = ["From DV Require Import Model.BSplineBase.", "Section Gen.", "Context {K : fld}.", ""]
    with simple_float_literals():
        w, _ = weights_section(bs)
        check_weight_call_forms(bs)
        b, _ = bvalue_section(ker)
        s = subdivision_section(bs)
    out += w + b + s
    out += ctrl_grid_section(bs)
    out.append("End Gen.\n")
    out += ctrl_size_section(bs)
    check_evaluate(bs)
    check_evaluate_transposed(bs, None)
    check_bspline_mode(loader, bs)
    check_ffd_glue(loader)
    return "\n".join(out)
