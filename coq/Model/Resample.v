(* Resampling an image on another oriented grid (C05): deepali's pipeline and the independent
   reference (ITK's ResampleImageFilter with the identity transform).  Definitions only.

   deepali (data/image.py ImageBatch.sample, core/image.py grid_sample):
       target sample J --Grid.coords(align_corners=ac)--> normalised target coordinates
       --grid_transform_points(target, axes(ac), source, axes(ac))--> normalised source coordinates
       --F.grid_sample(align_corners=ac): un-normalise (Sampler.unnorm), interpolate, pad-->  value
   with ac the align_corners flag of the SOURCE image; constant padding c is emulated by
   (data - c) --zeros padding--> + c (the pre/post maps are generated from the code: Gen/SampleT.v).
   modules/sample.py (SampleImage/AlignImage/TransformImage): target points w.r.t. any axes A are
   mapped by the precomputed matrix (generated: gen_smat) to the source cube of flavour
   ac = TARGET.align_corners(), then the same kernel.

   ITK (itk::ResampleImageFilter, identity transform): output pixel J has physical point
   itk_phys(target header, J); continuous source index itk_index(source header, .); if it is inside
   the buffer [-1/2, n-1/2)^D the interpolator is evaluated (linear: neighbours clamped to the
   image = border; nearest: floor(x+1/2)), otherwise the default pixel value is returned.
   This spec is validated against SimpleITK by the correspondence check of C05. *)
From Coq Require Import ZArith List Bool.
From DV Require Import Base.Field Base.LinAlg Model.Enums Model.Homog Model.Grid Model.ItkSpec Model.Sampler
  Gen.GridT Gen.SampleT.
Import ListNotations.
Local Open Scope fld_scope.

Section Resample.
Context {K : fld}.
Variable floorK : K -> Z.
Variable nearK : K -> Z.

Notation vec := (list K).
Notation mat := (list (list K)).

Definition cube_axes (ac : bool) : axes := if ac then CUBE_CORNERS else CUBE.

Fixpoint vunnorm (ac : bool) (nz : list Z) (x : vec) : vec :=
  match nz, x with
  | n :: nz', a :: x' => unnorm ac n a :: vunnorm ac nz' x'
  | _, _ => []
  end.
Definition zvec (nz : list Z) : vec := map of_Z nz.

(* ---- deepali: data level (ImageBatch.sample / Image.sample with a Grid) ---- *)
(* normalised coordinates of target sample J (any continuous index) *)
Definition dp_coords (D : nat) (ac : bool) (tn ts tc : vec) (td : mat) (J : vec) : vec :=
  gen_pts D GRID (cube_axes ac) tn ts tc td J.
(* ... mapped into the source cube *)
Definition dp_src_coords (D : nat) (ac : bool) (tn ts tc : vec) (td : mat) (sn ss sc : vec) (sd : mat) (J : vec) : vec :=
  gen_pts2 D (cube_axes ac) (cube_axes ac) tn ts tc td sn ss sc sd (dp_coords D ac tn ts tc td J).
(* ... un-normalised by grid_sample: continuous source index *)
Definition dp_index (D : nat) (ac : bool) (tn ts tc : vec) (td : mat) (snz : list Z) (ss sc : vec) (sd : mat) (J : vec) : vec :=
  vunnorm ac snz (dp_src_coords D ac tn ts tc td (zvec snz) ss sc sd J).

(* ---- deepali: module level (SampleImage / AlignImage / TransformImage without transform) ---- *)
Definition dp_points (D : nat) (A : axes) (tn ts tc : vec) (td : mat) (J : vec) : vec :=
  match A with GRID => J | _ => gen_pts D GRID A tn ts tc td J end.
Definition mod_src_coords (D : nat) (A : axes) (ac : bool) (tn ts tc : vec) (td : mat) (sn ss sc : vec) (sd : mat) (J : vec) : vec :=
  happly D (gen_smat D A ac tn ts tc td sn ss sc sd) (dp_points D A tn ts tc td J).
Definition mod_index (D : nat) (A : axes) (ac : bool) (tn ts tc : vec) (td : mat) (snz : list Z) (ss sc : vec) (sd : mat) (J : vec) : vec :=
  vunnorm ac snz (mod_src_coords D A ac tn ts tc td (zvec snz) ss sc sd J).

(* ---- ITK reference ---- *)
Definition itk_cindex (D : nat) (tn ts tc : vec) (td : mat) (sn ss sc : vec) (sd : mat) (J : vec) : vec :=
  itk_index D (gen_origin D sn ss sc sd) ss sd (itk_phys (gen_origin D tn ts tc td) ts td J).
Definition inside_buffer (n : Z) (x : K) : bool := inb (floorK (x + half)) n.

Definition isizes2 (img : list (list K)) : list Z := [zlen (hd [] img); zlen img].
Definition isizes3 (img : list (list (list K))) : list Z := [zlen (hd [] (hd [] img)); zlen (hd [] img); zlen img].

Definition itk_linear2 (dflt : K) (img : list (list K)) (X : vec) : K :=
  match X with
  | [x; y] => if inside_buffer (zlen (hd [] img)) x && inside_buffer (zlen img) y
              then sample2 floorK PBorder img x y else dflt
  | _ => dflt
  end.
Definition itk_linear3 (dflt : K) (img : list (list (list K))) (X : vec) : K :=
  match X with
  | [x; y; z] => if inside_buffer (zlen (hd [] (hd [] img))) x && inside_buffer (zlen (hd [] img)) y && inside_buffer (zlen img) z
                 then sample3 floorK PBorder img x y z else dflt
  | _ => dflt
  end.
Definition itk_round (x : K) : Z := floorK (x + half).     (* itk::Math::RoundHalfIntegerUp *)
Definition itk_nearest2 (dflt : K) (img : list (list K)) (X : vec) : K :=
  match X with
  | [x; y] => if inside_buffer (zlen (hd [] img)) x && inside_buffer (zlen img) y
              then getp PBorder 0 (getp PBorder [] img (itk_round y)) (itk_round x) else dflt
  | _ => dflt
  end.
Definition itk_nearest3 (dflt : K) (img : list (list (list K))) (X : vec) : K :=
  match X with
  | [x; y; z] => if inside_buffer (zlen (hd [] (hd [] img))) x && inside_buffer (zlen (hd [] img)) y && inside_buffer (zlen img) z
                 then getp PBorder 0 (getp PBorder [] (getp PBorder [] img (itk_round z)) (itk_round y)) (itk_round x) else dflt
  | _ => dflt
  end.

(* ---- deepali kernels at normalised source coordinates (core/image.py grid_sample) ---- *)
Inductive padarg := PadMode (p : padmode) | PadConst (c : K).
Inductive smode := Linear | Nearest.

Definition vsample2 (pad : padmode) (img : list (list K)) (X : vec) : K :=
  match X with [x; y] => sample2 floorK pad img x y | _ => 0 end.
Definition vsample3 (pad : padmode) (img : list (list (list K))) (X : vec) : K :=
  match X with [x; y; z] => sample3 floorK pad img x y z | _ => 0 end.
Definition vnearest2 (pad : padmode) (img : list (list K)) (X : vec) : K :=
  match X with [x; y] => nearest2 nearK pad img x y | _ => 0 end.
Definition vnearest3 (pad : padmode) (img : list (list (list K))) (X : vec) : K :=
  match X with [x; y; z] => nearest3 nearK pad img x y z | _ => 0 end.
Definition kern2 (m : smode) := match m with Linear => vsample2 | Nearest => vnearest2 end.
Definition kern3 (m : smode) := match m with Linear => vsample3 | Nearest => vnearest3 end.

(* the kernel applied at a continuous index, with deepali's padding argument: mode, or constant c
   emulated by subtract (gen_gs_pre) / zeros padding / add (gen_gs_post) *)
Definition dp_kernel2 (m : smode) (p : padarg) (img : list (list K)) (X : vec) : K :=
  match p with
  | PadMode pad => kern2 m pad img X
  | PadConst c => gen_gs_post c (kern2 m PZeros (map (map (gen_gs_pre c)) img) X)
  end.
Definition dp_kernel3 (m : smode) (p : padarg) (img : list (list (list K))) (X : vec) : K :=
  match p with
  | PadMode pad => kern3 m pad img X
  | PadConst c => gen_gs_post c (kern3 m PZeros (map (map (map (gen_gs_pre c))) img) X)
  end.
(* core.image.grid_sample / sample_image at explicit normalised coordinates X (x, y[, z]) *)
Definition dp_grid_sample2 (m : smode) (p : padarg) (ac : bool) (img : list (list K)) (X : vec) : K :=
  dp_kernel2 m p img (vunnorm ac (isizes2 img) X).
Definition dp_grid_sample3 (m : smode) (p : padarg) (ac : bool) (img : list (list (list K))) (X : vec) : K :=
  dp_kernel3 m p img (vunnorm ac (isizes3 img) X).

(* Image.sample(grid): value at target sample J *)
Definition dp_sample2 (m : smode) (p : padarg) (ac : bool) (tn ts tc : vec) (td : mat) (ss sc : vec) (sd : mat)
           (img : list (list K)) (J : vec) : K :=
  dp_grid_sample2 m p ac img (dp_src_coords 2 ac tn ts tc td (zvec (isizes2 img)) ss sc sd J).
Definition dp_sample3 (m : smode) (p : padarg) (ac : bool) (tn ts tc : vec) (td : mat) (ss sc : vec) (sd : mat)
           (img : list (list (list K))) (J : vec) : K :=
  dp_grid_sample3 m p ac img (dp_src_coords 3 ac tn ts tc td (zvec (isizes3 img)) ss sc sd J).
(* SampleImage / AlignImage(None) / TransformImage(None): value at target sample J *)
Definition mod_sample2 (m : smode) (p : padarg) (A : axes) (ac : bool) (tn ts tc : vec) (td : mat) (ss sc : vec) (sd : mat)
           (img : list (list K)) (J : vec) : K :=
  dp_grid_sample2 m p ac img (mod_src_coords 2 A ac tn ts tc td (zvec (isizes2 img)) ss sc sd J).
Definition mod_sample3 (m : smode) (p : padarg) (A : axes) (ac : bool) (tn ts tc : vec) (td : mat) (ss sc : vec) (sd : mat)
           (img : list (list (list K))) (J : vec) : K :=
  dp_grid_sample3 m p ac img (mod_src_coords 3 A ac tn ts tc td (zvec (isizes3 img)) ss sc sd J).

(* ITK resampler, identity transform *)
Definition itk_resample2 (m : smode) (dflt : K) (tn ts tc : vec) (td : mat) (ss sc : vec) (sd : mat)
           (img : list (list K)) (J : vec) : K :=
  (match m with Linear => itk_linear2 | Nearest => itk_nearest2 end) dflt img
    (itk_cindex 2 tn ts tc td (zvec (isizes2 img)) ss sc sd J).
Definition itk_resample3 (m : smode) (dflt : K) (tn ts tc : vec) (td : mat) (ss sc : vec) (sd : mat)
           (img : list (list (list K))) (J : vec) : K :=
  (match m with Linear => itk_linear3 | Nearest => itk_nearest3 end) dflt img
    (itk_cindex 3 tn ts tc td (zvec (isizes3 img)) ss sc sd J).

(* the image extended by the constant c outside its domain, and interpolation of it *)
Definition getc1 (c : K) (l : list K) (i : Z) : K := if inb i (zlen l) then nth (Z.to_nat i) l 0 else c.
Definition getc2 (c : K) (img : list (list K)) (iy ix : Z) : K :=
  if inb iy (zlen img) then getc1 c (nth (Z.to_nat iy) img []) ix else c.
Definition getc3 (c : K) (img : list (list (list K))) (iz iy ix : Z) : K :=
  if inb iz (zlen img) then getc2 c (nth (Z.to_nat iz) img []) iy ix else c.
Definition interpc1 (c : K) (l : list K) (i : Z) (t : K) : K := lerp (getc1 c l i) (getc1 c l (i + 1)) t.
Definition interpc2 (c : K) (img : list (list K)) (ix iy : Z) (tx ty : K) : K :=
  lerp (lerp (getc2 c img iy ix) (getc2 c img iy (ix + 1)) tx)
       (lerp (getc2 c img (iy + 1) ix) (getc2 c img (iy + 1) (ix + 1)) tx) ty.
Definition interpc3 (c : K) (img : list (list (list K))) (ix iy iz : Z) (tx ty tz : K) : K :=
  lerp (lerp (lerp (getc3 c img iz iy ix) (getc3 c img iz iy (ix + 1)) tx)
             (lerp (getc3 c img iz (iy + 1) ix) (getc3 c img iz (iy + 1) (ix + 1)) tx) ty)
       (lerp (lerp (getc3 c img (iz + 1) iy ix) (getc3 c img (iz + 1) iy (ix + 1)) tx)
             (lerp (getc3 c img (iz + 1) (iy + 1) ix) (getc3 c img (iz + 1) (iy + 1) (ix + 1)) tx) ty) tz.

(* field of view (per axis): the cell of x lies inside the image, or x is the last sample *)
Definition in_fov (n : Z) (x : K) : Prop :=
  let '(i, t) := cell floorK x in (0 <= i <= n - 1)%Z /\ ((i <= n - 2)%Z \/ t = 0).
(* rectangular images, stored values, padded accessors, and the interpolation formulas over an accessor *)
Definition rect2 (nx : Z) (img : list (list K)) : Prop := Forall (fun r => zlen r = nx) img.
Definition rect3 (nx ny : Z) (img : list (list (list K))) : Prop := Forall (fun sl => zlen sl = ny /\ rect2 nx sl) img.
Definition val2 (img : list (list K)) (iy ix : Z) : K := nth (Z.to_nat ix) (nth (Z.to_nat iy) img []) 0.
Definition val3 (img : list (list (list K))) (iz iy ix : Z) : K := val2 (nth (Z.to_nat iz) img []) iy ix.
Definition acc2 (pad : padmode) (img : list (list K)) (iy ix : Z) : K := getp pad 0 (getp pad [] img iy) ix.
Definition acc3 (pad : padmode) (img : list (list (list K))) (iz iy ix : Z) : K :=
  getp pad 0 (getp pad [] (getp pad [] img iz) iy) ix.
Definition bil (g : Z -> Z -> K) (ix iy : Z) (tx ty : K) : K :=
  lerp (lerp (g iy ix) (g iy (ix + 1)%Z) tx) (lerp (g (iy + 1)%Z ix) (g (iy + 1)%Z (ix + 1)%Z) tx) ty.
Definition tril (g : Z -> Z -> Z -> K) (ix iy iz : Z) (tx ty tz : K) : K :=
  lerp (bil (g iz) ix iy tx ty) (bil (g (iz + 1)%Z) ix iy tx ty) tz.

(* per-axis hypothesis of the comparison with ITK: inside the source field of view [0, n-1] (hence
   inside ITK's buffer) *)
Definition fov_ok (sizes : list Z) (X : vec) : Prop :=
  Forall2 (fun n x => in_fov n x /\ inside_buffer n x = true) sizes X.
(* nearest neighbour: inside ITK's buffer [-1/2, n-1/2) and not at a rounding tie, i.e. both rounding
   conventions (torch: half to even, ITK: half up) pick the same sample *)
Definition near_ok (sizes : list Z) (X : vec) : Prop :=
  Forall2 (fun n x => nearK x = itk_round x /\ inside_buffer n x = true) sizes X.
Definition ok_at (m : smode) (sizes : list Z) (X : vec) : Prop :=
  match m with Linear => fov_ok sizes X | Nearest => near_ok sizes X end.
(* inside ITK's buffer [-1/2, n-1/2) on every axis (hypothesis of the border-padding theorems) *)
Definition buf_ok (sizes : list Z) (X : vec) : Prop :=
  Forall2 (fun n x => inside_buffer n x = true) sizes X.
End Resample.

Section Lattice.
Context {K : fld}.
(* a function of the target index tabulated over the whole target lattice, in tensor order [y][x] / [z][y][x] *)
Definition lat2 (f : list K -> list K) (nx ny : Z) : list (list (list K)) :=
  map (fun jy => map (fun jx => f [of_Z jx; of_Z jy]) (zseq nx)) (zseq ny).
Definition lat3 (f : list K -> list K) (nx ny nz : Z) : list (list (list (list K))) :=
  map (fun jz => map (fun jy => map (fun jx => f [of_Z jx; of_Z jy; of_Z jz]) (zseq nx)) (zseq ny)) (zseq nz).
(* integer sizes of the image tensor as the size attribute of its grid, per axis (x, y[, z]) *)
Definition zsz (nz : nat -> Z) : nat -> K := fun i => of_Z (nz i).
Definition sz2 (img : list (list K)) : nat -> Z := fun i => nth i (isizes2 img) 0%Z.
Definition sz3 (img : list (list (list K))) : nat -> Z := fun i => nth i (isizes3 img) 0%Z.
End Lattice.
