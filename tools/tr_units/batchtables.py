"""Gen/BatchTables.v -- data/image.py, data/flow.py, data/tensor.py, data/collate.py.

The grid bookkeeping is control flow over Python objects, not arithmetic, so nothing is traced
symbolically here.  What is extracted (Python `ast`, fail-closed: an unexpected shape of the source
raises) are the *tables and conditions* the hand-written model Model/Batch.v is a transcription of:

  * the tuples of torch functions each __torch_function__ treats as "returns a tuple of pieces",
    the functions special-cased in ImageBatch._torch_function_grid (in source order, with the
    guard they sit under), the functions whose result never gets a grid, the clone functions;
  * the typing conditions of the four _torch_function_result methods, as normalised source text;
  * a fingerprint (sha256 of the docstring-free, normalised source) of every method the model
    transcribes, so that any edit of these methods breaks the pin theorem of Props/C19.v and the
    check falls back to the search for a concrete failing input.
"""
import ast
import hashlib
import os

FILES = {"image": "deepali/data/image.py", "flow": "deepali/data/flow.py", "tensor": "deepali/data/tensor.py",
         "collate": "deepali/data/collate.py"}

PINNED = [
    ("image", "ImageBatch", ["__init__", "_make_instance", "_make_subitem", "__deepcopy__", "_torch_function_grid",
                             "_torch_function_result", "__torch_function__", "from_images", "append", "grid", "grid_",
                             "__len__", "__getitem__", "__iter__", "narrow"]),
    ("image", "Image", ["__init__", "_make_instance", "__deepcopy__", "_torch_function_grid", "_torch_function_result",
                        "__torch_function__", "batch", "grid", "grid_", "narrow"]),
    ("flow", "FlowFields", ["__init__", "_make_instance", "_make_subitem", "_torch_function_axes", "_torch_function_result",
                            "__torch_function__", "__getitem__", "from_images", "append"]),
    ("flow", "FlowField", ["__init__", "_make_instance", "_torch_function_axes", "_torch_function_result",
                           "__torch_function__", "batch"]),
    ("tensor", "DataTensor", ["__new__", "_make_instance", "__copy__", "__deepcopy__", "__reduce_ex__", "tensor"]),
    ("tensor", None, ["_rebuild_from_type"]),
    ("collate", None, ["collate_samples"]),
]


class Fail(Exception):
    pass


def strip_doc(fn):
    body = fn.body
    if body and isinstance(body[0], ast.Expr) and isinstance(getattr(body[0], "value", None), ast.Constant) \
            and isinstance(body[0].value.value, str):
        body = body[1:]
    new = ast.FunctionDef(name=fn.name, args=fn.args, body=body or [ast.Pass()], decorator_list=fn.decorator_list,
                          returns=None, type_comment=None, lineno=0, col_offset=0)
    for a in ast.walk(new.args):
        if isinstance(a, ast.arg):
            a.annotation = None
    return ast.unparse(ast.fix_missing_locations(new))


def find(tree, cls, name):
    scope = tree.body
    if cls is not None:
        cs = [n for n in tree.body if isinstance(n, ast.ClassDef) and n.name == cls]
        if len(cs) != 1:
            raise Fail(f"class {cls} not found")
        scope = cs[0].body
    # the last definition wins (overloads precede the implementation)
    fs = [n for n in scope if isinstance(n, ast.FunctionDef) and n.name == name]
    if not fs:
        raise Fail(f"{cls}.{name} not found")
    return fs[-1]


def func_tests(fn):
    """all `func == X` / `func in (X, ...)` tests in a function, in source order -> list of tuples of names"""
    out = []
    for node in ast.walk(fn):
        if isinstance(node, ast.Compare) and isinstance(node.left, ast.Name) and node.left.id == "func" and len(node.ops) == 1:
            if isinstance(node.ops[0], ast.Eq):
                out.append((node.lineno, node.col_offset, [ast.unparse(node.comparators[0])]))
            elif isinstance(node.ops[0], ast.In):
                c = node.comparators[0]
                if not isinstance(c, (ast.Tuple, ast.List)):
                    raise Fail("func in <non-tuple>")
                out.append((node.lineno, node.col_offset, [ast.unparse(e) for e in c.elts]))
            else:
                raise Fail("unexpected comparison on func")
    out.sort()
    return [names for _, _, names in out]


def result_condition(fn):
    """the test of the first `if` after the isinstance guard in a _torch_function_result"""
    ifs = [n for n in fn.body if isinstance(n, ast.If)]
    if len(ifs) != 2:
        raise Fail(f"{fn.name}: expected two top-level if statements, found {len(ifs)}")
    if ast.unparse(ifs[0].test) != "not isinstance(data, Tensor)":
        raise Fail(f"{fn.name}: unexpected guard {ast.unparse(ifs[0].test)}")
    return ast.unparse(ifs[1].test), ast.unparse(ast.Module(body=ifs[1].orelse, type_ignores=[]))


def cstr(s):
    return '"' + s.replace('"', '""') + '"%string'


def clist(items):
    return "[" + "; ".join(items) + "]"


def generate(loader):
    trees = {}
    for k, rel in FILES.items():
        with open(os.path.join(loader.root, rel)) as f:
            trees[k] = ast.parse(f.read())
    out = ["From Coq Require Import String.", "Local Open Scope string_scope.", ""]
    # 1. function tables
    rows = []
    for mod, cls in (("image", "ImageBatch"), ("flow", "FlowFields"), ("image", "Image"), ("flow", "FlowField")):
        tests = func_tests(find(trees[mod], cls, "__torch_function__"))
        rows.append(f"  ({cstr(cls)}, {clist([clist([cstr(n) for n in t]) for t in tests])})")
    out.append("(* per class: the `func == / in` tests of __torch_function__, in source order *)")
    out.append("Definition gen_dispatch_tests : list (string * list (list string)) := [\n" + ";\n".join(rows) + "].\n")
    gfn = find(trees["image"], "ImageBatch", "_torch_function_grid")
    tests = func_tests(gfn)
    out.append("(* ImageBatch._torch_function_grid: special-cased functions in source order *)")
    out.append("Definition gen_grid_tests : list (list string) := " + clist([clist([cstr(n) for n in t]) for t in tests]) + ".\n")
    guards = [n for n in gfn.body if isinstance(n, ast.If) and func_tests(ast.Module(body=n.body, type_ignores=[]))]
    if len(guards) != 1:
        raise Fail("_torch_function_grid: expected exactly one top-level guard around the special cases")
    inner = func_tests(ast.Module(body=guards[0].body, type_ignores=[]))
    if inner != tests:
        raise Fail("_torch_function_grid: a special case sits outside the guard")
    out.append("Definition gen_grid_guard : string := " + cstr(ast.unparse(guards[0].test)) + ".\n")
    # how the guard variable is computed: every statement that assigns to it
    gv = [n.id for n in ast.walk(guards[0].test) if isinstance(n, ast.Name)]
    if gv != ["dim"]:
        raise Fail(f"_torch_function_grid: unexpected guard variables {gv}")
    assigns = [ast.unparse(st) for st in gfn.body
               if any(isinstance(t, ast.Name) and t.id == "dim" and isinstance(t.ctx, ast.Store) for t in ast.walk(st)) and st is not guards[0]]
    out.append("(* statements computing the dim the guard tests *)")
    out.append("Definition gen_grid_dim : list string := " + clist([cstr(a) for a in assigns]) + ".\n")
    rows = []
    for mod, cls in (("image", "ImageBatch"), ("flow", "FlowFields"), ("image", "Image"), ("flow", "FlowField")):
        fn = find(trees[mod], cls, "_torch_function_result")
        cond, orelse = result_condition(fn)
        clone = func_tests(fn)
        rows.append(f"  ({cstr(cls)}, {cstr(cond)}, {cstr(orelse)}, {clist([clist([cstr(n) for n in t]) for t in clone])})")
    out.append("(* per class: typing condition of _torch_function_result, its else branch, its `func` tests *)")
    out.append("Definition gen_result_conditions : list (string * string * string * list (list string)) := [\n" + ";\n".join(rows) + "].\n")
    # 2. fingerprints
    rows = []
    for mod, cls, names in PINNED:
        for name in names:
            src = strip_doc(find(trees[mod], cls, name))
            h = hashlib.sha256(src.encode()).hexdigest()[:20]
            rows.append(f"  ({cstr((cls + '.' if cls else '') + name)}, {cstr(h)})")
    out.append("(* fingerprints of the transcribed methods (normalised source without docstrings / annotations) *)")
    out.append("Definition gen_fingerprints : list (string * string) := [\n" + ";\n".join(rows) + "].\n")
    return "\n".join(out)
