(* C17: the zero-padded cross smoothing of mode 'sobel' / 'prewitt' keeps affine functions exact at
   lattice points that are at least two samples away from the boundary (D = 2, 3): all second
   derivatives of an affine function vanish there; first derivatives are exact one sample away. *)
From Coq Require Import ZArith List Field Ring Lia Bool.
From DV Require Import Base.Field Base.FieldFacts Base.LinAlg Model.Losses Model.RegStencil
  Proofs.C16Lists Proofs.C17Stencil.
Import ListNotations.
Local Open Scope fld_scope.

Section Sobel.
Variable K : fld.
Hypothesis Kf : is_field K.
Hypothesis Kc : char0 K.
Add Field KF : Kf.

Definition smooth_weight (m : dmode) : K := match m with MPrewitt => 1 | _ => 1 + 1 end.

Lemma weight_nz m : smooth_weight m + (1 + 1) <> 0.
Proof.
  destruct m; cbn [smooth_weight].
  - replace (1 + 1 + (1 + 1) : K) with (@of_pos K 4) by (cbn [of_pos]; ring). apply Kc.
  - replace (1 + 1 + (1 + 1) : K) with (@of_pos K 4) by (cbn [of_pos]; ring). apply Kc.
  - replace (1 + (1 + 1) : K) with (@of_pos K 3) by (cbn [of_pos]; ring). apply Kc.
Qed.

Ltac sm sh w H e :=
  match type of H with
  | affOn _ (inR ?R) ?f ?c ?a =>
      let H' := fresh "H" in
      assert (H' : affOn K (inR (shrink e R)) (smooth sh w e f) c a)
        by (eapply smooth_affOn; [.. | exact H]; solve [assumption | cbn; lia]);
      clear H; rename H' into H
  end.
Ltac df sh h H d :=
  match type of H with
  | affOn _ (inR ?R) ?f ?c ?a =>
      let H' := fresh "H" in
      assert (H' : affOn K (inR (shrink d R)) (fd sh h d f) (nth d a 0 / h) [])
        by (eapply fd_affOn; [.. | exact H]; solve [assumption | cbn; lia]);
      clear H; rename H' into H
  end.
Ltac start sh c a H :=
  assert (H : affOn K (inR (full sh)) (aff c a) c a) by (intros j _; reflexivity).
Ltac finish1 H pt a :=
  etransitivity; [apply (H pt); cbn; lia | unfold aff, a; cbn [lin nth]; rewrite ?(lin_nil_l K); rewrite ?(Fdiv_def Kf); ring].
Ltac finish H pt :=
  etransitivity; [apply (H pt); cbn; lia | unfold aff; cbn [lin nth]; rewrite ?(lin_nil_l K); rewrite ?(Fdiv_def Kf); ring].

(* ---------------- D = 2 ---------------- *)
Section D2.
Variables (nx ny x y : Z) (hx hy c a0 a1 : K).
Hypothesis Hx : (2 <= x <= nx - 3)%Z.
Hypothesis Hy : (2 <= y <= ny - 3)%Z.
Hypothesis Hhx : hx <> 0.
Hypothesis Hhy : hy <> 0.
Let sh := [nx; ny].
Let sp := [hx; hy].
Let a := [a0; a1].

Lemma sobel2_interior m : m <> MFcb ->
  d2 m sh sp 0 0 (aff c a) [x; y] = 0 /\ d2 m sh sp 0 1 (aff c a) [x; y] = 0 /\
  d2 m sh sp 1 0 (aff c a) [x; y] = 0 /\ d2 m sh sp 1 1 (aff c a) [x; y] = 0.
Proof.
  intro Hm. pose proof (weight_nz m) as Hw. set (w := smooth_weight m) in *.
  assert (E : forall d h f, dstep m sh h d f = fd sh h d (smooth_others sh w d f)).
  { intros. destruct m; try contradiction; reflexivity. }
  unfold d2. rewrite !E. clear E.
  repeat split.
  - start sh c a H. sm sh w H 1%nat. df sh hx H 0%nat. sm sh w H 1%nat. df sh hx H 0%nat. finish H [x; y].
  - start sh c a H. sm sh w H 1%nat. df sh hx H 0%nat. sm sh w H 0%nat. df sh hy H 1%nat. finish H [x; y].
  - start sh c a H. sm sh w H 1%nat. df sh hx H 0%nat. sm sh w H 0%nat. df sh hy H 1%nat. finish H [x; y].
  - start sh c a H. sm sh w H 0%nat. df sh hy H 1%nat. sm sh w H 0%nat. df sh hy H 1%nat. finish H [x; y].
Qed.

Lemma sobel2_d1_interior m : m <> MFcb ->
  d1 m sh sp 0 (aff c a) [x; y] = a0 / hx /\ d1 m sh sp 1 (aff c a) [x; y] = a1 / hy.
Proof.
  intro Hm. pose proof (weight_nz m) as Hw. set (w := smooth_weight m) in *.
  assert (E : forall d h f, dstep m sh h d f = fd sh h d (smooth_others sh w d f)).
  { intros. destruct m; try contradiction; reflexivity. }
  unfold d1. rewrite !E. clear E. split.
  - start sh c a H. sm sh w H 1%nat. df sh hx H 0%nat. finish1 H [x; y] a.
  - start sh c a H. sm sh w H 0%nat. df sh hy H 1%nat. finish1 H [x; y] a.
Qed.
End D2.

(* ---------------- D = 3 ---------------- *)
Section D3.
Variables (nx ny nz x y z : Z) (hx hy hz c a0 a1 a2 : K).
Hypothesis Hx : (2 <= x <= nx - 3)%Z.
Hypothesis Hy : (2 <= y <= ny - 3)%Z.
Hypothesis Hz : (2 <= z <= nz - 3)%Z.
Hypothesis Hhx : hx <> 0.
Hypothesis Hhy : hy <> 0.
Hypothesis Hhz : hz <> 0.
Let sh := [nx; ny; nz].
Let sp := [hx; hy; hz].
Let a := [a0; a1; a2].

Lemma sobel3_interior m : m <> MFcb -> forall d e, (d < 3)%nat -> (e < 3)%nat ->
  d2 m sh sp d e (aff c a) [x; y; z] = 0.
Proof.
  intros Hm d e Hd He. pose proof (weight_nz m) as Hw. set (w := smooth_weight m) in *.
  assert (E : forall d h f, dstep m sh h d f = fd sh h d (smooth_others sh w d f)).
  { intros. destruct m; try contradiction; reflexivity. }
  unfold d2. rewrite !E. clear E.
  assert (Hc : (d = 0 \/ d = 1 \/ d = 2)%nat) by lia.
  assert (Hc' : (e = 0 \/ e = 1 \/ e = 2)%nat) by lia.
  destruct Hc as [-> | [-> | ->]], Hc' as [-> | [-> | ->]]; cbn [Nat.min Nat.max].
  - start sh c a H. sm sh w H 1%nat. sm sh w H 2%nat. df sh hx H 0%nat. sm sh w H 1%nat. sm sh w H 2%nat. df sh hx H 0%nat. finish H [x; y; z].
  - start sh c a H. sm sh w H 1%nat. sm sh w H 2%nat. df sh hx H 0%nat. sm sh w H 0%nat. sm sh w H 2%nat. df sh hy H 1%nat. finish H [x; y; z].
  - start sh c a H. sm sh w H 1%nat. sm sh w H 2%nat. df sh hx H 0%nat. sm sh w H 0%nat. sm sh w H 1%nat. df sh hz H 2%nat. finish H [x; y; z].
  - start sh c a H. sm sh w H 1%nat. sm sh w H 2%nat. df sh hx H 0%nat. sm sh w H 0%nat. sm sh w H 2%nat. df sh hy H 1%nat. finish H [x; y; z].
  - start sh c a H. sm sh w H 0%nat. sm sh w H 2%nat. df sh hy H 1%nat. sm sh w H 0%nat. sm sh w H 2%nat. df sh hy H 1%nat. finish H [x; y; z].
  - start sh c a H. sm sh w H 0%nat. sm sh w H 2%nat. df sh hy H 1%nat. sm sh w H 0%nat. sm sh w H 1%nat. df sh hz H 2%nat. finish H [x; y; z].
  - start sh c a H. sm sh w H 1%nat. sm sh w H 2%nat. df sh hx H 0%nat. sm sh w H 0%nat. sm sh w H 1%nat. df sh hz H 2%nat. finish H [x; y; z].
  - start sh c a H. sm sh w H 0%nat. sm sh w H 2%nat. df sh hy H 1%nat. sm sh w H 0%nat. sm sh w H 1%nat. df sh hz H 2%nat. finish H [x; y; z].
  - start sh c a H. sm sh w H 0%nat. sm sh w H 1%nat. df sh hz H 2%nat. sm sh w H 0%nat. sm sh w H 1%nat. df sh hz H 2%nat. finish H [x; y; z].
Qed.

Lemma sobel3_d1_interior m : m <> MFcb ->
  d1 m sh sp 0 (aff c a) [x; y; z] = a0 / hx /\ d1 m sh sp 1 (aff c a) [x; y; z] = a1 / hy /\
  d1 m sh sp 2 (aff c a) [x; y; z] = a2 / hz.
Proof.
  intro Hm. pose proof (weight_nz m) as Hw. set (w := smooth_weight m) in *.
  assert (E : forall d h f, dstep m sh h d f = fd sh h d (smooth_others sh w d f)).
  { intros. destruct m; try contradiction; reflexivity. }
  unfold d1. rewrite !E. clear E. repeat split.
  - start sh c a H. sm sh w H 1%nat. sm sh w H 2%nat. df sh hx H 0%nat. finish1 H [x; y; z] a.
  - start sh c a H. sm sh w H 0%nat. sm sh w H 2%nat. df sh hy H 1%nat. finish1 H [x; y; z] a.
  - start sh c a H. sm sh w H 0%nat. sm sh w H 1%nat. df sh hz H 2%nat. finish1 H [x; y; z] a.
Qed.
End D3.
End Sobel.
