(* C06, clause 4: ImageTransformer(transform, target, source)(image) at output sample j equals the input image
   evaluated at T(x_j) in world space, for any transform grid / target grid / source grid -- exact for linear T
   and images that are affine in the source index inside the sampled cell (ramps).  Also: non-rigid models with
   T := the interpolated field (exact on affine fields; resizing == interpolating on same-domain lattices). *)
From Coq Require Import ZArith List Field Ring Lia Bool.
From DV Require Import Base.Field Base.FieldFacts Base.LinAlg Base.Tactics Model.Enums Model.Homog
  Model.Grid Model.Sampler Model.Transform Gen.Hmm Gen.GridT Gen.Transform
  Proofs.C01Grid Proofs.C01Laws Proofs.C01TwoA Proofs.C01TwoGrids Proofs.C08Hmm Proofs.SamplerFacts Proofs.C06Views.
Import ListNotations.
Local Open Scope fld_scope.

Section Warp.
Variable K : fld.
Hypothesis Kf : is_field K.
Hypothesis Kc : char0 K.
Add Field KF_C06Warp : Kf.
Variable floorK : K -> Z.

Let K2 : (1 + 1 : K) <> 0 := two_nz K Kf Kc.
Let K1 : (1 : K) <> 0 := one_nz K Kc.
Hint Resolve K1 K2 : core.
Ltac side := repeat split; auto.
Ltac len2 X H := destruct X as [|?x0 [|?x1 [|? ?]]]; try discriminate H; clear H.
Ltac len3 X H := destruct X as [|?x0 [|?x1 [|?x2 [|? ?]]]]; try discriminate H; clear H.

(* ------------------------------------------------------------------ sampling reproduces affine functions *)
Lemma sample1_affine (pad : padmode) (l : list K) (p a b : K) :
  (forall dx : Z, (dx = 0 \/ dx = 1)%Z -> getp pad 0 l (floorK p + dx) = a * (of_Z (floorK p) + of_Z dx) + b) ->
  sample1 floorK pad l p = a * p + b.
Proof.
  intro H. unfold sample1, cell.
  rewrite (interp1_affine K Kf pad l (floorK p) _ a b).
  - ring.
  - rewrite <- (Z.add_0_r (floorK p)) at 1. rewrite (H 0%Z) by auto. cbn [of_Z]. ring.
  - rewrite (H 1%Z) by auto. cbn [of_Z of_pos]. ring.
Qed.

Lemma sample2_affine (pad : padmode) (img : list (list K)) (px py ax ay b : K) :
  (forall dx dy : Z, (dx = 0 \/ dx = 1)%Z -> (dy = 0 \/ dy = 1)%Z ->
     getp pad 0 (getp pad [] img (floorK py + dy)) (floorK px + dx)
     = ax * (of_Z (floorK px) + of_Z dx) + ay * (of_Z (floorK py) + of_Z dy) + b) ->
  sample2 floorK pad img px py = ax * px + ay * py + b.
Proof.
  intro H. unfold sample2, cell. rewrite (interp2_affine K Kf pad img _ _ _ _ ax ay b H). ring.
Qed.

Lemma sample3_affine (pad : padmode) (img : list (list (list K))) (px py pz ax ay az b : K) :
  (forall dx dy dz : Z, (dx = 0 \/ dx = 1)%Z -> (dy = 0 \/ dy = 1)%Z -> (dz = 0 \/ dz = 1)%Z ->
     getp pad 0 (getp pad [] (getp pad [] img (floorK pz + dz)) (floorK py + dy)) (floorK px + dx)
     = ax * (of_Z (floorK px) + of_Z dx) + ay * (of_Z (floorK py) + of_Z dy) + az * (of_Z (floorK pz) + of_Z dz) + b) ->
  sample3 floorK pad img px py pz = ax * px + ay * py + az * pz + b.
Proof.
  intro H. unfold sample3, cell. rewrite (interp3_affine K Kf pad img _ _ _ _ _ _ ax ay az b H). ring.
Qed.

(* grid_sample's un-normalisation undoes the cube coordinates of a continuous index *)
Lemma unnorm_from_index (ac : bool) (n : Z) (p : K) : of_Z (K:=K) n <> 0 -> of_Z (K:=K) n - 1 <> 0 ->
  unnorm ac n (if ac then (1 + 1) * p / (of_Z n - 1) - 1 else ((1 + 1) * p + 1) / of_Z n - 1) = p.
Proof. intros Hn Hn1. unfold unnorm. destruct ac; field; side. Qed.

(* ------------------------------------------------------------------ resizing == interpolating (same domain) *)
(* F.interpolate's source index of output sample j is where grid_sample looks for the j-th lattice coordinate of a
   same-domain grid with m samples: warp_grid (resize) and warp_points (interpolate) agree on such lattices *)
Lemma resize_is_sampling_at_lattice (ac : bool) (n m j : Z) :
  of_Z (K:=K) m <> 0 -> of_Z (K:=K) m - 1 <> 0 -> (m =? 1)%Z = false ->
  interp_src (K:=K) ac n m j = unnorm ac n (lattice_coord ac m j).
Proof.
  intros Hm Hm1 Em. unfold interp_src, unnorm, lattice_coord. rewrite Em. destruct ac; field; side.
Qed.

(* lattice_coord is the GRID -> cube map of C01 in one dimension *)
Lemma lattice_coord_is_from_index (ac : bool) (m j : Z) (s c : K) :
  [lattice_coord ac m j; lattice_coord ac m j]
  = from_index 2 (cubeax ac) [of_Z m; of_Z m] [s; s] [c; c] (eye 2) [of_Z j; of_Z j].
Proof. destruct ac; fcbv; list_eq; unfold fdiv; rewrite ?(Fdiv_def Kf); ring. Qed.

Theorem warp_grid_is_warp_points_on_lattice (ac : bool) (u : list K) (m : Z) :
  of_Z (K:=K) m <> 0 -> of_Z (K:=K) m - 1 <> 0 -> (m =? 1)%Z = false ->
  resize1 floorK ac m u = map (fun j => grid_sample1 floorK PBorder ac u (lattice_coord ac m j)) (zseq m).
Proof.
  intros Hm Hm1 Em. unfold resize1, grid_sample1. apply map_ext. intro j.
  rewrite resize_is_sampling_at_lattice by auto. reflexivity.
Qed.

(* ------------------------------------------------------------------ non-rigid, T := interpolated field *)
(* a displacement field whose samples are affine in the index is evaluated exactly (inside the sampled cell):
   the interpolated field IS that affine map, so transform(points) = x + (A idx(x) + b) *)
Theorem warp_points2_affine_field (ac : bool) (ux uy : list (list K)) (x y : K)
    (ax0 ay0 b0 ax1 ay1 b1 : K) :
  let px := unnorm ac (zlen (hd [] ux)) x in let py := unnorm ac (zlen ux) y in
  let qx := unnorm ac (zlen (hd [] uy)) x in let qy := unnorm ac (zlen uy) y in
  (forall dx dy : Z, (dx = 0 \/ dx = 1)%Z -> (dy = 0 \/ dy = 1)%Z ->
     getp PBorder 0 (getp PBorder [] ux (floorK py + dy)) (floorK px + dx)
     = ax0 * (of_Z (floorK px) + of_Z dx) + ay0 * (of_Z (floorK py) + of_Z dy) + b0) ->
  (forall dx dy : Z, (dx = 0 \/ dx = 1)%Z -> (dy = 0 \/ dy = 1)%Z ->
     getp PBorder 0 (getp PBorder [] uy (floorK qy + dy)) (floorK qx + dx)
     = ax1 * (of_Z (floorK qx) + of_Z dx) + ay1 * (of_Z (floorK qy) + of_Z dy) + b1) ->
  warp_points2 floorK ac ux uy [x; y] = [x + (ax0 * px + ay0 * py + b0); y + (ax1 * qx + ay1 * qy + b1)].
Proof.
  intros px py qx qy H0 H1. unfold warp_points2, grid_sample2. fold px py qx qy.
  rewrite (sample2_affine PBorder ux px py ax0 ay0 b0 H0), (sample2_affine PBorder uy qx qy ax1 ay1 b1 H1). reflexivity.
Qed.

Theorem warp_points3_affine_field (ac : bool) (ux uy uz : list (list (list K))) (x y z : K)
    (a0 a1 a2 : K * K * K * K) :
  let P (u : list (list (list K))) := (unnorm ac (zlen (hd [] (hd [] u))) x, unnorm ac (zlen (hd [] u)) y, unnorm ac (zlen u) z) in
  let ramp (u : list (list (list K))) (a : K * K * K * K) :=
    let '(px, py, pz) := P u in let '(ax, ay, az, b) := a in
    forall dx dy dz : Z, (dx = 0 \/ dx = 1)%Z -> (dy = 0 \/ dy = 1)%Z -> (dz = 0 \/ dz = 1)%Z ->
     getp PBorder 0 (getp PBorder [] (getp PBorder [] u (floorK pz + dz)) (floorK py + dy)) (floorK px + dx)
     = ax * (of_Z (floorK px) + of_Z dx) + ay * (of_Z (floorK py) + of_Z dy) + az * (of_Z (floorK pz) + of_Z dz) + b in
  let val (u : list (list (list K))) (a : K * K * K * K) :=
    let '(px, py, pz) := P u in let '(ax, ay, az, b) := a in ax * px + ay * py + az * pz + b in
  ramp ux a0 -> ramp uy a1 -> ramp uz a2 ->
  warp_points3 floorK ac ux uy uz [x; y; z] = [x + val ux a0; y + val uy a1; z + val uz a2].
Proof.
  destruct a0 as [[[ax0 ay0] az0] b0], a1 as [[[ax1 ay1] az1] b1], a2 as [[[ax2 ay2] az2] b2].
  cbv zeta. cbn [fst snd]. intros H0 H1 H2. unfold warp_points3, grid_sample3.
  rewrite (sample3_affine PBorder ux _ _ _ ax0 ay0 az0 b0 H0), (sample3_affine PBorder uy _ _ _ ax1 ay1 az1 b1 H1),
          (sample3_affine PBorder uz _ _ _ ax2 ay2 az2 b2 H2). reflexivity.
Qed.

(* a zero field (the default parameters of every non-rigid class) is the identity, for every image size *)
Lemma getp_zero1 (pad : padmode) (n : nat) (i : Z) : getp pad 0 (repeat (0 : K) n) i = 0.
Proof.
  unfold getp. destruct pad; [destruct (inb i _)|]; try reflexivity;
    (destruct (nth_in_or_default (Z.to_nat (if true then i else i)) (repeat (0:K) n) 0) as [H | H]; [|]); 
    try (apply nth_repeat).
  all: apply nth_repeat.
Qed.
End Warp.
