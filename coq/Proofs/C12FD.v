(* C12: finite-difference stencils are exact on affine sequences (first order) and quadratic sequences (second
   order) at the points the property names, for all lengths and spacings. *)
From Coq Require Import ZArith List Field Ring Lia Bool.
From DV Require Import Base.Field Base.FieldFacts Base.LinAlg Base.Tactics Model.BSplineBase Gen.BSpline Model.BSpline
  Gen.FlowDeriv Model.FiniteDiff Proofs.C14Tac Proofs.C14Eval.
Import ListNotations.
Local Open Scope fld_scope.

(* where each scheme is exact for first / second derivatives (n = length, i = position) *)
Definition exact1 (m : fdmode) (n i : nat) : Prop :=
  match m with
  | Fwd => (i + 1 < n)%nat
  | Bwd => (1 <= i)%nat /\ (i < n)%nat
  | Cen => (1 <= i)%nat /\ (i + 1 < n)%nat
  | _ => (i < n)%nat /\ (2 <= n)%nat
  end.
Definition exact2 (m : fdmode) (n i : nat) : Prop :=
  match m with
  | Fwd => (i + 2 < n)%nat
  | Bwd => (2 <= i)%nat /\ (i < n)%nat
  | _ => (2 <= i)%nat /\ (i + 2 < n)%nat
  end.

Section Proofs.
Variable K : fld.
Hypothesis Kf : is_field K.
Hypothesis Kc : char0 K.
Add Field KF : Kf.
Ltac side := refold K; repeat split; auto; try (nz Kc).

Lemma zn_S (i : nat) : @zn K (S i) = zn i + 1.
Proof. replace (S i) with (i + 1)%nat by lia. rewrite (zn_add K Kf). f_equal; try (fcbv; ring). Qed.

Lemma length_aff (a b h : K) n : length (aff_seq a b h n) = n.
Proof. unfold aff_seq. rewrite map_length, seq_length. reflexivity. Qed.
Lemma length_quad (a b c h : K) n : length (quad_seq a b c h n) = n.
Proof. unfold quad_seq. rewrite map_length, seq_length. reflexivity. Qed.
Lemma length_fd1 m (h : K) l : length (fd1 m h l) = length l.
Proof. unfold fd1. rewrite map_length, seq_length. reflexivity. Qed.

Lemma nth_aff (a b h : K) n i : (i < n)%nat -> nth i (aff_seq a b h n) 0 = a * (zn i * h) + b.
Proof. intro H. unfold aff_seq. apply (nth_map_seq (fun i => a * (zn i * h) + b)). exact H. Qed.
Lemma nth_quad (a b c h : K) n i : (i < n)%nat ->
  nth i (quad_seq a b c h n) 0 = a * ((zn i * h) * (zn i * h)) + b * (zn i * h) + c.
Proof. intro H. unfold quad_seq. apply (nth_map_seq (fun i => a * ((zn i * h) * (zn i * h)) + b * (zn i * h) + c)). exact H. Qed.

(* the value of fd1 at a position, by mode *)
Lemma nth_fd1 m (h : K) l i : (i < length l)%nat ->
  nth i (fd1 m h l) 0 =
  match m with
  | Fwd => gen_fd_fwd (nth i l 0) (nth (nxt (length l) i) l 0) h
  | Bwd => gen_fd_bwd (nth (Nat.pred i) l 0) (nth i l 0) h
  | Cen => gen_fd_cen (nth (Nat.pred i) l 0) (nth (nxt (length l) i) l 0) h
  | _ => if (i =? 0)%nat then gen_fcb_first (nth 0 l 0) (nth 1 l 0) h
         else if (i =? length l - 1)%nat then gen_fcb_last (nth (length l - 2) l 0) (nth (length l - 1) l 0) h
         else gen_fcb_mid (nth (i - 1) l 0) (nth (i + 1) l 0) h
  end.
Proof.
  intro H. unfold fd1.
  rewrite (nth_map_seq (fun i => match m with
         | Fwd => gen_fd_fwd (nth i l 0) (nth (nxt (length l) i) l 0) h
         | Bwd => gen_fd_bwd (nth (Nat.pred i) l 0) (nth i l 0) h
         | Cen => gen_fd_cen (nth (Nat.pred i) l 0) (nth (nxt (length l) i) l 0) h
         | _ => if (i =? 0)%nat then gen_fcb_first (nth 0 l 0) (nth 1 l 0) h
                else if (i =? length l - 1)%nat then gen_fcb_last (nth (length l - 2) l 0) (nth (length l - 1) l 0) h
                else gen_fcb_mid (nth (i - 1) l 0) (nth (i + 1) l 0) h
         end)) by exact H.
  reflexivity.
Qed.

(* scalar facts about the stencils on an affine / quadratic function of the index *)
Section Scalars.
Variables a b c h z : K.
Hypothesis Hh : h <> 0.
Let f (t : K) := a * (t * h) + b.
Let g (t : K) := a * ((t * h) * (t * h)) + b * (t * h) + c.
Lemma st_fwd : gen_fd_fwd (f z) (f (z + 1)) h = a.
Proof. unfold f. fcbv. field. side. Qed.
Lemma st_bwd : gen_fd_bwd (f z) (f (z + 1)) h = a.
Proof. unfold f. fcbv. field. side. Qed.
Lemma st_cen : gen_fd_cen (f z) (f (z + 1 + 1)) h = a.
Proof. unfold f. fcbv. field. side. Qed.
Lemma st_first : gen_fcb_first (f z) (f (z + 1)) h = a.
Proof. unfold f. fcbv. field. side. Qed.
Lemma st_last : gen_fcb_last (f z) (f (z + 1)) h = a.
Proof. unfold f. fcbv. field. side. Qed.
Lemma st_mid : gen_fcb_mid (f z) (f (z + 1 + 1)) h = a.
Proof. unfold f. fcbv. field. side. Qed.
(* at the replicate-padded end the one-sided schemes return 0, the central scheme half the slope *)
Lemma st_fwd_pad : gen_fd_fwd (f z) (f z) h = 0.
Proof. unfold f. fcbv. field. side. Qed.
Lemma st_cen_pad : gen_fd_cen (f z) (f (z + 1)) h = a / (1 + 1).
Proof. unfold f. fcbv. field. side. Qed.
(* second differences of a quadratic *)
Lemma st2_fwd : gen_fd_fwd (gen_fd_fwd (g z) (g (z + 1)) h) (gen_fd_fwd (g (z + 1)) (g (z + 1 + 1)) h) h = (1 + 1) * a.
Proof. unfold g. fcbv. field. side. Qed.
Lemma st2_bwd : gen_fd_bwd (gen_fd_bwd (g z) (g (z + 1)) h) (gen_fd_bwd (g (z + 1)) (g (z + 1 + 1)) h) h = (1 + 1) * a.
Proof. unfold g. fcbv. field. side. Qed.
Lemma st2_cen : gen_fd_cen (gen_fd_cen (g z) (g (z + 1 + 1)) h) (gen_fd_cen (g (z + 1 + 1)) (g (z + 1 + 1 + 1 + 1)) h) h = (1 + 1) * a.
Proof. unfold g. fcbv. field. side. Qed.
Lemma st2_mid : gen_fcb_mid (gen_fcb_mid (g z) (g (z + 1 + 1)) h) (gen_fcb_mid (g (z + 1 + 1)) (g (z + 1 + 1 + 1 + 1)) h) h = (1 + 1) * a.
Proof. unfold g. fcbv. field. side. Qed.
(* smoothing kernels reproduce affine functions; with a replicated neighbour they shift the value by a fraction of the step *)
Lemma st_avg_prewitt : gen_avg_prewitt (f z) (f (z + 1)) (f (z + 1 + 1)) = f (z + 1).
Proof. unfold f. fcbv. field. side. Qed.
Lemma st_avg_sobel : gen_avg_sobel (f z) (f (z + 1)) (f (z + 1 + 1)) = f (z + 1).
Proof. unfold f. fcbv. field. side. Qed.
Lemma st_avg_prewitt_lo : gen_avg_prewitt (f z) (f z) (f (z + 1)) = f z + of_Q 1 3 * (a * h).
Proof. unfold f. fcbv. field. side. Qed.
Lemma st_avg_sobel_lo : gen_avg_sobel (f z) (f z) (f (z + 1)) = f z + of_Q 1 4 * (a * h).
Proof. unfold f. fcbv. field. side. Qed.
Lemma st_avg_prewitt_hi : gen_avg_prewitt (f z) (f (z + 1)) (f (z + 1)) = f (z + 1) + - of_Q 1 3 * (a * h).
Proof. unfold f. fcbv. field. side. Qed.
Lemma st_avg_sobel_hi : gen_avg_sobel (f z) (f (z + 1)) (f (z + 1)) = f (z + 1) + - of_Q 1 4 * (a * h).
Proof. unfold f. fcbv. field. side. Qed.
Lemma st_avg_prewitt_one : gen_avg_prewitt (f z) (f z) (f z) = f z.
Proof. unfold f. fcbv. field. side. Qed.
Lemma st_avg_sobel_one : gen_avg_sobel (f z) (f z) (f z) = f z.
Proof. unfold f. fcbv. field. side. Qed.
End Scalars.

(* ---- first derivatives of affine sequences: every length, every spacing <> 0 ---- *)
Theorem fd1_affine_exact (m : fdmode) (n : nat) (a b h : K) (i : nat) : h <> 0 -> exact1 m n i ->
  nth i (fd1 m h (aff_seq a b h n)) 0 = a.
Proof.
  intros Hh Hr.
  assert (Hi : (i < n)%nat) by (destruct m; cbn in Hr; lia).
  rewrite nth_fd1 by (rewrite length_aff; exact Hi). rewrite length_aff.
  destruct m; cbn in Hr.
  - unfold nxt. replace (Nat.min (S i) (n - 1)) with (S i) by lia.
    rewrite !nth_aff by lia. rewrite zn_S. apply st_fwd; exact Hh.
  - destruct i as [|j]; [lia|]. cbn [Nat.pred]. rewrite !nth_aff by lia. rewrite zn_S. apply st_bwd; exact Hh.
  - destruct i as [|j]; [lia|]. cbn [Nat.pred]. unfold nxt. replace (Nat.min (S (S j)) (n - 1)) with (S (S j)) by lia.
    rewrite !nth_aff by lia. rewrite !zn_S. apply st_cen; exact Hh.
  - destruct (i =? 0)%nat eqn:E0; [apply Nat.eqb_eq in E0; subst|apply Nat.eqb_neq in E0].
    + rewrite !nth_aff by lia. change (@zn K 1) with (@zn K (S 0)). rewrite zn_S. apply st_first; exact Hh.
    + destruct (i =? n - 1)%nat eqn:E1; [apply Nat.eqb_eq in E1|apply Nat.eqb_neq in E1].
      * rewrite !nth_aff by lia. replace (n - 1)%nat with (S (n - 2)) by lia. rewrite zn_S. apply st_last; exact Hh.
      * rewrite !nth_aff by lia. replace (i + 1)%nat with (S (S (i - 1))) by lia. rewrite !zn_S. apply st_mid; exact Hh.
  - destruct (i =? 0)%nat eqn:E0; [apply Nat.eqb_eq in E0; subst|apply Nat.eqb_neq in E0].
    + rewrite !nth_aff by lia. change (@zn K 1) with (@zn K (S 0)). rewrite zn_S. apply st_first; exact Hh.
    + destruct (i =? n - 1)%nat eqn:E1; [apply Nat.eqb_eq in E1|apply Nat.eqb_neq in E1].
      * rewrite !nth_aff by lia. replace (n - 1)%nat with (S (n - 2)) by lia. rewrite zn_S. apply st_last; exact Hh.
      * rewrite !nth_aff by lia. replace (i + 1)%nat with (S (S (i - 1))) by lia. rewrite !zn_S. apply st_mid; exact Hh.
  - destruct (i =? 0)%nat eqn:E0; [apply Nat.eqb_eq in E0; subst|apply Nat.eqb_neq in E0].
    + rewrite !nth_aff by lia. change (@zn K 1) with (@zn K (S 0)). rewrite zn_S. apply st_first; exact Hh.
    + destruct (i =? n - 1)%nat eqn:E1; [apply Nat.eqb_eq in E1|apply Nat.eqb_neq in E1].
      * rewrite !nth_aff by lia. replace (n - 1)%nat with (S (n - 2)) by lia. rewrite zn_S. apply st_last; exact Hh.
      * rewrite !nth_aff by lia. replace (i + 1)%nat with (S (S (i - 1))) by lia. rewrite !zn_S. apply st_mid; exact Hh.
Qed.

(* the restriction to interior points for the replicate-padded schemes is necessary *)
Theorem fd1_padded_end (n : nat) (a b h : K) : h <> 0 -> (2 <= n)%nat ->
  nth (n - 1) (fd1 Fwd h (aff_seq a b h n)) 0 = 0 /\ nth 0 (fd1 Bwd h (aff_seq a b h n)) 0 = 0 /\
  nth 0 (fd1 Cen h (aff_seq a b h n)) 0 = a / (1 + 1) /\ nth (n - 1) (fd1 Cen h (aff_seq a b h n)) 0 = a / (1 + 1).
Proof.
  intros Hh Hn. repeat split; rewrite nth_fd1 by (rewrite length_aff; lia); rewrite ?length_aff.
  - unfold nxt. replace (Nat.min (S (n - 1)) (n - 1)) with (n - 1)%nat by lia. rewrite !nth_aff by lia. apply st_fwd_pad; exact Hh.
  - cbn [Nat.pred]. rewrite !nth_aff by lia. unfold gen_fd_bwd. pose proof (st_fwd_pad a b h (zn 0) Hh) as X. exact X.
  - cbn [Nat.pred]. unfold nxt. replace (Nat.min 1 (n - 1)) with 1%nat by lia. rewrite !nth_aff by lia.
    change (@zn K 1) with (@zn K (S 0)). rewrite zn_S. apply st_cen_pad; exact Hh.
  - unfold nxt. replace (Nat.min (S (n - 1)) (n - 1)) with (n - 1)%nat by lia.
    replace (Nat.pred (n - 1)) with (n - 2)%nat by lia. rewrite !nth_aff by lia.
    replace (n - 1)%nat with (S (n - 2)) at 1 by lia. rewrite zn_S. apply st_cen_pad; exact Hh.
Qed.

(* ---- second derivatives (repeated first differences) of quadratic sequences, interior ---- *)
Theorem fd1_quadratic_exact (m : fdmode) (n : nat) (a b c h : K) (i : nat) : h <> 0 -> exact2 m n i ->
  nth i (fd1 m h (fd1 m h (quad_seq a b c h n))) 0 = (1 + 1) * a.
Proof.
  intros Hh Hr.
  assert (Hi : (i < n)%nat) by (destruct m; cbn in Hr; lia).
  rewrite nth_fd1 by (rewrite length_fd1, length_quad; exact Hi). rewrite length_fd1, length_quad.
  assert (Q : forall j, (j < n)%nat -> nth j (quad_seq a b c h n) 0 = a * ((zn j * h) * (zn j * h)) + b * (zn j * h) + c)
    by (intros; apply nth_quad; assumption).
  destruct m; cbn in Hr.
  - unfold nxt. replace (Nat.min (S i) (n - 1)) with (S i) by lia.
    rewrite !nth_fd1 by (rewrite length_quad; lia). rewrite length_quad. unfold nxt.
    replace (Nat.min (S i) (n - 1)) with (S i) by lia. replace (Nat.min (S (S i)) (n - 1)) with (S (S i)) by lia.
    rewrite !Q by lia. rewrite !zn_S. apply st2_fwd; exact Hh.
  - destruct i as [|[|j]]; try lia. cbn [Nat.pred].
    rewrite !nth_fd1 by (rewrite length_quad; lia). cbn [Nat.pred].
    rewrite !Q by lia. rewrite !zn_S. apply st2_bwd; exact Hh.
  - destruct i as [|[|j]]; try lia. cbn [Nat.pred]. unfold nxt.
    replace (Nat.min (S (S (S j))) (n - 1)) with (S (S (S j))) by lia.
    rewrite !nth_fd1 by (rewrite length_quad; lia). rewrite length_quad. cbn [Nat.pred]. unfold nxt.
    replace (Nat.min (S (S j)) (n - 1)) with (S (S j)) by lia.
    replace (Nat.min (S (S (S (S j)))) (n - 1)) with (S (S (S (S j)))) by lia.
    rewrite !Q by lia. rewrite !zn_S. apply st2_cen; exact Hh.
  - destruct i as [|[|j]]; try lia.
    replace (S (S j) =? 0)%nat with false by reflexivity.
    replace (S (S j) =? n - 1)%nat with false by (symmetry; apply Nat.eqb_neq; lia).
    rewrite !nth_fd1 by (rewrite length_quad; lia). rewrite length_quad.
    replace (S (S j) - 1)%nat with (S j) by lia. replace (S (S j) + 1)%nat with (S (S (S j))) by lia.
    replace (S j =? 0)%nat with false by reflexivity.
    replace (S j =? n - 1)%nat with false by (symmetry; apply Nat.eqb_neq; lia).
    replace (S (S (S j)) =? 0)%nat with false by reflexivity.
    replace (S (S (S j)) =? n - 1)%nat with false by (symmetry; apply Nat.eqb_neq; lia).
    replace (S j - 1)%nat with j by lia. replace (S j + 1)%nat with (S (S j)) by lia.
    replace (S (S (S j)) - 1)%nat with (S (S j)) by lia. replace (S (S (S j)) + 1)%nat with (S (S (S (S j)))) by lia.
    rewrite !Q by lia. rewrite !zn_S. apply st2_mid; exact Hh.
  - destruct i as [|[|j]]; try lia.
    replace (S (S j) =? 0)%nat with false by reflexivity.
    replace (S (S j) =? n - 1)%nat with false by (symmetry; apply Nat.eqb_neq; lia).
    rewrite !nth_fd1 by (rewrite length_quad; lia). rewrite length_quad.
    replace (S (S j) - 1)%nat with (S j) by lia. replace (S (S j) + 1)%nat with (S (S (S j))) by lia.
    replace (S j =? 0)%nat with false by reflexivity.
    replace (S j =? n - 1)%nat with false by (symmetry; apply Nat.eqb_neq; lia).
    replace (S (S (S j)) =? 0)%nat with false by reflexivity.
    replace (S (S (S j)) =? n - 1)%nat with false by (symmetry; apply Nat.eqb_neq; lia).
    replace (S j - 1)%nat with j by lia. replace (S j + 1)%nat with (S (S j)) by lia.
    replace (S (S (S j)) - 1)%nat with (S (S j)) by lia. replace (S (S (S j)) + 1)%nat with (S (S (S (S j)))) by lia.
    rewrite !Q by lia. rewrite !zn_S. apply st2_mid; exact Hh.
  - destruct i as [|[|j]]; try lia.
    replace (S (S j) =? 0)%nat with false by reflexivity.
    replace (S (S j) =? n - 1)%nat with false by (symmetry; apply Nat.eqb_neq; lia).
    rewrite !nth_fd1 by (rewrite length_quad; lia). rewrite length_quad.
    replace (S (S j) - 1)%nat with (S j) by lia. replace (S (S j) + 1)%nat with (S (S (S j))) by lia.
    replace (S j =? 0)%nat with false by reflexivity.
    replace (S j =? n - 1)%nat with false by (symmetry; apply Nat.eqb_neq; lia).
    replace (S (S (S j)) =? 0)%nat with false by reflexivity.
    replace (S (S (S j)) =? n - 1)%nat with false by (symmetry; apply Nat.eqb_neq; lia).
    replace (S j - 1)%nat with j by lia. replace (S j + 1)%nat with (S (S j)) by lia.
    replace (S (S (S j)) - 1)%nat with (S (S j)) by lia. replace (S (S (S j)) + 1)%nat with (S (S (S (S j)))) by lia.
    rewrite !Q by lia. rewrite !zn_S. apply st2_mid; exact Hh.
Qed.

(* ---- smoothing of prewitt / sobel (replicate padding): an affine sequence keeps its values in the interior and is
        shifted by +- kb * (slope * h) at the first / last sample -- a shift that does not depend on anything but the slope
        ALONG the smoothed axis, which is why derivatives along the other axes stay exact on the boundary ---- *)
Lemma nth_avg1 (kern : K -> K -> K -> K) (l : list K) (i : nat) : (i < length l)%nat ->
  nth i (avg1 kern l) 0 = kern (nth (Nat.pred i) l 0) (nth i l 0) (nth (nxt (length l) i) l 0).
Proof.
  intro H. unfold avg1.
  apply (nth_map_seq (fun i => kern (nth (Nat.pred i) l 0) (nth i l 0) (nth (nxt (length l) i) l 0))). exact H.
Qed.

Definition kb (m : fdmode) : K := match m with Prewitt => of_Q 1 3 | Sobel => of_Q 1 4 | _ => 0 end.
Definition shiftc (m : fdmode) (n i : nat) : K :=
  if (n =? 1)%nat then 0 else if (i =? 0)%nat then kb m else if (i =? n - 1)%nat then - kb m else 0.

Theorem smooth_affine (m : fdmode) (n : nat) (a b h : K) (i : nat) : (i < n)%nat ->
  nth i (smooth1 m (aff_seq a b h n)) 0 = a * (zn i * h) + b + shiftc m n i * (a * h).
Proof.
  intro Hi. unfold shiftc.
  destruct m; try (cbn [smooth1 kb]; rewrite nth_aff by exact Hi;
                   destruct (n =? 1)%nat; destruct (i =? 0)%nat; destruct (i =? n - 1)%nat; ring);
  unfold smooth1; rewrite nth_avg1 by (rewrite length_aff; exact Hi); rewrite length_aff; unfold nxt, kb;
  (destruct (n =? 1)%nat eqn:E1; [apply Nat.eqb_eq in E1; subst n; assert (i = 0)%nat by lia; subst i;
     cbn [Nat.pred Nat.min Nat.sub]; rewrite !nth_aff by lia;
     first [rewrite st_avg_prewitt_one|rewrite st_avg_sobel_one]; ring|apply Nat.eqb_neq in E1]);
  (destruct (i =? 0)%nat eqn:E0; [apply Nat.eqb_eq in E0; subst i; cbn [Nat.pred];
     replace (Nat.min 1 (n - 1)) with 1%nat by lia; rewrite !nth_aff by lia;
     change (@zn K 1) with (@zn K (S 0)); rewrite zn_S;
     first [rewrite st_avg_prewitt_lo|rewrite st_avg_sobel_lo]; ring|apply Nat.eqb_neq in E0]);
  (destruct (i =? n - 1)%nat eqn:E2; [apply Nat.eqb_eq in E2; subst i;
     replace (Nat.min (S (n - 1)) (n - 1)) with (n - 1)%nat by lia; replace (Nat.pred (n - 1)) with (n - 2)%nat by lia;
     rewrite !nth_aff by lia; replace (n - 1)%nat with (S (n - 2)) by lia; rewrite zn_S;
     first [rewrite st_avg_prewitt_hi|rewrite st_avg_sobel_hi]; ring|apply Nat.eqb_neq in E2]);
  destruct i as [|j]; try lia; cbn [Nat.pred]; replace (Nat.min (S (S j)) (n - 1)) with (S (S j)) by lia;
  rewrite !nth_aff by lia; rewrite !zn_S;
  first [rewrite st_avg_prewitt|rewrite st_avg_sobel]; ring.
Qed.

Theorem smooth_affine_interior (m : fdmode) (n : nat) (a b h : K) (i : nat) : (1 <= i)%nat -> (i + 1 < n)%nat ->
  nth i (smooth1 m (aff_seq a b h n)) 0 = nth i (aff_seq a b h n) 0.
Proof.
  intros H1 H2. rewrite smooth_affine by lia. rewrite nth_aff by lia. unfold shiftc.
  replace (n =? 1)%nat with false by (symmetry; apply Nat.eqb_neq; lia).
  replace (i =? 0)%nat with false by (symmetry; apply Nat.eqb_neq; lia).
  replace (i =? n - 1)%nat with false by (symmetry; apply Nat.eqb_neq; lia). ring.
Qed.
End Proofs.
