"""Implementation-side runner for C13 (runs against /repo's working tree): compose_flows, lie_bracket, compose_svfs, logv."""
import json
import math
import random
import sys
from fractions import Fraction

import torch

from vlib import emit_json

import c11_impl as B
from deepali.core import flow as FL
from deepali.core.grid import Grid

DT = B.DT


def rand_affine(rng, D, amp=Fraction(1, 2), bits=4):
    """small dyadic affine map I + E"""
    q = 2 ** bits
    return [[(1 if i == j else 0) + Fraction(rng.randint(-q, q), q) * amp for j in range(D + 1)] for i in range(D)]


def disp_field(A, shape, ac):
    return B.field_of(lambda x: [y - xi for y, xi in zip(B.happly(A, x), x)], shape, ac)


def smooth_pair(D, nn, ac, rng):
    g = Grid(size=(nn,) * D, align_corners=ac).coords(dtype=torch.float64)
    x = g.movedim(-1, 0)
    bump = torch.ones_like(x[0])
    for a in range(D):
        bump = bump * torch.cos(x[a] * math.pi / 2) ** 2
    ph = [rng.uniform(0, math.pi) for _ in range(2 * D)]
    v = torch.stack([bump * torch.sin(math.pi * x[(a + 1) % D] + ph[a]) for a in range(D)]).unsqueeze(0)
    u = torch.stack([bump * torch.cos(math.pi * x[(a + 2) % D] * 0.5 + ph[D + a]) for a in range(D)]).unsqueeze(0)
    return u, v


BCH = {0: [], 1: [(Fraction(1, 2), "vu")], 2: [(Fraction(1, 2), "vu"), (Fraction(1, 12), "vvu")],
       3: [(Fraction(1, 2), "vu"), (Fraction(1, 12), "vvu"), (Fraction(-1, 12), "uvu")],
       4: [(Fraction(1, 2), "vu"), (Fraction(1, 12), "vvu"), (Fraction(-1, 12), "uvu"), (Fraction(-1, 48), "uvvu")],
       5: [(Fraction(1, 2), "vu"), (Fraction(1, 12), "vvu"), (Fraction(-1, 12), "uvu"), (Fraction(-1, 24), "uvvu")]}


def oracle(p):
    rng = random.Random(p["seed"])
    n = p["n"]
    fails, counts = [], {}

    def fail(key, what, case):
        fails.append({"key": key, "what": what, "case": case})

    def count(k):
        counts[k] = counts.get(k, 0) + 1

    tol = {"float32": 5e-5, "float64": 1e-10}
    # ---- compose_flows ----
    for it in range(n):
        D = rng.choice([2, 3])
        shape = tuple(rng.randint(2, 7 if D == 2 else 5) for _ in range(D))
        ac = rng.random() < 0.5
        dt = "float32" if rng.random() < 0.35 else "float64"
        r = [B.hull_half(ac, shape[D - 1 - a]) for a in range(D)]
        G = B.rand_generator(rng, D, shape, ac, Fraction(1))
        A = B.hone_plus(Fraction(1), G)                   # keeps the hull invariant
        Bm = rand_affine(rng, D)
        case = {"D": D, "shape": list(shape), "ac": ac, "dtype": dt, "A": [[str(x) for x in row] for row in A],
                "B": [[str(x) for x in row] for row in Bm]}
        u = torch.tensor(B.tofloat([disp_field(A, shape, ac)]), dtype=DT[dt])
        v = torch.tensor(B.tofloat([disp_field(Bm, shape, ac)]), dtype=DT[dt])
        try:
            w = FL.compose_flows(u, v, align_corners=ac)
            count(f"affine:D{D}:ac={ac}:{dt}")
            want = [disp_field(B.hmul(Bm, A), shape, ac)]
            d = B.maxdiff(w, want)
            if not d <= tol[dt] * 4:
                fail(f"C13:compose_flows:affine-exact:align_corners={ac}",
                     f"compose_flows(u, v, align_corners={ac}) of the displacement fields of affine maps A (hull invariant) and B differs "
                     f"from the displacement field of B o A by {d:.3g} (shape {shape}, {dt})", case)
            if ac:
                w0 = FL.compose_flows(u, v)
                if not float((w0 - w).abs().max()) == 0.0:
                    fail("C13:compose_flows:default-flag", "compose_flows(u, v) differs from compose_flows(u, v, align_corners=True)", case)
        except Exception as e:  # noqa
            fail("C13:compose_flows:raises", f"compose_flows raised {type(e).__name__}: {e}", case)
            continue
        # zero field: two-sided identity for arbitrary fields (also far outside the domain)
        f = (torch.rand((1, D) + shape, dtype=DT[dt], generator=torch.Generator().manual_seed(rng.randrange(10 ** 6))) - 0.5) * rng.choice([0.2, 1, 4])
        z = torch.zeros_like(f)
        try:
            count("zero-identity")
            dl = float((FL.compose_flows(z, f, align_corners=ac) - f).abs().max())
            dr = float((FL.compose_flows(f, z, align_corners=ac) - f).abs().max())
            if not dl <= tol[dt]:
                fail(f"C13:compose_flows:zero-left-identity:align_corners={ac}",
                     f"compose_flows(0, v, align_corners={ac}) differs from v by {dl:.3g} (shape {shape}, {dt})", case)
            if not dr <= 0.0:
                fail(f"C13:compose_flows:zero-right-identity:align_corners={ac}",
                     f"compose_flows(u, 0, align_corners={ac}) differs from u by {dr:.3g} (shape {shape}, {dt})", case)
        except Exception as e:  # noqa
            fail("C13:compose_flows:raises", f"compose_flows raised {type(e).__name__}: {e}", case)
        # batches: item by item
        if it % 4 == 0:
            N = rng.choice([2, 3])
            ub = torch.cat([u * (i + 1) / N for i in range(N)])
            vb = torch.cat([v * (N - i) / N for i in range(N)])
            try:
                count("batch")
                wb = FL.compose_flows(ub, vb, align_corners=ac)
                ref = torch.cat([FL.compose_flows(ub[i:i + 1], vb[i:i + 1], align_corners=ac) for i in range(N)])
                if not float((wb - ref).abs().max()) <= 1e-12:
                    fail("C13:compose_flows:batch:item-mismatch", "batched compose_flows differs from the per-item results", case)
            except Exception as e:  # noqa
                fail("C13:compose_flows:batch:raises",
                     f"compose_flows(u, v) with a batch of N={N} fields raises {type(e).__name__}: {str(e)[:120]}", dict(case, N=N))

    # ---- lie_bracket ----
    modes = [None, "forward_central_backward", "central", "forward", "backward", "sobel", "prewitt"]
    for it in range(max(12, n // 2)):
        D = rng.choice([2, 3])
        shape = tuple(rng.randint(3, 6 if D == 2 else 5) for _ in range(D))
        mode = modes[it % len(modes)]
        sigma = rng.choice([None, None, 1.0])
        gen = torch.Generator().manual_seed(rng.randrange(10 ** 6))
        v, v2, u = (torch.rand((1, D) + shape, dtype=torch.float64, generator=gen) - 0.5 for _ in range(3))
        a, b = rng.uniform(-2, 2), rng.uniform(-2, 2)
        spacing = [None, 0.5, tuple(rng.choice([0.25, 0.5, 1.5]) for _ in range(D))][(it // len(modes)) % 3 if it >= len(modes) else rng.randrange(3)]
        stride = rng.choice([None, None, 2])          # only read by mode='bspline'; must not leak into the other options
        case = {"D": D, "shape": list(shape), "mode": mode, "sigma": sigma, "spacing": spacing, "stride": stride}
        lb = lambda x, y: FL.lie_bracket(x, y, mode=mode, sigma=sigma, spacing=spacing, stride=stride)
        try:
            count(f"lie:{mode}:sigma={sigma}:spacing={'none' if spacing is None else ('scalar' if isinstance(spacing, float) else 'per-axis')}")
            l1 = float((lb(a * v + b * v2, u) - (a * lb(v, u) + b * lb(v2, u))).abs().max())
            l2 = float((lb(u, a * v + b * v2) - (a * lb(u, v) + b * lb(u, v2))).abs().max())
            an = float((lb(v, u) + lb(u, v)).abs().max())
            sf = float(lb(v, v).abs().max())
            sc = float(lb(v, u).abs().max())
            if not max(l1, l2) <= 1e-9 * (1 + sc):
                fail(f"C13:lie_bracket:bilinear:mode={mode}", f"lie_bracket is not bilinear: deviations {l1:.3g}, {l2:.3g} (shape {shape}, sigma={sigma}, spacing={spacing}, stride={stride})", case)
            if not max(an, sf) <= 1e-9 * (1 + sc):
                fail(f"C13:lie_bracket:antisymmetric:mode={mode}", f"[v,u] + [u,v] = {an:.3g}, [v,v] = {sf:.3g} (shape {shape}, sigma={sigma}, spacing={spacing}, stride={stride})", case)
        except Exception as e:  # noqa
            fail(f"C13:lie_bracket:raises:mode={mode}", f"lie_bracket raised {type(e).__name__}: {e}", case)
        # analytic value on affine fields (cube-corner coordinates = default spacing of the derivatives), exact stencil
        if it % 2 == 0:
            A = rand_affine(rng, D)
            Bm = rand_affine(rng, D)
            va = torch.tensor(B.tofloat([disp_field(A, shape, True)]), dtype=torch.float64)
            ua = torch.tensor(B.tofloat([disp_field(Bm, shape, True)]), dtype=torch.float64)
            w = FL.lie_bracket(va, ua, mode="forward_central_backward")

            def br(x):
                # v = (A - I) x + a, u = (B - I) x + b: [v, u] = Jv u - Ju v
                Av = [[A[i][j] - (1 if i == j else 0) for j in range(D)] for i in range(D)]
                Bv = [[Bm[i][j] - (1 if i == j else 0) for j in range(D)] for i in range(D)]
                vv = [sum(Av[i][j] * x[j] for j in range(D)) + A[i][D] for i in range(D)]
                uu = [sum(Bv[i][j] * x[j] for j in range(D)) + Bm[i][D] for i in range(D)]
                return [sum(Av[i][j] * uu[j] for j in range(D)) - sum(Bv[i][j] * vv[j] for j in range(D)) for i in range(D)]
            d = B.maxdiff(w, [B.field_of(br, shape, True)])
            count("lie:affine-value")
            if not d <= 1e-6:   # the default spacing 2 / (n - 1) is a float32 tensor
                fail("C13:lie_bracket:affine-value", f"lie_bracket of two affine fields differs from Jv u - Ju v by {d:.3g} (shape {shape})", case)
            # fields sampled at align_corners=False coordinates: the caller has to say that samples are 2/n apart
            vb = torch.tensor(B.tofloat([disp_field(A, shape, False)]), dtype=torch.float64)
            ub = torch.tensor(B.tofloat([disp_field(Bm, shape, False)]), dtype=torch.float64)
            sp = tuple(2.0 / n_ for n_ in reversed(shape))
            w = FL.lie_bracket(vb, ub, mode="forward_central_backward", spacing=sp)
            d = B.maxdiff(w, [B.field_of(br, shape, False)])
            count("lie:affine-value:explicit-spacing")
            if not d <= 1e-6:
                fail("C13:lie_bracket:affine-value:explicit-spacing",
                     f"lie_bracket(spacing=2/n) of two affine fields on align_corners=False coordinates differs from Jv u - Ju v by {d:.3g} (shape {shape})", case)

    # ---- lie_bracket(mode='bspline'): operands are cubic B-spline coefficients, the bracket lives on the evaluated lattice ----
    from deepali.core.bspline import evaluate_cubic_bspline
    for it in range(max(6, n // 8)):
        D = rng.choice([2, 3])
        shape = tuple(rng.randint(5, 8 if D == 2 else 6) for _ in range(D))
        stride = [None, 1, 2][it % 3]
        spacing = [0.5, tuple(rng.choice([0.25, 0.5, 1.5]) for _ in range(D)), None][(it // 3) % 3]
        gen = torch.Generator().manual_seed(rng.randrange(10 ** 6))
        v, v2, u = (torch.rand((1, D) + shape, dtype=torch.float64, generator=gen) - 0.5 for _ in range(3))
        a, b = rng.uniform(-2, 2), rng.uniform(-2, 2)
        case = {"D": D, "shape": list(shape), "mode": "bspline", "stride": stride, "spacing": spacing}
        lb = lambda x, y: FL.lie_bracket(x, y, mode="bspline", stride=stride, spacing=spacing)
        try:
            count(f"lie:bspline:stride={stride}")
            w = lb(v, u)
            s_ = 1 if stride is None else stride
            if tuple(w.shape) != (1, D) + tuple((m - 3) * s_ for m in shape):
                fail("C13:lie_bracket:bspline:shape", f"lie_bracket(mode='bspline', stride={stride}) has shape {tuple(w.shape)} for coefficients {shape}", case)
            sc = float(w.abs().max())
            l1 = float((lb(a * v + b * v2, u) - (a * w + b * lb(v2, u))).abs().max())
            l2 = float((lb(u, a * v + b * v2) - (a * lb(u, v) + b * lb(u, v2))).abs().max())
            an = float((w + lb(u, v)).abs().max())
            sf = float(lb(v, v).abs().max())
            if not max(l1, l2) <= 1e-9 * (1 + sc):
                fail("C13:lie_bracket:bilinear:mode=bspline", f"lie_bracket(mode='bspline') is not bilinear: deviations {l1:.3g}, {l2:.3g} ({case})", case)
            if not max(an, sf) <= 1e-9 * (1 + sc):
                fail("C13:lie_bracket:antisymmetric:mode=bspline", f"mode='bspline': [v,u] + [u,v] = {an:.3g}, [v,v] = {sf:.3g} ({case})", case)
            # coefficients affine in the control point index: the splines are affine, J = A / spacing, values on the evaluated lattice
            if spacing is not None:
                idx = torch.stack(torch.meshgrid(*[torch.arange(m, dtype=torch.float64) for m in shape], indexing="ij")).flip(0)
                A_ = torch.tensor([[rng.uniform(-0.5, 0.5) for _ in range(D)] for _ in range(D)], dtype=torch.float64)
                B_ = torch.tensor([[rng.uniform(-0.5, 0.5) for _ in range(D)] for _ in range(D)], dtype=torch.float64)
                off = (1, D) + (1,) * D
                va = (torch.einsum("ij,j...->i...", A_, idx)).unsqueeze(0) + torch.tensor([rng.uniform(-1, 1) for _ in range(D)]).reshape(off)
                ua = (torch.einsum("ij,j...->i...", B_, idx)).unsqueeze(0) + torch.tensor([rng.uniform(-1, 1) for _ in range(D)]).reshape(off)
                sp = torch.tensor([spacing] * D if isinstance(spacing, float) else list(spacing), dtype=torch.float64)
                Ja, Jb = A_ / sp.reshape(1, D), B_ / sp.reshape(1, D)          # d v_i / d x_j = A_ij / spacing_j
                ue, ve = evaluate_cubic_bspline(ua, stride=s_), evaluate_cubic_bspline(va, stride=s_)
                want = torch.einsum("ij,nj...->ni...", Ja, ue) - torch.einsum("ij,nj...->ni...", Jb, ve)
                d = float((lb(va, ua) - want).abs().max())
                count("lie:bspline:affine-value")
                if not d <= 1e-9 * (1 + float(want.abs().max())):
                    fail("C13:lie_bracket:affine-value:mode=bspline",
                         f"mode='bspline': bracket of two fields with affine coefficients differs from Jv u - Ju v on the evaluated lattice by {d:.3g} ({case})", case)
        except Exception as e:  # noqa
            fail("C13:lie_bracket:raises:mode=bspline", f"lie_bracket(mode='bspline', stride={stride}, spacing={spacing}) on coefficients of shape "
                                                         f"{shape} raised {type(e).__name__}: {str(e)[:120]}", case)

    # ---- compose_svfs ----
    for it in range(max(12, n // 2)):
        D = rng.choice([2, 3])
        shape = tuple(rng.randint(3, 6 if D == 2 else 5) for _ in range(D))
        terms = it % 6
        mode = rng.choice([None, "forward_central_backward", "sobel"])
        gen = torch.Generator().manual_seed(rng.randrange(10 ** 6))
        v, u = (torch.rand((1, D) + shape, dtype=torch.float64, generator=gen) - 0.5 for _ in range(2))
        spacing = rng.choice([None, 0.5, tuple(rng.choice([0.25, 0.5, 1.5]) for _ in range(D))])
        sigma = rng.choice([None, None, 1.0])
        case = {"D": D, "shape": list(shape), "bch_terms": terms, "mode": mode, "spacing": spacing, "sigma": sigma}
        lb = lambda x, y: FL.lie_bracket(x, y, mode=mode, spacing=spacing, sigma=sigma)
        try:
            count(f"bch-series:{terms}")
            w = FL.compose_svfs(u, v, bch_terms=terms, mode=mode, spacing=spacing, sigma=sigma)
            w2 = FL.compose_svfs(v, v, bch_terms=terms, mode=mode, spacing=spacing, sigma=sigma)
            d2 = float((w2 - 2 * v).abs().max())
            if not d2 <= 1e-9 * (1 + float(v.abs().max())):
                fail(f"C13:compose_svfs:self:bch_terms={terms}",
                     f"compose_svfs(a, a, bch_terms={terms}, mode={mode}, spacing={spacing}, sigma={sigma}) differs from 2a by {d2:.3g}", case)
            vu = lb(v, u)
            nested = {"vu": vu, "vvu": lb(v, vu), "uvu": lb(u, vu)}
            nested["uvvu"] = lb(u, nested["vvu"])
            ref = v + u
            for cf, nm in BCH[terms]:
                ref = ref + float(cf) * nested[nm]
            d = float((w - ref).abs().max())
            if not d <= 1e-10 * (1 + float(ref.abs().max())):
                fail(f"C13:compose_svfs:series:bch_terms={terms}",
                     f"compose_svfs(bch_terms={terms}) differs from the documented BCH series (built from lie_bracket) by {d:.3g}", case)
            # commuting fields: scalar multiples, constant fields, commuting linear fields
            kind = rng.choice(["multiple", "constant", "diagonal"])
            if kind == "multiple":
                cu, cv = v * rng.uniform(-2, 2), v
            elif kind == "constant":
                cu = torch.ones_like(v) * torch.tensor([rng.uniform(-1, 1) for _ in range(D)]).reshape((1, D) + (1,) * D)
                cv = torch.ones_like(v) * torch.tensor([rng.uniform(-1, 1) for _ in range(D)]).reshape((1, D) + (1,) * D)
            else:
                x = Grid(shape=shape).coords(dtype=torch.float64).movedim(-1, 0).unsqueeze(0)
                cu = x * torch.tensor([rng.uniform(-1, 1) for _ in range(D)]).reshape((1, D) + (1,) * D)
                cv = x * torch.tensor([rng.uniform(-1, 1) for _ in range(D)]).reshape((1, D) + (1,) * D)
            mm = mode if kind != "diagonal" else "forward_central_backward"
            count(f"bch-commuting:{kind}")
            wc = FL.compose_svfs(cu, cv, bch_terms=terms, mode=mm, spacing=spacing)
            d = float((wc - (cv + cu)).abs().max())
            if not d <= 1e-9 * (1 + float((cv + cu).abs().max())):
                fail(f"C13:compose_svfs:commuting:bch_terms={terms}",
                     f"compose_svfs of commuting fields ({kind}) differs from v + u by {d:.3g} at bch_terms={terms}", dict(case, kind=kind))
        except Exception as e:  # noqa
            fail(f"C13:compose_svfs:raises:bch_terms={terms}", f"compose_svfs raised {type(e).__name__}: {e}", case)
    for bad, exc in ((-1, ValueError), (6, NotImplementedError)):
        try:
            FL.compose_svfs(torch.zeros(1, 2, 3, 3), torch.zeros(1, 2, 3, 3), bch_terms=bad)
            fail("C13:compose_svfs:bch_terms-range", f"bch_terms={bad} is accepted", {})
        except exc:
            pass
        except Exception as e:  # noqa
            fail("C13:compose_svfs:bch_terms-range", f"bch_terms={bad} raises {type(e).__name__}", {})

    # ---- numeric exploration (labelled partial): BCH error vs truncation order, logv(expv(v)) ----
    for it in range(max(2, n // 30)):
        D = rng.choice([2, 3])
        nn = 21 if D == 2 else 11
        ac = rng.random() < 0.5
        u, v = smooth_pair(D, nn, ac, rng)
        u, v = u * (0.6 / nn), v * (0.6 / nn)
        target = FL.compose_flows(FL.expv(u, steps=6, align_corners=ac), FL.expv(v, steps=6, align_corners=ac), align_corners=ac)
        errs = []
        for terms in range(6):
            w = FL.compose_svfs(u, v, bch_terms=terms, mode="forward_central_backward")
            errs.append(float((FL.expv(w, steps=6, align_corners=ac) - target).abs().max()) * nn / 2)
        count("bch-error-by-order")
        # criterion (documented in the evidence): no truncation order is worse than the zeroth order v + u (5% numerical slack) and the
        # first bracket helps; strict monotonicity is NOT required -- on the unchanged tree the error rises by up to ~20% from
        # bch_terms=1 to 2 because every further bracket adds O(h^2) finite-difference error at the discretisation floor
        if not (all(e <= errs[0] * 1.05 + 1e-9 for e in errs) and errs[1] <= errs[0]):
            fail("C13:compose_svfs:bch-error-growth", f"error of exp(BCH_t(u, v)) against exp(v) o exp(u) in samples per order: {errs}",
                 {"D": D, "ac": ac})
    for it in range(max(2, n // 30)):
        D = rng.choice([2, 3])
        nn = 25 if D == 2 else 13
        res = {}
        for ac in (True, False):
            _, v = smooth_pair(D, nn, ac, random.Random(p["seed"] + it))
            v = v * (1.0 / nn)
            amp = float(v.abs().max()) * nn / 2
            flow = FL.expv(v, steps=6, align_corners=ac)
            w = FL.logv(flow, num_iters=5, bch_terms=1, sigma=None, exp_steps=6, align_corners=ac)
            res[ac] = float((w - v).abs().max()) * nn / 2
            count("logv-roundtrip")
            if not res[ac] <= 0.2 * amp:
                fail(f"C13:logv:roundtrip:align_corners={ac}",
                     f"logv(expv(v)) differs from v by {res[ac]:.3g} samples for an amplitude of {amp:.3g} samples (D={D}, n={nn})", {"D": D})
            w0 = FL.logv(flow, num_iters=5, bch_terms=1, sigma=None, exp_steps=0, align_corners=ac)
            r0 = float((w0 - v).abs().max()) * nn / 2
            count("logv-roundtrip:exp_steps=0")
            if not r0 <= 0.35 * amp:
                fail(f"C13:logv:roundtrip:exp_steps=0:align_corners={ac}",
                     f"logv(expv(v), exp_steps=0) differs from v by {r0:.3g} samples for an amplitude of {amp:.3g} samples (D={D}, n={nn})", {"D": D})
        if not max(res.values()) <= 3 * min(res.values()) + 1e-6:
            fail("C13:logv:roundtrip:convention-dependent", f"logv(expv(v)) error depends on align_corners: {res}", {"D": D})

    # ---- logv forwards its align_corners to every step (re-implementation from the library's own pieces) ----
    for it in range(max(2, n // 30)):
        D = rng.choice([2, 3])
        nn = rng.choice([5, 6, 9])
        for ac in (True, False):
            x = Grid(size=(nn,) * D, align_corners=ac).coords(dtype=torch.float64).movedim(-1, 0)
            v = torch.stack([-0.4 * x[a] + 0.1 * x[(a + 1) % D] for a in range(D)]).unsqueeze(0)
            flow = FL.expv(v, steps=6, align_corners=ac)
            iters = rng.choice([1, 3])
            es = rng.choice([6, 0, 0])             # exp_steps = 0: exp(-v) is approximated by -v
            sp = rng.choice([None, 0.5, tuple(2.0 / nn for _ in range(D))])
            bt = rng.choice([0, 1])
            w = FL.logv(flow, num_iters=iters, bch_terms=bt, sigma=None, spacing=sp, exp_steps=es, align_corners=ac)
            # derivatives of the brackets: distance of neighbouring grid points of the field's own convention unless given
            sp_eff = sp if sp is not None else tuple((2.0 / (nn - 1)) if ac else (2.0 / nn) for _ in range(D))
            vv = flow
            for _ in range(iters):
                uu = FL.expv(-vv, steps=es, align_corners=ac)           # exp(-v) through the negated field, not the inverse flag
                uu = FL.compose_flows(flow, uu, align_corners=ac)
                vv = FL.compose_svfs(uu, vv, bch_terms=bt, sigma=None, spacing=sp_eff)
            count("logv-flag")
            # batches: item by item
            fb = torch.cat([flow, flow * 0.5, -flow])
            try:
                wb = FL.logv(fb, num_iters=iters, bch_terms=1, sigma=None, exp_steps=4, align_corners=ac)
                ref = torch.cat([FL.logv(fb[i:i + 1], num_iters=iters, bch_terms=1, sigma=None, exp_steps=4, align_corners=ac) for i in range(3)])
                count("logv-batch")
                if not float((wb - ref).abs().max()) <= 1e-12:
                    fail("C13:logv:batch:item-mismatch", "batched logv differs from the per-item results", {"D": D, "n": nn, "ac": ac})
            except Exception as e:  # noqa
                fail("C13:logv:batch:raises", f"logv on a batch of 3 flow fields raises {type(e).__name__}: {str(e)[:120]}", {"D": D, "n": nn, "ac": ac})
            d = float((w - vv).abs().max())
            if not d <= 1e-12:
                key = "C13:logv:align_corners-not-forwarded" if es > 0 else "C13:logv:exp_steps=0:differs-from-iteration"
                # one iteration too few / too many?
                for cnt in (iters - 1, iters + 1):
                    alt = flow
                    for _ in range(cnt):
                        uu = FL.expv(-alt, steps=es, align_corners=ac)
                        uu = FL.compose_flows(flow, uu, align_corners=ac)
                        alt = FL.compose_svfs(uu, alt, bch_terms=bt, sigma=None, spacing=sp_eff)
                    if float((w - alt).abs().max()) <= 1e-12:
                        key = "C13:logv:iteration-count"
                        d = float((w - vv).abs().max())
                if sp is None and bt >= 1:
                    # with the default spacing: is it the bracket scaling?  compare with the iteration using 2/(n-1) instead
                    alt = flow
                    for _ in range(iters):
                        uu = FL.expv(-alt, steps=es, align_corners=ac)
                        uu = FL.compose_flows(flow, uu, align_corners=ac)
                        alt = FL.compose_svfs(uu, alt, bch_terms=bt, sigma=None, spacing=None)
                    if float((w - alt).abs().max()) <= 1e-12:
                        key = f"C13:logv:bracket-spacing:align_corners={ac}"
                fail(key,
                     ("logv runs a different number of iterations than num_iters: " if key == "C13:logv:iteration-count" else "") +
                     f"logv(flow, num_iters={iters}, bch_terms={bt}, spacing={sp}, exp_steps={es}, align_corners={ac}) differs by {d:.3g} (field "
                     f"amplitude {float(v.abs().max()):.2g}, {nn}^{D} grid) from the iteration v <- BCH(flow o exp(-v), v) assembled from expv(-v), "
                     f"compose_flows(., ., align_corners={ac}) and compose_svfs with the same options",
                     {"D": D, "n": nn, "ac": ac, "num_iters": iters, "exp_steps": es, "spacing": sp, "bch_terms": bt})
    # ---- the exponential logv relies on is the compose_flows iteration: expv(v, steps=k) = k self-compositions of v / 2^k ----
    for it in range(max(4, n // 15)):
        D = rng.choice([2, 3])
        shape = tuple(rng.randint(3, 6) for _ in range(D))
        k = rng.choice([1, 2, 4])
        for ac in (True, False):
            gen = torch.Generator().manual_seed(rng.randrange(10 ** 6))
            v = (torch.rand((1, D) + shape, dtype=torch.float64, generator=gen) - 0.5) * 0.8
            r = FL.expv(v, steps=k, align_corners=ac)
            d_ = v / 2 ** k
            for _ in range(k):
                d_ = FL.compose_flows(d_, d_, align_corners=ac)
            count("expv-is-compose-iteration")
            dd = float((r - d_).abs().max())
            if not dd <= 1e-12:
                fail(f"C13:expv:not-compose-iteration:align_corners={ac}",
                     f"expv(v, steps={k}, align_corners={ac}) differs by {dd:.3g} from {k} self-compositions compose_flows(d, d, align_corners={ac}) "
                     f"of v / 2^{k} (shape {shape}, amplitude 0.4)", {"D": D, "shape": list(shape), "steps": k, "ac": ac})

    # ---- regression (repaired in /repo 15e1ee8): logv(align_corners=False) must scale its brackets with spacing 2/n ----
    for D in (2, 3):
        nn = 5
        x = Grid(size=(nn,) * D, align_corners=False).coords(dtype=torch.float64).movedim(-1, 0)
        v = torch.stack([-0.4 * x[a] + 0.1 * x[(a + 1) % D] for a in range(D)]).unsqueeze(0)
        flow = FL.expv(v, steps=6, align_corners=False)
        w = FL.logv(flow, num_iters=1, bch_terms=1, sigma=None, exp_steps=6, align_corners=False)
        uu = FL.compose_flows(flow, FL.expv(-flow, steps=6, align_corners=False), align_corners=False)
        ref = FL.compose_svfs(uu, flow, bch_terms=1, sigma=None, spacing=tuple(2.0 / nn for _ in range(D)))
        count("logv-bracket-spacing")
        d = float((w - ref).abs().max())
        if not d <= 1e-12:
            fail("C13:logv:bracket-spacing:align_corners=False",
                 f"logv(flow, num_iters=1, bch_terms=1, align_corners=False) on a {nn}^{D} grid differs by {d:.3g} from the iteration whose "
                 f"bracket derivatives use the grid point distance 2/n (field amplitude {float(v.abs().max()):.2g}): brackets scaled by (n-1)/n",
                 {"D": D, "n": nn})
    return {"fails": fails, "counts": counts}


if __name__ == "__main__":
    payload = json.load(sys.stdin)
    fn_ = {"model_cases": B.model_cases, "oracle": oracle}[payload["fn"]]
    emit_json(fn_(payload))
