(* C20 -- reading of the gradient-flow skeleton (Gen/GradFlow.v): an operation is fine when its output is attached to
   the autograd graph, its value depends on every leaf it was given, and no leaf-to-output path crosses a cut. *)
From Coq Require Import String List Bool Arith.
Import ListNotations.

Definition leaf_ok (l : nat * bool * list string) : bool :=
  match l with (_, dep, sites) => dep && match sites with [] => true | _ => false end end.
Definition row_ok (r : string * nat * bool * list (nat * bool * list string)) : bool :=
  match r with (_, _, attached, leaves) => attached && forallb leaf_ok leaves && negb (Nat.eqb (List.length leaves) 0) end.
Definition gradflow_ok (t : list (string * nat * bool * list (nat * bool * list string))) : bool := forallb row_ok t.
Definition gradflow_bad (t : list (string * nat * bool * list (nat * bool * list string))) : list (string * nat) :=
  map (fun r => (fst (fst (fst r)), snd (fst (fst r)))) (filter (fun r => negb (row_ok r)) t).
