(* C12: second derivatives of quadratic fields in 2-D (see C12Quad.v for 3-D). *)
From Coq Require Import ZArith List Field Ring Lia Bool.
From DV Require Import Base.Field Base.FieldFacts Base.LinAlg Base.Tactics Model.BSplineBase Gen.BSpline Model.BSpline
  Gen.FlowDeriv Model.FiniteDiff Proofs.C14Tac Proofs.C14Eval Proofs.C12FD Proofs.C12ND Proofs.C12ND3 Proofs.C12Quad.
Import ListNotations.
Local Open Scope fld_scope.

Section Defs.
Context {K : fld}.
Record quad2 := mkQ2 { pxx : K; pxy : K; pyy : K; mx : K; my : K; p0 : K }.
Definition ev2q (hx hy : K) (q : quad2) (y x : nat) : K :=
  let X := zn x * hx in let Y := zn y * hy in
  pxx q * (X * X) + pxy q * (X * Y) + pyy q * (Y * Y) + mx q * X + my q * Y + p0 q.
Definition addc2 (q : quad2) (c : K) : quad2 := mkQ2 (pxx q) (pxy q) (pyy q) (mx q) (my q) (p0 q + c).
Definition Dq2 (m : fdmode) (hx hy : K) (sd : nat) (q : quad2) : quad2 :=
  match sd with
  | 0%nat => mkQ2 0 0 0 ((1 + 1) * pxx q) (pxy q) (mx q + sig m * (pxx q * hx))
  | _ => mkQ2 0 0 0 (pxy q) ((1 + 1) * pyy q) (my q + sig m * (pyy q * hy))
  end.
Definition quad_field2 (hx hy : K) (q : quad2) (nx ny : nat) : list (list K) := tab2 ny nx (fun y x => ev2q hx hy q y x).
Definition valid2 (hx hy : K) (ny nx ky kx : nat) (T : list (list K)) (q : quad2) : Prop :=
  forall y x, inm ky ny y -> inm kx nx x -> at2 T y x = ev2q hx hy q y x.
Definition d2q2 (q : quad2) (a b : nat) : K :=
  match a, b with 0%nat, 0%nat => (1 + 1) * pxx q | 1%nat, 1%nat => (1 + 1) * pyy q | _, _ => pxy q end.
End Defs.

Section Proofs.
Variable K : fld.
Hypothesis Kf : is_field K.
Hypothesis Kc : char0 K.
Add Field KF : Kf.

Lemma inm_lt2 k n i : inm k n i -> (i < n)%nat.
Proof. unfold inm. lia. Qed.
Lemma inm_S2 k n i : inm (S k) n i -> inm k n (i - 1) /\ inm k n i /\ inm k n (i + 1) /\ (1 <= i)%nat /\ (i + 1 < n)%nat.
Proof. unfold inm. lia. Qed.

Section Steps.
Variables (m : fdmode) (hx hy : K) (ny nx : nat).
Hypothesis Hny : (1 <= ny)%nat.
Hypothesis Hnx : (1 <= nx)%nat.
Notation valid := (valid2 hx hy ny nx).
Notation rect := (rect2 ny nx).

Lemma Sx2 (T : list (list K)) q ky kx : rect T -> valid ky kx T q ->
  rect (along_x2 (smooth1 m) T) /\ valid ky (S kx) (along_x2 (smooth1 m) T) (addc2 q (kap m * (pxx q * (hx * hx)))).
Proof.
  intros B V. destruct (Lx2 K (smooth1 m) T ny nx (lenpres_smooth K m) B) as [B' A]. split; [exact B'|].
  intros y x Iy Ix. destruct (inm_S2 _ _ _ Ix) as [Ia [Ib [Ic [H1 H2]]]].
  rewrite A by (eapply inm_lt2; eassumption).
  rewrite (smooth_local K Kf Kc (pxx q) (pxy q * (zn y * hy) + mx q) (pyy q * ((zn y * hy) * (zn y * hy)) + my q * (zn y * hy) + p0 q)
             hx nx (fun x' => at2 T y x') m x H1 H2);
  try (rewrite V by assumption); unfold ev2q, addc2; cbn [pxx pxy pyy mx my p0]; ring.
Qed.

Lemma Sy2 (T : list (list K)) q ky kx : rect T -> valid ky kx T q ->
  rect (along_y2 (smooth1 m) T) /\ valid (S ky) kx (along_y2 (smooth1 m) T) (addc2 q (kap m * (pyy q * (hy * hy)))).
Proof.
  intros B V. destruct (Ly2 K (smooth1 m) T ny nx (lenpres_smooth K m) B Hny Hnx) as [B' A]. split; [exact B'|].
  intros y x Iy Ix. destruct (inm_S2 _ _ _ Iy) as [Ia [Ib [Ic [H1 H2]]]].
  rewrite A by (eapply inm_lt2; eassumption).
  rewrite (smooth_local K Kf Kc (pyy q) (pxy q * (zn x * hx) + my q) (pxx q * ((zn x * hx) * (zn x * hx)) + mx q * (zn x * hx) + p0 q)
             hy ny (fun y' => at2 T y' x) m y H1 H2);
  try (rewrite V by assumption); unfold ev2q, addc2; cbn [pxx pxy pyy mx my p0]; ring.
Qed.

Lemma Dx2 (T : list (list K)) q ky kx : hx <> 0 -> rect T -> valid ky kx T q ->
  rect (along_x2 (fd1 m hx) T) /\ valid ky (S kx) (along_x2 (fd1 m hx) T) (Dq2 m hx hy 0 q).
Proof.
  intros Hh B V. destruct (Lx2 K (fd1 m hx) T ny nx (lenpres_fd K m hx) B) as [B' A]. split; [exact B'|].
  intros y x Iy Ix. destruct (inm_S2 _ _ _ Ix) as [Ia [Ib [Ic [H1 H2]]]].
  rewrite A by (eapply inm_lt2; eassumption).
  rewrite (diff_local K Kf Kc (pxx q) (pxy q * (zn y * hy) + mx q) (pyy q * ((zn y * hy) * (zn y * hy)) + my q * (zn y * hy) + p0 q)
             hx nx (fun x' => at2 T y x') m x Hh H1 H2);
  try (rewrite V by assumption); unfold ev2q, Dq2; cbn [pxx pxy pyy mx my p0]; ring.
Qed.

Lemma Dy2 (T : list (list K)) q ky kx : hy <> 0 -> rect T -> valid ky kx T q ->
  rect (along_y2 (fd1 m hy) T) /\ valid (S ky) kx (along_y2 (fd1 m hy) T) (Dq2 m hx hy 1 q).
Proof.
  intros Hh B V. destruct (Ly2 K (fd1 m hy) T ny nx (lenpres_fd K m hy) B Hny Hnx) as [B' A]. split; [exact B'|].
  intros y x Iy Ix. destruct (inm_S2 _ _ _ Iy) as [Ia [Ib [Ic [H1 H2]]]].
  rewrite A by (eapply inm_lt2; eassumption).
  rewrite (diff_local K Kf Kc (pyy q) (pxy q * (zn x * hx) + my q) (pxx q * ((zn x * hx) * (zn x * hx)) + mx q * (zn x * hx) + p0 q)
             hy ny (fun y' => at2 T y' x) m y Hh H1 H2);
  try (rewrite V by assumption); unfold ev2q, Dq2; cbn [pxx pxy pyy mx my p0]; ring.
Qed.

Lemma Dq2_addc sd q c : Dq2 m hx hy sd (addc2 q c) = Dq2 m hx hy sd q.
Proof. destruct sd as [|sd]; reflexivity. Qed.

Lemma dstep2_valid (sd : nat) (T : list (list K)) q k : (sd < 2)%nat -> nth sd [hx; hy] 1 <> 0 -> rect T -> valid k k T q ->
  rect (dstep2 m sd (nth sd [hx; hy] 1) T) /\ valid (S k) (S k) (dstep2 m sd (nth sd [hx; hy] 1) T) (Dq2 m hx hy sd q).
Proof.
  intros Hsd Hh B V. destruct sd as [|[|sd]]; [| |lia]; cbn [nth] in *; unfold dstep2.
  - destruct (Sy2 T q k k B V) as [B1 V1]. destruct (Dx2 _ _ _ _ Hh B1 V1) as [B2 V2]. rewrite Dq2_addc in V2. split; assumption.
  - destruct (Sx2 T q k k B V) as [B1 V1]. destruct (Dy2 _ _ _ _ Hh B1 V1) as [B2 V2]. rewrite Dq2_addc in V2. split; assumption.
Qed.
End Steps.

Lemma rect_quad (hx hy : K) q nx ny : rect2 ny nx (quad_field2 hx hy q nx ny).
Proof.
  unfold quad_field2, tab2. split; [rewrite map_length, seq_length; reflexivity|]. intros y Ly'.
  rewrite (nth_map_seq (fun y => map (fun x => ev2q hx hy q y x) (seq 0 nx))) by exact Ly'. rewrite map_length, seq_length. reflexivity.
Qed.

Lemma valid_quad2 (hx hy : K) q nx ny : valid2 hx hy ny nx 0 0 (quad_field2 hx hy q nx ny) q.
Proof.
  intros y x [_ Iy] [_ Ix]. unfold at2, quad_field2, tab2.
  rewrite (nth_map_seq (fun y => map (fun x => ev2q hx hy q y x) (seq 0 nx))) by lia.
  rewrite (nth_map_seq (fun x => ev2q hx hy q y x)) by lia. reflexivity.
Qed.

Theorem second_derivative_quadratic_2d (m : fdmode) (hx hy : K) (q : quad2 (K:=K)) (nx ny a b x y : nat) :
  hx <> 0 -> hy <> 0 -> (a < 2)%nat -> (b < 2)%nat -> inm 2 nx x -> inm 2 ny y ->
  at2 (deriv2 m [hx; hy] [a; b] (quad_field2 hx hy q nx ny)) y x = d2q2 q a b.
Proof.
  intros Hx Hy Ha Hb Ix Iy.
  assert (Ny : (1 <= ny)%nat) by (unfold inm in Iy; lia). assert (Nx : (1 <= nx)%nat) by (unfold inm in Ix; lia).
  assert (Hh : forall sd, (sd < 2)%nat -> nth sd [hx; hy] 1 <> 0) by (intros [|[|sd]] H; cbn; auto; lia).
  unfold deriv2. cbn [fold_left].
  destruct (dstep2_valid m hx hy ny nx Ny Nx a _ q 0 Ha (Hh a Ha) (rect_quad hx hy q nx ny) (valid_quad2 hx hy q nx ny)) as [B1 V1].
  destruct (dstep2_valid m hx hy ny nx Ny Nx b _ _ 1 Hb (Hh b Hb) B1 V1) as [_ V2].
  rewrite (V2 y x Iy Ix).
  destruct a as [|[|a]]; [| |lia]; (destruct b as [|[|b]]; [| |lia]); unfold ev2q, Dq2, d2q2; cbn [pxx pxy pyy mx my p0]; ring.
Qed.
End Proofs.
