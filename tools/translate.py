"""Translator driver: regenerate coq/Gen/*.v from /repo's working tree.

    translate.py [unit ...]      -> JSON report on stdout: {unit: {ok, msg, changed, file}}

Each unit lives in tools/tr_units/<unit>.py and exposes  generate(loader) -> coq_text.  A unit that
raises leaves a stub file behind (so everything that depends on it fails to build) and is reported
with ok=false: a broken obligation.
"""
from __future__ import annotations

import importlib
import json
import os
import sys
import traceback

HERE = os.path.dirname(os.path.abspath(__file__))
sys.path.insert(0, HERE)

import symload  # noqa: E402
import trlib  # noqa: E402

UNITS = {
    # unit name -> (module, generated file, source files it reads)
    "Euler": ("tr_units.euler", "Euler.v", ["deepali/core/affine.py"]),
    "Hmm": ("tr_units.hmm", "Hmm.v", ["deepali/core/linalg.py"]),
    "Quat": ("tr_units.quat", "Quat.v", ["deepali/core/_kornia.py"]),
}


def register(name, module, filename, sources):
    UNITS[name] = (module, filename, sources)


def _load_registry():
    """further units register themselves with ONE FILE PER UNIT: tools/tr_units/registry.d/<Unit>.json
    containing {"Unit": ["tr_units.module", "File.v", ["deepali/.../src.py", ...]]}
    (the single shared registry.json is still read, but concurrent edits clobbered it once)"""
    regs = []
    single = os.path.join(HERE, "tr_units", "registry.json")
    if os.path.exists(single):
        regs.append(single)
    ddir = os.path.join(HERE, "tr_units", "registry.d")
    if os.path.isdir(ddir):
        regs += [os.path.join(ddir, f) for f in sorted(os.listdir(ddir)) if f.endswith(".json")]
    for reg in regs:
        try:
            with open(reg) as f:
                for name, (module, filename, sources) in json.load(f).items():
                    UNITS[name] = (module, filename, sources)
        except (ValueError, OSError):
            continue


def run(units=None, src_root=None):
    _load_registry()
    src_root = src_root or symload.REPO_SRC
    report = {}
    loader = symload.SymLoader(src_root)
    for name in (units or list(UNITS)):
        module, filename, sources = UNITS[name]
        path = os.path.join(trlib.GEN_DIR, filename)
        shas = []
        for s in sources:
            try:
                shas.append(trlib.file_sha(os.path.join(src_root, s))[:16])
            except OSError:
                shas.append("missing")
        header = trlib.HEADER.format(src=", ".join(sources), sha=" ".join(shas))
        try:
            mod = importlib.import_module(module)
            body = mod.generate(loader)
            text = header + body
            ok, msg = True, ""
        except Exception as exc:  # fail closed
            tb = traceback.format_exc(limit=6)
            msg = f"{type(exc).__name__}: {exc}"
            text = header + "(* TRANSLATION FAILED (fail-closed):\n" + tb.replace("*)", "* )") + "*)\n"
            ok = False
        changed = trlib.write_if_changed(path, text)
        report[name] = {"ok": ok, "msg": msg, "changed": changed, "file": path, "sources": sources, "sha": shas}
    return report


if __name__ == "__main__":
    rep = run(sys.argv[1:] or None)
    json.dump(rep, sys.stdout, indent=1)
    sys.stdout.write("\n")
    sys.exit(0 if all(r["ok"] for r in rep.values()) else 2)
