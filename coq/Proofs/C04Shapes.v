(* C04: shape_agrees -- the integer size of the derived grid (grid side, Model/GridDerive.v) is the shape of the derived
   data (data side, Model/ImageOps.v), operation by operation, given that it was so before. *)
From Coq Require Import ZArith List Field Ring Lia Bool.
From DV Require Import Base.Field Base.FieldFacts Base.LinAlg Base.Tactics Model.Enums Model.Homog Model.Grid Model.Sampler
  Gen.GridT Gen.GridCtor Gen.GridDerive Model.GridDerive Model.ImageOps Proofs.C04Axis.
Import ListNotations.
Local Open Scope fld_scope.

Section C04Shapes.
Variable K : fld.
Hypothesis Kf : is_field K.
Add Field KF_C04Shapes : Kf.
Variable floorK : K -> Z.           (* interpolation floor (irrelevant for shapes) *)
Variable ceilK floorG : K -> Z.
Variable leK : K -> K -> bool.
Hypothesis ceil_int : forall z : Z, ceilK (of_Z z) = z.
Hypothesis ceil_shift : forall (x : K) (z : Z), ceilK (x - of_Z z) = (ceilK x - z)%Z.
Ltac Zify.zify_post_hook ::= Z.to_euclidean_division_equations.

Lemma ceil_plus (x : K) (z : Z) : ceilK (x + of_Z z) = (ceilK x + z)%Z.
Proof.
  replace (x + of_Z z) with (x - of_Z (- z)%Z) by (rewrite (of_Z_opp K Kf); ring). rewrite ceil_shift. lia.
Qed.

(* a grid whose float size is a list of integers has exactly that integer size: center crop / pad, narrow, pooling *)
Lemma nZ_int (l : list Z) (s c : list K) (d : list (list K)) (a : bool) : nZ ceilK (mkG (map zK l) s c d a) = l.
Proof. unfold nZ. cbn [fs]. rewrite map_map. unfold zK. erewrite map_ext; [apply map_id|]. intro z. apply ceil_int. Qed.

Lemma nZ_mk_origin (D : nat) (l : list Z) (o s : list K) (d : list (list K)) (a : bool) :
  nZ ceilK (mk_origin ceilK D (map zK l) o s d a) = l.
Proof. unfold mk_origin. apply nZ_int. Qed.

Section Ops.
Variable D : nat.
Variables (f s c : nat -> K) (d : nat -> nat -> K) (a0 : bool).
Notation g := (mkG (vtab D f) (vtab D s) (vtab D c) (tab D D d) a0).

Lemma shape_center_crop (size : list Z) :
  nZ ceilK (g_center_crop ceilK D size g) = map (fun p => Z.min (fst p) (snd p)) (combine (nZ ceilK g) size).
Proof. unfold g_center_crop. apply nZ_mk_origin. Qed.
Lemma shape_center_pad (size : list Z) :
  nZ ceilK (g_center_pad ceilK D size g) = map (fun p => Z.max (fst p) (snd p)) (combine (nZ ceilK g) size).
Proof. unfold g_center_pad. apply nZ_mk_origin. Qed.
Lemma shape_narrow (dim : nat) (start len : Z) :
  nZ ceilK (g_narrow ceilK D dim start len g) = mapi_from (fun i n => if Nat.eqb i dim then len else n) 0 (nZ ceilK g).
Proof. unfold g_narrow. apply nZ_mk_origin. Qed.
Lemma shape_resize (size : list Z) (a : option bool) :
  (veqK leK (map zK size) (fs g) = true -> nZ ceilK g = size) -> nZ ceilK (g_resize ceilK leK D size a g) = size.
Proof.
  intro He. unfold g_resize, d_resize. destruct (veqK leK (map zK size) (fs g)) eqn:E; [auto|].
  unfold nZ. cbn [fs]. rewrite map_map. unfold zK. erewrite map_ext; [apply map_id|]. intro z. apply ceil_int.
Qed.
End Ops.

(* ---------- data shape = grid size, 2-D and 3-D ---------- *)
Lemma shape_agrees_center_crop2 (f s c : nat -> K) d a0 (sx sy nx ny : Z) (im : nimg (K:=K)) :
  let g := mkG (vtab 2 f) (vtab 2 s) (vtab 2 c) (tab 2 2 d) a0 in
  ishape im = [nx; ny] -> nZ ceilK g = [nx; ny] ->
  ishape (d_center_crop 2 [sx; sy] im) = nZ ceilK (g_center_crop ceilK 2 [sx; sy] g).
Proof.
  intros g Hs Hn. subst g. rewrite shape_center_crop, Hn. unfold d_center_crop, all_axes. cbn [fold_axes crop_ax ishape]. rewrite Hs.
  cbn [zget nth upd combine map fst snd]. f_equal; [|f_equal]; lia.
Qed.
Lemma shape_agrees_center_crop3 (f s c : nat -> K) d a0 (sx sy sz nx ny nz : Z) (im : nimg (K:=K)) :
  let g := mkG (vtab 3 f) (vtab 3 s) (vtab 3 c) (tab 3 3 d) a0 in
  ishape im = [nx; ny; nz] -> nZ ceilK g = [nx; ny; nz] ->
  ishape (d_center_crop 3 [sx; sy; sz] im) = nZ ceilK (g_center_crop ceilK 3 [sx; sy; sz] g).
Proof.
  intros g Hs Hn. subst g. rewrite shape_center_crop, Hn. unfold d_center_crop, all_axes. cbn [fold_axes crop_ax ishape]. rewrite Hs.
  cbn [zget nth upd combine map fst snd]. f_equal; [|f_equal; [|f_equal]]; lia.
Qed.
Lemma shape_agrees_center_pad2 (f s c : nat -> K) d a0 (cv : K) (sx sy nx ny : Z) (im : nimg (K:=K)) :
  let g := mkG (vtab 2 f) (vtab 2 s) (vtab 2 c) (tab 2 2 d) a0 in
  ishape im = [nx; ny] -> nZ ceilK g = [nx; ny] ->
  ishape (d_center_pad 2 cv [sx; sy] im) = nZ ceilK (g_center_pad ceilK 2 [sx; sy] g).
Proof.
  intros g Hs Hn. subst g. rewrite shape_center_pad, Hn. unfold d_center_pad, all_axes. cbn [fold_axes crop_ax ishape]. rewrite Hs.
  cbn [zget nth upd combine map fst snd]. f_equal; [|f_equal]; lia.
Qed.
Lemma shape_agrees_center_pad3 (f s c : nat -> K) d a0 (cv : K) (sx sy sz nx ny nz : Z) (im : nimg (K:=K)) :
  let g := mkG (vtab 3 f) (vtab 3 s) (vtab 3 c) (tab 3 3 d) a0 in
  ishape im = [nx; ny; nz] -> nZ ceilK g = [nx; ny; nz] ->
  ishape (d_center_pad 3 cv [sx; sy; sz] im) = nZ ceilK (g_center_pad ceilK 3 [sx; sy; sz] g).
Proof.
  intros g Hs Hn. subst g. rewrite shape_center_pad, Hn. unfold d_center_pad, all_axes. cbn [fold_axes crop_ax ishape]. rewrite Hs.
  cbn [zget nth upd combine map fst snd]. f_equal; [|f_equal; [|f_equal]]; lia.
Qed.

(* narrow along grid axis k (2-D: k in {0,1}; 3-D: k in {0,1,2}) *)
Lemma shape_agrees_narrow (D : nat) (f s c : nat -> K) d a0 (k : nat) (start len : Z) (im : nimg (K:=K)) :
  let g := mkG (vtab D f) (vtab D s) (vtab D c) (tab D D d) a0 in
  ishape im = nZ ceilK g -> (k < length (ishape im))%nat ->
  ishape (d_narrow k start len im) = nZ ceilK (g_narrow ceilK D k start len g).
Proof.
  intros g Hs Hk. subst g. rewrite shape_narrow, <- Hs. unfold d_narrow. cbn [crop_ax ishape].
  replace (zget (ishape im) k - start - (zget (ishape im) k - start - len))%Z with len by lia.
  generalize (ishape im) k Hk. clear. intros l.
  assert (G : forall i0 k, (k < length l)%nat -> upd k len l = mapi_from (fun i n => if Nat.eqb i (i0 + k) then len else n) i0 l).
  { induction l as [|x l IH]; intros i0 [|k] Hk; cbn in *; try lia.
    - rewrite Nat.add_0_r, Nat.eqb_refl. f_equal.
      clear. assert (H : forall j, (i0 < j)%nat -> l = mapi_from (fun i n => if Nat.eqb i i0 then len else n) j l).
      { induction l as [|y l IH]; intros j Hj; cbn; auto. destruct (Nat.eqb_spec j i0); [lia|]. f_equal. apply IH. lia. }
      apply H. lia.
    - destruct (Nat.eqb_spec i0 (i0 + S k)); [lia|]. f_equal. rewrite (IH (S i0) k) by lia.
      replace (S i0 + k)%nat with (i0 + S k)%nat by lia. reflexivity. }
  intros k Hk. exact (G 0%nat k Hk).
Qed.

(* crop / pad / region of interest through per-border numbers: new float size = old -/+ margins, at least 1 *)
Lemma shape_agrees_pad2 (f s c : nat -> K) d a0 (cv : K) (xlo xhi ylo yhi nx ny : Z) (im : nimg (K:=K)) :
  let g := mkG (vtab 2 f) (vtab 2 s) (vtab 2 c) (tab 2 2 d) a0 in
  ishape im = [nx; ny] -> nZ ceilK g = [nx; ny] ->
  leK 1 (f 0%nat + of_Z xlo + of_Z xhi) = true -> leK 1 (f 1%nat + of_Z ylo + of_Z yhi) = true ->
  ishape (d_pad 2 cv [xlo; xhi; ylo; yhi] im) = nZ ceilK (g_pad ceilK leK 2 [xlo; xhi; ylo; yhi] g).
Proof.
  intros g Hs Hn Lx Ly. subst g.
  assert (E1 : ishape (d_pad 2 cv [xlo; xhi; ylo; yhi] im) = [nx + xlo + xhi; ny + ylo + yhi]%Z).
  { unfold d_pad, d_crop, all_axes. cbn [map fold_axes crop_ax ishape]. rewrite Hs. cbn [zget nth upd Nat.mul Nat.add].
    f_equal; [|f_equal]; lia. }
  rewrite E1. unfold g_pad. destruct (forallb (Z.eqb 0) [xlo; xhi; ylo; yhi]) eqn:E.
  - cbn [forallb] in E. repeat (apply andb_prop in E as [? E]).
    repeat match goal with H : (0 =? _)%Z = true |- _ => apply Z.eqb_eq in H end. subst. rewrite Hn. f_equal; [|f_equal]; lia.
  - unfold nZ, mk_origin. cbn [fs]. cbn [fs evens odds map vtab seq vadd vmap2 zK clamp1].
    unfold vadd. cbn [vmap2 map]. unfold clamp1, zK. rewrite Lx, Ly. rewrite !ceil_plus.
    unfold nZ in Hn. cbn in Hn. injection Hn as <- <-. reflexivity.
Qed.

Lemma shape_agrees_crop3 (f s c : nat -> K) d a0 (cv : K) (xlo xhi ylo yhi zlo zhi nx ny nz : Z) (im : nimg (K:=K)) :
  let g := mkG (vtab 3 f) (vtab 3 s) (vtab 3 c) (tab 3 3 d) a0 in
  ishape im = [nx; ny; nz] -> nZ ceilK g = [nx; ny; nz] ->
  leK 1 (f 0%nat - of_Z xlo - of_Z xhi) = true -> leK 1 (f 1%nat - of_Z ylo - of_Z yhi) = true ->
  leK 1 (f 2%nat - of_Z zlo - of_Z zhi) = true ->
  ishape (d_crop 3 cv [xlo; xhi; ylo; yhi; zlo; zhi] im) = nZ ceilK (g_crop ceilK leK 3 [xlo; xhi; ylo; yhi; zlo; zhi] g).
Proof.
  intros g Hs Hn Lx Ly Lz. subst g.
  assert (E1 : ishape (d_crop 3 cv [xlo; xhi; ylo; yhi; zlo; zhi] im) = [nx - xlo - xhi; ny - ylo - yhi; nz - zlo - zhi]%Z).
  { unfold d_crop, all_axes. cbn [fold_axes crop_ax ishape]. rewrite Hs. reflexivity. }
  rewrite E1. unfold g_crop. destruct (forallb (Z.eqb 0) [xlo; xhi; ylo; yhi; zlo; zhi]) eqn:E.
  - cbn [forallb] in E. repeat (apply andb_prop in E as [? E]).
    repeat match goal with H : (0 =? _)%Z = true |- _ => apply Z.eqb_eq in H end. subst. rewrite Hn. f_equal; [|f_equal; [|f_equal]]; lia.
  - unfold nZ, mk_origin. cbn [fs]. cbn [fs evens odds map vtab seq vsub vmap2 zK clamp1].
    unfold vsub. cbn [vmap2 map]. unfold clamp1, zK. rewrite Lx, Ly, Lz. rewrite !ceil_shift.
    unfold nZ in Hn. cbn in Hn. injection Hn as <- <- <-. reflexivity.
Qed.

(* region of interest = crop with num = (start_i, n_i - (start_i + size_i)): the new size is the requested one *)
Lemma shape_agrees_roi2 (f s c : nat -> K) d a0 (cv : K) (x0 y0 wx wy nx ny : Z) (im : nimg (K:=K)) :
  let g := mkG (vtab 2 f) (vtab 2 s) (vtab 2 c) (tab 2 2 d) a0 in
  ishape im = [nx; ny] -> nZ ceilK g = [nx; ny] ->
  leK 1 (f 0%nat - of_Z x0 - of_Z (nx - (x0 + wx))) = true -> leK 1 (f 1%nat - of_Z y0 - of_Z (ny - (y0 + wy))) = true ->
  ishape (d_roi 2 cv [x0; y0] [wx; wy] im) = [wx; wy] /\
  nZ ceilK (g_roi ceilK leK 2 [x0; y0] [wx; wy] g) = [wx; wy].
Proof.
  intros g Hs Hn Lx Ly. subst g. split.
  - unfold d_roi, all_axes. cbn [fold_axes crop_ax ishape]. rewrite Hs. cbn [zget nth upd]. f_equal; [|f_equal]; lia.
  - unfold g_roi. rewrite Hn. cbn [combine flat_map fst snd app]. unfold g_crop.
    destruct (forallb (Z.eqb 0) [x0; (nx - (x0 + wx))%Z; y0; (ny - (y0 + wy))%Z]) eqn:E.
    + cbn [forallb] in E. repeat (apply andb_prop in E as [? E]).
      repeat match goal with H : (0 =? _)%Z = true |- _ => apply Z.eqb_eq in H end. rewrite Hn. f_equal; [|f_equal]; lia.
    + unfold nZ, mk_origin. cbn [fs]. cbn [fs evens odds map vtab seq vsub vmap2 zK clamp1].
      unfold vsub. cbn [vmap2 map]. unfold clamp1, zK. rewrite Lx, Ly. rewrite !ceil_shift.
      unfold nZ in Hn. cbn in Hn. injection Hn as E0 E1. rewrite E0, E1. f_equal; [|f_equal]; lia.
Qed.

(* pooling, window = stride, floor mode *)
Hypothesis floor_div : forall n k : Z, (0 < k)%Z -> floorG (of_Z n / of_Z k) = (n / k)%Z.
Lemma shape_agrees_pool2 (f s c : nat -> K) d a0 (kx ky nx ny : Z) (im : nimg (K:=K)) :
  let g := mkG (vtab 2 f) (vtab 2 s) (vtab 2 c) (tab 2 2 d) a0 in
  ishape im = [nx; ny] -> nZ ceilK g = [nx; ny] -> (0 < kx)%Z -> (0 < ky)%Z ->
  ishape (d_pool 2 [kx; ky] false im) = nZ ceilK (g_pool ceilK floorG 2 [kx; ky] false g).
Proof.
  intros g Hs Hn Hx Hy. subst g. unfold g_pool. unfold nZ at 1, mk_origin. cbn [fs]. rewrite map_map.
  unfold nK. rewrite Hn. cbn [map vdiv vmap2 zK]. unfold vdiv, zK. cbn [vmap2 map]. rewrite !ceil_int, !floor_div by auto.
  unfold d_pool, all_axes. cbn [fold_axes pool_ax ishape]. rewrite Hs. reflexivity.
Qed.
Lemma shape_agrees_pool3 (f s c : nat -> K) d a0 (kx ky kz nx ny nz : Z) (im : nimg (K:=K)) :
  let g := mkG (vtab 3 f) (vtab 3 s) (vtab 3 c) (tab 3 3 d) a0 in
  ishape im = [nx; ny; nz] -> nZ ceilK g = [nx; ny; nz] -> (0 < kx)%Z -> (0 < ky)%Z -> (0 < kz)%Z ->
  ishape (d_pool 3 [kx; ky; kz] false im) = nZ ceilK (g_pool ceilK floorG 3 [kx; ky; kz] false g).
Proof.
  intros g Hs Hn Hx Hy Hz. subst g. unfold g_pool. unfold nZ at 1, mk_origin. cbn [fs]. rewrite map_map.
  unfold nK. rewrite Hn. cbn [map vdiv vmap2 zK]. unfold vdiv, zK. cbn [vmap2 map]. rewrite !ceil_int, !floor_div by auto.
  unfold d_pool, all_axes. cbn [fold_axes pool_ax ishape]. rewrite Hs. reflexivity.
Qed.

(* resample / resize: the data is produced at the size of the derived grid *)
Lemma shape_resample2 (sp sp' : list K) (m0 m1 nx ny : Z) (im : nimg (K:=K)) : ishape im = [nx; ny] ->
  ishape (d_resample floorK 2 sp sp' [m0; m1] im) = [m0; m1].
Proof. intro Hs. unfold d_resample, all_axes. cbn [fold_axes interp_ax ishape]. rewrite Hs. reflexivity. Qed.
Lemma shape_resample3 (sp sp' : list K) (m0 m1 m2 nx ny nz : Z) (im : nimg (K:=K)) : ishape im = [nx; ny; nz] ->
  ishape (d_resample floorK 3 sp sp' [m0; m1; m2] im) = [m0; m1; m2].
Proof. intro Hs. unfold d_resample, all_axes. cbn [fold_axes interp_ax ishape]. rewrite Hs. reflexivity. Qed.
Lemma shape_interp2 (ac : bool) (m0 m1 nx ny : Z) (im : nimg (K:=K)) : ishape im = [nx; ny] ->
  ishape (d_interp floorK 2 ac [m0; m1] im) = [m0; m1].
Proof.
  intro Hs. unfold d_interp. destruct (eqshape [m0; m1] (ishape im)) eqn:E.
  - rewrite Hs in *. unfold eqshape in E. cbn in E. repeat (apply andb_prop in E as [? E]).
    repeat match goal with H : (_ =? _)%Z = true |- _ => apply Z.eqb_eq in H end. congruence.
  - unfold all_axes. cbn [fold_axes interp_ax ishape]. rewrite Hs. reflexivity.
Qed.
Lemma shape_interp3 (ac : bool) (m0 m1 m2 nx ny nz : Z) (im : nimg (K:=K)) : ishape im = [nx; ny; nz] ->
  ishape (d_interp floorK 3 ac [m0; m1; m2] im) = [m0; m1; m2].
Proof.
  intro Hs. unfold d_interp. destruct (eqshape [m0; m1; m2] (ishape im)) eqn:E.
  - rewrite Hs in *. unfold eqshape in E. cbn in E. repeat (apply andb_prop in E as [? E]).
    repeat match goal with H : (_ =? _)%Z = true |- _ => apply Z.eqb_eq in H end. congruence.
  - unfold all_axes. cbn [fold_axes interp_ax ishape]. rewrite Hs. reflexivity.
Qed.
End C04Shapes.
