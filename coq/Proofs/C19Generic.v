(* C19 -- the generic (shape based) branch of ImageBatch.__torch_function__ on one batch operand. *)
From Coq Require Import List ZArith Bool Arith Lia.
From DV Require Import Model.Enums Model.Batch Model.BatchSpec Proofs.C19Base.
Import ListNotations.

(* operations with one tensor operand that reach the generic branch of the dispatcher *)
Definition generic_op (o : op) : bool :=
  match o with
  | OUnary _ | OReduce _ _ | OReduceAll | OScan _ | ONarrow _ _ _ | OSelect _ _ | OIndexSelect _ _
  | OFlip _ | ORoll _ _ | OPermute _ | OExpand _ | ORepeat _ | OReshape _ | OSpatial _ _ | OGridSample _
  | OChunk _ _ | OUnbind _ => true
  | _ => false
  end.

Section Generic.
Variable gshape : gid -> shape.
Variable gaxes : gid -> axes.

Definition generic_result (o : op) (s : shape) (gs : list gid) : ores :=
  match data_sem o [s] with
  | DErr e => OErr e
  | DOne d => match o with
              | OGridSample _ => OOne (plain_out d)
              | _ => one_kind d (res_batch gshape (d_shape d) (Some gs))
              end
  | DTuple ds => OTuple (map plain_out ds)
  end.

Lemma run_generic o s gs :
  generic_op o = true ->
  run_op gshape gaxes o [mkT s (TBatch None gs)] = generic_result o s gs.
Proof.
  intros H. destruct o as [[|]| | | | | | | | | | | | | | | | | | | | | | | | | | | | | | | | ]; try discriminate H;
    unfold run_op, generic_result;
    cbn [nth t_shape t_kind map choose_disp fold_left disp_of existsb insert_disp hd];
    unfold dispatch_batch; cbn [map to_batch t_kind t_shape];
    match goal with |- context [data_sem ?o ?l] => destruct (data_sem o l) eqn:ED end;
    try reflexivity;
    cbv [tf_grid_batch kw_of class_of is_split_class dim_kw]; cbn [flat_map app flat_of];
    repeat match goal with
           | |- context [if ?c then _ else _] => destruct c
           end; try reflexivity.
Qed.

(* alignment of the data with the operand's entries whenever the batch size is unchanged *)
Definition aligned (o : op) (s : shape) : Prop :=
  forall d, data_sem o [s] = DOne d -> nent (d_shape d) = nent s -> ndim (d_shape d) = ndim s ->
  forall i, i < nent s -> nth i (d_src d) [] = [(0, i)].

Lemma coherent_single args x : coherent args [x].
Proof. intros a b [<-|[]] [<-|[]] _ _. reflexivity. Qed.

Theorem generic_sound o s gs :
  generic_op o = true ->
  wf_val gshape (mkT s (TBatch None gs)) ->
  aligned o s ->
  res_sound gshape [mkT s (TBatch None gs)] (run_op gshape gaxes o [mkT s (TBatch None gs)]).
Proof.
  intros Hg Hwf Hal. rewrite run_generic by exact Hg. unfold generic_result.
  destruct (data_sem o [s]) as [e|d|ds] eqn:ED; simpl; auto.
  - assert (Hmain : res_sound gshape [mkT s (TBatch None gs)] (one_kind d (res_batch gshape (d_shape d) (Some gs)))).
    { unfold one_kind. destruct (res_batch gshape (d_shape d) (Some gs)) as [e|k] eqn:ER; simpl; auto.
      destruct k as [|fl gs'|fl g]; unfold out_sound; simpl; auto.
      - pose proof ER as ER'. apply res_batch_typed in ER. destruct ER as (-> & -> & HN & H4 & HF).
        assert (Hnd : 0 < length gs -> ndim (d_shape d) = ndim s).
        { destruct gs as [|g0 r]; [simpl; lia|]. intros _.
          apply res_batch_typed_ndim in ER'. destruct Hwf as (_ & Hs4 & HFs). cbn [t_shape] in *.
          inversion HFs as [|? ? Hg0 _]; subst. rewrite Hg0, skipn_length in ER'. unfold ndim in *. lia. }
        destruct Hwf as (HL & _ & _). simpl in HL.
        split; [unfold wf_val; simpl; auto|].
        intros i Hi. rewrite (Hal d ED) by (try apply Hnd; try congruence; lia).
        split; [apply coherent_single|]. split.
        + exists (0, i). split; [left; reflexivity|]. unfold entry_grid; simpl.
          apply nth_error_nth'. exact Hi.
        + intros ax Hax; discriminate.
      - exfalso. eapply res_batch_not_single; eauto. }
    destruct o; try exact Hmain; simpl; unfold out_sound; simpl; auto.
  - apply Forall_forall. intros x Hx. apply in_map_iff in Hx. destruct Hx as (d & <- & _).
    unfold out_sound; simpl; auto.
Qed.

(* the dispatcher never raises where the operation on the plain data succeeds (unchanged grids all of
   one shape, as guaranteed for a well formed operand) *)
Theorem generic_no_raise o s gs :
  generic_op o = true ->
  wf_val gshape (mkT s (TBatch None gs)) ->
  no_raise o [mkT s (TBatch None gs)] (run_op gshape gaxes o [mkT s (TBatch None gs)]).
Proof.
  intros Hg Hwf. rewrite run_generic by exact Hg. unfold no_raise, generic_result. cbn [map t_shape].
  destruct (data_sem o [s]) as [e|d|ds] eqn:ED; auto.
  assert (Hk : exists k, res_batch gshape (d_shape d) (Some gs) = KOk k).
  { unfold wf_val in Hwf; cbn [t_kind t_shape] in Hwf. destruct Hwf as (HL & H4 & HF).
    unfold res_batch. destruct gs as [|g0 r].
    - destruct ((4 <=? ndim (d_shape d)) && (nent (d_shape d) =? 0)) eqn:E; [|eauto].
      unfold mk_batch. apply andb_true_iff in E. destruct E as [E _]. apply Nat.leb_le in E.
      destruct (ndim (d_shape d) <? 4) eqn:E'; [apply Nat.ltb_lt in E'; lia|]. cbn [forallb negb]. eauto.
    - destruct ((ndim (d_shape d) =? length (gshape g0) + 2) && (nent (d_shape d) =? length (g0 :: r)) &&
                shape_eqb (skipn 2 (d_shape d)) (gshape g0)) eqn:E; [|eauto].
      apply andb_true_iff in E. destruct E as [E ES]. apply andb_true_iff in E. destruct E as [EN _].
      apply Nat.eqb_eq in EN. apply shape_eqb_true in ES.
      assert (Hg0 : gshape g0 = skipn 2 s) by (inversion HF; auto).
      assert (Hl : length (skipn 2 s) + 2 = ndim s).
      { rewrite skipn_length. unfold ndim in *. lia. }
      unfold mk_batch.
      destruct (ndim (d_shape d) <? 4) eqn:E'.
      { apply Nat.ltb_lt in E'. rewrite Hg0 in EN. lia. }
      replace (forallb (fun g => shape_eqb (gshape g) (skipn 2 (d_shape d))) (g0 :: r)) with true; [simpl; eauto|].
      symmetry. apply forallb_forall. intros g Hgin. rewrite Forall_forall in HF. rewrite (HF g Hgin), ES, Hg0.
      apply shape_eqb_refl. }
  destruct Hk as [k Hk]. destruct o; auto; unfold one_kind; rewrite Hk; auto.
Qed.
End Generic.
