"""Gen/TState.v -- the state-affecting skeleton of the transform classes (spatial/base.py,
parametric.py, nonrigid.py, bspline.py, composite.py, modules/flow.py): for every method the state
machine of Model/TransformState.v follows, the ordered list of
   branch tests, loops, try/except, attribute assignments, deletions, returns, raises, and the calls
   that touch buffers / parameters / members / hooks
as strings.  Model/TransformCfg.v derives from it which statements the model's step function performs
(clear_buffers after data_, the u/v deletion, the update cascade, ...), so the theorems are checked
against what the source says now; Proofs/C09Skeleton.v additionally pins the whole skeleton.
Fail-closed: a method that is missing, or a statement kind outside the walker's vocabulary, aborts."""
import ast
import os

import trlib
from symtorch import TraceError

METHODS = {
    "deepali/spatial/base.py": {
        "SpatialTransform": ["__init__", "__copy__", "__deepcopy__", "condition", "condition_", "grid", "grid_", "update", "_update_hook",
                             "register_update_hook", "clear_buffers", "inv", "inverse"],
        "NonRigidTransform": ["tensor", "update", "clear_buffers"],
    },
    "deepali/spatial/parametric.py": {
        "ParametricTransform": ["__init__", "has_parameters", "reset_parameters", "data", "data_", "_data", "link_", "unlink", "unlink_", "update"],
        "InvertibleParametricTransform": ["__init__", "inverse"],
    },
    "deepali/spatial/nonrigid.py": {
        "DenseVectorFieldTransform": ["grid_", "evaluate"],
        "DisplacementFieldTransform": ["update"],
        "StationaryVelocityFieldTransform": ["grid_", "inverse", "update"],
    },
    "deepali/spatial/bspline.py": {
        "BSplineTransform": ["grid_", "evaluate_spline"],
        "FreeFormDeformation": ["update"],
        "StationaryVelocityFreeFormDeformation": ["inverse", "update"],
    },
    "deepali/spatial/composite.py": {
        "CompositeTransform": ["_copy_with_transforms", "condition", "condition_", "grid", "update", "clear_buffers"],
        "SequentialTransform": ["forward", "tensor", "inverse"],
    },
    "deepali/modules/flow.py": {
        "ExpFlow": ["forward", "inverse"],
    },
    "deepali/spatial/generic.py": {
        "GenericSpatialTransform": ["inverse", "update"],
    },
}

CALLS = {
    "clear_buffers", "register_buffer", "delattr", "setattr", "getattr", "hasattr", "update", "_data", "data", "data_",
    "link_", "unlink_", "reset_parameters", "shallow_copy", "copy", "constant_", "inverse", "condition_", "condition", "grid_",
    "register_forward_pre_hook", "register_update_hook", "evaluate", "evaluate_spline", "exp", "Parameter", "__new__",
    "tensor", "forward", "disp", "view", "grid_reshape", "evaluate_cubic_bspline", "expv", "subdivide_cubic_bspline",
    "sample", "axes", "__init__", "callable", "isinstance", "params", "transforms", "named_transforms", "reversed",
    "homogeneous_matmul", "ModuleDict", "remove", "reshape", "detach", "clone", "deepcopy", "data_grid", "FlowFields",
}
MAXLEN = 90


def short(node, limit=MAXLEN):
    s = ast.unparse(node)
    s = " ".join(s.split())
    return s if len(s) <= limit else None


class Walker:
    def __init__(self, where):
        self.where = where
        self.out = []

    def calls_in(self, node):
        """interesting calls inside an expression, in source order"""
        found = []
        for n in ast.walk(node):
            if isinstance(n, ast.Call):
                f = n.func
                name = f.attr if isinstance(f, ast.Attribute) else (f.id if isinstance(f, ast.Name) else None)
                if name in CALLS:
                    found.append(n)
        found.sort(key=lambda n: (n.lineno, n.col_offset))
        for n in found:
            s = short(n)
            if s is None:
                s = ast.unparse(n.func) + "(...)"
            self.out.append("call:" + s)

    def stmts(self, body):
        for st in body:
            self.stmt(st)

    def stmt(self, st):
        o = self.out
        if isinstance(st, ast.Expr):
            if isinstance(st.value, ast.Constant) and isinstance(st.value.value, (str, type(Ellipsis))):
                if st.value.value is Ellipsis:
                    o.append("ellipsis")
                return
            self.calls_in(st.value)
        elif isinstance(st, (ast.Assign, ast.AnnAssign)):
            value = st.value
            targets = st.targets if isinstance(st, ast.Assign) else [st.target]
            if value is not None:
                self.calls_in(value)
            for t in targets:
                if isinstance(t, ast.Attribute):
                    v = short(value, 60) if value is not None else ""
                    o.append(f"set:{ast.unparse(t)}={v if v is not None else '...'}")
                elif isinstance(t, ast.Subscript):
                    o.append(f"setitem:{short(t, 60) or '...'}")
                elif isinstance(t, (ast.Name, ast.Tuple)):
                    pass
                else:
                    raise TraceError(f"{self.where}: assignment target {type(t).__name__}")
        elif isinstance(st, ast.AugAssign):
            self.calls_in(st.value)
            o.append(f"aug:{ast.unparse(st.target)}{type(st.op).__name__}={short(st.value, 40) or '...'}")
        elif isinstance(st, ast.If):
            o.append("if:" + (short(st.test) or "..."))
            self.calls_in(st.test)
            self.stmts(st.body)
            if st.orelse:
                o.append("else")
                self.stmts(st.orelse)
            o.append("endif")
        elif isinstance(st, ast.For):
            o.append(f"for:{ast.unparse(st.target)} in {short(st.iter) or '...'}")
            self.calls_in(st.iter)
            self.stmts(st.body)
            if st.orelse:
                raise TraceError(f"{self.where}: for-else")
            o.append("endfor")
        elif isinstance(st, ast.Try):
            o.append("try")
            self.stmts(st.body)
            for h in st.handlers:
                o.append("except:" + (ast.unparse(h.type) if h.type is not None else ""))
                self.stmts(h.body)
            if st.orelse or st.finalbody:
                raise TraceError(f"{self.where}: try-else/finally")
            o.append("endtry")
        elif isinstance(st, ast.With):
            o.append("with:" + ", ".join(ast.unparse(i) for i in st.items))
            self.stmts(st.body)
            o.append("endwith")
        elif isinstance(st, ast.Return):
            if st.value is not None:
                self.calls_in(st.value)
            v = short(st.value, 50) if st.value is not None else ""
            o.append("return:" + (v if v is not None else "..."))
        elif isinstance(st, ast.Raise):
            exc = st.exc
            name = ""
            if isinstance(exc, ast.Call):
                name = ast.unparse(exc.func)
            elif exc is not None:
                name = ast.unparse(exc)
            o.append("raise:" + name)
        elif isinstance(st, ast.Assert):
            o.append("assert:" + (short(st.test) or "..."))
        elif isinstance(st, ast.Pass):
            o.append("pass")
        elif isinstance(st, ast.Delete):
            o.append("del:" + ", ".join(ast.unparse(t) for t in st.targets))
        elif isinstance(st, (ast.Break, ast.Continue)):
            o.append(type(st).__name__.lower())
        else:
            raise TraceError(f"{self.where}: statement kind {type(st).__name__} is outside the skeleton vocabulary")


def skeleton(src_root):
    rows = []
    for rel, classes in METHODS.items():
        path = os.path.join(src_root, rel)
        with open(path) as f:
            tree = ast.parse(f.read(), path)
        cls_nodes = {n.name: n for n in tree.body if isinstance(n, ast.ClassDef)}
        for cname, methods in classes.items():
            if cname not in cls_nodes:
                raise TraceError(f"{rel}: class {cname} not found")
            fns = {}
            for n in cls_nodes[cname].body:
                if isinstance(n, ast.FunctionDef):
                    # overloads: the last definition wins (as in Python)
                    fns[n.name] = n
            for m in methods:
                if m not in fns:
                    raise TraceError(f"{rel}: method {cname}.{m} not found")
                fn = fns[m]
                w = Walker(f"{cname}.{m}")
                decos = [ast.unparse(d) for d in fn.decorator_list]
                for d in decos:
                    w.out.append("decorator:" + d)
                w.stmts(fn.body)
                rows.append((f"{cname}.{m}", w.out))
    return rows


def coq_str(s):
    return '"' + s.replace('"', '""') + '"'


def generate(loader):
    rows = skeleton(loader.root)
    out = ["Open Scope string_scope.", ""]
    items = []
    for name, toks in rows:
        items.append(f"  ({coq_str(name)},\n   [" + ";\n    ".join(coq_str(t) for t in toks) + "])")
    out.append("Definition gen_skeleton : list (string * list string) := [\n" + ";\n".join(items) + "].\n")
    return "\n".join(out)
