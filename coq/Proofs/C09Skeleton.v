(* C09 -- the state-affecting skeleton of the transform classes, as it was when the model
   (Model/TransformState.v) was written.  The generated skeleton must still be this one: any edit of the
   listed methods that adds, removes or reorders a buffer/parameter/cascade statement or changes a
   branch test breaks `skeleton_unchanged` (fail-closed), and the flags the theorems rest on are read
   from the generated side. *)
From Coq Require Import List String Bool.
From DV Require Import Model.TransformState Gen.TState Model.TransformCfg.
Import ListNotations.
Open Scope string_scope.

Definition expected_skeleton : list (string * list string) := [
  ("SpatialTransform.__init__",
   ["if:not isinstance(grid, Grid)";
    "call:isinstance(grid, Grid)";
    "raise:TypeError";
    "endif";
    "call:super().__init__()";
    "set:self._grid=grid";
    "set:self._args=()";
    "set:self._kwargs={}";
    "call:self.register_update_hook()"]);
  ("SpatialTransform.__copy__",
   ["call:self.__new__(type(self))";
    "call:self.__dict__.copy()";
    "set:copy.__dict__=self.__dict__.copy()";
    "for:name in ('_buffers', '_non_persistent_buffers_set', '_modules')";
    "if:name in self.__dict__";
    "call:self.__dict__[name].copy()";
    "setitem:copy.__dict__[name]";
    "endif";
    "endfor";
    "return:copy"]);
  ("SpatialTransform.__deepcopy__",
   ["for:buf in self._buffers.values()";
    "if:isinstance(buf, Tensor) and (not buf.is_leaf) and (id(buf) not in memo)";
    "call:isinstance(buf, Tensor)";
    "call:buf.detach().clone()";
    "call:buf.detach()";
    "setitem:memo[id(buf)]";
    "endif";
    "endfor";
    "call:self.__new__(type(self))";
    "setitem:memo[id(self)]";
    "call:deepcopy(self.__dict__, memo)";
    "set:copy.__dict__=deepcopy(self.__dict__, memo)";
    "return:copy"]);
  ("SpatialTransform.condition",
   ["if:args or kwargs";
    "call:shallow_copy(self).condition_(*args, **kwargs)";
    "call:shallow_copy(self)";
    "return:shallow_copy(self).condition_(*args, **kwargs)";
    "endif";
    "return:(self._args, self._kwargs)"]);
  ("SpatialTransform.condition_",
   ["call:self.clear_buffers()";
    "set:self._args=args";
    "set:self._kwargs=kwargs";
    "return:self"]);
  ("SpatialTransform.grid",
   ["if:grid is None";
    "return:self._grid";
    "endif";
    "call:shallow_copy(self)";
    "call:copy._parameters.copy()";
    "set:copy._parameters=copy._parameters.copy()";
    "call:copy.grid_(grid)";
    "return:copy.grid_(grid)"]);
  ("SpatialTransform.grid_",
   ["if:self._grid == grid and self._grid.align_corners() == grid.align_corners()";
    "return:self";
    "endif";
    "if:grid.ndim != self.ndim";
    "raise:ValueError";
    "endif";
    "call:self.clear_buffers()";
    "set:self._grid=grid";
    "return:self"]);
  ("SpatialTransform.update",
   ["return:self"]);
  ("SpatialTransform._update_hook",
   ["decorator:staticmethod";
    "assert:isinstance(transform, SpatialTransform)";
    "call:transform.update()"]);
  ("SpatialTransform.register_update_hook",
   ["call:self.register_forward_pre_hook(self._update_hook)";
    "set:self._update_hook_handle=self.register_forward_pre_hook(self._update_hook)"]);
  ("SpatialTransform.clear_buffers",
   ["ellipsis"]);
  ("SpatialTransform.inv",
   ["decorator:property";
    "call:self.inverse(link=True, update_buffers=True)";
    "return:self.inverse(link=True, update_buffers=True)"]);
  ("SpatialTransform.inverse",
   ["raise:NotImplementedError"]);
  ("NonRigidTransform.tensor",
   ["decorator:final";
    "call:getattr(self, 'u', None)";
    "if:u is None";
    "call:getattr(self.update(), 'u', None)";
    "call:self.update()";
    "endif";
    "if:u is None or 'u' not in self._buffers";
    "raise:AssertionError";
    "endif";
    "if:not isinstance(u, Tensor)";
    "call:isinstance(u, Tensor)";
    "raise:AssertionError";
    "endif";
    "if:u.ndim != self.ndim + 2";
    "raise:AssertionError";
    "endif";
    "if:u.shape[1] != self.ndim";
    "raise:AssertionError";
    "endif";
    "return:u"]);
  ("NonRigidTransform.update",
   ["return:self"]);
  ("NonRigidTransform.clear_buffers",
   ["call:super().clear_buffers()";
    "for:name in ('u', 'v')";
    "try";
    "call:delattr(self, name)";
    "except:AttributeError";
    "pass";
    "endtry";
    "endfor";
    "return:self"]);
  ("ParametricTransform.__init__",
   ["if:isinstance(params, Tensor) and params.ndim < 2";
    "call:isinstance(params, Tensor)";
    "raise:ValueError";
    "endif";
    "call:super().__init__(grid)";
    "if:groups is None";
    "call:isinstance(params, Tensor)";
    "endif";
    "if:params is None";
    "set:self.params=None";
    "else";
    "if:isinstance(params, bool)";
    "call:isinstance(params, bool)";
    "if:params";
    "call:Parameter(data)";
    "set:self.params=Parameter(data)";
    "else";
    "call:self.register_buffer('params', data, persistent=True)";
    "endif";
    "call:self.reset_parameters()";
    "else";
    "if:isinstance(params, Tensor)";
    "call:isinstance(params, Tensor)";
    "if:shape and params.shape != shape";
    "raise:ValueError";
    "endif";
    "if:isinstance(params, Parameter)";
    "call:isinstance(params, Parameter)";
    "set:self.params=params";
    "else";
    "call:self.register_buffer('params', params, persistent=True)";
    "endif";
    "else";
    "if:callable(params)";
    "call:callable(params)";
    "set:self.params=params";
    "call:self.register_buffer('p', torch.empty(shape), persistent=False)";
    "call:self.reset_parameters()";
    "else";
    "raise:TypeError";
    "endif";
    "endif";
    "endif";
    "endif"]);
  ("ParametricTransform.has_parameters",
   ["if:isinstance(params, ParametricTransform)";
    "call:isinstance(params, ParametricTransform)";
    "return:params.has_parameters()";
    "endif";
    "call:isinstance(params, Parameter)";
    "return:isinstance(params, Parameter)"]);
  ("ParametricTransform.reset_parameters",
   ["decorator:torch.no_grad()";
    "if:params is None";
    "return:";
    "endif";
    "if:callable(params)";
    "call:callable(params)";
    "endif";
    "call:init.constant_(params, 0.0)";
    "call:self.clear_buffers()"]);
  ("ParametricTransform.data",
   ["if:arg is None";
    "if:params is None";
    "raise:AssertionError";
    "endif";
    "if:callable(params)";
    "call:callable(params)";
    "call:getattr(self, 'p')";
    "endif";
    "return:params";
    "endif";
    "if:not isinstance(arg, Tensor)";
    "call:isinstance(arg, Tensor)";
    "raise:TypeError";
    "endif";
    "if:arg.ndim != len(shape) + 1";
    "raise:ValueError";
    "endif";
    "if:arg.shape != shape";
    "raise:ValueError";
    "endif";
    "call:shallow_copy(self)";
    "call:copy._parameters.copy()";
    "set:copy._parameters=copy._parameters.copy()";
    "if:callable(params)";
    "call:callable(params)";
    "call:delattr(copy, 'p')";
    "endif";
    "if:isinstance(params, Parameter) and (not isinstance(arg, Parameter))";
    "call:isinstance(params, Parameter)";
    "call:isinstance(arg, Parameter)";
    "call:Parameter(arg, params.requires_grad)";
    "set:copy.params=Parameter(arg, params.requires_grad)";
    "else";
    "set:copy.params=arg";
    "endif";
    "call:copy.clear_buffers()";
    "return:copy"]);
  ("ParametricTransform.data_",
   ["if:callable(params)";
    "call:callable(params)";
    "raise:ReadOnlyParameters";
    "endif";
    "if:not isinstance(arg, Tensor)";
    "call:isinstance(arg, Tensor)";
    "raise:TypeError";
    "endif";
    "if:arg.ndim != len(shape) + 1";
    "raise:ValueError";
    "endif";
    "if:arg.shape != shape";
    "raise:ValueError";
    "endif";
    "if:isinstance(params, Parameter) and (not isinstance(arg, Parameter))";
    "call:isinstance(params, Parameter)";
    "call:isinstance(arg, Parameter)";
    "call:Parameter(arg, params.requires_grad)";
    "set:self.params=Parameter(arg, params.requires_grad)";
    "else";
    "set:self.params=arg";
    "endif";
    "call:self.clear_buffers()";
    "return:self"]);
  ("ParametricTransform._data",
   ["if:params is None";
    "raise:AssertionError";
    "endif";
    "if:isinstance(params, type(self))";
    "call:isinstance(params, type(self))";
    "assert:isinstance(params, ParametricTransform)";
    "call:cast(ParametricTransform, params).data()";
    "return:cast(ParametricTransform, params).data()";
    "endif";
    "if:callable(params)";
    "call:callable(params)";
    "call:self.condition()";
    "call:params(*args, **kwargs)";
    "if:not isinstance(pred, Tensor)";
    "call:isinstance(pred, Tensor)";
    "raise:TypeError";
    "endif";
    "if:pred.ndim != len(shape) + 1";
    "raise:ValueError";
    "endif";
    "if:pred.shape != shape";
    "raise:ValueError";
    "endif";
    "return:pred";
    "endif";
    "assert:isinstance(params, Tensor)";
    "return:params"]);
  ("ParametricTransform.link_",
   ["if:other is self";
    "raise:ValueError";
    "endif";
    "if:type(self) != type(other)";
    "raise:TypeError";
    "endif";
    "if:self._parameters.get('params') is not None";
    "call:self._parameters.copy()";
    "set:self._parameters=self._parameters.copy()";
    "del:self._parameters['params']";
    "endif";
    "set:self.params=other";
    "if:not hasattr(self, 'p')";
    "call:hasattr(self, 'p')";
    "if:other.params is None";
    "else";
    "call:other.data()";
    "endif";
    "call:self.register_buffer('p', p, persistent=False)";
    "if:other.params is None";
    "call:self.reset_parameters()";
    "endif";
    "endif";
    "return:self"]);
  ("ParametricTransform.unlink",
   ["call:shallow_copy(self)";
    "call:copy._parameters.copy()";
    "set:copy._parameters=copy._parameters.copy()";
    "call:copy.unlink_()";
    "return:copy.unlink_()"]);
  ("ParametricTransform.unlink_",
   ["set:self.params=None";
    "if:hasattr(self, 'p')";
    "call:hasattr(self, 'p')";
    "call:delattr(self, 'p')";
    "endif";
    "return:self"]);
  ("ParametricTransform.update",
   ["if:hasattr(self, 'p')";
    "call:hasattr(self, 'p')";
    "call:self._data()";
    "call:self.register_buffer('p', p, persistent=False)";
    "endif";
    "call:super().update()";
    "return:self"]);
  ("InvertibleParametricTransform.__init__",
   ["call:super().__init__(grid, groups=groups, params=params)";
    "set:self.invert=bool(invert)"]);
  ("InvertibleParametricTransform.inverse",
   ["call:shallow_copy(self)";
    "if:link";
    "call:inv.link_(self)";
    "endif";
    "set:inv.invert=not self.invert";
    "return:inv"]);
  ("DenseVectorFieldTransform.grid_",
   ["decorator:torch.no_grad()";
    "if:isinstance(params, Tensor)";
    "call:isinstance(params, Tensor)";
    "call:self.axes()";
    "call:prev_grid.reshape(params.shape[2:])";
    "call:FlowFields(params, grid=flow_grid, axes=flow_axes)";
    "call:flow.sample(self.data_grid(grid))";
    "call:self.data_grid(grid)";
    "call:flow.axes(grid_axes)";
    "call:super().grid_(grid)";
    "try";
    "call:self.data_(flow.tensor())";
    "call:flow.tensor()";
    "except:Exception";
    "set:self._grid=prev_grid";
    "raise:";
    "endtry";
    "else";
    "call:super().grid_(grid)";
    "endif";
    "return:self"]);
  ("DenseVectorFieldTransform.evaluate",
   ["if:resize is None";
    "endif";
    "call:self.data()";
    "call:u.view(*u.shape)";
    "if:resize";
    "call:U.grid_reshape(u, grid_shape, align_corners=align_corners)";
    "endif";
    "return:u"]);
  ("DisplacementFieldTransform.update",
   ["call:super().update()";
    "call:self.evaluate()";
    "call:self.register_buffer('u', u, persistent=False)";
    "return:self"]);
  ("StationaryVelocityFieldTransform.grid_",
   ["call:super().grid_(grid)";
    "call:shallow_copy(self.exp)";
    "set:exp.align_corners=grid.align_corners()";
    "set:self.exp=exp";
    "return:self"]);
  ("StationaryVelocityFieldTransform.inverse",
   ["call:shallow_copy(self)";
    "if:link";
    "call:inv.link_(self)";
    "endif";
    "call:cast(ExpFlow, self.exp).inverse()";
    "set:inv.exp=cast(ExpFlow, self.exp).inverse()";
    "if:update_buffers";
    "call:getattr(inv, 'v', None)";
    "if:v is not None";
    "call:inv.exp(v)";
    "call:inv.register_buffer('u', u, persistent=False)";
    "endif";
    "endif";
    "return:inv"]);
  ("StationaryVelocityFieldTransform.update",
   ["call:super().update()";
    "call:self.evaluate()";
    "call:self.exp(v)";
    "call:self.register_buffer('v', v, persistent=False)";
    "call:self.register_buffer('u', u, persistent=False)";
    "return:self"]);
  ("BSplineTransform.grid_",
   ["decorator:torch.no_grad()";
    "if:grid.ndim != current_grid.ndim";
    "raise:ValueError";
    "endif";
    "if:isinstance(params, Tensor)";
    "call:isinstance(params, Tensor)";
    "if:grid.ndim != current_grid.ndim";
    "raise:ValueError";
    "endif";
    "if:not grid.align_corners()";
    "raise:ValueError";
    "endif";
    "if:not grid.same_domain_as(current_grid)";
    "raise:ValueError";
    "endif";
    "for:i in range(grid.ndim)";
    "if:new_size[i] == 2 * current_size[i] - 1";
    "else";
    "if:new_size[i] != current_size[i]";
    "raise:ValueError";
    "endif";
    "endif";
    "endfor";
    "endif";
    "call:self.clear_buffers()";
    "set:self._grid=grid";
    "if:subdivide_dims";
    "call:U.subdivide_cubic_bspline(params, dims=subdivide_dims)";
    "for:dim in subdivide_dims";
    "endfor";
    "call:self.data_(new_params.contiguous())";
    "endif";
    "return:self"]);
  ("BSplineTransform.evaluate_spline",
   ["call:self.data()";
    "if:not grid.align_corners()";
    "raise:AssertionError";
    "endif";
    "call:U.evaluate_cubic_bspline(...)";
    "return:u"]);
  ("FreeFormDeformation.update",
   ["call:super().update()";
    "call:self.evaluate_spline()";
    "call:self.register_buffer('u', u, persistent=False)";
    "return:self"]);
  ("StationaryVelocityFreeFormDeformation.inverse",
   ["call:shallow_copy(self)";
    "if:link";
    "call:inv.link_(self)";
    "endif";
    "call:cast(ExpFlow, self.exp).inverse()";
    "set:inv.exp=cast(ExpFlow, self.exp).inverse()";
    "if:update_buffers";
    "call:getattr(inv, 'v', None)";
    "if:v is not None";
    "call:inv.exp(v)";
    "call:inv.register_buffer('u', u, persistent=False)";
    "endif";
    "endif";
    "return:inv"]);
  ("StationaryVelocityFreeFormDeformation.update",
   ["call:super().update()";
    "call:self.evaluate_spline()";
    "call:self.exp(v)";
    "call:self.register_buffer('v', v, persistent=False)";
    "call:self.register_buffer('u', u, persistent=False)";
    "return:self"]);
  ("CompositeTransform._copy_with_transforms",
   ["call:shallow_copy(self)";
    "call:ModuleDict()";
    "for:(name, transform) in self.named_transforms()";
    "call:self.named_transforms()";
    "if:isinstance(transform, CompositeTransform)";
    "call:isinstance(transform, CompositeTransform)";
    "setitem:transforms[name]";
    "else";
    "call:shallow_copy(transform)";
    "setitem:transforms[name]";
    "endif";
    "endfor";
    "set:copy._transforms=transforms";
    "return:copy"]);
  ("CompositeTransform.condition",
   ["if:args or kwargs";
    "call:self._copy_with_transforms().condition_(*args, **kwargs)";
    "return:...";
    "endif";
    "return:(self._args, self._kwargs)"]);
  ("CompositeTransform.condition_",
   ["assert:args or kwargs";
    "call:super().condition_(*args, **kwargs)";
    "for:transform in self.transforms()";
    "call:self.transforms()";
    "call:transform.condition_(*args, **kwargs)";
    "endfor";
    "return:self"]);
  ("CompositeTransform.grid",
   ["if:grid is None";
    "return:self._grid";
    "endif";
    "call:self._copy_with_transforms().grid_(grid)";
    "return:self._copy_with_transforms().grid_(grid)"]);
  ("CompositeTransform.update",
   ["call:super().update()";
    "for:transform in self.transforms()";
    "call:self.transforms()";
    "call:transform.update()";
    "endfor";
    "return:self"]);
  ("CompositeTransform.clear_buffers",
   ["call:super().clear_buffers()";
    "for:transform in self.transforms()";
    "call:self.transforms()";
    "call:transform.clear_buffers()";
    "endfor";
    "return:self"]);
  ("SequentialTransform.forward",
   ["if:self.linear";
    "call:super().forward(points, grid)";
    "return:super().forward(points, grid)";
    "endif";
    "for:(i, transform) in enumerate(self.transforms())";
    "call:self.transforms()";
    "call:transform.forward(y, grid=grid and i == 0)";
    "endfor";
    "return:y"]);
  ("SequentialTransform.tensor",
   ["if:self.linear";
    "call:self.transforms()";
    "if:not transforms";
    "return:identity.unsqueeze(0)";
    "endif";
    "call:transform.tensor()";
    "for:transform in transforms[1:]";
    "call:homogeneous_matmul(transform.tensor(), mat)";
    "call:transform.tensor()";
    "endfor";
    "return:mat";
    "endif";
    "call:self.disp()";
    "return:self.disp()"]);
  ("SequentialTransform.inverse",
   ["call:shallow_copy(self)";
    "call:ModuleDict()";
    "for:(name, transform) in reversed(self.named_transforms())";
    "call:reversed(self.named_transforms())";
    "call:self.named_transforms()";
    "assert:isinstance(transform, SpatialTransform)";
    "call:transform.inverse(link=link, update_buffers=update_buffers)";
    "setitem:transforms[name]";
    "endfor";
    "set:copy._transforms=transforms";
    "return:copy"]);
  ("ExpFlow.forward",
   ["if:inverse";
    "aug:scaleMult=-1";
    "endif";
    "call:U.expv(x, scale=scale, steps=self.steps, align_corners=self.align_corners)";
    "return:..."]);
  ("ExpFlow.inverse",
   ["call:shallow_copy(self)";
    "aug:copy.scaleMult=-1";
    "return:copy"]);
  ("GenericSpatialTransform.inverse",
   ["call:super().inverse(link=link, update_buffers=update_buffers)";
    "if:link";
    "set:inv.params=self";
    "endif";
    "return:inv"]);
  ("GenericSpatialTransform.update",
   ["if:self.params is not None";
    "call:self._data()";
    "for:(k, p) in params.items()";
    "call:transform.data_(p)";
    "endfor";
    "endif";
    "call:super().update()";
    "return:self"])].

Lemma skeleton_unchanged : gen_skeleton = expected_skeleton.
Proof. reflexivity. Qed.

Lemma gen_cfg_all : cfg_all gen_cfg = true.
Proof. vm_compute. reflexivity. Qed.

Lemma generic_inverse_ok : gen_generic_inverse_ok = true.
Proof. vm_compute. reflexivity. Qed.

Lemma accessor_private_ok : gen_accessor_private = true.
Proof. vm_compute. reflexivity. Qed.

Lemma regrid_reads_old_lattice_ok : gen_regrid_reads_old_lattice = true.
Proof. vm_compute. reflexivity. Qed.
Lemma deepcopy_clones_ok : gen_deepcopy_clones = true.
Proof. vm_compute. reflexivity. Qed.
