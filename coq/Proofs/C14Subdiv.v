(* C14: subdivision of the control grid and refinement of a free-form deformation's image grid keep the spline. *)
From Coq Require Import ZArith List Field Ring Lia Bool.
From DV Require Import Base.Field Base.FieldFacts Base.LinAlg Base.Tactics Model.BSplineBase Gen.BSpline Model.BSpline
  Proofs.C14Tac Proofs.C14Weights Proofs.C14Ctrl Proofs.C14Eval.
Import ListNotations.
Local Open Scope fld_scope.

Section Proofs.
Variable K : fld.
Hypothesis Kf : is_field K.
Hypothesis Kc : char0 K.
Add Field KF : Kf.
Ltac side := refold K; repeat split; auto; nz Kc.

(* ---------- two-scale relation as polynomial identities (any four consecutive coefficients) ---------- *)
(* first half of a coarse cell: fine cell starting at the new coefficient between c0 and c1 *)
Lemma two_scale_first (d : nat) (u c0 c1 c2 c3 : K) :
  pow2 d * (nth 0 (gen_w d u) 0 * gen_sub_odd c0 c1 + nth 1 (gen_w d u) 0 * gen_sub_even c0 c1 c2
            + nth 2 (gen_w d u) 0 * gen_sub_odd c1 c2 + nth 3 (gen_w d u) 0 * gen_sub_even c1 c2 c3)
  = nth 0 (gen_w d (u / (1 + 1))) 0 * c0 + nth 1 (gen_w d (u / (1 + 1))) 0 * c1
    + nth 2 (gen_w d (u / (1 + 1))) 0 * c2 + nth 3 (gen_w d (u / (1 + 1))) 0 * c3.
Proof. destruct d as [|[|[|[|d]]]]; fcbv; field; side. Qed.

(* second half: fine cell starting at the new coefficient at c1's predecessor position ... *)
Lemma two_scale_second (d : nat) (u c0 c1 c2 c3 : K) :
  pow2 d * (nth 0 (gen_w d u) 0 * gen_sub_even c0 c1 c2 + nth 1 (gen_w d u) 0 * gen_sub_odd c1 c2
            + nth 2 (gen_w d u) 0 * gen_sub_even c1 c2 c3 + nth 3 (gen_w d u) 0 * gen_sub_odd c2 c3)
  = nth 0 (gen_w d ((1 + u) / (1 + 1))) 0 * c0 + nth 1 (gen_w d ((1 + u) / (1 + 1))) 0 * c1
    + nth 2 (gen_w d ((1 + u) / (1 + 1))) 0 * c2 + nth 3 (gen_w d ((1 + u) / (1 + 1))) 0 * c3.
Proof. destruct d as [|[|[|[|d]]]]; fcbv; field; side. Qed.

(* the two-scale relation of the basis function itself: B(x) = sum_k h_k B(2 x - k), h = 1/8 (1, 4, 6, 4, 1),
   read off the stencils: a single unit coefficient subdivides to (1/8, 1/2, 3/4, 1/2, 1/8) *)
Lemma stencil_masks :
  @gen_sub_even K 0 0 1 = of_Q 1 8 /\ @gen_sub_odd K 0 1 = of_Q 1 2 /\ @gen_sub_even K 0 1 0 = of_Q 3 4 /\
  @gen_sub_odd K 1 0 = of_Q 1 2 /\ @gen_sub_even K 1 0 0 = of_Q 1 8.
Proof. repeat split; fcbv; field; side. Qed.

(* ---------- the list model ---------- *)
Definition prev (c : list K) (i : nat) : K := match i with O => 0 | S j => nth j c 0 end.

Lemma nth_subdiv_from (c : list K) : forall (l : K) (i : nat),
  ((i < length c)%nat -> nth (2 * i) (subdiv_from l c) 0 =
      gen_sub_even (match i with O => l | S j => nth j c 0 end) (nth i c 0) (nth (i + 1) c 0)) /\
  ((i + 1 < length c)%nat -> nth (2 * i + 1) (subdiv_from l c) 0 = gen_sub_odd (nth i c 0) (nth (i + 1) c 0)).
Proof.
  induction c as [|b r IH]; intros l i; [split; intro H; cbn in H; lia|].
  destruct r as [|cn r'].
  - split; intro H; cbn [length] in H; [|lia]. assert (i = 0)%nat by lia. subst. reflexivity.
  - change (subdiv_from l (b :: cn :: r')) with
      (gen_sub_even l b cn :: gen_sub_odd b cn :: subdiv_from b (cn :: r')).
    destruct i as [|i].
    + split; intro H; reflexivity.
    + destruct (IH b i) as [IHe IHo]. split; intro H.
      * replace (2 * S i)%nat with (S (S (2 * i))) by lia. cbn [nth]. rewrite IHe by (cbn [length] in *; lia).
        replace (S i + 1)%nat with (S (i + 1)) by lia. destruct i; reflexivity.
      * replace (2 * S i + 1)%nat with (S (S (2 * i + 1))) by lia. cbn [nth]. rewrite IHo by (cbn [length] in *; lia).
        replace (S i + 1)%nat with (S (i + 1)) by lia. reflexivity.
Qed.

Lemma nth_subdiv_even (c : list K) (i : nat) : (i < length c)%nat ->
  nth (2 * i) (subdiv1 c) 0 = gen_sub_even (prev c i) (nth i c 0) (nth (i + 1) c 0).
Proof. intro H. unfold subdiv1. destruct (nth_subdiv_from c 0 i) as [E _]. rewrite E by exact H. destruct i; reflexivity. Qed.

Lemma nth_subdiv_odd (c : list K) (i : nat) : (i + 1 < length c)%nat ->
  nth (2 * i + 1) (subdiv1 c) 0 = gen_sub_odd (nth i c 0) (nth (i + 1) c 0).
Proof. intro H. unfold subdiv1. destruct (nth_subdiv_from c 0 i) as [_ E]. apply E. exact H. Qed.

Lemma length_subdiv_from (c : list K) : forall l, c <> [] -> length (subdiv_from l c) = (2 * length c - 1)%nat.
Proof.
  induction c as [|b r IH]; intros l H; [congruence|].
  destruct r as [|cn r']; [reflexivity|].
  change (subdiv_from l (b :: cn :: r')) with (gen_sub_even l b cn :: gen_sub_odd b cn :: subdiv_from b (cn :: r')).
  cbn [length]. rewrite IH by congruence. cbn [length]. lia.
Qed.

(* subdivision keeps the spline on its whole domain: coarse cell q (coefficients q .. q+3), both halves, all
   derivative orders (chain rule factor 2^d), every list of coefficients *)
Lemma subdivision_preserves (d : nat) (c : list K) (q : nat) (u : K) : (q + 3 < length c)%nat ->
  pow2 d * spl (gen_w d u) (subdiv1 c) (2 * q + 1) = spl (gen_w d (u / (1 + 1))) c q /\
  pow2 d * spl (gen_w d u) (subdiv1 c) (2 * q + 2) = spl (gen_w d ((1 + u) / (1 + 1))) c q.
Proof.
  intro H. unfold spl, spl_f.
  replace (2 * q + 1 + 1)%nat with (2 * (q + 1))%nat by lia.
  replace (2 * q + 1 + 2)%nat with (2 * (q + 1) + 1)%nat by lia.
  replace (2 * q + 1 + 3)%nat with (2 * (q + 2))%nat by lia.
  replace (2 * q + 2)%nat with (2 * (q + 1))%nat by lia.
  replace (2 * (q + 1) + 2)%nat with (2 * (q + 2))%nat by lia.
  replace (2 * (q + 1) + 3)%nat with (2 * (q + 2) + 1)%nat by lia.
  rewrite !nth_subdiv_odd, !nth_subdiv_even by lia.
  replace (q + 1 + 1)%nat with (q + 2)%nat by lia. replace (q + 2 + 1)%nat with (q + 3)%nat by lia.
  replace (prev c (q + 1)) with (nth q c 0) by (replace (q + 1)%nat with (S q) by lia; reflexivity).
  replace (prev c (q + 2)) with (nth (q + 1) c 0) by (replace (q + 2)%nat with (S (q + 1)) by lia; reflexivity).
  split; [apply two_scale_first|apply two_scale_second].
Qed.

(* ---------- refinement of the image grid (BSplineTransform.grid_) ---------- *)
Lemma nth_skipn1 (l : list K) (j : nat) : nth j (skipn 1 l) 0 = nth (S j) l 0.
Proof. destruct l; [destruct j; reflexivity|reflexivity]. Qed.

Definition drop_keep (n2 : nat) (c : list K) : list K := firstn n2 (skipn 1 (subdiv1 c)).

Lemma half_cell (sg x : nat) : (1 <= sg)%nat ->
  let Q := (x / (2 * sg))%nat in let O := (x mod (2 * sg))%nat in
  ((O < sg)%nat /\ (x / sg = 2 * Q)%nat /\ (x mod sg = O)%nat) \/
  ((sg <= O)%nat /\ (x / sg = 2 * Q + 1)%nat /\ (x mod sg = O - sg)%nat).
Proof.
  intros Hs Q O. pose proof (Nat.div_mod x (2 * sg) ltac:(lia)) as E.
  pose proof (Nat.mod_upper_bound x (2 * sg) ltac:(lia)) as U. fold Q in E. fold O in E, U.
  destruct (Nat.lt_ge_cases O sg) as [L|G]; [left|right]; split; auto.
  - destruct (Nat.div_mod_unique sg (2 * Q) (x / sg) O (x mod sg)) as [A B]; [exact L| | |split; lia].
    + apply Nat.mod_upper_bound; lia.
    + rewrite <- Nat.div_mod by lia. lia.
  - destruct (Nat.div_mod_unique sg (2 * Q + 1) (x / sg) (O - sg) (x mod sg)) as [A B]; [lia| | |split; lia].
    + apply Nat.mod_upper_bound; lia.
    + rewrite <- Nat.div_mod by lia. nia.
Qed.

(* one refinement step, evaluation stride sg: the refined coefficients with stride sg are the old ones with stride 2 sg *)
Lemma refine_step_at (d sg n2 : nat) (c : list K) (x : nat) : (1 <= sg)%nat ->
  (x / sg + 3 < n2)%nat -> (x / (2 * sg) + 3 < length c)%nat ->
  pow2 d * spl (wrow d sg (x mod sg)) (drop_keep n2 c) (x / sg) = spl (wrow d (2 * sg) (x mod (2 * sg))) c (x / (2 * sg)).
Proof.
  intros Hs R2 R1.
  assert (E : spl (wrow d sg (x mod sg)) (drop_keep n2 c) (x / sg) = spl (wrow d sg (x mod sg)) (subdiv1 c) (x / sg + 1)).
  { unfold spl. pose proof (spl_f_ext K (wrow d sg (x mod sg))) as X.
    transitivity (spl_f (wrow d sg (x mod sg)) (fun i => nth (S i) (subdiv1 c) 0) (x / sg)).
    - apply X. intros k Hk. unfold drop_keep. rewrite nth_firstn_lt by lia. apply nth_skipn1.
    - unfold spl_f. repeat (f_equal; try lia). }
  rewrite E. clear E.
  pose proof (zn_nz K Kf Kc sg Hs) as Hb.
  assert (Hb2 : @zn K (2 * sg) = (1 + 1) * zn sg).
  { rewrite (zn_mul K Kf). f_equal. fcbv. ring. }
  assert (H2 : (1 + 1 : K) <> 0) by (apply two_nz; assumption).
  destruct (half_cell sg x Hs) as [[L [Eq Eo]]|[G [Eq Eo]]]; rewrite Eq, Eo; unfold wrow.
  - destruct (subdivision_preserves d c (x / (2 * sg)) (zn (x mod (2 * sg)) / zn sg) R1) as [P _].
    rewrite P. f_equal. f_equal. rewrite Hb2. field. split; assumption.
  - destruct (subdivision_preserves d c (x / (2 * sg)) (zn (x mod (2 * sg) - sg) / zn sg) R1) as [_ P].
    replace (2 * (x / (2 * sg)) + 1 + 1)%nat with (2 * (x / (2 * sg)) + 2)%nat by lia.
    rewrite P. f_equal. f_equal. rewrite Hb2.
    replace (@zn K (x mod (2 * sg))) with (@zn K (x mod (2 * sg) - sg) + zn sg)
      by (rewrite <- (zn_add K Kf); f_equal; lia).
    field. split; assumption.
Qed.

Lemma refine_step (d sg n2 M : nat) (c : list K) : (1 <= sg)%nat ->
  (forall x, (x < M)%nat -> (x / sg + 3 < n2)%nat /\ (x / (2 * sg) + 3 < length c)%nat) ->
  map (fmul (pow2 d)) (ev1 d sg (drop_keep n2 c) M) = ev1 d (2 * sg) c M.
Proof.
  intros Hs R. unfold ev1. rewrite map_map. apply map_ext_in. intros x Hx. apply in_seq in Hx.
  destruct (R x ltac:(lia)) as [R2 R1]. apply refine_step_at; assumption.
Qed.

Ltac Zify.zify_post_hook ::= Z.to_euclidean_division_equations.

Lemma refine1_is_drop_keep (s m : nat) (c : list K) : (1 <= s)%nat -> (1 <= m)%nat ->
  refine1 s m c = drop_keep (ctrl_size (2 * m - 1) s) c.
Proof.
  intros Hs Hm. unfold refine1, drop_keep, ctrl_size. do 2 f_equal.
  rewrite Nat2Z.inj_sub, Nat2Z.inj_mul by lia. reflexivity.
Qed.

Lemma length_refine1 (s m : nat) (c : list K) : (1 <= s)%nat -> (1 <= m)%nat -> length c = ctrl_size m s ->
  length (refine1 s m c) = ctrl_size (2 * m - 1) s.
Proof.
  intros Hs Hm Hc. rewrite refine1_is_drop_keep by assumption. unfold drop_keep.
  rewrite firstn_length, skipn_length. unfold subdiv1.
  pose proof (ctrl_size_ge4 (Z.of_nat m) (Z.of_nat s) ltac:(lia) ltac:(lia)) as G.
  pose proof (ctrl_size_nat m s Hm Hs) as Em. pose proof (ctrl_size_nat (2 * m - 1) s ltac:(lia) Hs) as E2.
  pose proof (refine_size_fits (Z.of_nat m) (Z.of_nat s) ltac:(lia) ltac:(lia)) as F.
  rewrite length_subdiv_from by (intro X; rewrite X in Hc; cbn in Hc; lia).
  rewrite Hc. replace (Z.of_nat (2 * m - 1)) with (2 * Z.of_nat m - 1)%Z in E2 by lia. lia.
Qed.

(* samples of the refined grid: x < 2 m - 1; any evaluation stride sg = e * s with e >= 1 and M <= e (2 m - 2) + 1 *)
Lemma refine_ranges (s m e x : nat) : (1 <= s)%nat -> (1 <= m)%nat -> (1 <= e)%nat -> (x < e * (2 * m - 2) + 1)%nat ->
  (x / (e * s) + 3 < ctrl_size (2 * m - 1) s)%nat /\ (x / (2 * (e * s)) + 3 < ctrl_size m s)%nat.
Proof.
  intros Hs Hm He Hx.
  assert (A : (x / (e * s) <= (2 * m - 2) / s)%nat).
  { rewrite <- Nat.div_div by lia. apply Nat.div_le_mono; [lia|].
    apply Nat.div_le_upper_bound; lia. }
  assert (B : (x / (2 * (e * s)) <= (m - 1) / s)%nat).
  { replace (2 * (e * s))%nat with ((2 * e) * s)%nat by lia. rewrite <- Nat.div_div by lia.
    apply Nat.div_le_mono; [lia|]. apply Nat.div_le_upper_bound; lia. }
  pose proof (ctrl_nat_in_range (2 * m - 1) s (2 * m - 2) Hs ltac:(lia)).
  pose proof (ctrl_nat_in_range m s (m - 1) Hs ltac:(lia)). lia.
Qed.

(* BSplineTransform.grid_: the refined transformation evaluates, on the refined image grid, the same spline (the old
   coefficients seen with twice the stride); all sizes, strides, derivative orders *)
Lemma refine_preserves (d s m : nat) (c : list K) : (1 <= s)%nat -> (1 <= m)%nat -> length c = ctrl_size m s ->
  map (fmul (pow2 d)) (ev1 d s (refine1 s m c) (2 * m - 1)) = ev1 d (2 * s) c (2 * m - 1).
Proof.
  intros Hs Hm Hc. rewrite refine1_is_drop_keep by assumption. apply refine_step; [exact Hs|].
  intros x Hx. rewrite Hc. pose proof (refine_ranges s m 1 x Hs Hm ltac:(lia) ltac:(lia)) as R.
  rewrite !Nat.mul_1_l in R. exact R.
Qed.

(* ... and at the samples of the old grid (every second sample) the values are the old values *)
Lemma coarse_samples (d s : nat) (c : list K) (m x : nat) : (1 <= s)%nat -> (x < m)%nat ->
  nth (2 * x) (ev1 d (2 * s) c (2 * m - 1)) 0 = nth x (ev1 d s c m) 0.
Proof.
  intros Hs Hx. rewrite !(nth_ev1 K) by lia.
  rewrite Nat.div_mul_cancel_l, Nat.mul_mod_distr_l by lia. unfold wrow.
  do 2 f_equal. rewrite !(zn_mul K Kf). field. split; [apply zn_nz; assumption|].
  change (@zn K 2) with (@of_Z K 2). apply of_Z_nz; auto. lia.
Qed.

Lemma refine_keeps_samples (s m : nat) (c : list K) (x : nat) : (1 <= s)%nat -> (x < m)%nat -> length c = ctrl_size m s ->
  nth (2 * x) (ev1 0 s (refine1 s m c) (2 * m - 1)) 0 = nth x (ev1 0 s c m) 0.
Proof.
  intros Hs Hx Hc. rewrite <- (coarse_samples 0 s c m x Hs Hx).
  rewrite <- (refine_preserves 0 s m c Hs ltac:(lia) Hc).
  set (L := ev1 0 s (refine1 s m c) (2 * m - 1)).
  assert (HL : (2 * x < length L)%nat) by (unfold L, ev1; rewrite map_length, seq_length; lia).
  rewrite (nth_indep (map (fmul (pow2 0)) L) 0 (fmul (pow2 0) 0)) by (rewrite map_length; exact HL).
  rewrite map_nth. cbn [pow2]. ring.
Qed.

(* repeated refinement, by induction on the number of steps *)
Fixpoint pow2n (k : nat) : nat := match k with O => 1%nat | S k' => (2 * pow2n k')%nat end.

Lemma pow2n_pos k : (1 <= pow2n k)%nat.
Proof. induction k; cbn; lia. Qed.

Lemma size_n_val (k m : nat) : (1 <= m)%nat -> size_n k m = (pow2n k * (m - 1) + 1)%nat.
Proof.
  revert m. induction k as [|k IH]; intros m Hm; cbn [size_n pow2n]; [lia|].
  rewrite IH by lia. nia.
Qed.

Lemma refine_n_general (k : nat) : forall (s m e : nat) (c : list K),
  (1 <= s)%nat -> (1 <= m)%nat -> (1 <= e)%nat -> length c = ctrl_size m s ->
  ev1 0 (e * s) (refine_n k s m c) (e * (size_n k m - 1) + 1) = ev1 0 (pow2n k * (e * s)) c (e * (size_n k m - 1) + 1).
Proof.
  induction k as [|k IH]; intros s m e c Hs Hm He Hc.
  - cbn [refine_n pow2n]. rewrite Nat.mul_1_l. reflexivity.
  - cbn [refine_n size_n pow2n].
    rewrite IH by (auto; try lia; apply length_refine1; assumption).
    rewrite refine1_is_drop_keep by assumption.
    pose proof (pow2n_pos k) as P.
    pose proof (refine_step 0 (pow2n k * (e * s)) (ctrl_size (2 * m - 1) s) (e * (size_n k (2 * m - 1) - 1) + 1) c ltac:(nia)) as S.
    cbn [pow2] in S.
    rewrite <- (Nat.mul_assoc 2), <- S.
    + rewrite <- (map_id (ev1 0 _ (drop_keep _ c) _)) at 1. apply map_ext. intro v. ring.
    + intros x Hx. rewrite Hc. rewrite size_n_val in Hx by lia.
      replace (pow2n k * (e * s))%nat with ((pow2n k * e) * s)%nat by lia.
      apply refine_ranges; try assumption; nia.
Qed.

Lemma refine_n_preserves (k s m : nat) (c : list K) : (1 <= s)%nat -> (1 <= m)%nat -> length c = ctrl_size m s ->
  ev1 0 s (refine_n k s m c) (size_n k m) = ev1 0 (pow2n k * s) c (size_n k m).
Proof.
  intros Hs Hm Hc. pose proof (refine_n_general k s m 1 c Hs Hm ltac:(lia) Hc) as G.
  rewrite !Nat.mul_1_l in G.
  assert (E : (size_n k m - 1 + 1 = size_n k m)%nat) by (rewrite size_n_val by assumption; generalize (pow2n k * (m - 1))%nat; intros; lia).
  rewrite E in G. exact G.
Qed.
End Proofs.
