"""Implementation-side runner for C11 / C13 (runs against /repo's working tree): expv, ExpFlow, SVF transform buffers,
compose_flows, lie_bracket, compose_svfs, logv."""
import json
import math
import random
import sys
from fractions import Fraction

import torch

from vlib import emit_json

from deepali.core import flow as FL
from deepali.core.grid import Grid
from deepali.modules.flow import ExpFlow

DT = {"float32": torch.float32, "float64": torch.float64}


def err(e):
    return {"error": type(e).__name__, "msg": str(e)[:200]}


def T(x, dtype):
    return torch.tensor(x, dtype=DT[dtype])


def out(t):
    return t.to(torch.float64).tolist()


# ------------------------------------------------------------------------------------------------
# correspondence: evaluate the modelled functions on given inputs
# ------------------------------------------------------------------------------------------------
def model_cases(p):
    res = []
    for c in p["cases"]:
        try:
            k = c["kind"]
            dt = c.get("dtype", "float64")
            if k == "expv":
                f = T(c["flow"], dt)
                r = FL.expv(f, scale=c["scale"], steps=c["steps"], align_corners=c["ac"], inverse=c["inverse"])
                res.append({"val": out(r), "dtype": str(r.dtype), "shape": list(r.shape)})
            elif k == "expv_step":
                f = T(c["flow"], dt)
                d = FL.expv(f, scale=c["scale"], steps=c["steps"], align_corners=c["ac"])
                e = FL.expv(f * 2, scale=c["scale"], steps=c["steps"] + 1, align_corners=c["ac"])
                res.append({"d": out(d), "val": out(e)})
            elif k == "expflow":
                f = T(c["flow"], dt)
                m = ExpFlow(scale=c["scale"], steps=c["steps"], align_corners=c["ac"])
                if c["how"] == "inverse()":
                    r = m.inverse()(f)
                elif c["how"] == "inv":
                    r = m.inv(f)
                elif c["how"] == "forward(inverse=True)":
                    r = m(f, inverse=True)
                else:
                    r = m(f)
                res.append({"val": out(r)})
            elif k == "compose":
                u = T(c["u"], dt)
                v = T(c["v"], dt)
                r = FL.compose_flows(u, v, align_corners=c["ac"]) if c["ac"] is not None else FL.compose_flows(u, v)
                res.append({"val": out(r), "shape": list(r.shape)})
            elif k == "lie":
                v = T(c["v"], dt)
                u = T(c["u"], dt)
                r = FL.lie_bracket(v, u, mode=c["mode"], spacing=c.get("spacing"))
                jv = FL.jacobian_dict(v, mode=c["mode"], spacing=c.get("spacing"))
                ju = FL.jacobian_dict(u, mode=c["mode"], spacing=c.get("spacing"))
                D = v.shape[1]
                res.append({"val": out(r),
                            "jv": [[out(jv[(i, j)][:, 0]) for j in range(D)] for i in range(D)],
                            "ju": [[out(ju[(i, j)][:, 0]) for j in range(D)] for i in range(D)]})
            elif k == "bch":
                v = T(c["v"], dt)
                u = T(c["u"], dt)
                r = FL.compose_svfs(u, v, bch_terms=c["terms"], mode=c["mode"], spacing=c.get("spacing"))
                lb = lambda a, b: FL.lie_bracket(a, b, mode=c["mode"], spacing=c.get("spacing"))
                vu = lb(v, u)
                vvu = lb(v, vu)
                uvu = lb(u, vu)
                uvvu = lb(u, vvu)
                res.append({"val": out(r), "vu": out(vu), "vvu": out(vvu), "uvu": out(uvu), "uvvu": out(uvvu)})
            else:
                res.append({"error": "unknown kind"})
        except Exception as e:  # noqa
            res.append(err(e))
    return res


# ------------------------------------------------------------------------------------------------
# exact closed form
# ------------------------------------------------------------------------------------------------
def ncoord(ac, n, i):
    if n == 1:
        return Fraction(0)
    return Fraction(2 * i, n - 1) - 1 if ac else Fraction(2 * i + 1, n) - 1


def hull_half(ac, n):
    return Fraction(1) if ac else Fraction(n - 1, n)


def hmul(B, A):
    """homogeneous D x (D+1) product: B o A"""
    D = len(A)
    return [[sum(B[i][m] * A[m][j] for m in range(D)) + (B[i][D] if j == D else 0) for j in range(D + 1)] for i in range(D)]


def hone_plus(c, G):
    D = len(G)
    return [[(1 if i == j else 0) + c * G[i][j] for j in range(D + 1)] for i in range(D)]


def hull_invariant(A, r):
    D = len(A)
    return all(sum(abs(A[a][b]) * r[b] for b in range(D)) + abs(A[a][D]) <= r[a] for a in range(D))


def happly(A, x):
    D = len(A)
    return [sum(A[i][j] * x[j] for j in range(D)) + A[i][D] for i in range(D)]


def lattice(shape):
    """all multi-indices in tensor order (.., y, x)"""
    idx = [[]]
    for n in shape:
        idx = [i + [j] for i in idx for j in range(n)]
    return idx


def field_of(fn, shape, ac):
    """(D, *shape) nested list of Fractions of x -> fn(x) sampled at the lattice (x in (x, y, z) order)"""
    D = len(shape)

    def rec(prefix, dims, c):
        if not dims:
            x = [ncoord(ac, shape[D - 1 - a], prefix[D - 1 - a]) for a in range(D)]
            return fn(x)[c]
        return [rec(prefix + [j], dims[1:], c) for j in range(dims[0])]
    return [rec([], list(shape), c) for c in range(D)]


def tofloat(x):
    if isinstance(x, list):
        return [tofloat(y) for y in x]
    return float(x)


def maxdiff(t, ref):
    """max |t - ref| with ref nested Fractions (converted to float64)"""
    return float((t.to(torch.float64) - torch.tensor(tofloat(ref), dtype=torch.float64)).abs().max())


def rand_generator(rng, D, shape, ac, c, bits=5):
    """dyadic generator G = [H | h] such that I + c G keeps the sample hull invariant (c > 0)"""
    r = [hull_half(ac, shape[D - 1 - a]) for a in range(D)]
    q = 2 ** bits
    for _ in range(200):
        G = [[Fraction(rng.randint(-q, q), q) for _ in range(D + 1)] for _ in range(D)]
        for a in range(D):
            G[a][a] = -Fraction(rng.randint(1, q), q)
        if rng.random() < 0.2:
            G[rng.randrange(D)][D] = Fraction(0)
        for _ in range(12):
            if hull_invariant(hone_plus(c, G), r) and all(
                    sum(abs(G[a][b]) * r[b] for b in range(D) if b != a) + abs(G[a][D]) <= -G[a][a] * r[a] for a in range(D)):
                return G
            # shrink the off-diagonal part / the whole generator
            if rng.random() < 0.5:
                G = [[G[a][b] if a == b else G[a][b] / 2 for b in range(D + 1)] for a in range(D)]
            else:
                G = [[G[a][b] / 2 for b in range(D + 1)] for a in range(D)]
    raise RuntimeError("no invariant generator found")


def closed_form(G, c, k, shape, ac):
    A = hone_plus(c, G)
    for _ in range(k):
        A = hmul(A, A)
    return field_of(lambda x: [y - xi for y, xi in zip(happly(A, x), x)], shape, ac), A


def expm_h(G):
    """homogeneous matrix exponential of [H | h] through the (D+1) x (D+1) embedding"""
    D = len(G)
    M = torch.zeros(D + 1, D + 1, dtype=torch.float64)
    M[:D] = torch.tensor(tofloat(G), dtype=torch.float64)
    E = torch.linalg.matrix_exp(M)
    return E[:D]


# ------------------------------------------------------------------------------------------------
# the property itself, evaluated on the implementation
# ------------------------------------------------------------------------------------------------
def oracle(p):
    rng = random.Random(p["seed"])
    n = p["n"]
    fails = []
    counts = {}

    def fail(key, what, case):
        fails.append({"key": key, "what": what, "case": case})

    def count(k):
        counts[k] = counts.get(k, 0) + 1

    tol = {"float32": 5e-5, "float64": 1e-10}
    for it in range(n):
        D = rng.choice([2, 3])
        shape = tuple(rng.randint(2, 7 if D == 2 else 5) for _ in range(D))
        ac = rng.random() < 0.5
        k = it % 9
        dt = "float32" if rng.random() < 0.4 else "float64"
        scale = rng.choice([1, 1, 0.5, 2, 1.5, -1, 0.25])
        inverse = rng.random() < 0.3
        s = Fraction(scale) * (-1 if inverse else 1)
        N = rng.choice([1, 1, 2, 3])
        c = s / 2 ** k
        case = {"D": D, "shape": list(shape), "ac": ac, "steps": k, "dtype": dt, "scale": scale, "inverse": inverse, "N": N}
        # generators keeping the hull invariant under I + |c| G; the sign of c is put into the generator
        sgn = 1 if c > 0 else -1
        Gs = [rand_generator(rng, D, shape, ac, abs(c)) for _ in range(N)]
        Gs = [[[sgn * x for x in row] for row in G] for G in Gs]   # v = sgn * (H x + h): then c * v = |c| (H x + h)
        vel = [field_of(lambda x, G=G: happly(G, x), shape, ac) for G in Gs]
        case["G"] = [[[str(x) for x in row] for row in G] for G in Gs]
        v = torch.tensor(tofloat(vel), dtype=DT[dt])
        try:
            r = FL.expv(v, scale=scale, steps=k, align_corners=ac, inverse=inverse)
        except Exception as e:  # noqa
            fail("C11:expv:raises", f"expv raised {type(e).__name__}: {e}", case)
            continue
        count(f"closed-form:D{D}:ac={ac}:{dt}")
        want = [closed_form(G, c, k, shape, ac)[0] for G in Gs]
        d = maxdiff(r, want)
        amp = float(torch.tensor(tofloat(want)).abs().max())
        if not d <= tol[dt] * (1 + amp):
            kind = "steps-zero" if k == 0 else "affine-closed-form"
            fail(f"C11:expv:{kind}:align_corners={ac}",
                 f"expv(steps={k}, scale={scale}, inverse={inverse}, align_corners={ac}, {dt}) on the affine velocity field "
                 f"of an invariant generator, shape {shape}, N={N}: max deviation {d:.3g} from the displacement of "
                 f"(I + G c)^(2^k) (amplitude {amp:.3g})", case)
        # the inverse flag = negated scale = negated field
        try:
            a = FL.expv(v, scale=scale, steps=k, align_corners=ac, inverse=not inverse)
            b = FL.expv(v, scale=-scale, steps=k, align_corners=ac, inverse=inverse)
            cneg = FL.expv(-v, scale=scale, steps=k, align_corners=ac, inverse=inverse)
            count("inverse-flag")
            dd = max(float((a - b).abs().max()), float((a - cneg).abs().max()))
            if not dd <= 1e-12:
                fail("C11:expv:inverse-flag", f"inverse=True, scale=-scale and negated field differ by {dd:.3g} "
                                              f"(steps={k}, align_corners={ac})", case)
        except Exception as e:  # noqa
            fail("C11:expv:inverse-flag", f"raised {type(e).__name__}: {e}", case)
        # module wrapper
        try:
            m = ExpFlow(scale=scale, steps=k, align_corners=ac)
            sc2 = -scale if inverse else scale
            m2 = ExpFlow(scale=sc2, steps=k, align_corners=ac)
            count("ExpFlow")
            d1 = float((m2(v) - r).abs().max())
            if not d1 <= 1e-12:
                fail("C11:ExpFlow:forward", f"ExpFlow(scale={sc2}, steps={k}, align_corners={ac})(v) differs from expv by {d1:.3g}", case)
            d2 = max(float((m.inverse()(v) - m(v, inverse=True)).abs().max()), float((m.inv(v) - m(v, inverse=True)).abs().max()),
                     float((m(v, inverse=True) - FL.expv(v, scale=-scale, steps=k, align_corners=ac)).abs().max()))
            if not d2 <= 1e-12:
                fail("C11:ExpFlow:inverse", f"ExpFlow.inverse() / .inv / forward(inverse=True) differ from expv(-scale) by {d2:.3g}", case)
            if m.inverse().scale != -m.scale or m.scale != float(scale):
                fail("C11:ExpFlow:inverse", "ExpFlow.inverse() modifies the original module or does not negate the scale", case)
        except Exception as e:  # noqa
            fail("C11:ExpFlow:raises", f"raised {type(e).__name__}: {e}", case)
        # buffers of the stationary velocity field transform
        if it % 3 == 0:
            try:
                from deepali.spatial import StationaryVelocityFieldTransform
                grid = Grid(size=tuple(reversed(shape)), align_corners=ac)
                tr = StationaryVelocityFieldTransform(grid, params=v.clone(), scale=float(s), steps=k)
                tr.update()
                count("SVF-transform")
                dv = float((tr.v - v).abs().max())
                du = maxdiff(tr.u, want)
                if not dv <= 1e-12:
                    fail("C11:StationaryVelocityFieldTransform:v-buffer", f"buffer v differs from the parameters by {dv:.3g}", case)
                if not du <= tol[dt] * (1 + amp):
                    fail("C11:StationaryVelocityFieldTransform:u-buffer",
                         f"buffer u differs from the closed form by {du:.3g} (steps={k}, align_corners={ac}, {dt})", case)
                inv = tr.inverse(update_buffers=True)
                wi = FL.expv(v, scale=-float(s), steps=k, align_corners=ac)
                di = float((inv.u - wi).abs().max())
                if not di <= 1e-12:
                    fail("C11:StationaryVelocityFieldTransform:inverse-u-buffer",
                         f"inverse(update_buffers=True).u differs from expv(-scale) by {di:.3g}", case)
                # the grid (and with it the align_corners convention) replaced after construction: grid_() in place, grid() on a copy
                for how in ("grid_", "grid"):
                    g_old = Grid(size=tuple(reversed(shape)), align_corners=not ac)
                    t0 = StationaryVelocityFieldTransform(g_old, params=torch.zeros_like(v), scale=float(s), steps=k)
                    t0.update()
                    t1 = t0.grid_(grid) if how == "grid_" else t0.grid(grid)
                    t1.data_(v.clone())
                    t1.update()
                    count(f"SVF-transform:{how}-switches-flag")
                    du = maxdiff(t1.u, want)
                    if t1.exp.align_corners != ac or not du <= tol[dt] * (1 + amp):
                        fail(f"C11:StationaryVelocityFieldTransform:{how}:u-buffer",
                             f"after {how}(grid with align_corners={ac}) on a transform built with align_corners={not ac}: exp.align_corners="
                             f"{t1.exp.align_corners}, buffer u differs from the closed form by {du:.3g} (steps={k}, {dt})", case)
            except Exception as e:  # noqa
                fail("C11:StationaryVelocityFieldTransform:raises", f"raised {type(e).__name__}: {e}", case)

    # buffers of the cubic B-spline stationary velocity transform (align_corners=True grids only): u = expv(v) with the module's
    # scale / steps, and the inverse transform's u = expv(v) with the NEGATED scale and the same steps
    for it in range(max(6, n // 10)):
        D = rng.choice([2, 3])
        size = tuple(rng.randint(6, 10 if D == 2 else 7) for _ in range(D))
        k = [0, 1, 2, 3, 4, 6][it % 6]
        scale = rng.choice([1.0, 0.5, 2.0, -1.0])
        stride = rng.choice([1, 2, 3])
        case = {"D": D, "size": list(size), "steps": k, "scale": scale, "stride": stride}
        try:
            from deepali.spatial import StationaryVelocityFreeFormDeformation
            tr = StationaryVelocityFreeFormDeformation(Grid(size=size, align_corners=True), stride=stride, scale=scale, steps=k)
            gen = torch.Generator().manual_seed(rng.randrange(10 ** 6))
            tr.data_((torch.rand(tr.data().shape, generator=gen) - 0.5) * 0.3)
            tr.update()
            count("SVFFD-transform")
            du = float((tr.u - FL.expv(tr.v, scale=scale, steps=k, align_corners=True)).abs().max())
            if not du <= 1e-12:
                fail("C11:StationaryVelocityFreeFormDeformation:u-buffer", f"buffer u differs from expv(v, scale={scale}, steps={k}) by {du:.3g}", case)
            for upd in (True, False):
                inv = tr.inverse(update_buffers=upd)
                if not upd:
                    inv.update()
                wi = FL.expv(tr.v, scale=-scale, steps=k, align_corners=True)
                di = float((inv.u - wi).abs().max())
                if inv.exp.steps != k or inv.exp.scale != -scale or not di <= 1e-12:
                    fail("C11:StationaryVelocityFreeFormDeformation:inverse-u-buffer",
                         f"inverse(update_buffers={upd}).u differs from expv(v, scale={-scale}, steps={k}) by {di:.3g} "
                         f"(inverse module: scale={inv.exp.scale}, steps={inv.exp.steps})", case)
            if float((tr.u - FL.expv(tr.v, scale=scale, steps=k, align_corners=True)).abs().max()) > 1e-12:
                fail("C11:StationaryVelocityFreeFormDeformation:inverse-modifies-original", "inverse() changed the buffers of the original transform", case)
        except Exception as e:  # noqa
            fail("C11:StationaryVelocityFreeFormDeformation:raises", f"raised {type(e).__name__}: {str(e)[:150]}", case)

    # convergence to the matrix exponential (numeric exploration of the closed-form limit; labelled partial)
    for it in range(max(4, n // 12)):
        D = rng.choice([2, 3])
        shape = tuple(rng.randint(3, 6) for _ in range(D))
        ac = rng.random() < 0.5
        G = rand_generator(rng, D, shape, ac, Fraction(1))
        vel = torch.tensor(tofloat([field_of(lambda x: happly(G, x), shape, ac)]), dtype=torch.float64)
        E = expm_h(G)
        ref = field_of(lambda x: [float(sum(float(E[i, j]) * float(x[j]) for j in range(D)) + float(E[i, D]) - float(x[i])) for i in range(D)],
                       shape, ac)
        errs = []
        for k in range(1, 9):
            r = FL.expv(vel, steps=k, align_corners=ac)
            errs.append(maxdiff(r[0], ref))
        count("convergence")
        normG = max(sum(abs(float(x)) for x in row) for row in G)
        bound = [math.exp(normG) * normG ** 2 / 2 ** k + 1e-9 for k in range(1, 9)]
        if not all(e <= b for e, b in zip(errs, bound)) or not errs[-1] <= errs[0] + 1e-12:
            fail("C11:expv:convergence", f"error against the matrix exponential does not decrease like |G|^2 e^|G| / 2^k: {errs}",
                 {"D": D, "shape": list(shape), "ac": ac, "G": [[str(x) for x in row] for row in G]})

    # smooth non-affine fields: exp(v) o exp(-v) = id up to second order in the amplitude (numeric exploration)
    for it in range(max(3, n // 20)):
        D = rng.choice([2, 3])
        nn = 17 if D == 2 else 11
        ac = rng.random() < 0.5
        g = Grid(size=(nn,) * D, align_corners=ac).coords(dtype=torch.float64)
        x = g.movedim(-1, 0)
        bump = torch.ones_like(x[0])
        for a in range(D):
            bump = bump * torch.cos(x[a] * math.pi / 2) ** 2
        base = torch.stack([bump * torch.sin(math.pi * x[(a + 1) % D]) for a in range(D)]).unsqueeze(0)
        es = []
        for amp in (2.0 / nn, 1.0 / nn):
            v = base * amp
            u = FL.expv(v, steps=6, align_corners=ac)
            w = FL.expv(v, steps=6, align_corners=ac, inverse=True)
            comp = FL.compose_flows(u, w, align_corners=ac)
            es.append(float(comp.abs().max()) * nn / 2)     # in samples
        count("smooth-inverse-consistency")
        if not (es[1] <= 0.4 * es[0] + 1e-9 and es[0] <= 0.1):
            fail("C11:expv:smooth-inverse-consistency",
                 f"exp(v) o exp(-v) residual (in samples) {es} for amplitudes of 1 and 1/2 sample is not second order", {"D": D, "ac": ac})
    return {"fails": fails, "counts": counts}


if __name__ == "__main__":
    payload = json.load(sys.stdin)
    if payload["fn"] == "model_cases":
        emit_json(model_cases(payload))
    elif payload["fn"] == "oracle":
        emit_json(oracle(payload))
