"""C13 -- composition of flows and velocity fields obeys its algebra."""
from fractions import Fraction

import vlib
from vlib import Violation, qc, coq_list
from props.c11 import qc_nested, rand_field, affine_field, b, _flat

ID = "C13"
GEN_UNITS = ["FlowAlg", "FlowBCH", "FlowDeriv"]
PROPS_FILE = "Props/C13.v"
PROPS_MOD = "Props.C13"
COQ_TARGETS = ["Props/C13.vo"]
SOURCES = ["deepali/core/flow.py", "deepali/core/image.py", "deepali/core/grid.py"]
TRUSTED = [
    "Coq 8.16.1 kernel + vm_compute",
    "translator: tools/symtorch.py semantics of the traced torch subset; F.grid_sample (in compose_flows / logv) and "
    "lie_bracket (in compose_svfs) are opaque recorded operators in the traces",
    "modelled not verified: torch.nn.functional.grid_sample (Model/Sampler.v, validated by the correspondence), the linear "
    "derivative operators behind flow_derivatives (finite differences / Gaussian: only their linearity is used; tied by the "
    "implementation-side bilinearity / antisymmetry evaluation and by C12), float rounding",
]
ASSUMPTIONS = [
    "Lie-bracket theorems hold for every LINEAR derivative operator; that flow_derivatives is one is evaluated on the implementation",
    "bch_commuting is stated for any vector space with a bracket linear in its second argument (fields with pointwise operations are one)",
]
HEADER = ["From Coq Require Import ZArith QArith Qcanon List String.",
          "From DV Require Import Base.Field Base.LinAlg Base.QcInst Base.QcCmp Model.Sampler Model.SamplerQc Model.Flow Model.FlowQc "
          "Model.BCH Gen.FlowAlg Gen.FlowBCH Gen.FlowDeriv.",
          "Import ListNotations.",
          "Definition tol64 : Q := 1 # 100000000000.", "Definition tol32 : Q := 1 # 100000.", "Definition tolL : Q := 1 # 1000000000.",
          "Definition benv (u v vu vvu uvu uvvu : list Qc) (t : bterm) : list Qc :=",
          "  if bterm_eqb t TU then u else if bterm_eqb t TV then v else if bterm_eqb t (TB TV TU) then vu",
          "  else if bterm_eqb t (TB TV (TB TV TU)) then vvu else if bterm_eqb t (TB TU (TB TV TU)) then uvu",
          "  else if bterm_eqb t (TB TU (TB TV (TB TV TU))) then uvvu else [].",
          "Definition bch_flat (n : nat) (terms : nat) (u v vu vvu uvu uvvu : list Qc) : list Qc :=",
          "  bch_lin (K:=QcF) (list Qc) (vzero (K:=QcF) n) (vadd (K:=QcF)) (vscale (K:=QcF)) (benv u v vu vvu uvu uvvu) (gen_bch_terms terms)."]


def flat(x):
    return list(_flat(x))


def gen_cases(ctx):
    rng = ctx.rng
    cases = []
    for i in range(ctx.n(60, 240)):
        D = 2 if rng.random() < 0.6 else 3
        shape = tuple(rng.randint(2, 5 if D == 2 else 3) for _ in range(D))
        kind = ["compose", "compose", "lie", "bch"][i % 4]
        if kind == "compose":
            ac = rng.random() < 0.5
            dt = "float32" if rng.random() < 0.35 else "float64"
            u = affine_field(rng, D, shape, ac) if rng.random() < 0.3 else rand_field(rng, D, shape, rng.choice([0.25, 0.75, 2.0]), 4)
            if rng.random() < 0.15:
                u = rand_field(rng, D, shape, 0, 1)       # zero field
            v = rand_field(rng, D, shape, 1.0, 4)
            us, vs = [u], [v]
            for _ in range(rng.choice([0, 0, 1, 2])):      # batches: every item is the model of that item
                us.append(rand_field(rng, D, shape, rng.choice([0.25, 0.75, 2.0]), 4))
                vs.append(rand_field(rng, D, shape, 1.0, 4))
            cases.append({"kind": kind, "D": D, "ac": ac if rng.random() < 0.9 else None, "dtype": dt, "u": us, "v": vs})
        else:
            shape = tuple(rng.randint(3, 4) for _ in range(D))
            mode = rng.choice(["forward_central_backward", "central", "sobel", "forward"])
            c = {"kind": kind, "D": D, "mode": mode, "dtype": "float64", "v": [rand_field(rng, D, shape, 1.0, 4)],
                 "u": [rand_field(rng, D, shape, 1.0, 4)], "spacing": rng.choice([None, 0.5, 1.0])}
            if kind == "bch":
                c["terms"] = rng.randint(0, 5)
            cases.append(c)
    return cases


def correspondence(ctx):
    cases = gen_cases(ctx)
    res = vlib.run_impl("c13_impl", {"fn": "model_cases", "cases": cases})
    failures, dist = [], {}
    lines, names, shards = [], [], []
    evals = 0
    for i, (c, r) in enumerate(zip(cases, res)):
        tag = f"{c['kind']}:D{c['D']}:" + (f"ac={c['ac']}:{c['dtype']}" if c["kind"] == "compose" else f"{c['mode']}" + (f":terms={c['terms']}" if "terms" in c else ""))
        dist[tag] = dist.get(tag, 0) + 1
        if "error" in r:
            failures.append({"case": {k: v for k, v in c.items() if k not in ("u", "v")}, "impl": r,
                             "why": "implementation raised where the model is defined"})
            continue
        D = c["D"]
        if c["kind"] == "compose":
            ac = True if c["ac"] is None else c["ac"]
            tol = "tol32" if c["dtype"] == "float32" else "tol64"
            if len(r["val"]) != len(c["u"]):
                failures.append({"case": {k: v for k, v in c.items() if k not in ("u", "v")}, "why": "batch size of the result differs"})
                continue
            terms = [f"fclose{D} {tol} (qcompose{D} {b(ac)} {qc_nested(c['u'][it])} {qc_nested(c['v'][it])}) {qc_nested(r['val'][it])}"
                     for it in range(len(c["u"]))]
            lines.append(f"Definition c{i} : bool := " + " && ".join(terms) + ".")
            names.append((i, f"c{i}"))
            evals += len(terms)
            dist[f"compose:batch={len(terms)}"] = dist.get(f"compose:batch={len(terms)}", 0) + 1
        elif c["kind"] == "lie":
            # every sample point: generated formula on the implementation's own Jacobians vs lie_bracket's value
            v = [flat(ch) for ch in c["v"][0]]
            u = [flat(ch) for ch in c["u"][0]]
            val = [flat(ch) for ch in r["val"][0]]
            jv = [[flat(r["jv"][a][k_][0]) for k_ in range(D)] for a in range(D)]
            ju = [[flat(r["ju"][a][k_][0]) for k_ in range(D)] for a in range(D)]
            npts = len(v[0])
            terms = []
            for pnt in range(0, npts, max(1, npts // 8)):
                args = [qc(jv[a][k_][pnt]) for a in range(D) for k_ in range(D)] + [qc(ju[a][k_][pnt]) for a in range(D) for k_ in range(D)] + \
                       [qc(float(v[a][pnt])) for a in range(D)] + [qc(float(u[a][pnt])) for a in range(D)]
                terms.append(f"vcloser tolL (gen_lie{D} (K:=QcF) {' '.join(args)}) {coq_list([qc(val[a][pnt]) for a in range(D)])}")
                evals += 1
            lines.append(f"Definition c{i} : bool := " + " && ".join(terms) + ".")
            names.append((i, f"c{i}"))
        else:
            fl = lambda t: coq_list([qc(float(x)) for x in flat(t)])
            n = len(flat(c["u"][0]))
            lines.append(f"Definition c{i} : bool := vcloser tolL (bch_flat {n} {c['terms']} {fl(c['u'][0])} {fl(c['v'][0])} {fl(r['vu'][0])} "
                         f"{fl(r['vvu'][0])} {fl(r['uvu'][0])} {fl(r['uvvu'][0])}) {fl(r['val'][0])}.")
            names.append((i, f"c{i}"))
            evals += 1
        if len(lines) >= 60:
            shards.append((lines, names))
            lines, names = [], []
    if lines:
        shards.append((lines, names))
    for si, (ls, nms) in enumerate(shards):
        text = "\n".join(HEADER + ls + ["Definition results : list bool := " + coq_list([nm for _, nm in nms]) + ".",
                                        'Eval vm_compute in ("FAIL"%string, failing results).']) + "\n"
        rc, out = vlib.coqc_text(text, ctx.scratch, f"cases_c13_{si}")
        bad = vlib.parse_nat_list(out, "FAIL")
        if rc != 0 or bad is None:
            failures.append({"why": "case file did not evaluate (model or generated definitions missing / ill-typed)", "coq": out[-600:]})
        else:
            for j in bad:
                i = nms[j][0]
                failures.append({"case": {k: v for k, v in cases[i].items() if k not in ("u", "v")}, "u": cases[i]["u"], "v": cases[i]["v"],
                                 "why": "model value differs from implementation"})
    samples = [{"case": cases[i], "impl": {k: v for k, v in res[i].items() if k in ("val", "error")}} for i in range(min(2, len(cases)))]
    return {"evaluations": evals, "distinct_nontrivial": len({str(c) for c in cases if any(x != 0 for x in _flat(c["v"]))}),
            "rule": "compose_flows on dyadic fields (affine invariant, arbitrary up to amplitude 2 = far outside the domain, zero) against the "
                    "executable model, both flags + default, float32/float64, batches of 1-3; lie_bracket values against the generated formula applied to the "
                    "implementation's own jacobian_dict at sample points; compose_svfs for bch_terms 0..5 against the generated coefficient "
                    "table applied to the implementation's own nested brackets; non-trivial = second operand not all-zero",
            "samples": samples, "failures": failures, "distribution": dist,
            "tolerances": {"compose float64": "1e-11 (1 + |m|)", "compose float32": "1e-5 (1 + |m|)", "lie / bch": "1e-9 (1 + |m|)"}}


def search(ctx, broken, corr_failures):
    n = ctx.n(60, 360)
    r = vlib.run_impl("c13_impl", {"fn": "oracle", "seed": ctx.seed, "n": n})
    ctx.notes.append("implementation-side property evaluation (affine exactness with exact rationals, zero identities, batches, bilinearity / "
                     "antisymmetry / analytic value of lie_bracket, BCH series and commuting case per bch_terms; numeric exploration -- labelled "
                     "partial -- of BCH error by truncation order [criterion: no order worse than order 0 by more than 5%, order 1 not worse "
                     "than order 0; NOT monotone: the error rises by up to ~20% from bch_terms 1 to 2 on the unchanged tree, each further "
                     "bracket adds O(h^2) finite-difference error] and logv(expv(v)) [bounds 0.2 x amplitude, 0.35 x for exp_steps=0; observed "
                     f"<= 0.1 / 0.13]; logv against the iteration assembled from its pieces, exp_steps in {{0, 6}}, spacing variants): {r['counts']}")
    out, seen = [], set()
    for f in r["fails"]:
        if f["key"] in seen:
            continue
        seen.add(f["key"])
        out.append(Violation(key=f["key"], what=f["what"], replay={"oracle": "c13", "seed": ctx.seed, "n": n, "failure": f}))
    if corr_failures and not any(":model-vs-implementation" in v.key for v in out):
        f = corr_failures[0]
        c = f.get("case", {})
        if c:
            out.append(Violation(key=f"C13:{c.get('kind', 'model')}:model-vs-implementation",
                                 what=f"implementation differs from the executable model / generated table: {f.get('why')} ({c})",
                                 replay={"corr": True, "failure": f}))
    return out


def explains(broken_item, found):
    """a broken obligation (translator unit, proof, correspondence) is attributed to the concrete failing inputs the search found:
    every obligation of this property is about the functions the search exercises (compose_flows, lie_bracket, compose_svfs, logv,
    expv), so any concrete violation is a witness; without one the driver reports no-failing-input-found"""
    return bool(found)


def replay(ctx, data):
    if data.get("corr"):
        f = data["failure"]
        c = dict(f.get("case", {}))
        if "u" in f:
            c["u"], c["v"] = f["u"], f["v"]
            r = vlib.run_impl("c13_impl", {"fn": "model_cases", "cases": [c]})
            return f"re-ran {c.get('kind')} on the recorded input: {str(r[0])[:200]} (compare with the model through ./check C13)"
        return None
    f = data.get("failure") or {}
    r = vlib.run_impl("c13_impl", {"fn": "oracle", "seed": data.get("seed", ctx.seed), "n": data.get("n", 60)})
    for g in r["fails"]:
        if g["key"] == f.get("key"):
            return g["what"]
    return None


MANIFEST_ENTRY = {
    "text": "Theorems (Coq, closed under the global context), any field of characteristic 0, every lattice size, both conventions, D in "
            "{2,3}: compose_flows(u, v) of the displacement fields of affine maps A (sample positions inside the hull) and B is the "
            "displacement field of B o A at every lattice point; the zero field is a left and right identity for arbitrary fields; the "
            "flag given to compose_flows reaches both Grid.coords and F.grid_sample (generated) so the traced function is the model of "
            "that convention; the Lie bracket (generated formula over Jacobians) is bilinear for every pair of linear derivative operators, and "
            "antisymmetric with [v,v] = 0 when both Jacobians use the same operator -- which the source does: the options (mode, sigma, "
            "spacing, stride) lie_bracket forwards to flow_derivatives for its two Jacobians are generated by recording those calls and "
            "proved identical and complete (C13_lie_bracket_code_2d/3d on the coded bracket, any family of linear operators indexed by "
            "the forwarded options); the BCH coefficients / nesting generated from compose_svfs for bch_terms 0..5 are the "
            "documented table and, in any vector space with a bracket linear in its second argument, [v,u] = 0 implies compose_svfs = v + u "
            "for every truncation order. Tie: Gen/FlowAlg.v (compose_flows skeleton and flags, BCH table with lie_bracket opaque, logv "
            "flags) and Gen/FlowDeriv.v (gen_lie2/3) regenerated by symbolic tracing; executable model run in Coq against compose_flows, "
            "lie_bracket (on the implementation's Jacobians) and compose_svfs (on the implementation's nested brackets).",
    "note": "Partial: 'BCH error does not grow with the truncation order' and 'logv(expv(v)) = v within a bound, independent of "
            "align_corners' are quantitative statements about discretised smooth fields -- explored numerically on the implementation "
            "only. logv forwards align_corners to all its steps (C13_logv_forwards_align_corners, generated flags) and compose_flows / logv "
            "accept batches (repaired in /repo d753466, 0bf9275; checked on 2-item traces, batch correspondence and search). Trusted: Coq kernel, vm_compute, F.grid_sample model, symtorch, linearity of flow_derivatives (evaluated).",
}
