(* Resampling the DATA of a flow field commutes with changing the vector representation: Grid.transform_vectors is, per
   item, a constant matrix (proved for the 16 generated closed forms), and multilinear sampling with zeros / border padding
   is linear in the image, channel by channel.  Hence  sample o axes = axes o sample  for the whole FlowFields.sample model
   (data resampling at the mapped points + vector re-scaling), D = 2 (D = 3: C10SampleLin3.v). *)
From Coq Require Import ZArith List Field Ring Lia Bool.
From DV Require Import Base.Field Base.FieldFacts Base.LinAlg Base.Tactics Model.Enums Model.Homog Model.Grid Model.Sampler
  Model.Flow Model.FlowRepr Gen.GridT Proofs.SamplerFacts Proofs.C11Interp Proofs.C11Compose Proofs.C13Compose
  Proofs.C10Axes Proofs.C10Sample.
Import ListNotations.
Local Open Scope fld_scope.

Section SampleLin.
Variable K : fld.
Hypothesis Kf : is_field K.
Hypothesis Kc : char0 K.
Add Field KFSL : Kf.
Variable floorK : K -> Z.

(* element access of tabulated sequences under either padding *)
Lemma getp_tab_gen {A} pad (d : A) (F : Z -> A) n i : (1 <= n)%Z ->
  getp pad d (map F (zseq n)) i = match pad with PZeros => if inb i n then F i else d | PBorder => F (clampz i n) end.
Proof.
  intro H. destruct pad; [|now apply getp_border_tab].
  unfold getp. rewrite zlen_map_zseq by lia. destruct (inb i n) eqn:E; [|reflexivity].
  apply nth_map_zseq. unfold inb in E. apply andb_prop in E as [E1 E2]. lia.
Qed.
Lemma getp_nil pad ix : getp pad (0 : K) [] ix = 0.
Proof.
  unfold getp. destruct pad.
  - destruct (inb ix (zlen (@nil K))); [destruct (Z.to_nat ix)|]; reflexivity.
  - destruct (Z.to_nat (clampz ix (zlen (@nil K)))); reflexivity.
Qed.

(* ---- the generated vector maps are constant matrices ---- *)
Definition e2 (b : nat) : list K := match b with O => [1; 0] | _ => [0; 1] end.
Lemma gvecs_matrix2 A B (g : @gridf K) (v0 v1 : K) :
  gvecs 2 A B g [v0; v1]
  = [nth 0 (gvecs 2 A B g (e2 0)) 0 * v0 + nth 0 (gvecs 2 A B g (e2 1)) 0 * v1;
     nth 1 (gvecs 2 A B g (e2 0)) 0 * v0 + nth 1 (gvecs 2 A B g (e2 1)) 0 * v1].
Proof. destruct g as [[[n s] c] d]. destruct A, B; fcbv; list_eq; rewrite ?(Fdiv_def Kf); ring. Qed.
Lemma gvecs2_WW (g g' : @gridf K) (v0 v1 : K) : gvecs2 2 WORLD WORLD g g' [v0; v1] = [v0; v1].
Proof. destruct g as [[[n s] c] d], g' as [[[n' s'] c'] d']. reflexivity. Qed.

(* ---- 2-D sampling is linear in the image ---- *)
Definition px2 pad nx ny (f : Z -> Z -> K) ix iy : K := getp pad 0 (getp pad [] (tab2 nx ny f) iy) ix.
Lemma px2_val pad nx ny f ix iy : (1 <= nx)%Z -> (1 <= ny)%Z ->
  px2 pad nx ny f ix iy = match pad with PZeros => if inb iy ny && inb ix nx then f ix iy else 0 | PBorder => f (clampz ix nx) (clampz iy ny) end.
Proof.
  intros Hx Hy. unfold px2, tab2, tab1. rewrite getp_tab_gen by lia. destruct pad.
  - destruct (inb iy ny); cbn [andb]; [|apply getp_nil]. now rewrite getp_tab_gen by lia.
  - now rewrite getp_tab_gen by lia.
Qed.
Lemma px2_lin pad nx ny (a b : K) f g ix iy : (1 <= nx)%Z -> (1 <= ny)%Z ->
  px2 pad nx ny (fun x y => a * f x y + b * g x y) ix iy = a * px2 pad nx ny f ix iy + b * px2 pad nx ny g ix iy.
Proof. intros Hx Hy. rewrite !px2_val by lia. destruct pad; [destruct (inb iy ny && inb ix nx)|]; ring. Qed.
Lemma gs2_lin pad ac nx ny (a b : K) f g p q : (1 <= nx)%Z -> (1 <= ny)%Z ->
  grid_sample2 floorK pad ac (tab2 nx ny (fun x y => a * f x y + b * g x y)) p q
  = a * grid_sample2 floorK pad ac (tab2 nx ny f) p q + b * grid_sample2 floorK pad ac (tab2 nx ny g) p q.
Proof.
  intros Hx Hy. unfold grid_sample2. rewrite !zlen_tab2, !zlen_hd_tab2 by lia. unfold sample2.
  destruct (cell floorK _) as [ix tx]. destruct (cell floorK _) as [iy ty].
  unfold interp2, interp1. fold (px2 pad nx ny (fun x y => a * f x y + b * g x y) ix iy).
  change (lerp (lerp (px2 pad nx ny (fun x y => a * f x y + b * g x y) ix iy) (px2 pad nx ny (fun x y => a * f x y + b * g x y) (ix + 1) iy) tx)
               (lerp (px2 pad nx ny (fun x y => a * f x y + b * g x y) ix (iy + 1)) (px2 pad nx ny (fun x y => a * f x y + b * g x y) (ix + 1) (iy + 1)) tx) ty
          = a * lerp (lerp (px2 pad nx ny f ix iy) (px2 pad nx ny f (ix + 1) iy) tx) (lerp (px2 pad nx ny f ix (iy + 1)) (px2 pad nx ny f (ix + 1) (iy + 1)) tx) ty
          + b * lerp (lerp (px2 pad nx ny g ix iy) (px2 pad nx ny g (ix + 1) iy) tx) (lerp (px2 pad nx ny g ix (iy + 1)) (px2 pad nx ny g (ix + 1) (iy + 1)) tx) ty).
  rewrite !px2_lin by lia. unfold lerp. ring.
Qed.

Lemma l2eta (v : list K) : length v = 2%nat -> v = [nth 0 v 0; nth 1 v 0].
Proof. destruct v as [|a [|b [|? ?]]]; try discriminate. reflexivity. Qed.
(* ---- fields ---- *)
Lemma field_map2_field2g nx ny F (f0 f1 : Z -> Z -> K) : (1 <= nx)%Z -> (1 <= ny)%Z ->
  field_map2 F (field2 K nx ny f0 f1)
  = field2 K nx ny (fun x y => nth 0 (F [f0 x y; f1 x y]) 0) (fun x y => nth 1 (F [f0 x y; f1 x y]) 0).
Proof.
  intros Hx Hy. unfold field_map2, field2. cbn [nth seq map]. rewrite zlen_tab2, zlen_hd_tab2 by lia.
  f_equal; [|f_equal]; apply tab2_ext; intros x y Hxr Hyr; now rewrite !get2_tab2 by lia.
Qed.

Let D2 : 2%nat = 2%nat \/ 2%nat = 3%nat := or_introl eq_refl.
Lemma gvecs2_len2 (g g' : @gridf K) A B v0 v1 : gwf 2 g -> gwf 2 g' -> length (gvecs2 2 A B g g' [v0; v1]) = 2%nat.
Proof.
  intros Hw Hw'. rewrite <- (gpts2_lin K Kf Kc 2 D2 g g' A B (vzero 2) [v0; v1] Hw Hw' eq_refl eq_refl).
  rewrite (length_vsub K); rewrite !(gpts2_len K Kf Kc 2 D2) by auto; reflexivity.
Qed.

(* the data part of FlowFields.sample *)
Definition sdata2 pad ac (g g' : @gridf K) nx' ny' (u : list (list (list K))) :=
  map (fun c => tab2 nx' ny' (fun x y =>
    let pos := gpts2 2 (cube_of ac) (cube_of ac) g' g [ncoord ac nx' x; ncoord ac ny' y] in
    grid_sample2 floorK pad ac (nth c u []) (nth 0 pos 0) (nth 1 pos 0))) (seq 0 2).

Lemma sample_item2_all pad ac A g g' nx' ny' u : (1 <= nx')%Z -> (1 <= ny')%Z ->
  sample_item2 floorK pad ac A g g' nx' ny' u = field_map2 (gvecs2 2 A A g g') (sdata2 pad ac g g' nx' ny' u).
Proof.
  intros Hx Hy. unfold sample_item2. fold (sdata2 pad ac g g' nx' ny' u). destruct A; try reflexivity.
  unfold sdata2. cbn [seq map].
  change [tab2 nx' ny' ?a; tab2 nx' ny' ?b] with (field2 K nx' ny' a b).
  rewrite field_map2_field2g by lia. unfold field2. f_equal; [|f_equal]; apply tab2_ext; intros; now rewrite gvecs2_WW.
Qed.

(* resampling commutes with a representation change on the source grid *)
Lemma sdata2_commutes pad ac A B g g' nx ny nx' ny' f0 f1 : (1 <= nx)%Z -> (1 <= ny)%Z -> (1 <= nx')%Z -> (1 <= ny')%Z ->
  sdata2 pad ac g g' nx' ny' (field_map2 (gvecs 2 A B g) (field2 K nx ny f0 f1))
  = field_map2 (gvecs 2 A B g) (sdata2 pad ac g g' nx' ny' (field2 K nx ny f0 f1)).
Proof.
  intros Hx Hy Hx' Hy'. rewrite field_map2_field2g by lia. unfold sdata2, field2. cbn [seq map nth].
  change [tab2 nx' ny' ?a; tab2 nx' ny' ?b] with (field2 K nx' ny' a b). rewrite field_map2_field2g by lia. unfold field2.
  f_equal; [|f_equal]; apply tab2_ext; intros x y Hxr Hyr; cbv zeta;
    set (p := nth 0 (gpts2 2 (cube_of ac) (cube_of ac) g' g [ncoord ac nx' x; ncoord ac ny' y]) 0);
    set (q := nth 1 (gpts2 2 (cube_of ac) (cube_of ac) g' g [ncoord ac nx' x; ncoord ac ny' y]) 0);
    rewrite (gvecs_matrix2 A B g (grid_sample2 floorK pad ac (tab2 nx ny f0) p q)); cbn [nth];
    rewrite <- gs2_lin by lia; f_equal; apply tab2_ext; intros; rewrite gvecs_matrix2; reflexivity.
Qed.

Theorem sample_item2_commutes_with_axes pad ac A B g g' nx ny nx' ny' f0 f1 :
  (1 <= nx)%Z -> (1 <= ny)%Z -> (1 <= nx')%Z -> (1 <= ny')%Z -> gwf 2 g -> gwf 2 g' ->
  sample_item2 floorK pad ac B g g' nx' ny' (field_map2 (gvecs 2 A B g) (field2 K nx ny f0 f1))
  = field_map2 (gvecs 2 A B g') (sample_item2 floorK pad ac A g g' nx' ny' (field2 K nx ny f0 f1)).
Proof.
  intros Hx Hy Hx' Hy' Hw Hw'. rewrite !sample_item2_all by lia. rewrite sdata2_commutes by lia.
  unfold sdata2, field2. cbn [seq map nth]. change [tab2 nx' ny' ?a; tab2 nx' ny' ?b] with (field2 K nx' ny' a b).
  rewrite !field_map2_field2g by lia. unfold field2.
  f_equal; [|f_equal]; apply tab2_ext; intros x y Hxr Hyr; cbv zeta;
    set (p := nth 0 (gpts2 2 (cube_of ac) (cube_of ac) g' g [ncoord ac nx' x; ncoord ac ny' y]) 0);
    set (q := nth 1 (gpts2 2 (cube_of ac) (cube_of ac) g' g [ncoord ac nx' x; ncoord ac ny' y]) 0);
    set (V := [grid_sample2 floorK pad ac (tab2 nx ny f0) p q; grid_sample2 floorK pad ac (tab2 nx ny f1) p q]);
    rewrite <- (l2eta (gvecs 2 A B g V)) by (apply (gvecs_len K Kf Kc 2 D2); auto);
    rewrite <- (l2eta (gvecs2 2 A A g g' V)) by (now apply gvecs2_len2);
    now rewrite (regrid_commutes_with_axes K Kf Kc 2 D2) by auto.
Qed.
End SampleLin.
