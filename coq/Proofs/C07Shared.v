(* C07 -- the inverse shares the forward parameters: after inverse(link=False) both objects resolve
   `params` to the same tensor cell, have the same grid and opposite sign; in-place updates of that
   cell (through either object, or any other) keep this, so the inverse stays the inverse. *)
From Coq Require Import List Bool Arith Lia.
From DV Require Import Model.TransformState Proofs.C09Fresh Proofs.C09Replace.
Import ListNotations.

Section Shared.
Context {P G C : Type}.
Variable p0 : P.
Variable fillP : P -> P -> P.
Variable callP : nat -> option C -> P.
Variable cf : cfg.
Hypothesis Hcf : cfg_all cf = true.

Notation state := (state P G C).
Notation obj := (obj P G C).
Notation get_obj := (get_obj P G C).
Notation set_obj := (set_obj P G C).
Notation get_params := (get_params P G C).
Notation tval := (tval P G C p0).
Notation held := (held P G C p0 callP).
Notation edit := (edit P G C p0 fillP).
Notation inverse1 := (inverse1 P G C p0 cf).

(* o and n read the same cell r, on the same grid, with opposite inversion flags *)
Definition mirror (s : state) (o n r : nat) : Prop :=
  exists ob obn ip ipn,
    get_obj s o = Some ob /\ get_obj s n = Some obn /\
    get_params s ob = Some (VTen r ip) /\ get_params s obn = Some (VTen r ipn) /\
    o_grid P G C obn = o_grid P G C ob /\ o_kind P G C obn = o_kind P G C ob /\
    invertible (o_kind P G C ob) = true /\ o_inv P G C obn = negb (o_inv P G C ob).

(* the specification then says: same parameters, same grid, opposite sign *)
Lemma mirror_held s o n r :
  mirror s o n r ->
  exists p g sg, held s o = Some (p, g, sg) /\ held s n = Some (p, g, negb sg).
Proof.
  intros (ob & obn & ip & ipn & Ho & Hn & Hp & Hpn & Hg & Hk & Hi & Hv).
  exists (tval s r), (o_grid P G C ob), (o_inv P G C ob).
  unfold TransformState.held. fold (get_obj s o) (get_obj s n). rewrite Ho, Hn, Hp, Hpn.
  unfold sign_of. rewrite Hk, Hi, Hg, Hv. split; reflexivity.
Qed.

(* an in-place edit only touches tensor contents *)
Lemma edit_frame s o p s' out :
  edit s o p = out -> s' = (match out with Ok _ x => x | Er _ x => x end) ->
  objs P G C s' = objs P G C s /\ pds P G C s' = pds P G C s.
Proof.
  intros <- ->. unfold TransformState.edit, with_obj.
  destruct (TransformState.get_obj P G C s o) as [ob|]; cbn; auto.
  destruct (o_kind P G C ob); cbn; auto.
  all: unfold bind, data_ref; destruct (TransformState.get_params P G C s ob) as [[| r ip | f | o']|]; cbn; auto;
    destruct (o_p P G C ob); cbn; auto.
Qed.

Lemma mirror_frame s s' o n r :
  objs P G C s' = objs P G C s -> pds P G C s' = pds P G C s -> mirror s o n r -> mirror s' o n r.
Proof.
  intros Eo Ep (ob & obn & ip & ipn & Ho & Hn & Hp & Hpn & Rest).
  exists ob, obn, ip, ipn. unfold TransformState.get_obj in *. rewrite Eo.
  repeat split; try tauto.
  - rewrite (get_params_pds s s' ob Ep). exact Hp.
  - rewrite (get_params_pds s s' obn Ep). exact Hpn.
Qed.

(* any sequence of in-place updates, through any objects *)
Fixpoint edits (s : state) (es : list (nat * P)) : state :=
  match es with
  | [] => s
  | (o, p) :: r => edits (match edit s o p with Ok _ x => x | Er _ x => x end) r
  end.

Theorem mirror_after_edits es : forall s o n r, mirror s o n r -> mirror (edits s es) o n r.
Proof.
  induction es as [|[t p] es IH]; intros s o n r H; cbn; auto.
  apply IH. destruct (edit_frame s t p _ _ eq_refl eq_refl) as [Eo Ep].
  eapply mirror_frame; eauto.
Qed.

(* inverse(link=False) establishes the mirror relation *)
Definition slots_eq (a b : obj) : Prop :=
  o_adict P G C a = o_adict P G C b /\ o_pd P G C a = o_pd P G C b /\ o_bpar P G C a = o_bpar P G C b
  /\ o_mpar P G C a = o_mpar P G C b /\ o_grid P G C a = o_grid P G C b /\ o_kind P G C a = o_kind P G C b.
Lemma slots_eq_trans a b c : slots_eq a b -> slots_eq b c -> slots_eq a c.
Proof. unfold slots_eq. intuition congruence. Qed.
Lemma slots_set_uv (x : obj) u v : slots_eq (set_uv P G C x u v) x.
Proof. destruct x; repeat split. Qed.
Lemma slots_set_inv (x : obj) i : slots_eq (set_inv P G C x i) x.
Proof. destruct x; repeat split. Qed.
Lemma inv_set_uv (x : obj) u v : o_inv P G C (set_uv P G C x u v) = o_inv P G C x.
Proof. destruct x; reflexivity. Qed.
Lemma inv_set_inv (x : obj) i : o_inv P G C (set_inv P G C x i) = i.
Proof. destruct x; reflexivity. Qed.
Lemma nth_error_app_new {A} (l : list A) x : nth_error (l ++ [x]) (length l) = Some x.
Proof. induction l; cbn; auto. Qed.
Lemma nth_error_app_old {A} (l : list A) x n y : nth_error l n = Some y -> nth_error (l ++ [x]) n = Some y.
Proof. revert n. induction l as [|a l IH]; intros [|n] H; cbn in *; try discriminate; auto. Qed.

Theorem inverse_mirrors s o upd n s1 ob r ip :
  get_obj s o = Some ob -> get_params s ob = Some (VTen r ip) ->
  inverse1 s o false upd = Ok n s1 -> mirror s1 o n r.
Proof.
  destruct (cfg_all_fields _ Hcf) as (_ & _ & _ & _ & _ & _ & _ & _ & _ & _ & Hfl & _).
  intros Ho Hp H. unfold TransformState.inverse1, with_obj in H. fold (get_obj s o) in H. rewrite Ho in H.
  destruct (invertible (o_kind P G C ob)) eqn:Hi; cbn in H; try discriminate.
  unfold with_obj, TransformState.get_obj in H. cbn in H.
  rewrite nth_error_app_new in H. rewrite Hfl in H.
  injection H as <- <-.
  set (obn := if has_exp (o_kind P G C ob) && upd then _ else _).
  assert (Hsl : slots_eq obn ob /\ o_inv P G C obn = negb (o_inv P G C ob)).
  { subst obn. destruct (has_exp (o_kind P G C ob) && upd).
    - match goal with |- context [match ?x with Some _ => _ | None => _ end] => destruct x end.
      + split; [eapply slots_eq_trans; [eapply slots_set_uv | eapply slots_set_inv] | rewrite inv_set_uv; apply inv_set_inv].
      + split; [apply slots_set_inv | apply inv_set_inv].
    - split; [apply slots_set_inv | apply inv_set_inv]. }
  destruct Hsl as ((Ha & Hd & Hb & Hm & Hg & Hk) & Hv).
  exists ob, obn, ip, ip.
  assert (Hlen : length (objs P G C s) <> o).
  { intro E. unfold TransformState.get_obj in Ho. rewrite <- E in Ho.
    assert (nth_error (objs P G C s) (length (objs P G C s)) = None) by (apply nth_error_None; lia). congruence. }
  refine (conj _ (conj _ (conj _ (conj _ (conj Hg (conj Hk (conj Hi Hv))))))).
  - unfold TransformState.get_obj, TransformState.set_obj; cbn.
    rewrite nth_error_replace_other by exact Hlen. apply nth_error_app_old. exact Ho.
  - unfold TransformState.get_obj, TransformState.set_obj; cbn.
    apply nth_error_replace_same with (y := ob). apply nth_error_app_new.
  - unfold TransformState.get_params, get_pd in *. cbn. exact Hp.
  - unfold TransformState.get_params, get_pd in *. cbn. rewrite Ha, Hd, Hb, Hm. exact Hp.
Qed.

(* together: the inverse stays the inverse after any in-place parameter updates *)
Theorem inverse_stays_inverse s o upd n s1 ob r ip es :
  get_obj s o = Some ob -> get_params s ob = Some (VTen r ip) ->
  inverse1 s o false upd = Ok n s1 ->
  exists p g sg, held (edits s1 es) o = Some (p, g, sg) /\ held (edits s1 es) n = Some (p, g, negb sg).
Proof.
  intros Ho Hp H. eapply mirror_held. apply mirror_after_edits. eapply inverse_mirrors; eauto.
Qed.


(* ================= link = True and callable parameters ================= *)
(* n follows o: same grid, opposite sign, and n's parameters are o's -- either because n is a shallow
   copy reading the same cell / the same callable on the same condition, or because n is linked to o
   and o holds a tensor *)
Definition follows (s : state) (o n : nat) : Prop :=
  exists ob obn,
    get_obj s o = Some ob /\ get_obj s n = Some obn /\
    o_grid P G C obn = o_grid P G C ob /\ o_kind P G C obn = o_kind P G C ob /\
    invertible (o_kind P G C ob) = true /\ o_inv P G C obn = negb (o_inv P G C ob) /\
    ((get_params s obn = get_params s ob /\ o_cond P G C obn = o_cond P G C ob /\
      ((exists r ip, get_params s ob = Some (VTen r ip)) \/ (exists f, get_params s ob = Some (VFun f))))
     \/ (get_params s obn = Some (VLink o) /\ exists r ip, get_params s ob = Some (VTen r ip))).

Lemma follows_held s o n :
  follows s o n -> exists p g sg, held s o = Some (p, g, sg) /\ held s n = Some (p, g, negb sg).
Proof.
  intros (ob & obn & Ho & Hn & Hg & Hk & Hi & Hv & Hc).
  unfold TransformState.held. fold (get_obj s o) (get_obj s n). rewrite Ho, Hn.
  unfold sign_of. rewrite Hk, Hi, Hg, Hv.
  destruct Hc as [(Ep & Ec & [(r & ip & Hp) | (f & Hp)]) | (Ep & r & ip & Hp)]; rewrite Ep; try rewrite Hp.
  - eexists _, _, _. split; reflexivity.
  - rewrite Ec. eexists _, _, _. split; reflexivity.
  - fold (get_obj s o). rewrite Ho. unfold data_ref. rewrite Hp. eexists _, _, _. split; reflexivity.
Qed.

Lemma follows_frame s s' o n :
  objs P G C s' = objs P G C s -> pds P G C s' = pds P G C s -> follows s o n -> follows s' o n.
Proof.
  intros Eo Ep (ob & obn & Ho & Hn & Hg & Hk & Hi & Hv & Hc).
  exists ob, obn. unfold TransformState.get_obj in *. rewrite Eo.
  rewrite (get_params_pds s s' ob Ep), (get_params_pds s s' obn Ep). repeat split; auto.
Qed.

Theorem follows_after_edits es : forall s o n, follows s o n -> follows (edits s es) o n.
Proof.
  induction es as [|[t p] es IH]; intros s o n H; cbn; auto.
  apply IH. destruct (edit_frame s t p _ _ eq_refl eq_refl) as [Eo Ep].
  eapply follows_frame; eauto.
Qed.

Lemma get_set_other' (s : state) o o' (x : obj) : o <> o' -> get_obj (set_obj s o x) o' = get_obj s o'.
Proof. unfold TransformState.get_obj, TransformState.set_obj; cbn. apply nth_error_replace_other. Qed.

(* a fresh dict id is referred to by no object *)
Lemma next_pd_fresh (s : state) ob : In ob (objs P G C s) -> o_pd P G C ob < next_pd P G C s.
Proof.
  unfold next_pd. generalize (npd P G C s). induction (objs P G C s) as [|a l IH]; intros m Hin; [contradiction|].
  cbn. destruct Hin as [<-|Hin]; [|apply IH; exact Hin].
  assert (Hm : forall l' m', m' <= fold_left (fun m ob => Nat.max m (S (o_pd P G C ob))) l' m').
  { induction l' as [|x l' IHl]; intros m'; cbn; [lia|]. eapply Nat.le_trans; [|apply IHl]. lia. }
  eapply Nat.lt_le_trans; [|apply Hm]. lia.
Qed.

(* what link_ does to a shallow copy n of a transform o that holds a tensor or a Parameter *)
Lemma link_set_effect s n o obn ob r ip s2 :
  get_obj s n = Some obn -> get_obj s o = Some ob -> n <> o ->
  get_params s ob = Some (VTen r ip) ->
  link_set P G C cf s n o = Ok tt s2 ->
  exists obn2, get_obj s2 n = Some obn2 /\ get_obj s2 o = Some ob /\ get_params s2 ob = Some (VTen r ip) /\
    tens P G C s2 = tens P G C s /\
    get_params s2 obn2 = Some (VLink o) /\ o_grid P G C obn2 = o_grid P G C obn /\ o_kind P G C obn2 = o_kind P G C obn
    /\ o_inv P G C obn2 = o_inv P G C obn /\ o_v P G C obn2 = o_v P G C obn /\ o_cond P G C obn2 = o_cond P G C obn.
Proof.
  destruct (cfg_all_fields _ Hcf) as (_ & _ & _ & _ & _ & _ & _ & _ & _ & _ & _ & _ & _ & _ & _ & _ & _ & _ & Hun).
  intros Hn Ho Hne Hp H. unfold link_set, with_obj in H. fold (get_obj s n) (get_obj s o) in H. rewrite Hn, Ho in H.
  destruct (Nat.eqb n o) eqn:En; [apply Nat.eqb_eq in En; contradiction|].
  destruct (negb _); try discriminate.
  (* the un-sharing step: afterwards n's dict has no `params` key, o is untouched and reads the same cell *)
  set (su := unshare_params P G C cf s n obn) in *.
  assert (Hu : exists obu, get_obj su n = Some obu /\ get_obj su o = Some ob /\ get_params su ob = Some (VTen r ip) /\
                 tens P G C su = tens P G C s /\
                 (get_pd P G C su (o_pd P G C obu) = None \/ get_pd P G C su (o_pd P G C obu) = Some None) /\
                 o_grid P G C obu = o_grid P G C obn /\ o_kind P G C obu = o_kind P G C obn /\ o_inv P G C obu = o_inv P G C obn /\
                 o_v P G C obu = o_v P G C obn /\ o_cond P G C obu = o_cond P G C obn /\ o_p P G C obu = o_p P G C obn).
  { subst su. unfold unshare_params. rewrite Hun.
    destruct (get_pd P G C s (o_pd P G C obn)) as [[rr|]|] eqn:Epd.
    - cbn [new_pd].
      set (d := next_pd P G C s).
      set (s' := mkSt P G C (tens P G C s) (fun d' => if Nat.eqb d' d then None else pds P G C s d') (S d) (objs P G C s)).
      assert (Hn' : get_obj s' n = Some obn) by exact Hn.
      exists (set_pdid P G C obn d). split; [apply (get_set_same' _ _ _ _ Hn')|].
      split; [rewrite get_set_other'; auto|].
      assert (Hlt : o_pd P G C ob <> d).
      { unfold TransformState.get_obj in Ho. apply nth_error_In in Ho. pose proof (next_pd_fresh s ob Ho). subst d. lia. }
      split.
      { unfold TransformState.get_params, get_pd in *. cbn.
        destruct (Nat.eqb (o_pd P G C ob) d) eqn:E; [apply Nat.eqb_eq in E; contradiction | exact Hp]. }
      split; [reflexivity|]. split.
      { left. unfold get_pd. cbn. destruct obn; cbn. rewrite Nat.eqb_refl. reflexivity. }
      destruct obn; repeat split.
    - exists obn. repeat split; auto.
    - exists obn. repeat split; auto. }
  destruct Hu as (obu & Hgu & Hou & Hpu & Htu & Hpd & Hgr & Hk & Hiv & Hvv & Hcd & Hpp).
  assert (H' : bind P G C (set_params P G C su n (SetLink o)) (fun _ s1 =>
        with_obj P G C s1 n (fun ob1 =>
          match o_p P G C ob1 with
          | Some _ => Ok tt s1
          | None =>
            match get_params s1 ob with
            | None => Er AttrErr s1
            | Some VNone => Er OtherErr s1
            | Some _ =>
                bind P G C (with_obj P G C s1 o (fun ob'' => data_ref P G C s1 ob'')) (fun r s2 =>
                  Ok tt (set_obj s2 n (set_p P G C ob1 (Some r))))
            end
          end)) = Ok tt s2).
  { destruct (o_kind P G C obn); try discriminate; exact H. }
  clear H. unfold bind at 1 in H'. unfold set_params, with_obj in H'. fold (get_obj su n) in H'. rewrite Hgu in H'.
  destruct Hpd as [Epd | Epd]; rewrite Epd in H'; [|discriminate].
  set (obn1 := set_slots P G C obu None None (Some (Some (MLink o)))) in *.
  set (s1 := set_obj su n obn1) in *.
  assert (Hg1 : get_obj s1 n = Some obn1) by (apply (get_set_same' _ _ _ _ Hgu)).
  assert (Ho1 : get_obj s1 o = Some ob) by (unfold s1; rewrite get_set_other'; auto).
  unfold with_obj in H'. fold (get_obj s1 n) in H'. rewrite Hg1 in H'.
  assert (Hlink : forall x, get_params (set_obj s1 n (set_p P G C obn1 x)) (set_p P G C obn1 x) = Some (VLink o) /\ get_params s1 obn1 = Some (VLink o)).
  { intro x. unfold TransformState.get_params, get_pd in *. subst obn1 s1. destruct obu; cbn in *. rewrite Epd. split; reflexivity. }
  assert (Hf : forall x, o_grid P G C (set_p P G C obn1 x) = o_grid P G C obu /\ o_kind P G C (set_p P G C obn1 x) = o_kind P G C obu
                /\ o_inv P G C (set_p P G C obn1 x) = o_inv P G C obu /\ o_v P G C (set_p P G C obn1 x) = o_v P G C obu
                /\ o_cond P G C (set_p P G C obn1 x) = o_cond P G C obu).
  { intro x. subst obn1. destruct obu; repeat split. }
  assert (Hf1 : o_grid P G C obn1 = o_grid P G C obu /\ o_kind P G C obn1 = o_kind P G C obu
                /\ o_inv P G C obn1 = o_inv P G C obu /\ o_v P G C obn1 = o_v P G C obu /\ o_cond P G C obn1 = o_cond P G C obu).
  { subst obn1. destruct obu; repeat split. }
  assert (Hp1 : get_params s1 ob = Some (VTen r ip)) by (rewrite (get_params_pds su s1 ob eq_refl); exact Hpu).
  destruct (o_p P G C obn1) eqn:Ep1.
  - injection H' as <-. exists obn1. destruct (Hlink None) as [_ Hl]. destruct Hf1 as (A & B & D & E & F).
    repeat split; auto; congruence.
  - rewrite Hp1 in H'. unfold bind, with_obj in H'. fold (get_obj s1 o) in H'. rewrite Ho1 in H'.
    unfold data_ref in H'. rewrite Hp1 in H'. injection H' as <-.
    exists (set_p P G C obn1 (Some r)). destruct (Hlink (Some r)) as [Hl _]. destruct (Hf (Some r)) as (A & B & D & E & F).
    split; [apply (get_set_same' _ _ _ _ Hg1)|]. split; [rewrite get_set_other'; auto|].
    split; [exact Hp1|].
    repeat split; auto; congruence.
Qed.

Theorem inverse_follows s o link upd n s1 ob :
  get_obj s o = Some ob ->
  ((exists r ip, get_params s ob = Some (VTen r ip)) \/ (link = false /\ exists f, get_params s ob = Some (VFun f))) ->
  inverse1 s o link upd = Ok n s1 ->
  follows s1 o n /\ get_obj s1 o = Some ob /\ get_params s1 ob = get_params s ob.
Proof.
  destruct (cfg_all_fields _ Hcf) as (_ & _ & _ & _ & _ & _ & _ & _ & _ & _ & Hfl & Hil & _).
  intros Ho Hpk H. unfold TransformState.inverse1, with_obj in H. fold (get_obj s o) in H. rewrite Ho in H.
  destruct (invertible (o_kind P G C ob)) eqn:Hi; cbn [negb] in H; try discriminate.
  cbn [push_obj] in H. rewrite Hfl, Hil in H.
  set (sp := mkSt P G C (tens P G C s) (pds P G C s) (npd P G C s) (objs P G C s ++ [ob])) in *.
  set (n0 := length (objs P G C s)) in *.
  assert (Hlen : n0 <> o).
  { intro E. unfold TransformState.get_obj in Ho. rewrite <- E in Ho.
    assert (nth_error (objs P G C s) n0 = None) by (apply nth_error_None; unfold n0; lia). congruence. }
  assert (Hgn : get_obj sp n0 = Some ob) by (unfold TransformState.get_obj, sp, n0; cbn; apply nth_error_app_new).
  assert (Hgo : get_obj sp o = Some ob) by (unfold TransformState.get_obj, sp; cbn; apply nth_error_app_old; exact Ho).
  (* the object that receives the inverted flag, and what it reads *)
  assert (Hmid : exists s2 ob2, (if link && true then link_set P G C cf sp n0 o else Ok tt sp) = Ok tt s2 /\
            get_obj s2 n0 = Some ob2 /\ get_obj s2 o = Some ob /\ get_params s2 ob = get_params s ob /\
            o_grid P G C ob2 = o_grid P G C ob /\ o_kind P G C ob2 = o_kind P G C ob /\ o_inv P G C ob2 = o_inv P G C ob /\
            ((get_params s2 ob2 = get_params s ob /\ o_cond P G C ob2 = o_cond P G C ob /\ link = false)
             \/ (get_params s2 ob2 = Some (VLink o) /\ link = true))).
  { destruct link; cbn [andb] in *.
    - destruct (link_set P G C cf sp n0 o) as [[] s2|] eqn:El; try discriminate.
      destruct Hpk as [(r & ip & Hp) | (Hx & _)]; [|discriminate].
      assert (Hp' : get_params sp ob = Some (VTen r ip)) by (rewrite (get_params_pds s sp ob eq_refl); exact Hp).
      destruct (link_set_effect sp n0 o ob ob r ip s2 Hgn Hgo Hlen Hp' El) as (ob2 & A & B & D & _ & E & F & K & I & _).
      exists s2, ob2. repeat split; auto. congruence.
    - exists sp, ob. repeat split; auto. }
  destruct Hmid as (s2 & ob2 & Em & Hg2 & Ho2 & Epo & Hgr & Hk & Hiv & Hc).
  rewrite Em in H. unfold with_obj in H. fold (get_obj s2 n0) in H. rewrite Hg2 in H.
  injection H as <- <-.
  set (obn := if has_exp (o_kind P G C ob) && upd then _ else _).
  assert (Hsl : slots_eq obn ob2 /\ o_inv P G C obn = negb (o_inv P G C ob) /\ o_cond P G C obn = o_cond P G C ob2).
  { subst obn. destruct (has_exp (o_kind P G C ob) && upd).
    - match goal with |- context [match ?x with Some _ => _ | None => _ end] => destruct x end.
      + split; [eapply slots_eq_trans; [eapply slots_set_uv | eapply slots_set_inv]|].
        split; [rewrite inv_set_uv; apply inv_set_inv | destruct ob2; reflexivity].
      + split; [apply slots_set_inv|]. split; [apply inv_set_inv | destruct ob2; reflexivity].
    - split; [apply slots_set_inv|]. split; [apply inv_set_inv | destruct ob2; reflexivity]. }
  destruct Hsl as ((Ha & Hd & Hb & Hm & Hg & Hkk) & Hv & Hcd).
  assert (Egp : get_params (set_obj s2 n0 obn) obn = get_params s2 ob2).
  { unfold TransformState.get_params, get_pd. cbn. rewrite Ha, Hd, Hb, Hm. reflexivity. }
  assert (Egpo : get_params (set_obj s2 n0 obn) ob = get_params s ob).
  { rewrite <- Epo. unfold TransformState.get_params, get_pd. reflexivity. }
  assert (Hoo : get_obj (set_obj s2 n0 obn) o = Some ob) by (rewrite get_set_other'; auto).
  split; [|split; [exact Hoo | exact Egpo]].
  exists ob, obn.
  refine (conj _ (conj _ (conj _ (conj _ (conj Hi (conj Hv _)))))).
  - exact Hoo.
  - apply (get_set_same' _ _ _ _ Hg2).
  - congruence.
  - congruence.
  - rewrite Egp, Egpo. destruct Hc as [(E1 & E2 & ->) | (E1 & ->)].
    + left. split; [exact E1|]. split; [congruence|].
      destruct Hpk as [Hx | (_ & Hx)]; [left | right]; exact Hx.
    + right. split; auto. destruct Hpk as [Hx | (Hx & _)]; [exact Hx | discriminate].
Qed.

(* the inverse stays the inverse: link in {False, True} for tensor / Parameter-free parameters, link = False
   for callable parameters (inverse(link=True) on a Parameter raises -- see the refutation) *)
Theorem inverse_stays_inverse_general s o link upd n s1 ob es :
  get_obj s o = Some ob ->
  ((exists r ip, get_params s ob = Some (VTen r ip)) \/ (link = false /\ exists f, get_params s ob = Some (VFun f))) ->
  inverse1 s o link upd = Ok n s1 ->
  exists p g sg, held (edits s1 es) o = Some (p, g, sg) /\ held (edits s1 es) n = Some (p, g, negb sg).
Proof.
  intros Ho Hp H. eapply follows_held. apply follows_after_edits. eapply (proj1 (inverse_follows _ _ _ _ _ _ _ Ho Hp H)).
Qed.


(* ---------- inverse(link=True) on a transform that holds a Parameter succeeds ---------- *)
Lemma link_set_total s n o obn ob r :
  get_obj s n = Some obn -> get_obj s o = Some ob -> n <> o ->
  o_kind P G C obn = o_kind P G C ob -> o_kind P G C ob <> KSeq ->
  get_params s ob = Some (VTen r true) -> get_pd P G C s (o_pd P G C obn) = Some (Some r) ->
  exists s2, link_set P G C cf s n o = Ok tt s2.
Proof.
  destruct (cfg_all_fields _ Hcf) as (_ & _ & _ & _ & _ & _ & _ & _ & _ & _ & _ & _ & _ & _ & _ & _ & _ & _ & Hun).
  intros Hn Ho Hne Hk Hks Hp Hpd. unfold link_set, with_obj. fold (get_obj s n) (get_obj s o). rewrite Hn, Ho.
  destruct (Nat.eqb n o) eqn:En; [apply Nat.eqb_eq in En; contradiction|].
  rewrite Hk. assert (Hke : kind_eqb (o_kind P G C ob) (o_kind P G C ob) = true) by (destruct (o_kind P G C ob); reflexivity).
  rewrite Hke. cbn [negb].
  unfold unshare_params. rewrite Hpd, Hun. cbn [new_pd].
  set (d := next_pd P G C s).
  set (s' := mkSt P G C (tens P G C s) (fun d' => if Nat.eqb d' d then None else pds P G C s d') (S d) (objs P G C s)).
  set (su := set_obj s' n (set_pdid P G C obn d)).
  assert (Hgu : get_obj su n = Some (set_pdid P G C obn d)) by (apply (get_set_same' s' n obn _ Hn)).
  assert (Hlt : o_pd P G C ob <> d).
  { unfold TransformState.get_obj in Ho. apply nth_error_In in Ho. pose proof (next_pd_fresh s ob Ho). subst d. lia. }
  assert (Hpu : forall sx, pds P G C sx = pds P G C su -> get_params sx ob = Some (VTen r true)).
  { intros sx E. unfold TransformState.get_params, get_pd in *. rewrite E. cbn.
    destruct (Nat.eqb (o_pd P G C ob) d) eqn:E2; [apply Nat.eqb_eq in E2; contradiction | exact Hp]. }
  assert (R : exists s2, bind P G C (set_params P G C su n (SetLink o)) (fun _ s1 =>
        with_obj P G C s1 n (fun ob1 =>
          match o_p P G C ob1 with
          | Some _ => Ok tt s1
          | None =>
            match get_params s1 ob with
            | None => Er AttrErr s1
            | Some VNone => Er OtherErr s1
            | Some _ =>
                bind P G C (with_obj P G C s1 o (fun ob'' => data_ref P G C s1 ob'')) (fun r s2 =>
                  Ok tt (set_obj s2 n (set_p P G C ob1 (Some r))))
            end
          end)) = Ok tt s2).
  { unfold bind at 1. unfold set_params, with_obj. fold (get_obj su n). rewrite Hgu.
    assert (Epd : get_pd P G C su (o_pd P G C (set_pdid P G C obn d)) = None).
    { unfold get_pd, su. cbn. destruct obn; cbn. rewrite Nat.eqb_refl. reflexivity. }
    rewrite Epd.
    set (obn1 := set_slots P G C (set_pdid P G C obn d) None None (Some (Some (MLink o)))).
    set (s1 := set_obj su n obn1).
    assert (Hg1 : get_obj s1 n = Some obn1) by (apply (get_set_same' _ _ _ _ Hgu)).
    assert (Ho1 : get_obj s1 o = Some ob) by (unfold s1, su; rewrite !get_set_other'; auto).
    fold (get_obj s1 n). rewrite Hg1.
    destruct (o_p P G C obn1); [eexists; reflexivity|].
    rewrite (Hpu s1 eq_refl). unfold bind, with_obj. fold (get_obj s1 o). rewrite Ho1.
    unfold data_ref. rewrite (Hpu s1 eq_refl). eexists; reflexivity. }
  destruct (o_kind P G C ob); try congruence; exact R.
Qed.

Theorem inverse_link_parameter_total s o upd ob r :
  get_obj s o = Some ob -> invertible (o_kind P G C ob) = true ->
  get_params s ob = Some (VTen r true) -> get_pd P G C s (o_pd P G C ob) = Some (Some r) ->
  exists n s1, inverse1 s o true upd = Ok n s1.
Proof.
  destruct (cfg_all_fields _ Hcf) as (_ & _ & _ & _ & _ & _ & _ & _ & _ & _ & Hfl & Hil & _).
  intros Ho Hi Hp Hpd. unfold TransformState.inverse1, with_obj. fold (get_obj s o). rewrite Ho, Hi. cbn [negb push_obj].
  rewrite Hil. cbn [andb].
  set (sp := mkSt P G C (tens P G C s) (pds P G C s) (npd P G C s) (objs P G C s ++ [ob])).
  set (n0 := length (objs P G C s)).
  assert (Hlen : n0 <> o).
  { intro E. unfold TransformState.get_obj in Ho. rewrite <- E in Ho.
    assert (nth_error (objs P G C s) n0 = None) by (apply nth_error_None; unfold n0; lia). congruence. }
  assert (Hgn : get_obj sp n0 = Some ob) by (unfold TransformState.get_obj, sp, n0; cbn; apply nth_error_app_new).
  assert (Hgo : get_obj sp o = Some ob) by (unfold TransformState.get_obj, sp; cbn; apply nth_error_app_old; exact Ho).
  assert (Hks : o_kind P G C ob <> KSeq) by (destruct (o_kind P G C ob); cbn in Hi; congruence).
  destruct (link_set_total sp n0 o ob ob r Hgn Hgo Hlen eq_refl Hks Hp Hpd) as (s2 & El).
  rewrite El.
  assert (Hex : exists ob2, get_obj s2 n0 = Some ob2).
  { destruct (link_set_effect sp n0 o ob ob r true s2 Hgn Hgo Hlen Hp El) as (ob2 & A & _). eauto. }
  destruct Hex as (ob2 & Hg2). unfold with_obj. fold (get_obj s2 n0). rewrite Hg2. eexists _, _. reflexivity.
Qed.

Theorem inverse_link_parameter s o upd ob r :
  get_obj s o = Some ob -> invertible (o_kind P G C ob) = true ->
  get_params s ob = Some (VTen r true) -> get_pd P G C s (o_pd P G C ob) = Some (Some r) ->
  exists n s1,
    inverse1 s o true upd = Ok n s1 /\
    get_obj s1 o = Some ob /\ get_params s1 ob = Some (VTen r true) /\
    forall es : list (nat * P),
      exists p g sg, held (edits s1 es) o = Some (p, g, sg) /\ held (edits s1 es) n = Some (p, g, negb sg).
Proof.
  intros Ho Hi Hp Hpd. destruct (inverse_link_parameter_total s o upd ob r Ho Hi Hp Hpd) as (n & s1 & H).
  exists n, s1. split; auto.
  assert (Hpk : (exists r ip, get_params s ob = Some (VTen r ip)) \/ (true = false /\ exists f, get_params s ob = Some (VFun f)))
    by (left; eauto).
  destruct (inverse_follows _ _ _ _ _ _ _ Ho Hpk H) as (Hf & Hoo & Egp).
  split; auto. split; [congruence|].
  intro es. eapply follows_held. apply follows_after_edits. exact Hf.
Qed.

(* inverse(update_buffers=True): the buffered displacement of the inverse is computed from the buffered
   velocity field with the NEGATED exponential (so the inverse can be used without update()) *)
Theorem inverse_update_buffers_field s o n s1 ob vb :
  get_obj s o = Some ob -> has_exp (o_kind P G C ob) = true -> o_v P G C ob = Some vb ->
  inverse1 s o false true = Ok n s1 ->
  exists obn, get_obj s1 n = Some obn /\
    o_u P G C obn = Some (mkU P G (Snap P (u_content P G C p0 s vb)) (u_grid P G vb) (negb (o_inv P G C ob))).
Proof.
  destruct (cfg_all_fields _ Hcf) as (_ & _ & _ & _ & _ & _ & _ & _ & _ & _ & Hfl & _ & _ & _ & _ & _ & _ & Hef & _).
  intros Ho He Hv H. unfold TransformState.inverse1, with_obj in H. fold (get_obj s o) in H. rewrite Ho in H.
  assert (Hi : invertible (o_kind P G C ob) = true) by (destruct (o_kind P G C ob); cbn in *; congruence).
  rewrite Hi in H. cbn [negb push_obj andb] in H.
  unfold with_obj, TransformState.get_obj in H. cbn in H. rewrite nth_error_app_new in H.
  rewrite Hfl, Hef, He in H. cbn [andb] in H.
  rewrite Hv in H. injection H as <- <-. eexists. split.
  - unfold TransformState.get_obj, TransformState.set_obj; cbn.
    apply nth_error_replace_same with (y := ob). apply nth_error_app_new.
  - destruct ob; reflexivity.
Qed.

End Shared.
