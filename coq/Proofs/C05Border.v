(* C05, border padding: with padding = border the linear sampler agrees with the ITK resampler on ITK's WHOLE
   buffer [-1/2, n-1/2)^D (also in the outer half-voxel band where the default zeros padding of grid_sample
   blends toward zero for align_corners = False), for both align_corners conventions. *)
From Coq Require Import ZArith List Field Ring Lia Bool.
From DV Require Import Base.Field Base.FieldFacts Base.LinAlg Base.Tactics Model.Enums Model.Homog Model.Grid Model.ItkSpec
  Model.Sampler Gen.GridT Gen.SampleT Model.Resample Proofs.SamplerFacts Proofs.C01Grid Proofs.C01Laws Proofs.C05Index Proofs.C05Kernel
  Proofs.C05Main.
Import ListNotations.
Local Open Scope fld_scope.

Section C05Border.
Variable K : fld.
Hypothesis Kf : is_field K.
Hypothesis Kc : char0 K.
Variable floorK : K -> Z.
Variable nearK : K -> Z.

Theorem sample_matches_itk_border2 (ac : bool) (dflt : K)
        (tn ts tc : nat -> K) (td : nat -> nat -> K) (ss sc : nat -> K) (sd : nat -> nat -> K)
        (img : list (list K)) (J : list K) :
  wf 2 tn ts td -> wf 2 (zsz (sz2 img)) ss sd -> length J = 2%nat ->
  buf_ok floorK (isizes2 img)
    (itk_cindex 2 (vtab 2 tn) (vtab 2 ts) (vtab 2 tc) (tab 2 2 td) (zvec (isizes2 img)) (vtab 2 ss) (vtab 2 sc) (tab 2 2 sd) J) ->
  dp_sample2 floorK nearK Linear (PadMode PBorder) ac (vtab 2 tn) (vtab 2 ts) (vtab 2 tc) (tab 2 2 td) (vtab 2 ss) (vtab 2 sc) (tab 2 2 sd) img J
  = itk_resample2 floorK Linear dflt (vtab 2 tn) (vtab 2 ts) (vtab 2 tc) (tab 2 2 td) (vtab 2 ss) (vtab 2 sc) (tab 2 2 sd) img J.
Proof.
  intros Ht Hs HJ Hok. rewrite dp_sample2_unfold. rewrite <- (sz2_list K).
  rewrite (sample_index_matches_itk K Kf Kc 2 (or_introl eq_refl)) by auto.
  rewrite (zvec2 K) in Hok. unfold itk_resample2. rewrite (zvec2 K).
  pose proof (itk_cindex_length K 2 tn ts tc (zsz (sz2 img)) ss sc td sd J (or_introl eq_refl) HJ) as HL.
  destruct (itk_cindex 2 _ _ _ _ _ _ _ _ J) as [|x [|y [|? ?]]]; try discriminate HL.
  unfold buf_ok, isizes2 in Hok. inversion Hok as [|? ? ? ? Hx Hr]; subst. inversion Hr as [|? ? ? ? Hy Hr']; subst.
  cbn [dp_kernel2 kern2 vsample2 itk_linear2]. rewrite Hx, Hy. reflexivity.
Qed.

Theorem sample_matches_itk_border3 (ac : bool) (dflt : K)
        (tn ts tc : nat -> K) (td : nat -> nat -> K) (ss sc : nat -> K) (sd : nat -> nat -> K)
        (img : list (list (list K))) (J : list K) :
  wf 3 tn ts td -> wf 3 (zsz (sz3 img)) ss sd -> length J = 3%nat ->
  buf_ok floorK (isizes3 img)
    (itk_cindex 3 (vtab 3 tn) (vtab 3 ts) (vtab 3 tc) (tab 3 3 td) (zvec (isizes3 img)) (vtab 3 ss) (vtab 3 sc) (tab 3 3 sd) J) ->
  dp_sample3 floorK nearK Linear (PadMode PBorder) ac (vtab 3 tn) (vtab 3 ts) (vtab 3 tc) (tab 3 3 td) (vtab 3 ss) (vtab 3 sc) (tab 3 3 sd) img J
  = itk_resample3 floorK Linear dflt (vtab 3 tn) (vtab 3 ts) (vtab 3 tc) (tab 3 3 td) (vtab 3 ss) (vtab 3 sc) (tab 3 3 sd) img J.
Proof.
  intros Ht Hs HJ Hok. rewrite dp_sample3_unfold. rewrite <- (sz3_list K).
  rewrite (sample_index_matches_itk K Kf Kc 3 (or_intror eq_refl)) by auto.
  rewrite (zvec3 K) in Hok. unfold itk_resample3. rewrite (zvec3 K).
  pose proof (itk_cindex_length K 3 tn ts tc (zsz (sz3 img)) ss sc td sd J (or_intror eq_refl) HJ) as HL.
  destruct (itk_cindex 3 _ _ _ _ _ _ _ _ J) as [|x [|y [|z [|? ?]]]]; try discriminate HL.
  unfold buf_ok, isizes3 in Hok. inversion Hok as [|? ? ? ? Hx Hr]; subst. inversion Hr as [|? ? ? ? Hy Hr']; subst.
  inversion Hr' as [|? ? ? ? Hz Hr'']; subst.
  cbn [dp_kernel3 kern3 vsample3 itk_linear3]. rewrite Hx, Hy, Hz. reflexivity.
Qed.
End C05Border.

(* ---------- over the executable field, hypothesis in Q's order ---------- *)
From Coq Require Import QArith Qround Qcanon Lqa.
From DV Require Import Base.QcInst Model.SamplerQc Model.ResampleQc Proofs.QcFacts.

Lemma buf_Qc (n : Z) (x : Qc) : (-(1 # 2) <= this x)%Q -> (this x < inject_Z n - (1 # 2))%Q ->
  inside_buffer (K:=QcF) floorQ n x = true.
Proof.
  intros H0 H1.
  assert (E : (this (fadd (K:=QcF) x half) == this x + (1 # 2))%Q) by (rewrite this_add, this_half; reflexivity).
  unfold inside_buffer, inb, floorQ. rewrite E.
  assert (G0 : (0 <= Qfloor (this x + (1 # 2)))%Z) by (apply Qfloor_nonneg; lra).
  assert (G1 : (Qfloor (this x + (1 # 2)) < n)%Z) by (apply Qfloor_lt_Z; lra).
  apply andb_true_intro. split; [apply Z.leb_le; exact G0 | apply Z.ltb_lt; exact G1].
Qed.

Lemma bufQ_ok (sizes : list Z) (X : list Qc) : bufQ sizes X -> buf_ok (K:=QcF) floorQ sizes X.
Proof. intro H. induction H as [|n x s' X' [H0 H1] _ IH]; constructor; auto using buf_Qc. Qed.

Lemma sample_matches_itk_border2_Qc (ac : bool) (dflt : QcF)
      (tn ts tc : nat -> QcF) (td : nat -> nat -> QcF) (ss sc : nat -> QcF) (sd : nat -> nat -> QcF)
      (img : list (list QcF)) (J : list QcF) :
  wf (K:=QcF) 2 tn ts td -> wf (K:=QcF) 2 (zsz (K:=QcF) (sz2 (K:=QcF) img)) ss sd -> length J = 2%nat ->
  bufQ (isizes2 (K:=QcF) img)
    (itk_cindex (K:=QcF) 2 (vtab 2 tn) (vtab 2 ts) (vtab 2 tc) (tab 2 2 td) (zvec (K:=QcF) (isizes2 (K:=QcF) img)) (vtab 2 ss) (vtab 2 sc) (tab 2 2 sd) J) ->
  qdp_sample2 Linear (PadMode PBorder) ac (vtab 2 tn) (vtab 2 ts) (vtab 2 tc) (tab 2 2 td) (vtab 2 ss) (vtab 2 sc) (tab 2 2 sd) img J
  = qitk_resample2 Linear dflt (vtab 2 tn) (vtab 2 ts) (vtab 2 tc) (tab 2 2 td) (vtab 2 ss) (vtab 2 sc) (tab 2 2 sd) img J.
Proof.
  intros Ht Hs HJ Hok. apply (sample_matches_itk_border2 QcF QcF_field QcF_char0 floorQ nearQ); auto.
  apply bufQ_ok. exact Hok.
Qed.

Lemma sample_matches_itk_border3_Qc (ac : bool) (dflt : QcF)
      (tn ts tc : nat -> QcF) (td : nat -> nat -> QcF) (ss sc : nat -> QcF) (sd : nat -> nat -> QcF)
      (img : list (list (list QcF))) (J : list QcF) :
  wf (K:=QcF) 3 tn ts td -> wf (K:=QcF) 3 (zsz (K:=QcF) (sz3 (K:=QcF) img)) ss sd -> length J = 3%nat ->
  bufQ (isizes3 (K:=QcF) img)
    (itk_cindex (K:=QcF) 3 (vtab 3 tn) (vtab 3 ts) (vtab 3 tc) (tab 3 3 td) (zvec (K:=QcF) (isizes3 (K:=QcF) img)) (vtab 3 ss) (vtab 3 sc) (tab 3 3 sd) J) ->
  qdp_sample3 Linear (PadMode PBorder) ac (vtab 3 tn) (vtab 3 ts) (vtab 3 tc) (tab 3 3 td) (vtab 3 ss) (vtab 3 sc) (tab 3 3 sd) img J
  = qitk_resample3 Linear dflt (vtab 3 tn) (vtab 3 ts) (vtab 3 tc) (tab 3 3 td) (vtab 3 ss) (vtab 3 sc) (tab 3 3 sd) img J.
Proof.
  intros Ht Hs HJ Hok. apply (sample_matches_itk_border3 QcF QcF_field QcF_char0 floorQ nearQ); auto.
  apply bufQ_ok. exact Hok.
Qed.
