"""Implementation-side runner for C01 (grid coordinate systems)."""
import itertools
import json
import math
import random
import sys
import traceback
from fractions import Fraction

import torch

from vlib import emit_json

from deepali.core.grid import Axes, Grid
from deepali.core.cube import Cube
from deepali.core import grid as GM
from deepali.core.math import round_decimals

AX = {"GRID": Axes.GRID, "CUBE": Axes.CUBE, "CUBE_CORNERS": Axes.CUBE_CORNERS, "WORLD": Axes.WORLD}
AXN = list(AX)


def rot_from_quat(q):
    w, x, y, z = q
    n = w * w + x * x + y * y + z * z
    return [[(w * w + x * x - y * y - z * z) / n, 2 * (x * y - w * z) / n, 2 * (x * z + w * y) / n],
            [2 * (x * y + w * z) / n, (w * w - x * x + y * y - z * z) / n, 2 * (y * z - w * x) / n],
            [2 * (x * z - w * y) / n, 2 * (y * z + w * x) / n, (w * w - x * x - y * y + z * z) / n]]


def rand_dir(rng, D):
    kind = rng.random()
    if D == 2:
        if kind < 0.2:
            return [[1.0, 0.0], [0.0, 1.0]]
        if kind < 0.35:
            return rng.choice([[[0.0, -1.0], [1.0, 0.0]], [[-1.0, 0.0], [0.0, -1.0]], [[0.0, 1.0], [1.0, 0.0]], [[1.0, 0.0], [0.0, -1.0]]])
        a, b = rng.choice([(3, 4), (5, 12), (8, 15), (7, 24), (20, 21)])
        h = math.hypot(a, b)
        c, s = a / h, b / h
        if rng.random() < .5:
            s = -s
        return [[c, -s], [s, c]]
    if kind < 0.15:
        return [[1.0, 0, 0], [0, 1.0, 0], [0, 0, 1.0]]
    if kind < 0.3:
        perm = rng.choice(list(itertools.permutations(range(3))))
        m = [[0.0] * 3 for _ in range(3)]
        for i, p in enumerate(perm):
            m[i][p] = rng.choice([1.0, -1.0])
        return m
    q = [rng.randint(-4, 4) for _ in range(4)]
    if not any(q):
        q = [1, 0, 0, 0]
    return rot_from_quat(q)


def rand_grid(rng, D, max_n=40):
    size = [rng.randint(2, max_n) if rng.random() < .9 else rng.choice([2, 3]) for _ in range(D)]
    spacing = [rng.choice([0.25, 0.5, 0.75, 1.0, 1.5, 2.0, 3.0]) for _ in range(D)]
    center = [rng.randint(-200, 200) / 4 for _ in range(D)]
    return dict(size=size, spacing=spacing, center=center, direction=rand_dir(rng, D), align_corners=rng.random() < .5)


def mk(g):
    return Grid(size=g["size"], spacing=g["spacing"], center=g["center"],
                direction=[v for r in g["direction"] for v in r], align_corners=g["align_corners"])


def stored(g):
    """attributes exactly as the implementation stores them (float32)"""
    return {"n": [float(v) for v in g.size_tensor()], "s": [float(v) for v in g.spacing()],
            "c": [float(v) for v in g.center()], "d": [[float(v) for v in r] for r in g.direction()]}


def err(e):
    return {"error": type(e).__name__, "msg": str(e)[:200]}


def model_cases(p):
    out = []
    for c in p["cases"]:
        try:
            g = mk(c["grid"])
            r = {"stored": stored(g)}
            h = None
            if c.get("grid2"):
                h = mk(c["grid2"])
                r["stored2"] = stored(h)
            a, b = AX[c["a"]], AX[c["b"]]
            k = c["kind"]
            if k == "T":
                m = g.transform(a, b, to_grid=h, vectors=c["vectors"])
                r["shape"] = list(m.shape)
                r["val"] = m.double().tolist()
            elif k == "pts":
                x = torch.tensor(c["x"], dtype=torch.float64)
                y = g.transform_points(x, a, b, to_grid=h, decimals=None)
                r["val"] = y.double().tolist()
            elif k == "vecs":
                x = torch.tensor(c["x"], dtype=torch.float64)
                y = g.transform_vectors(x, a, b, to_grid=h)
                r["val"] = y.double().tolist()
            elif k == "origin":
                r["val"] = g.origin().double().tolist()
            out.append(r)
        except Exception as e:  # noqa
            out.append(err(e))
    return out


def lattice_cases(p):
    out = []
    for c in p["cases"]:
        n, ac, dt = c["n"], c["ac"], {"float32": torch.float32, "float64": torch.float64}[c["dtype"]]
        try:
            g = Grid(size=(n, 2), align_corners=not ac)
            co = g.coords(dim=0, align_corners=ac, dtype=dt)
            if co.ndim == 2 and co.shape[1] == 1:
                co = co[:, 0]
            out.append({"len": int(co.shape[0]) if co.ndim == 1 else -1, "val": co.double().tolist() if c.get("values") else None,
                        "min": float(co.min()), "max": float(co.max())})
        except Exception as e:  # noqa
            out.append(err(e))
    return out


def round_cases(p):
    out = []
    for c in p["cases"]:
        try:
            x = torch.tensor([c["x"]], dtype=torch.float64)
            out.append({"val": float(round_decimals(x, decimals=c["d"])[0])})
        except Exception as e:  # noqa
            out.append(err(e))
    return out


# ------------------------------------------------------------------------------------------------
# the property itself on the implementation
# ------------------------------------------------------------------------------------------------
def close(a, b, tol):
    return a.shape == b.shape and bool(torch.all(torch.abs(a.double() - b.double()) <= tol * (1 + torch.abs(b.double()))))


def scale_of(g, ax):
    """typical coordinate magnitude in the given axes (for tolerances)"""
    return 1.0


def rand_points(rng, g, ax, shape, dtype):
    D = g.ndim
    n = 1
    for s_ in shape:
        n *= s_
    pts = []
    for _ in range(n):
        idx = [rng.uniform(-1, g.size()[i]) for i in range(D)]
        pts.append(idx)
    t = torch.tensor(pts, dtype=torch.float64).reshape(*shape, D)
    t = g.transform_points(t, Axes.GRID, ax, decimals=None)
    return t.to(dtype)


def oracle(p):
    rng = random.Random(p["seed"])
    fails = []
    counts = {"grids": 0, "pairs": 0, "triples": 0, "vectors": 0, "anchors": 0, "coords": 0, "cube": 0, "sample": 0}

    def fail(key, what, **kw):
        fails.append(dict(key=key, what=what, **kw))

    for it in range(p["n"]):
        D = rng.choice([2, 3])
        gd, hd, kd = rand_grid(rng, D), rand_grid(rng, D), rand_grid(rng, D)
        try:
            g, h, k = mk(gd), mk(hd), mk(kd)
            # pairs of grids that are different samplings of ONE domain (resized / re-flagged copies)
            r = rng.random()
            if r < 0.2:
                new_size = [rng.randint(2, 40) for _ in range(D)]
                h = g.resize(new_size)
                hd = dict(gd, derived=f"resize{new_size}")
            elif r < 0.3:
                h = g.align_corners(not g.align_corners())
                hd = dict(gd, derived="align_corners flipped")
            elif r < 0.4:
                h = g.center([v + rng.choice([-3.0, 0.5, 2.25]) for v in gd["center"]])
                hd = dict(gd, derived="shifted copy")
        except Exception as e:  # noqa
            fail("C01:Grid:construct", f"valid grid rejected: {type(e).__name__}: {str(e)[:100]}", grid=gd)
            continue
        counts["grids"] += 1
        dtype = rng.choice([torch.float32, torch.float64, torch.float64])
        tol = 2e-4 if dtype == torch.float32 else 5e-5  # matrices are float32 in either case
        shape = rng.choice([(5,), (2, 3), (1, 4), (2, 1, 2)])
        # inverse and composition for all pairs / a sample of triples, one grid and two grids
        for a, b in itertools.product(AXN, AXN):
            for two in (False, True):
                tg = h if two else None
                counts["pairs"] += 1
                try:
                    x = rand_points(rng, g, AX[a], shape, dtype)
                    y = g.transform_points(x, AX[a], AX[b], to_grid=tg, decimals=None)
                    if y.shape != x.shape or y.dtype != x.dtype:
                        fail(f"C01:transform_points:{a}->{b}:shape", f"shape/dtype changed {tuple(x.shape)},{x.dtype} -> {tuple(y.shape)},{y.dtype}",
                             grid=gd, grid2=hd if two else None)
                    xb = (tg or g).transform_points(y, AX[b], AX[a], to_grid=g if two else None, decimals=None)
                    sc = float(x.abs().max()) + 1
                    if not bool(torch.all((xb.double() - x.double()).abs() <= tol * sc * 4)):
                        fail(f"C01:inverse:{a}->{b}:{'two' if two else 'one'}", "B->A after A->B is not the identity",
                             grid=gd, grid2=hd if two else None, x=x.tolist(), back=xb.tolist())
                    # default rounding must not break inverses either
                    yr = g.transform_points(x, AX[a], AX[b], to_grid=tg)
                    xr = (tg or g).transform_points(yr, AX[b], AX[a], to_grid=g if two else None)
                    if not bool(torch.all((xr.double() - x.double()).abs() <= tol * sc * 4 + 1e-5 * sc)):
                        fail(f"C01:inverse_rounded:{a}->{b}:{'two' if two else 'one'}", "default rounding breaks the inverse",
                             grid=gd, grid2=hd if two else None, x=x.tolist(), back=xr.tolist())
                    # matrix API agrees with point API
                    m = g.transform(AX[a], AX[b], to_grid=tg)
                    from deepali.core.linalg import homogeneous_transform
                    ym = homogeneous_transform(m.double(), x.double().reshape(-1, D)).reshape(x.shape)
                    if not close(ym, y, tol * 4):
                        fail(f"C01:matrix_vs_points:{a}->{b}:{'two' if two else 'one'}", "Grid.transform matrix is not the map transform_points applies",
                             grid=gd, grid2=hd if two else None)
                    # vectors = linear part
                    v = torch.tensor([[rng.uniform(-2, 2) for _ in range(D)] for _ in range(3)], dtype=torch.float64)
                    x0 = rand_points(rng, g, AX[a], (3,), torch.float64)
                    lin = g.transform_points(x0 + v, AX[a], AX[b], to_grid=tg, decimals=None) - g.transform_points(x0, AX[a], AX[b], to_grid=tg, decimals=None)
                    tv = g.transform_vectors(v, AX[a], AX[b], to_grid=tg)
                    counts["vectors"] += 1
                    sc = float(lin.abs().max()) + float(x0.abs().max()) * 1e-2 + 1
                    if not bool(torch.all((tv - lin).abs() <= tol * sc * 8)):
                        fail(f"C01:vectors:{a}->{b}:{'two' if two else 'one'}", "transform_vectors is not the linear part of the point map",
                             grid=gd, grid2=hd if two else None, v=v.tolist(), got=tv.tolist(), want=lin.tolist())
                    mv = g.transform(AX[a], AX[b], to_grid=tg, vectors=True)
                    tv2 = homogeneous_transform(mv.double(), v, vectors=True)
                    if not bool(torch.all((tv2 - tv).abs() <= tol * sc * 8)):
                        fail(f"C01:vectors_matrix:{a}->{b}:{'two' if two else 'one'}", "transform(vectors=True) differs from transform_vectors",
                             grid=gd, grid2=hd if two else None)
                except Exception as e:  # noqa
                    fail(f"C01:transform:{a}->{b}:{'two' if two else 'one'}:raises", f"raises {type(e).__name__}: {str(e)[:120]}",
                         grid=gd, grid2=hd if two else None)
        for _ in range(8):
            a, b, c = rng.choice(AXN), rng.choice(AXN), rng.choice(AXN)
            three = rng.random() < .5
            counts["triples"] += 1
            try:
                x = rand_points(rng, g, AX[a], (4,), torch.float64)
                if three:
                    y1 = h.transform_points(g.transform_points(x, AX[a], AX[b], to_grid=h, decimals=None), AX[b], AX[c], to_grid=k, decimals=None)
                    y2 = g.transform_points(x, AX[a], AX[c], to_grid=k, decimals=None)
                else:
                    y1 = g.transform_points(g.transform_points(x, AX[a], AX[b], decimals=None), AX[b], AX[c], decimals=None)
                    y2 = g.transform_points(x, AX[a], AX[c], decimals=None)
                sc = float(y2.abs().max()) + 1
                if not bool(torch.all((y1 - y2).abs() <= 2e-4 * sc * 4)):
                    fail(f"C01:compose:{a}->{b}->{c}:{'three' if three else 'one'}", "A->C differs from A->B->C",
                         grid=gd, grid2=hd if three else None, grid3=kd if three else None, x=x.tolist())
            except Exception as e:  # noqa
                fail(f"C01:compose:{a}->{b}->{c}:raises", f"raises {type(e).__name__}: {str(e)[:120]}", grid=gd)
        # anchors
        counts["anchors"] += 1
        try:
            n = torch.tensor([float(v) for v in g.size()], dtype=torch.float64)
            z = torch.zeros(D, dtype=torch.float64)
            one = torch.ones(D, dtype=torch.float64)
            sc = float(g.center().abs().max()) + float((g.spacing() * n).max()) + 1
            chk = [
                ("origin", g.index_to_world(z, decimals=None), g.origin().double(), sc),
                ("center", g.index_to_world((n - 1) / 2, decimals=None), g.center().double(), sc),
                ("corner-", g.cube_to_index(-one, align_corners=True, decimals=None), z, float(n.max())),
                ("corner+", g.cube_to_index(one, align_corners=True, decimals=None), n - 1, float(n.max())),
                ("cube-", g.cube_to_index(-one, align_corners=False, decimals=None), z - 0.5, float(n.max())),
                ("cube+", g.cube_to_index(one, align_corners=False, decimals=None), n - 0.5, float(n.max())),
            ]
            for nm, got, want, s_ in chk:
                if not bool(torch.all((got.double() - want).abs() <= 1e-5 * s_)):
                    fail(f"C01:anchor:{nm}", "documented anchor does not hold", grid=gd, got=got.tolist(), want=want.tolist())
            # independent statement of origin: center - R diag(s) (n-1)/2 in float64
            R = torch.tensor(gd["direction"], dtype=torch.float64)
            o = torch.tensor(gd["center"], dtype=torch.float64) - R @ (torch.tensor(gd["spacing"], dtype=torch.float64) * (n - 1) / 2)
            if not bool(torch.all((g.origin().double() - o).abs() <= 1e-5 * sc)):
                fail("C01:anchor:origin-formula", "origin is not center - R diag(s) (n-1)/2", grid=gd, got=g.origin().tolist(), want=o.tolist())
        except Exception as e:  # noqa
            fail("C01:anchor:raises", f"raises {type(e).__name__}: {str(e)[:120]}", grid=gd)
        # grids whose STORED size is fractional (downsample of an odd size, Grid(size=floats)): every map must use the
        # number of samples (the rounded size) consistently
        try:
            gf = None
            if any(n % 2 == 1 for n in gd["size"]) and all(n >= 4 for n in gd["size"]):   # every axis keeps >= 2 samples (n - 1 != 0)
                gf = g.downsample()
            elif rng.random() < 0.3:
                gf = Grid(size=[n - rng.choice([0.25, 0.5, 0.75]) for n in gd["size"]], spacing=gd["spacing"], center=gd["center"],
                          direction=[v for r in gd["direction"] for v in r], align_corners=gd["align_corners"])
            if gf is not None:
                counts["fractional_size"] = counts.get("fractional_size", 0) + 1
                gfd = dict(gd, derived="stored size " + str([float(v) for v in gf._size]))
                for a, b in itertools.product(AXN, AXN):
                    x = rand_points(rng, gf, AX[a], (4,), torch.float64)
                    y = gf.transform_points(x, AX[a], AX[b], decimals=None)
                    xb = gf.transform_points(y, AX[b], AX[a], decimals=None)
                    sc = float(x.abs().max()) + 1
                    if not bool(torch.all((xb - x).abs() <= 2e-4 * sc * 4)):
                        fail(f"C01:inverse:{a}->{b}:fractional-size", "B->A after A->B is not the identity on a grid with a fractional stored size",
                             grid=gfd, x=x.tolist(), back=xb.tolist())
                    yg = gf.transform_points(gf.transform_points(x, AX[a], Axes.GRID, decimals=None), Axes.GRID, AX[b], decimals=None)
                    scy = float(y.abs().max()) + 1
                    if not bool(torch.all((yg - y).abs() <= 2e-4 * scy * 4)):
                        fail(f"C01:compose:{a}->GRID->{b}:fractional-size", "A->B differs from A->GRID->B on a grid with a fractional stored size",
                             grid=gfd, x=x.tolist())
                    v = torch.tensor([[rng.uniform(-2, 2) for _ in range(D)] for _ in range(3)], dtype=torch.float64)
                    x0 = rand_points(rng, gf, AX[a], (3,), torch.float64)
                    lin = gf.transform_points(x0 + v, AX[a], AX[b], decimals=None) - gf.transform_points(x0, AX[a], AX[b], decimals=None)
                    tv = gf.transform_vectors(v, AX[a], AX[b])
                    scv = float(lin.abs().max()) + float(x0.abs().max()) * 1e-2 + 1
                    if not bool(torch.all((tv - lin).abs() <= 2e-4 * scv * 8)):
                        fail(f"C01:vectors:{a}->{b}:fractional-size", "transform_vectors is not the linear part of the point map (fractional stored size)",
                             grid=gfd, v=v.tolist(), got=tv.tolist(), want=lin.tolist())
                nf = torch.tensor([float(v) for v in gf.size()], dtype=torch.float64)
                for ac in (True, False):
                    co = gf.coords(align_corners=ac, dtype=torch.float64)
                    want = gf.transform_points(gf.coords(normalize=False, dtype=torch.float64), Axes.GRID, Axes.from_align_corners(ac), decimals=None)
                    if tuple(co.shape) != tuple(want.shape) or not bool(torch.all((co - want).abs() <= 1e-5)):
                        fail(f"C01:coords:values:{'ac' if ac else 'nac'}:fractional-size", "coords() are not the grid map applied to the integer indices", grid=gfd)
        except Exception as e:  # noqa
            fail("C01:fractional-size:raises", f"raises {type(e).__name__}: {str(e)[:120]}", grid=gd)
        # the same anchors for grids CONSTRUCTED from an origin, and the pair (grid, cropped sub-grid): the sub-grid's
        # index i is the base grid's index i + margin (same world lattice)
        counts["origin_route"] = counts.get("origin_route", 0) + 1
        try:
            o_in = [rng.randint(-300, 300) / 8 for _ in range(D)]
            go = Grid(size=gd["size"], origin=o_in, spacing=gd["spacing"], direction=[v for r in gd["direction"] for v in r],
                      align_corners=gd["align_corners"])
            o_t = torch.tensor(o_in, dtype=torch.float64)
            sco = float(o_t.abs().max()) + float((go.spacing() * torch.tensor(gd["size"])).max()) + 1
            w0 = go.index_to_world(torch.zeros(D, dtype=torch.float64), decimals=None).double()
            if not bool(torch.all((w0 - o_t).abs() <= 3e-5 * sco)) or not bool(torch.all((go.origin().double() - o_t).abs() <= 3e-5 * sco)):
                fail("C01:anchor:origin-route", "Grid(origin=o): index 0 is not at o (or origin() != o)", grid=dict(gd, origin=o_in),
                     got=w0.tolist(), origin=go.origin().tolist())
            if all(n >= 5 for n in gd["size"]):
                m = [rng.randint(0, 2) for _ in range(D)]
                sub = go.crop(*[v for k in m for v in (k, k)]) if False else go.narrow(0, m[0], gd["size"][0] - 2 * m[0])
                i_sub = torch.tensor([[rng.uniform(0, 3) for _ in range(D)] for _ in range(3)], dtype=torch.float64)
                i_base = sub.transform_points(i_sub, Axes.GRID, Axes.GRID, to_grid=go, decimals=None)
                want = i_sub.clone()
                want[:, 0] += m[0]
                if not bool(torch.all((i_base - want).abs() <= 2e-4 * (1 + sco / float(go.spacing().min())) / 10)):
                    fail("C01:two:narrowed-subgrid", "sub-grid index i is not base index i + offset (sub-grid left the base grid's world lattice)",
                         grid=dict(gd, origin=o_in), offset=m[0], got=i_base.tolist(), want=want.tolist())
        except Exception as e:  # noqa
            fail("C01:anchor:origin-route:raises", f"raises {type(e).__name__}: {str(e)[:120]}", grid=gd)
        # reported coordinates = maps applied to the integer indices; count; range; sampling identity
        counts["coords"] += 1
        try:
            for ac in (True, False):
                co = g.coords(align_corners=ac, dtype=torch.float64)
                if tuple(co.shape) != tuple(g.shape) + (D,):
                    fail("C01:coords:shape", f"coords shape {tuple(co.shape)} for grid shape {tuple(g.shape)}", grid=gd, ac=ac)
                    continue
                idx = g.coords(normalize=False, dtype=torch.float64)
                want = g.transform_points(idx, Axes.GRID, Axes.from_align_corners(ac), decimals=None)
                if not bool(torch.all((co - want).abs() <= 1e-5)):
                    fail(f"C01:coords:values:{'ac' if ac else 'nac'}", "coords() are not the grid map applied to the integer indices", grid=gd)
                if float(co.min()) < -1 - 1e-12 or float(co.max()) > 1 + 1e-12:
                    fail(f"C01:coords:range:{'ac' if ac else 'nac'}", "coords() outside [-1, 1]", grid=gd, min=float(co.min()), max=float(co.max()))
                import torch.nn.functional as F
                from deepali.core.image import grid_sample
                if g.numel() <= 20000:
                    data = torch.arange(g.numel(), dtype=torch.float64).reshape(1, 1, *g.shape)
                    data = data * 0.37 + torch.sin(data)
                    out = grid_sample(data, co.unsqueeze(0), mode="linear", padding="border", align_corners=ac)
                    counts["sample"] += 1
                    if out.shape != data.shape or not bool(torch.all((out - data).abs() <= 1e-6 * (1 + data.abs()))):
                        fail(f"C01:sample_own_coords:{'ac' if ac else 'nac'}", "sampling an image at its own coords changes it", grid=gd)
            pw = g.points(Axes.WORLD, dtype=torch.float64)
            wantw = g.transform_points(g.coords(normalize=False, dtype=torch.float64), Axes.GRID, Axes.WORLD, decimals=None)
            if not close(pw, wantw, 1e-5):
                fail("C01:points:world", "points(WORLD) are not index_to_world of the indices", grid=gd)
        except Exception as e:  # noqa
            fail("C01:coords:raises", f"raises {type(e).__name__}: {str(e)[:120]}", grid=gd)
        # Cube
        counts["cube"] += 1
        try:
            cu = g.cube()
            g3 = Grid(size=(3,) * D, spacing=(cu.extent().double() / 2).tolist(), center=cu.center().tolist(),
                      direction=cu.direction().flatten().tolist(), align_corners=True)
            x = torch.tensor([[rng.uniform(-1.5, 1.5) for _ in range(D)] for _ in range(4)], dtype=torch.float64)
            w1 = cu.cube_to_world(x)
            w2 = g3.cube_to_world(x, align_corners=True, decimals=None)
            sc = float(w2.abs().max()) + 1
            if not bool(torch.all((w1 - w2).abs() <= 2e-5 * sc)):
                fail("C01:cube:cube_to_world", "Cube.cube_to_world differs from the three-point grid", grid=gd)
            c1 = cu.world_to_cube(w2)
            if not bool(torch.all((c1 - x).abs() <= 2e-4)):
                fail("C01:cube:world_to_cube", "Cube.world_to_cube is not the inverse", grid=gd)
            wg = g.cube_to_world(x, decimals=None)
            if not bool(torch.all((w1 - wg).abs() <= 2e-5 * sc)):
                fail("C01:cube:vs_grid", "grid.cube() maps differ from the grid's own cube maps", grid=gd)
            # two cubes: every axes pair with to_cube given must go through world (a -> world -> b)
            cb = h.cube()
            for a_, b_ in itertools.product((Axes.CUBE, Axes.WORLD), repeat=2):
                xa = x if a_ is Axes.CUBE else w2
                got = cu.transform_points(xa, a_, b_, to_cube=cb)
                wmid = cu.cube_to_world(xa) if a_ is Axes.CUBE else xa
                want = cb.world_to_cube(wmid) if b_ is Axes.CUBE else wmid
                if not bool(torch.all((got - want).abs() <= 2e-4 * (float(want.abs().max()) + 1))):
                    fail(f"C01:cube:two:{a_.name}->{b_.name}", "Cube.transform_points(to_cube=other) is not this cube -> world -> other cube",
                         grid=gd, grid2=hd, x=xa.tolist(), got=got.tolist(), want=want.tolist())
                vv = torch.tensor([[rng.uniform(-1, 1) for _ in range(D)] for _ in range(2)], dtype=torch.float64)
                gv = cu.transform_vectors(vv, a_, b_, to_cube=cb)
                lin = cu.transform_points(xa[:2] + vv, a_, b_, to_cube=cb) - cu.transform_points(xa[:2], a_, b_, to_cube=cb)
                if not bool(torch.all((gv - lin).abs() <= 2e-4 * (float(lin.abs().max()) + 1))):
                    fail(f"C01:cube:two:vectors:{a_.name}->{b_.name}", "Cube.transform_vectors(to_cube=other) is not the linear part of the point map",
                         grid=gd, grid2=hd)
        except Exception as e:  # noqa
            fail("C01:cube:raises", f"raises {type(e).__name__}: {str(e)[:120]}", grid=gd)
        # convenience helpers with the align_corners keyword in every form (None = grid's flag, True, False)
        counts["helpers"] = counts.get("helpers", 0) + 1
        try:
            xh = torch.tensor([[rng.uniform(-1.5, 1.5) for _ in range(D)] for _ in range(4)], dtype=torch.float64)
            for ac in (None, True, False):
                cax = Axes.from_align_corners(g.align_corners() if ac is None else ac)
                kw = {} if ac is None else {"align_corners": ac}
                tag = "default" if ac is None else ("ac" if ac else "nac")
                w_ref = g.transform_points(xh, cax, Axes.WORLD, decimals=None)
                i_ref = g.transform_points(xh, cax, Axes.GRID, decimals=None)
                scw = float(w_ref.abs().max()) + 1
                sci = float(i_ref.abs().max()) + 1
                for nm, got, want, s_ in (
                    ("cube_to_world", g.cube_to_world(xh, decimals=None, **kw), w_ref, scw),
                    ("cube_to_index", g.cube_to_index(xh, decimals=None, **kw), i_ref, sci),
                    ("world_to_cube", g.world_to_cube(w_ref, decimals=None, **kw), xh, 2.5),
                    ("index_to_cube", g.index_to_cube(i_ref, decimals=None, **kw), xh, 2.5),
                ):
                    if not bool(torch.all((got.double() - want.double()).abs() <= 1e-4 * s_)):
                        fail(f"C01:helper:{nm}:{tag}:grid-flag-{g.align_corners()}",
                             f"Grid.{nm}(align_corners={ac}) differs from transform_points with axes {cax.name}", grid=gd,
                             x=xh.tolist(), got=got.tolist(), want=want.tolist())
            wi = g.transform_points(xh * 7, Axes.GRID, Axes.WORLD, decimals=None)
            if not close(g.index_to_world(xh * 7, decimals=None), wi, 1e-9) or \
                    not bool(torch.all((g.world_to_index(wi, decimals=None).double() - xh * 7).abs() <= 1e-3)):
                fail("C01:helper:index_world", "index_to_world / world_to_index differ from transform_points or are not inverse", grid=gd)
        except Exception as e:  # noqa
            fail("C01:helper:raises", f"raises {type(e).__name__}: {str(e)[:120]}", grid=gd)
        # functional API
        try:
            x = rand_points(rng, g, Axes.CUBE, (3,), torch.float64)
            y1 = GM.grid_transform_points(x, g, Axes.CUBE, h, Axes.CUBE_CORNERS, decimals=None)
            y2 = g.transform_points(x, Axes.CUBE, Axes.CUBE_CORNERS, to_grid=h, decimals=None)
            v1 = GM.grid_transform_vectors(x, g, Axes.CUBE, h, Axes.WORLD)
            v2 = g.transform_vectors(x, Axes.CUBE, Axes.WORLD, to_grid=h)
            if not close(y1, y2, 1e-9) or not close(v1, v2, 1e-9):
                fail("C01:functional", "grid_transform_points/vectors differ from the methods", grid=gd)
        except Exception as e:  # noqa
            fail("C01:functional:raises", f"raises {type(e).__name__}: {str(e)[:120]}", grid=gd)
    return {"fails": fails, "counts": counts}


def lattice_sweep(p):
    """exact count, range and values of the per-axis lattice for a range of n (both flags, both dtypes)"""
    fails = []
    checked = 0
    for n in p["ns"]:
        for ac in (True, False):
            for dt in (torch.float32, torch.float64):
                checked += 1
                try:
                    g = Grid(size=(n, 2), align_corners=not ac)
                    co = g.coords(dim=0, align_corners=ac, dtype=dt)
                    if co.ndim == 2 and co.shape[1] == 1:
                        co = co[:, 0]
                    if co.ndim != 1 or co.shape[0] != n:
                        fails.append({"key": f"C01:lattice:count:{'ac' if ac else 'nac'}", "what": f"{co.shape[0]} coordinates for n={n} ({dt})", "n": n})
                        continue
                    if n == 1:
                        ok = float(co[0]) == 0.0
                    else:
                        i = torch.arange(n, dtype=torch.float64)
                        want = 2 * i / (n - 1) - 1 if ac else (2 * i + 1) / n - 1
                        ok = bool(torch.all((co.double() - want).abs() <= (2e-6 if dt == torch.float32 else 1e-12)))
                    if not ok:
                        fails.append({"key": f"C01:lattice:values:{'ac' if ac else 'nac'}", "what": f"coordinates differ from the grid map for n={n} ({dt})", "n": n})
                    if float(co.min()) < -1 or float(co.max()) > 1:
                        excess = max(float(co.max()) - 1, -1 - float(co.min()))
                        eps = 2.3e-16 if dt == torch.float64 else 1.2e-7
                        tag = ":1ulp" if excess <= eps else ""
                        fails.append({"key": f"C01:lattice:range:{'ac' if ac else 'nac'}:{str(dt).split('.')[-1]}{tag}",
                                      "what": f"coordinate outside [-1,1] for n={n} ({dt}): [{float(co.min())!r}, {float(co.max())!r}]", "n": n})
                except Exception as e:  # noqa
                    fails.append({"key": "C01:lattice:raises", "what": f"n={n}: {type(e).__name__}: {str(e)[:100]}", "n": n})
    return {"fails": fails, "checked": checked}


if __name__ == "__main__":
    payload = json.load(sys.stdin)
    fn_ = {"model_cases": model_cases, "oracle": oracle, "lattice_cases": lattice_cases,
           "lattice_sweep": lattice_sweep, "round_cases": round_cases}[payload["fn"]]
    emit_json(fn_(payload))
