(* C19 -- ImageBatch.__getitem__ / FlowFields.__getitem__, __iter__, copies: the grid selection follows
   the data selection for every int / slice / index-list form, any batch size. *)
From Coq Require Import List ZArith Bool Arith Lia.
From DV Require Import Model.Enums Model.Batch Model.BatchSpec Proofs.C19Base Proofs.C19Generic Proofs.C19Aligned.
Import ListNotations.
Local Arguments ndim : simpl never.

Lemma slice_sel_lt n a b c l : slice_sel n a b c = Some l -> Forall (fun e => e < n) l.
Proof.
  unfold slice_sel. match goal with |- context [if ?c then _ else _] => destruct c end; [discriminate|].
  intros H; injection H as <-. apply Forall_forall. intros e He. apply filter_In in He. destruct He as [He _].
  apply in_seq in He. lia.
Qed.

Lemma norm_dims_lt n zs l : norm_dims n zs = Some l -> Forall (fun e => e < n) l.
Proof.
  revert l. induction zs as [|z zs IH]; intros l; cbn [norm_dims].
  - intros H; injection H as <-. constructor.
  - destruct (norm_dim n z) as [d|] eqn:Ed; [|discriminate]. destruct (norm_dims n zs) as [ds|]; [|discriminate].
    intros H; injection H as <-. constructor; [eapply norm_dim_lt; eauto | apply IH; reflexivity].
Qed.


Lemma true_pos_bounds l : forall a, Forall (fun e => a <= e < a + length l) (true_pos a l).
Proof.
  induction l as [|b l IH]; intros a; cbn [true_pos length]; [constructor|].
  assert (H : Forall (fun e => a <= e < a + S (length l)) (true_pos (S a) l)).
  { eapply Forall_impl; [|apply IH]. cbn. intros e He. lia. }
  destruct b; [constructor; [lia|exact H]|exact H].
Qed.

(* data selection and grid selection along the batch dimension agree, for every index form *)
Lemma first_grid_rel gs n i0 sel :
  length gs = n -> index_first n i0 = Some sel ->
  match sel with
  | SInt e => grid_index gs i0 = GSOne (nth e gs 0) /\ e < n
  | SList l => grid_index gs i0 = GSMany (map (fun e => nth e gs 0) l) /\ Forall (fun e => e < n) l
  end.
Proof.
  intros HL Hi. destruct i0 as [z|a b c|l|l|]; cbn [index_first grid_index] in *; rewrite ?HL.
  - unfold norm_idx in *. destruct (norm_dim n z) as [e|] eqn:E; [|discriminate]. injection Hi as <-.
    split; [reflexivity | eapply norm_dim_lt; eauto].
  - destruct (slice_sel n a b c) as [l|] eqn:E; [|discriminate]. injection Hi as <-.
    split; [reflexivity | eapply slice_sel_lt; eauto].
  - unfold norm_idxs in *. destruct (norm_dims n l) as [l'|] eqn:E; [|discriminate]. injection Hi as <-.
    split; [reflexivity | eapply norm_dims_lt; eauto].
  - destruct (length l =? n) eqn:E; [|discriminate]. apply Nat.eqb_eq in E. injection Hi as <-.
    split; [reflexivity|]. eapply Forall_impl; [|apply (true_pos_bounds l 0)]. cbn. intros e He. lia.
  - discriminate.
Qed.

Section GetItem.
Variable gshape : gid -> shape.
Variable gaxes : gid -> axes.

Lemma make_instance_ok fl sh gl k :
  make_instance gshape fl sh gl = KOk k ->
  exists fl', k = TBatch fl' gl /\ 4 <= ndim sh /\ Forall (fun g => gshape g = skipn 2 sh) gl
              /\ (forall ax, fl' = Some ax -> fl = Some ax).
Proof.
  unfold make_instance. destruct fl as [ax|].
  - destruct (nth 1 sh 0 =? ndim sh - 2); intros H; apply mk_batch_ok in H; destruct H as (-> & H4 & HF & _).
    + exists (Some ax). auto.
    + exists None. repeat split; auto. discriminate.
  - intros H; apply mk_batch_ok in H; destruct H as (-> & H4 & HF & _). exists None. repeat split; auto.
Qed.

Lemma make_subitem_ok fl sh g k :
  make_subitem gshape fl sh g = KOk k ->
  exists fl', k = TSingle fl' g /\ 3 <= ndim sh /\ gshape g = skipn 1 sh /\ (forall ax, fl' = Some ax -> fl = Some ax).
Proof.
  unfold make_subitem. destruct fl as [ax|].
  - destruct (nth 0 sh 0 =? ndim sh - 1); intros H; apply mk_single_ok in H; destruct H as (-> & H3 & HG).
    + exists (Some ax). auto.
    + exists None. repeat split; auto. discriminate.
  - intros H; apply mk_single_ok in H; destruct H as (-> & H3 & HG). exists None. repeat split; auto.
Qed.

Theorem getitem_finish_sound fl sh gs multi ix :
  wf_val gshape (mkT sh (TBatch fl gs)) ->
  res_sound gshape [mkT sh (TBatch fl gs)] (getitem_finish gshape fl sh gs multi ix).
Proof.
  intros Hwf. unfold getitem_finish.
  destruct (index_data sh ix) as [e|d|ds] eqn:ED; try exact I.
  destruct ix as [|i0 rest]; [exact I|].
  match goal with |- context [if ?c then _ else _] => destruct c end; [exact I|].
  unfold wf_val in Hwf; cbn [t_kind t_shape] in Hwf. destruct Hwf as (HL & H4 & HF).
  (* what the data selection did *)
  cbn [index_data] in ED. destruct sh as [|n s']; [discriminate ED|]. cbn [nent] in HL.
  destruct (index_first n i0) as [sel|] eqn:EI; [|discriminate ED].
  destruct (index_rest s' rest) as [t|] eqn:ERest; [|destruct sel; discriminate ED].
  pose proof (first_grid_rel gs n i0 sel HL EI) as Hrel.
  destruct sel as [e|l]; destruct Hrel as (-> & Hlt); injection ED as <-;
    match goal with |- context [if ?c then _ else _] => destruct c end; try exact I;
    match goal with |- context [if ?c then _ else _] => destruct c end; try exact I;
    cbn [d_shape d_src]; unfold one_kind.
  - (* one image *)
    destruct (make_subitem gshape fl t (nth e gs 0)) as [er|k] eqn:EK; [exact I|].
    apply make_subitem_ok in EK. destruct EK as (fl' & -> & H3 & HG & Hax).
    unfold res_sound, out_sound; cbn [v_kind v_shape v_src val_of].
    split; [unfold wf_val; cbn; auto|]. split.
    + intros Hpos. exists 0, (0, e). split.
      * cbn in Hpos. unfold const_src. destruct (nent t); [lia|]. cbn. auto.
      * unfold entry_grid; cbn. apply nth_error_nth'. lia.
    + intros ax Hfl Hpos. exists 0, (0, e). split.
      * cbn in Hpos. unfold const_src. destruct (nent t); [lia|]. cbn. auto.
      * unfold arg_axes; cbn. auto.
  - (* a batch *)
    destruct (make_instance gshape fl (length l :: t) (map (fun e => nth e gs 0) l)) as [er|k] eqn:EK; [exact I|].
    apply make_instance_ok in EK. destruct EK as (fl' & -> & H4' & HF' & Hax).
    unfold res_sound, out_sound; cbn [v_kind v_shape v_src val_of].
    split; [unfold wf_val, val_of; cbn [t_kind t_shape nent v_shape v_kind]; rewrite map_length; auto|].
    intros i Hi. rewrite map_length in Hi.
    assert (Hnth : nth i (map (fun e => [(0, e)]) l) [] = [(0, nth i l 0)]).
    { exact (nth_map' (fun e => [(0, e)]) l i [] 0 Hi). }
    simpl d_src. unfold src in *. rewrite Hnth. split; [apply coherent_single|]. split.
    + exists (0, nth i l 0). split; [left; reflexivity|]. unfold entry_grid; cbn.
      rewrite nth_map' with (d0 := 0) by exact Hi.
      apply nth_error_nth'. rewrite Forall_forall in Hlt. rewrite HL. apply Hlt. now apply nth_In.
    + intros ax Hfl. exists (0, nth i l 0). split; [left; reflexivity|]. unfold arg_axes; cbn. auto.
Qed.

(* every non-tuple form: int, slice, index list / tensor / array, boolean mask, bare Ellipsis *)
Theorem getitem_one_sound fl sh gs i :
  wf_val gshape (mkT sh (TBatch fl gs)) ->
  res_sound gshape [mkT sh (TBatch fl gs)] (run_op gshape gaxes (OGetItem (GOne i)) [mkT sh (TBatch fl gs)]).
Proof.
  intros Hwf. unfold run_op; cbn [nth t_kind t_shape getitem_batch].
  destruct i; try (apply getitem_finish_sound; exact Hwf).
  (* batch[...] *)
  unfold one_kind. destruct (make_instance gshape fl sh gs) as [er|k] eqn:EK; [exact I|].
  apply make_instance_ok in EK. destruct EK as (fl' & -> & H4' & HF' & Hax).
  unfold wf_val in Hwf; cbn [t_kind t_shape] in Hwf. destruct Hwf as (HL & H4 & HF).
  unfold res_sound, out_sound; cbn [v_kind v_shape v_src val_of d_shape d_src].
  split; [unfold wf_val, val_of; cbn [t_kind t_shape v_shape v_kind]; repeat split; auto|].
  intros j Hj. rewrite nth_ident_src by lia. split; [apply coherent_single|]. split.
  - exists (0, j). split; [left; reflexivity|]. unfold entry_grid; cbn. now apply nth_error_nth'.
  - intros ax Hfl. exists (0, j). split; [left; reflexivity|]. unfold arg_axes; cbn. auto.
Qed.

(* every tuple form, whatever the resolution of ellipses yields *)
Theorem getitem_tuple_sound fl sh gs l :
  wf_val gshape (mkT sh (TBatch fl gs)) ->
  res_sound gshape [mkT sh (TBatch fl gs)] (run_op gshape gaxes (OGetItem (GTup l)) [mkT sh (TBatch fl gs)]).
Proof.
  intros Hwf. unfold run_op; cbn [nth t_kind t_shape getitem_batch].
  destruct (resolve_ell (ndim sh) l) as [ix|] eqn:E; [|exact I].
  apply getitem_finish_sound; auto.
Qed.

(* iteration yields image i with grid i *)
Theorem iter_pick_sound fl sh gs k :
  wf_val gshape (mkT sh (TBatch fl gs)) ->
  res_sound gshape [mkT sh (TBatch fl gs)] (run_op gshape gaxes (OIterPick k) [mkT sh (TBatch fl gs)]).
Proof.
  intros Hwf. unfold run_op; cbn [nth t_kind t_shape data_sem nth_shape].
  unfold wf_val in Hwf; cbn [t_kind t_shape] in Hwf. destruct Hwf as (HL & H4 & HF).
  destruct (k <? nent sh) eqn:Ek; [|exact I]. apply Nat.ltb_lt in Ek.
  destruct (length gs <? nent sh); [exact I|].
  unfold one_kind; cbn [d_shape d_src].
  destruct (make_subitem gshape fl (tl sh) (nth k gs 0)) as [er|kk] eqn:EK; [exact I|].
  apply make_subitem_ok in EK. destruct EK as (fl' & -> & H3 & HG & Hax).
  unfold res_sound, out_sound; cbn [v_kind v_shape v_src val_of].
  split; [unfold wf_val; cbn; auto|]. split.
  - intros Hpos. exists 0, (0, k). split.
    + cbn in Hpos. unfold const_src. destruct (nent (tl sh)); [lia|]. cbn. auto.
    + unfold entry_grid; cbn. apply nth_error_nth'. lia.
  - intros ax Hfl Hpos. exists 0, (0, k). split.
    + cbn in Hpos. unfold const_src. destruct (nent (tl sh)); [lia|]. cbn. auto.
    + unfold arg_axes; cbn. auto.
Qed.

Lemma nth_firstn_lt {A} (l : list A) n i d : i < n -> nth i (firstn n l) d = nth i l d.
Proof. revert n i. induction l as [|x l IH]; intros [|n] [|i] H; cbn; auto; try lia. apply IH. lia. Qed.
Lemma nth_skipn_add {A} (l : list A) n i d : nth i (skipn n l) d = nth (n + i) l d.
Proof. revert l. induction n as [|n IH]; intros [|x l]; cbn; auto. destruct i; reflexivity. Qed.

(* ImageBatch.narrow(dim, start, length) along the batch dimension (dim = 0 or dim = -ndim), start counted from the front or
   (negative) from the end: the grids are narrowed like the data *)
Theorem narrow_method_batch_sound fl sh gs z stz len :
  wf_val gshape (mkT sh (TBatch fl gs)) ->
  (z = 0 \/ z = - Z.of_nat (ndim sh))%Z ->
  res_sound gshape [mkT sh (TBatch fl gs)] (run_op gshape gaxes (ONarrowM z stz len) [mkT sh (TBatch fl gs)]).
Proof.
  intros Hwf Hz. unfold run_op; cbn [nth t_kind t_shape].
  unfold wf_val in Hwf; cbn [t_kind t_shape] in Hwf. destruct Hwf as (HL & H4 & HF).
  destruct sh as [|n s']; [unfold ndim in H4; cbn in H4; lia|]. cbn [nent] in HL.
  assert (Hn : norm_dim (ndim (n :: s')) z = Some 0).
  { unfold norm_dim, ndim in *. cbn [length] in *. destruct Hz as [-> | ->].
    - destruct ((0 <=? 0)%Z && (0 <? Z.of_nat (S (length s')))%Z) eqn:E; [reflexivity|].
      apply andb_false_iff in E. destruct E as [E|E]; [discriminate|]. apply Z.ltb_ge in E. lia.
    - destruct ((0 <=? - Z.of_nat (S (length s')))%Z && (- Z.of_nat (S (length s')) <? Z.of_nat (S (length s')))%Z) eqn:E.
      + apply andb_true_iff in E. destruct E as [E _]. apply Z.leb_le in E. lia.
      + destruct ((- Z.of_nat (S (length s')) <=? - Z.of_nat (S (length s')))%Z && (- Z.of_nat (S (length s')) <? 0)%Z) eqn:E2.
        * f_equal. lia.
        * apply andb_false_iff in E2. destruct E2 as [E2|E2]; [apply Z.leb_gt in E2|apply Z.ltb_ge in E2]; lia. }
  assert (Hz' : ((if (z <? 0)%Z then (z + Z.of_nat (ndim (n :: s')))%Z else z) =? 0)%Z = true).
  { destruct Hz as [-> | ->]; [reflexivity|]. unfold ndim; cbn [length].
    destruct (- Z.of_nat (S (length s')) <? 0)%Z eqn:E; [apply Z.eqb_eq; lia|apply Z.ltb_ge in E; lia]. }
  cbn [data_sem nth_shape nth]. rewrite Hn. cbn [nth Nat.eqb].
  destruct (norm_start n stz) as [st|] eqn:Est; [|exact I].
  destruct (st + len <=? n) eqn:El; [|exact I]. apply Nat.leb_le in El.
  cbv zeta. rewrite Hz'.
  unfold one_kind. cbn [d_shape d_src set_nth firstn skipn app].
  destruct (make_instance gshape fl (len :: s') (py_slice gs st (st + len))) as [er|k] eqn:EK; [exact I|].
  apply make_instance_ok in EK. destruct EK as (fl' & -> & H4' & HF' & Hax).
  assert (Hlen : length (py_slice gs st (st + len)) = len).
  { unfold py_slice. rewrite firstn_length, skipn_length. lia. }
  unfold res_sound, out_sound; cbn [v_kind v_shape v_src val_of].
  split; [unfold wf_val, val_of; cbn [t_kind t_shape nent v_shape v_kind]; repeat split; auto|].
  intros i Hi. rewrite Hlen in Hi. rewrite nth_map_seq by exact Hi. cbn [Nat.add].
  split; [apply coherent_single|]. split.
  - exists (0, st + i). split; [left; reflexivity|]. unfold entry_grid; cbn.
    unfold py_slice. rewrite nth_firstn_lt by lia. rewrite nth_skipn_add. apply nth_error_nth'. lia.
  - intros ax Hfl. exists (0, st + i). split; [left; reflexivity|]. unfold arg_axes; cbn. auto.
Qed.

(* deep copies and pickling preserve type, grids and axes for every class; copy.copy for image classes *)
Theorem copy_preserves c v :
  run_op gshape gaxes (OCopy c) [v] = OOne (mkO (t_shape v) (t_kind v) (ident_src 0 (nent (t_shape v)))).
Proof.
  unfold run_op; cbn [nth]. destruct v as [sh k]; cbn [t_kind t_shape] in *.
  destruct k as [|fl gs|fl g]; reflexivity.
Qed.
End GetItem.
