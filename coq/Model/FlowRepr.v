(* Model of the vector representations of flow fields (data/flow.py FlowFields / FlowField), definitions only.
   A grid is given by component functions (as in Model/Grid.v / Props/C01.v); a batch item is a grid together with its
   displacement vectors (one per lattice point, any order: representation changes act point by point).
     FlowFields.axes(B)        = per item i, per point: Grid_i.transform_vectors(axes -> B)   (generated: Gen/GridT.v gen_vecs)
     FlowFields.sample(grids)  = resample the data, then per item: transform_vectors(axes @ old grid -> axes @ new grid) (gen_vecs2)
     FlowFields.exp / warp_image: convert to the cube representation matching align_corners := (axes is CUBE_CORNERS),
                                  operate (Model/Flow.v), convert back. *)
From Coq Require Import ZArith List Bool.
From DV Require Import Base.Field Base.LinAlg Model.Enums Model.Homog Model.Grid Model.Sampler Model.Flow Gen.GridT.
Import ListNotations.
Local Open Scope fld_scope.

Section Repr.
Context {K : fld}.
Definition gridf := ((nat -> K) * (nat -> K) * (nat -> K) * (nat -> nat -> K))%type.
Definition gwf (D : nat) (g : gridf) : Prop := let '(n, s, c, d) := g in wf D n s d.
Definition gpts (D : nat) (A B : axes) (g : gridf) (x : list K) : list K :=
  let '(n, s, c, d) := g in gen_pts D A B (vtab D n) (vtab D s) (vtab D c) (tab D D d) x.
Definition gvecs (D : nat) (A B : axes) (g : gridf) (v : list K) : list K :=
  let '(n, s, c, d) := g in gen_vecs D A B (vtab D n) (vtab D s) (vtab D c) (tab D D d) v.
Definition gpts2 (D : nat) (A B : axes) (g g' : gridf) (x : list K) : list K :=
  let '(n, s, c, d) := g in let '(n', s', c', d') := g' in
  gen_pts2 D A B (vtab D n) (vtab D s) (vtab D c) (tab D D d) (vtab D n') (vtab D s') (vtab D c') (tab D D d') x.
Definition gvecs2 (D : nat) (A B : axes) (g g' : gridf) (v : list K) : list K :=
  let '(n, s, c, d) := g in let '(n', s', c', d') := g' in
  gen_vecs2 D A B (vtab D n) (vtab D s) (vtab D c) (tab D D d) (vtab D n') (vtab D s') (vtab D c') (tab D D d') v.

Definition item := (gridf * list (list K))%type.
Definition wf_item (D : nat) (it : item) : Prop := gwf D (fst it) /\ Forall (fun v => length v = D) (snd it).
(* FlowFields.axes *)
Definition axes_item (D : nat) (A B : axes) (it : item) : item := (fst it, map (gvecs D A B (fst it)) (snd it)).
Definition axes_batch (D : nat) (A B : axes) (items : list item) : list item := map (axes_item D A B) items.
(* vector part of FlowFields.sample: item on grid g (vectors already resampled at the points of g') -> item on g' *)
Definition regrid_item (D : nat) (A : axes) (g' : gridf) (it : item) : item :=
  (g', map (gvecs2 D A A (fst it) g') (snd it)).

(* which cube convention exp / warp_image work in *)
Definition axes_ac (A : axes) : bool := match A with CUBE_CORNERS => true | _ => false end.
Definition cube_of (ac : bool) : axes := if ac then CUBE_CORNERS else CUBE.

(* 2-D fields <-> vectors at lattice points *)
Definition field_map2 (f : list K -> list K) (u : list (list (list K))) : list (list (list K)) :=
  let u0 := nth 0 u [] in let u1 := nth 1 u [] in
  let nx := zlen (hd [] u0) in let ny := zlen u0 in
  map (fun c => tab2 nx ny (fun x y => nth c (f [get2 u0 x y; get2 u1 x y]) 0)) (seq 0 2).
Definition field_map3 (f : list K -> list K) (u : list (list (list (list K)))) : list (list (list (list K))) :=
  let u0 := nth 0 u [] in let u1 := nth 1 u [] in let u2 := nth 2 u [] in
  let nx := zlen (hd [] (hd [] u0)) in let ny := zlen (hd [] u0) in let nz := zlen u0 in
  map (fun c => tab3 nx ny nz (fun x y z => nth c (f [get3 u0 x y z; get3 u1 x y z; get3 u2 x y z]) 0)) (seq 0 3).

Variable floorK : K -> Z.
(* FlowFields.exp as SPECIFIED (convert to cube axes, exponentiate, convert back), as the code computes it
   (flow = self.axes(cube); data = flow.tensor(); data = expv(data); instance with flow's axes; .axes(original)), and the
   variant that exponentiates the UNCONVERTED tensor (the defect repaired in /repo 245f8d5, kept to show it is told apart) *)
Definition exp_spec2 (A : axes) (g : gridf) (scale : K) (k : nat) (u : list (list (list K))) :=
  let ac := axes_ac A in
  field_map2 (gvecs 2 (cube_of ac) A g) (expv2 floorK ac scale false k (field_map2 (gvecs 2 A (cube_of ac) g) u)).
Definition exp_code2 (A : axes) (g : gridf) (scale : K) (k : nat) (u : list (list (list K))) :=
  let align_corners := axes_ac A in
  let flow := field_map2 (gvecs 2 A (if align_corners then CUBE_CORNERS else CUBE) g) u in
  let data := expv2 floorK align_corners scale false k flow in
  field_map2 (gvecs 2 (if align_corners then CUBE_CORNERS else CUBE) A g) data.
Definition exp_unconverted2 (A : axes) (g : gridf) (scale : K) (k : nat) (u : list (list (list K))) :=
  let ac := axes_ac A in
  field_map2 (gvecs 2 (cube_of ac) A g) (expv2 floorK ac scale false k u).
Definition exp_spec3 (A : axes) (g : gridf) (scale : K) (k : nat) (u : list (list (list (list K)))) :=
  let ac := axes_ac A in
  field_map3 (gvecs 3 (cube_of ac) A g) (expv3 floorK ac scale false k (field_map3 (gvecs 3 A (cube_of ac) g) u)).
Definition exp_code3 (A : axes) (g : gridf) (scale : K) (k : nat) (u : list (list (list (list K)))) :=
  let align_corners := axes_ac A in
  let flow := field_map3 (gvecs 3 A (if align_corners then CUBE_CORNERS else CUBE) g) u in
  let data := expv3 floorK align_corners scale false k flow in
  field_map3 (gvecs 3 (if align_corners then CUBE_CORNERS else CUBE) A g) data.
Definition exp_unconverted3 (A : axes) (g : gridf) (scale : K) (k : nat) (u : list (list (list (list K)))) :=
  let ac := axes_ac A in
  field_map3 (gvecs 3 (cube_of ac) A g) (expv3 floorK ac scale false k u).

(* FlowFields.warp_image: sample the image (same lattice as the flow) at own coordinates + flow in the cube convention *)
Definition warp2 (pad : padmode) (A : axes) (g : gridf) (img : list (list K)) (u : list (list (list K))) : list (list K) :=
  let ac := axes_ac A in
  let w := field_map2 (gvecs 2 A (cube_of ac) g) u in
  let w0 := nth 0 w [] in let w1 := nth 1 w [] in
  let nx := zlen (hd [] w0) in let ny := zlen w0 in
  tab2 nx ny (fun x y => grid_sample2 floorK pad ac img (ncoord ac nx x + get2 w0 x y) (ncoord ac ny y + get2 w1 x y)).

Definition warp3 (pad : padmode) (A : axes) (g : gridf) (img : list (list (list K))) (u : list (list (list (list K)))) : list (list (list K)) :=
  let ac := axes_ac A in
  let w := field_map3 (gvecs 3 A (cube_of ac) g) u in
  let w0 := nth 0 w [] in let w1 := nth 1 w [] in let w2 := nth 2 w [] in
  let nx := zlen (hd [] (hd [] w0)) in let ny := zlen (hd [] w0) in let nz := zlen w0 in
  tab3 nx ny nz (fun x y z => grid_sample3 floorK pad ac img (ncoord ac nx x + get3 w0 x y z) (ncoord ac ny y + get3 w1 x y z)
                                           (ncoord ac nz z + get3 w2 x y z)).

(* FlowFields.sample(grid') of one item: ImageBatch.sample resamples every channel at the points of g' -- their cube
   coordinates (convention ac = the batch's align_corners) mapped into the cube of g by Grid.transform_points between the
   two grids -- then the vectors are re-expressed with respect to g' (skipped by the code for WORLD axes) *)
Definition sample_item2 (pad : padmode) (ac : bool) (A : axes) (g g' : gridf) (nx' ny' : Z) (u : list (list (list K))) :=
  let pos := fun x y => gpts2 2 (cube_of ac) (cube_of ac) g' g [ncoord ac nx' x; ncoord ac ny' y] in
  let data := map (fun c => tab2 nx' ny' (fun x y => grid_sample2 floorK pad ac (nth c u []) (nth 0 (pos x y) 0) (nth 1 (pos x y) 0))) (seq 0 2) in
  match A with WORLD => data | _ => field_map2 (gvecs2 2 A A g g') data end.
Definition sample_item3 (pad : padmode) (ac : bool) (A : axes) (g g' : gridf) (nx' ny' nz' : Z) (u : list (list (list (list K)))) :=
  let pos := fun x y z => gpts2 3 (cube_of ac) (cube_of ac) g' g [ncoord ac nx' x; ncoord ac ny' y; ncoord ac nz' z] in
  let data := map (fun c => tab3 nx' ny' nz' (fun x y z =>
                 grid_sample3 floorK pad ac (nth c u []) (nth 0 (pos x y z) 0) (nth 1 (pos x y z) 0) (nth 2 (pos x y z) 0))) (seq 0 3) in
  match A with WORLD => data | _ => field_map3 (gvecs2 3 A A g g') data end.

(* index-space versions (no normalisation at all): displacement in samples *)
Definition compose2i (pad : padmode) (u v : list (list (list K))) : list (list (list K)) :=
  let u0 := nth 0 u [] in let u1 := nth 1 u [] in
  let nx := zlen (hd [] u0) in let ny := zlen u0 in
  map (fun c => tab2 nx ny (fun x y =>
         get2 (nth c u []) x y + sample2 floorK pad (nth c v []) (of_Z x + get2 u0 x y) (of_Z y + get2 u1 x y))) (seq 0 2).
(* cube vectors of convention ac from index vectors, per channel: multiply by 2/(n-1) resp. 2/n *)
Definition nscale (ac : bool) (n : Z) : K := if ac then (1 + 1) / (of_Z n - 1) else (1 + 1) / of_Z n.
Definition to_cube2 (ac : bool) (nx ny : Z) (f0 f1 : Z -> Z -> K) : list (list (list K)) :=
  [tab2 nx ny (fun x y => nscale ac nx * f0 x y); tab2 nx ny (fun x y => nscale ac ny * f1 x y)].
End Repr.
